"""C19 — match expressions and balloon-type selection follow their documented semantics."""
import os, re
from vlib import core

LEVEL = "proof"


def run(res):
    core.regenerate(res)
    names = core.lean_prove(res, "C19", res.tier == "thorough")
    drv = core.build_driver(res)
    res.rule = ("seeded (expression, subject) pairs on real cache containers/pods: keys from the documented grammar incl. nested pod/labels/tags, "
                "joint keys with valid and invalid separators, short form, uncleaned paths, unknown keys; all 11 operators + an unknown one; value lists "
                "with globs and malformed patterns; containers with and without their pod. Validate, ResolveRef of every sub key, KeyValue and "
                "Evaluate compared with the Lean model (filepath.Match and path.Clean results shipped as tables). Affinity weights through parseFull. "
                "Balloon-type selection on the real chooseBalloonDef with generated type lists. non-trivial = validated expressions on joint or nested keys")
    res.assumptions += ["keys are ASCII; filepath.Match and path.Clean are external parameters (their Go results are shipped with each case)"]
    if not drv:
        return
    known = core.load_known()
    runs = [("./pkg/resmgr/cache/", "TestVerifC19Expr", "expr")]
    if os.path.exists(os.path.join(core.VERIF, "overlay/cmd/plugins/balloons/policy/zz_verif_c19_test.go")):
        runs.append(("./cmd/plugins/balloons/policy/", "TestVerifC19Choose", "choose"))
    for pkg, test, tag in runs:
        out = os.path.join(core.WORK, f"c19_{tag}.txt")
        rc, log = core.go_test(res, pkg, test, out)
        if rc != 0 or not os.path.exists(out):
            res.broken.append((f"harness {pkg}", log[-3000:]))
            continue
        summ, diffs = core.run_driver(res, drv, "c19", out)
        res.evaluations += summ.get("cases", 0) + summ.get("weights", 0)
        res.traces += summ.get("cases", 0)
        res.nontrivial += summ.get("nontrivial", 0)
        kn = [d for d in diffs if "C19:validated-key-unresolvable-for-subject" in d]
        rest = [d for d in diffs if "C19:validated-key-unresolvable-for-subject" not in d]
        kf = [k for k in known["findings"] if k["property"] == "C19" and k.get("class") == "C19:validated-key-unresolvable-for-subject"]
        if kn and kf:
            res.known.append(f"C19:validated-key-unresolvable-for-subject — {kf[0]['summary']} ({len(kn)} instance(s) in this run)")
        elif kn:
            rest += kn
        core.classify_diffs(res, rest, f"c19/{tag}")
        with open(out) as f:
            for i, l in enumerate(f):
                if i in (3, 1500):
                    res.samples.append(l.strip()[:400])
        os.remove(out)
    res.samples += [f"theorem {n}" for n in names]


def replay(res, path):
    import json
    print(json.dumps(json.load(open(path)), indent=1))
    return 0
