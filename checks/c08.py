"""C08 — CPU allocator contract: exact count, subset, set bookkeeping, determinism."""
import os
from vlib import core

LEVEL = "proof"


def run(res):
    core.regenerate(res)
    names = core.lean_prove(res, "C08", res.tier == "thorough")
    drv = core.build_driver(res)
    res.rule = ("generated machines (packages x dies x NUMA nodes x cores x threads, clusters, L2/L3 groups, hybrid P/E cores, offline/isolated CPUs) "
                "rendered as sysfs and discovered by the real pkg/sysfs; on machines with <= 8 online CPUs ALL candidate subsets x all counts 0..|set|+1 "
                "with random priority/flag sets (exhaustive over sets and counts), sampled subsets on larger ones. Each real stage (packages, clusters, "
                "cache groups, cores, threads) is run on its own and checked against the stage contract; packages/cores/threads also against the "
                "relational model; AllocateCpus/ReleaseCpus end to end against the API contract, on two independent discoveries (determinism). "
                "non-trivial = stage executions that took CPUs")
    res.assumptions += ["candidate sets contain online CPUs only (the property's quantifier)",
                        "takeIdleClusters/takeCacheGroups are abstract in the model: only the stage contract is required of them (checked on every real execution)",
                        "Go's sort on a fixed input with a deterministic comparator is deterministic"]
    if not drv:
        return
    out = os.path.join(core.WORK, "c08.txt")
    rc, log = core.go_test(res, "./pkg/cpuallocator/", "TestVerifC08", out, timeout=5000)
    if rc != 0 or not os.path.exists(out):
        res.broken.append(("harness pkg/cpuallocator", log[-3000:]))
        return
    summ, diffs = core.run_driver(res, drv, "c08", out)
    res.evaluations = summ.get("stages", 0) + summ.get("api", 0)
    res.traces = summ.get("api", 0)
    res.nontrivial = summ.get("nontrivial", 0)
    res.extra["machines"] = summ.get("machines", 0)
    res.extra["machines_enumerated_exhaustively"] = summ.get("exhaustive", 0)
    res.exhaustive = summ.get("exhaustive", 0) > 0
    core.classify_diffs(res, diffs, "c08")
    # make replays self-contained: add the machine (allocator's view of the topology) the failing call ran on
    import re
    if res.violations:
        lines = open(out).read().splitlines()
        for what, rep in res.violations:
            m = re.search(r"line=(\d+)", rep.get("driver_line", ""))
            if m:
                k = int(m.group(1)) - 1
                while k >= 0 and not lines[k].startswith("M "):
                    k -= 1
                if k >= 0:
                    rep["machine"] = lines[k][:2000]
                    rep["format"] = "M <idx> <package cpusets> <core cpusets> <priority classes high,normal,low> <offline> <#core kinds> <#cache groups>; A/R <set> <n> <prefer> <flags> => <result> <set afterwards>"
    with open(out) as f:
        for i, l in enumerate(f):
            if i in (0, 5, 200):
                res.samples.append(l.strip()[:300])
    os.remove(out)
    res.samples += [f"theorem {n}" for n in names]


def replay(res, path):
    import json
    print(json.dumps(json.load(open(path)), indent=1))
    return 0
