"""C02 — balloons partition CPUs and confine their containers."""
from vlib import core, barun

LEVEL = "proof"


def run(res):
    core.regenerate(res)
    names = core.lean_prove(res, "C02", res.tier == "thorough")
    res.rule = barun.RULE
    res.assumptions += ["which CPUs the CPU allocator / CPU tree picks is an oracle read off the implementation's balloons (validated by the guarded model step: picks come from the free set / the balloon)",
                        "CPU tree nodes (scopes for idle sharing, cores for hidden hyperthreads) are taken from the implementation's own tree",
                        "loads / virtual devices and memory pinning of balloons are not covered"]
    barun.run(res, "C02:")
    res.samples += [f"theorem {n}" for n in names[:30]]


def replay(res, path):
    import json
    print(json.dumps(json.load(open(path)), indent=1)[:20000])
    return 0
