"""C04 — topology-aware policy property checked on resource-manager histories (see DESIGN.md)."""
from vlib import core, tarun, barun

LEVEL = "proof"


def run(res):
    core.regenerate(res)
    names = core.lean_prove(res, "C04", res.tier == "thorough")
    res.rule = tarun.RULE
    res.assumptions += ["pool and CPU choices of the policy are oracles read off the implementation's grants (validity checked by the guarded model step)",
                        "balloons-policy half of this property: see DESIGN.md (covered by the C02 harness where built)"]
    tarun.run(res, "C04:")
    # balloons half: told memory nodes vs the allocator's zone per balloon member
    barun.run(res, "C04:")
    res.samples += [f"theorem {n}" for n in names[:30]]


def replay(res, path):
    import json
    print(json.dumps(json.load(open(path)), indent=1)[:20000])
    return 0
