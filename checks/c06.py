"""C06 — memory allocator operations are transactional; stale offers are rejected."""
from vlib import core, libmem

LEVEL = "proof"


def run(res):
    core.regenerate(res)
    names = core.lean_prove(res, "C06", res.tier == "thorough")
    res.rule = ("seeded traces of GetOffer/Commit/Allocate/Realloc/Release on generated node sets (1-6 nodes, DRAM/PMEM/HBM, memory-less and "
                "movable nodes, symmetric/asymmetric distances), offers held arbitrarily long; every third trace also runs a twin allocator that "
                "executes each Allocate as GetOffer+Commit. After every operation the result and the complete state (version, assignments, zone "
                "table, free memory of every node subset) are compared with the Lean model and the property predicates are evaluated on the "
                "implementation's own states. non-trivial = operations that went through overcommit resolution (moved others or failed with nomem)")
    res.assumptions += ["request sizes are non-negative; node ids 0..n-1 < 63; default (non-custom) expansion and overcommit handlers",
                        "a Realloc that changes nothing is not counted as a 'successful re-allocation' that must invalidate offers"]
    libmem.run(res, "C06:")
    res.samples += [f"theorem {n}" for n in names[:30]]
