"""C15 — request processing is serialized: concurrent delivery is race-free."""
import os, re
from vlib import core, races

LEVEL = "proof"


def run(res):
    core.regenerate(res)
    names = core.lean_prove(res, "C15", res.tier == "thorough")
    drv = core.build_driver(res)
    res.rule = ("the real resource manager (both policies, generated machines) under the Go race detector: 4-7 goroutines each drive full pod/container lifecycles "
                "(RunPodSandbox, CreateContainer, StartContainer, UpdateContainer, StopContainer, RemoveContainer, StopPodSandbox, RemovePodSandbox) on their own objects while "
                "one also re-applies the configuration and one re-synchronizes; every request has a 60 s bound (deadlock detection); afterwards a sequential reference lifecycle must "
                "be served. Every race report is classified by the innermost repository frames and entry points of the two accesses. non-trivial = concurrent requests executed")
    res.assumptions += ["schedules are those the Go scheduler produces in the run (16 cores); the theorem, not the run, covers all schedules of the locking model",
                        "the ttrpc stub and the agent's watches are outside the harness"]
    if not drv:
        return
    out = os.path.join(core.WORK, "c15.txt")
    rc, log = core.go_test(res, "./pkg/resmgr/", "TestVerifC15Concurrent", out, race=True, timeout=6000)
    rr = races.parse(log)
    res.extra["race_classes"] = len(rr)
    if not os.path.exists(out) or os.path.getsize(out) == 0:
        res.broken.append(("harness pkg/resmgr (-race)", log[-3000:]))
        return
    n = 0
    with open(out, errors="replace") as f:
        lines = f.readlines()
    reqs = [l for l in lines if l.startswith("C ")]
    n = len(reqs)
    res.evaluations = n
    res.nontrivial = n
    res.traces = sum(1 for l in lines if l.startswith("H "))
    for cls, cnt in sorted(rr.items(), key=lambda x: -x[1])[:5]:
        res.violations.append((f"C15:data-race {cls[:200]}", {"count": cnt, "race": cls,
                               "replay": "go test -race -tags verif -overlay … -run TestVerifC15Concurrent ./pkg/resmgr/ (VERIF_SEED=%d); full reports in the evidence log" % res.seed,
                               "log_tail": log[-4000:] if cnt else ""}))
    bad = [l.strip() for l in lines if l.startswith("X timeout") or (l.startswith("C ") and (" panic " in l or " timeout" in l))]
    for b in bad[:3]:
        res.violations.append(("C15:request-did-not-complete " + b[:120], {"line": b}))
    fin = [lines[i + 1].strip() for i, l in enumerate(lines) if l.startswith("E final-") and i + 1 < len(lines)]
    notok = [r for r in fin if not r.startswith("R ok")]
    if notok:
        res.violations.append(("C15:reference-lifecycle-refused-after-concurrent-phase", {"replies": notok[:5]}))
    if rc != 0 and not rr and not bad and not notok:
        res.broken.append(("harness pkg/resmgr (-race) failed", log[-3000:]))
    res.samples += reqs[:5]
    os.remove(out)
    res.samples += [f"theorem {n}" for n in names]


def replay(res, path):
    import json
    print(json.dumps(json.load(open(path)), indent=1)[:20000])
    return 0
