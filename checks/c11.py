"""C11 — restart + Synchronize converges to the runtime's truth."""
from vlib import core, tarun

LEVEL = "proof"


def run(res):
    core.regenerate(res)
    names = core.lean_prove(res, "C11", res.tier == "thorough")
    res.rule = (tarun.RULE + " -- C11 variant: histories additionally contain plugin restarts (about 4% of the events, repeated restarts occur): before each, the runtime's world "
                "moves on while the plugin is down (containers removed, stopped, started, created in old and new pods) and the old instance may die in the middle of a "
                "CreateContainer (cache saved with the container in the 'creating' state, the runtime then lists it as created/running or not at all); a new resource manager is "
                "built on the same state directory and synchronized with the runtime's list. After it: exactly the containers the runtime reports created/running hold grants "
                "(a live container without one must be unsatisfiable when allocated directly), nothing removed is left in the cache, all C01-C05 predicates hold, the returned "
                "updates bring the runtime's view in line with the cache")
    res.assumptions += ["pool and CPU choices of the policy are oracles read off the implementation's grants",
                        "topology-aware policy only; the balloons half of this property is not covered by this check",
                        "pod annotations are fixed when the pod is announced (as in Kubernetes)"]
    summ = tarun.run(res, "C11:", restarts=True)
    if summ is not None and summ.get("restarts", 0) == 0:
        res.broken.append(("C11 harness", "no restart was exercised"))
    res.samples += [f"theorem {n}" for n in names[:30]]


def replay(res, path):
    import json
    print(json.dumps(json.load(open(path)), indent=1)[:20000])
    return 0
