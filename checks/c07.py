"""C07 — memory allocator placement rules: fit, types, monotone moves, exact updates."""
from vlib import core, libmem

LEVEL = "proof"


def run(res):
    core.regenerate(res)
    names = core.lean_prove(res, "C07", res.tier == "thorough")
    res.rule = ("same traces as C06; predicates: after every successful Allocate/Realloc/Commit every node subset with confined allocations has "
                "free >= 0 (all 2^n-1 subsets enumerated), strict requests only on requested types, a normal-memory node in every zone, zones only "
                "grow, reservations never move, reported updates == changed assignments. non-trivial = operations through overcommit resolution")
    res.assumptions += ["request sizes are non-negative; node ids 0..n-1 < 63; default (non-custom) expansion and overcommit handlers"]
    libmem.run(res, "C07:")
    res.samples += [f"theorem {n}" for n in names[:30]]
