"""C17 — configuration precedence: node-specific over group/default, always."""
import os
from vlib import core

LEVEL = "proof"


def run(res):
    core.regenerate(res)
    names = core.lean_prove(res, "C17", res.tier == "thorough")
    drv = core.build_driver(res)
    res.rule = ("exhaustive: every sequence of length <= 4 (quick) / 5 (thorough) over 14 events {node,group} x {delete, set(uid 1..2, generation 0..2, "
                "valid/invalid by version)} run on the real updateNodeConfig/updateGroupConfig with a recording notifyFn; plus random sequences of 5-24 "
                "events over 26 events incl. objects without a Validator. Each sequence: delivered list (with event index) and final node/group/current "
                "config compared with the Lean model, and the property predicates evaluated from the events alone. non-trivial = sequences with a "
                "fallback (node delete while a group config exists) or a duplicate resource version")
    res.assumptions += ["notifyFn's error result and the status patching do not influence precedence (cfgIf = nil, local config file set so no clients are created)"]
    if not drv:
        return
    out = os.path.join(core.WORK, "c17.txt")
    rc, log = core.go_test(res, "./pkg/agent/", "TestVerifC17", out)
    if rc != 0 or not os.path.exists(out):
        res.broken.append(("harness pkg/agent", log[-3000:]))
        return
    summ, diffs = core.run_driver(res, drv, "c17", out)
    res.evaluations = summ.get("seqs", 0)
    res.traces = summ.get("seqs", 0)
    res.nontrivial = summ.get("nontrivial", 0)
    res.extra["events"] = summ.get("events", 0)
    res.extra["exhaustive_domain"] = summ.get("exhaustive", "")
    res.exhaustive = True
    core.classify_diffs(res, diffs, "c17")
    with open(out) as f:
        for i, l in enumerate(f):
            if i in (5, 3000, 41000):
                res.samples.append(l.strip()[:300])
    os.remove(out)
    res.samples += [f"theorem {n}" for n in names]


def replay(res, path):
    import json
    print(json.dumps(json.load(open(path)), indent=1))
    return 0
