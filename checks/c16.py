"""C16 — hardware discovery is faithful and the pool tree well-formed on every machine."""
import os
from vlib import core

LEVEL = "proof"
KNOWN_CLASS = "C16:memoryless-node-in-child-memset"


def run(res):
    core.regenerate(res)
    names = core.lean_prove(res, "C16", res.tier == "thorough")
    drv = core.build_driver(res)
    res.rule = ("generated machines (1-4 packages x 1-2 dies x 1-2 NUMA nodes (SNC) x 1-4 cores x 1-2 threads, two CPU numbering schemes, clusters, L2/L3 "
                "sharing scopes, hybrid P/E cores, offline and isolated CPUs, CPU-less PMEM/HBM nodes, memory-less CPU nodes, movable-only nodes) rendered "
                "as sysfs trees; (a) real DiscoverSystemAt: every accessor compared with the abstract machine, memory types with the modelled heuristic; "
                "(b) real topology-aware Setup under generated available/reserved settings (cpusets and quantities): the pool tree compared pool by pool "
                "with the Lean model and checked against the well-formedness predicates. non-trivial = machines with several nodes/offline CPUs, setups "
                "with more than one pool")
    res.assumptions += ["reserved CPUs chosen by the CPU allocator for quantity reservations are taken from the implementation (oracle; validity = subset of available CPUs, checked)",
                        "sysfs file parsing (strings -> ids) is tied by sampling only; the Lean list-format theorem is on range lists"]
    if not drv:
        return
    known = core.load_known()
    for pkg, test, tag in (("./pkg/sysfs/", "TestVerifC16Discovery", "disc"), ("./cmd/plugins/topology-aware/policy/", "TestVerifC16Pools", "pools")):
        out = os.path.join(core.WORK, f"c16_{tag}.txt")
        rc, log = core.go_test(res, pkg, test, out, timeout=5000)
        if rc != 0 or not os.path.exists(out):
            res.broken.append((f"harness {pkg}", log[-3000:]))
            continue
        summ, diffs = core.run_driver(res, drv, "c16", out)
        res.evaluations += summ.get("machines", 0)
        res.traces += summ.get("machines", 0)
        res.nontrivial += summ.get("nontrivial", 0)
        res.extra[f"{tag}_summary"] = summ
        kn = [d for d in diffs if KNOWN_CLASS in d]
        rest = [d for d in diffs if KNOWN_CLASS not in d]
        kf = [k for k in known["findings"] if k["property"] == "C16" and k.get("class") == KNOWN_CLASS]
        if kn and kf:
            res.known.append(f"{KNOWN_CLASS} — {kf[0]['summary']} ({len(kn)} instance(s) in this run)")
        elif kn:
            rest += kn
        core.classify_diffs(res, rest, f"c16/{tag}")
        # self-contained replays: add the machine + config lines
        import re
        if res.violations:
            lines = open(out).read().splitlines()
            for what, rep in res.violations:
                m = re.search(r"line=(\d+)", rep.get("driver_line", ""))
                if m and "machine" not in rep:
                    k = min(int(m.group(1)) - 1, len(lines) - 1)
                    while k >= 0 and not lines[k].startswith("M "):
                        k -= 1
                    if k >= 0:
                        rep["machine"] = lines[k][:4000]
                        rep["following"] = [l[:400] for l in lines[k + 1:k + 12]]
        with open(out) as f:
            for i, l in enumerate(f):
                if i in (2, 3):
                    res.samples.append(l.strip()[:400])
        os.remove(out)
    res.samples += [f"theorem {n}" for n in names]


def replay(res, path):
    import json
    print(json.dumps(json.load(open(path)), indent=1))
    return 0
