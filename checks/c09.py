"""C09 — topology-aware policy property checked on resource-manager histories (see DESIGN.md)."""
from vlib import core, tarun, barun

LEVEL = "proof"


def run(res):
    core.regenerate(res)
    names = core.lean_prove(res, "C09", res.tier == "thorough")
    res.rule = tarun.RULE
    res.assumptions += ["pool and CPU choices of the policy are oracles read off the implementation's grants (validity checked by the guarded model step)",
                        "balloons half: evaluated on the balloons histories by the BA driver (membership of stopped containers, quiescence, re-applied configuration); no Lean model of its own beyond C02's partition theorems"]
    tarun.run(res, "C09:", cfgchanges=True)
    # balloons half: same predicates on the balloons policy's histories
    barun.run(res, "C09:", cfgchanges=True)
    res.samples += [f"theorem {n}" for n in names[:30]]


def replay(res, path):
    import json
    print(json.dumps(json.load(open(path)), indent=1)[:20000])
    return 0
