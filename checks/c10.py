"""C10 — the persisted cache round-trips and survives crashes during save."""
import os, re
from vlib import core

LEVEL = "proof"


def hist_lines(path, h):
    out, on = [], False
    with open(path) as f:
        for l in f:
            if l.startswith("H "):
                on = l.split()[1] == str(h)
            if on:
                out.append(l.rstrip("\n")[:400])
    return out


def run(res):
    core.regenerate(res)
    names = core.lean_prove(res, "C10", res.tier == "thorough")
    drv = core.build_driver(res)
    res.rule = ("seeded histories on real state directories through the real cache (NewCache, InsertPod/InsertContainer/DeleteContainer/DeletePod - each saves -, "
                "setters, tags, resource updates, classes, topology hints, pod resources, policy entries of every supported type incl. cpusets and Cacheable, explicit Save). "
                "A third of the saving operations is interrupted by the kernel itself (RLIMIT_FSIZE cuts the write after k bytes, k uniform over the snapshot length, "
                "often 0; the next write fails with EFBIG); leftover temporary files are planted (longer than the next snapshot, prefixes, complete snapshots, garbage, empty). "
                "After every step both files are identified by content; restarts (NewCache on the same directory) at random points compare every public getter of every "
                "pod/container and every policy entry with the cache at the save whose snapshot is on disk. Plus the file-type/permission matrix: all 512 modes x "
                "{cache file, cache directory, container directory}, symlinks (valid and dangling), directory-for-file, file-for-directory, fifo. "
                "non-trivial = steps with a planted leftover temporary file")
    res.assumptions += ["encoding/json round trip of the snapshot structure is not modelled: checked on generated contents only",
                        "a kill between two system calls leaves the same files as a failing call at that point (page cache is not lost when only the process dies); "
                        "power loss / fsync durability is outside the property and outside the model",
                        "the asynchronous pod-resources fetch of InsertPod is not exercised (pod resources are set synchronously) - it races with InsertPod's own Save"]
    if not drv:
        return
    out = os.path.join(core.WORK, "c10.txt")
    tmp = os.path.join(core.WORK, "tmp")
    os.makedirs(tmp, exist_ok=True)
    rc, log = core.go_test(res, "./pkg/resmgr/cache/", "TestVerifC10Save", out, env_extra={"VERIF_TMP": tmp})
    if rc != 0 or not os.path.exists(out):
        res.broken.append(("harness pkg/resmgr/cache (C10)", log[-3000:]))
        return
    summ, diffs = core.run_driver(res, drv, "c10", out)
    res.evaluations = summ.get("saves", 0) + summ.get("reloads", 0) + summ.get("perms", 0)
    res.traces = summ.get("hists", 0)
    res.nontrivial = summ.get("nontrivial", 0)
    res.extra["c10_summary"] = summ
    res.extra["disagreements_checked"] = len(diffs)
    other = [d for d in diffs if "kind=property" not in d]
    if other:
        res.broken.append(("C10: file-system model / implementation correspondence", "\n".join(other[:20])))
    seen = set()
    for d in diffs:
        if "kind=property" not in d:
            continue
        m = re.search(r"detail=(\S+)", d)
        cls = m.group(1).split("_")[0] if m else "C10"
        mh = re.search(r"hist=(\d+)", d)
        if cls in seen or len(res.violations) >= 5:
            continue
        seen.add(cls)
        res.violations.append((cls, {"driver_line": d[:600], "history": hist_lines(out, mh.group(1)) if mh else None,
                                     "format": "N id len kind = content declaration; S save|savefail <op> <snapshot id> [k prefix-id] result; S plant id parent k; "
                                               "F <snapshot file> <temporary file>; L reload result equal disk diff; P target kind mode result"}))
    with open(out) as f:
        for i, l in enumerate(f):
            if i < 12:
                res.samples.append(l.strip()[:200])
    os.remove(out)
    res.samples += [f"theorem {n}" for n in names]


def replay(res, path):
    import json
    print(json.dumps(json.load(open(path)), indent=1)[:20000])
    return 0
