"""C14 — no request or annotation can crash a plugin."""
import os, re
from vlib import core

LEVEL = "proof"

RUNS = [("./pkg/resmgr/", "TestVerifC14Chaos", "resmgr (topology-aware and balloons)"),
        ("./cmd/plugins/memory-qos/", "TestVerifC14MemoryQos", "memory-qos"),
        ("./cmd/plugins/memtierd/", "TestVerifC14Memtierd", "memtierd"),
        ("./cmd/plugins/sgx-epc/", "TestVerifC14SgxEpc", "sgx-epc")]


def hist_lines(path, h, line):
    """the history around the failing line (bounded)"""
    out, on = [], False
    with open(path, errors="replace") as f:
        for i, l in enumerate(f, 1):
            if l.startswith("H "):
                on = l.split()[1] == str(h)
                if on:
                    out = [l.rstrip("\n")[:300]]
                continue
            if on and i <= line + 1:
                out.append(l.rstrip("\n")[:300])
    return out[:1] + out[-120:]


def run(res):
    core.regenerate(res)
    names = core.lean_prove(res, "C14", res.tier == "thorough")
    drv = core.build_driver(res)
    res.rule = ("hostile but well-formed NRI event streams through the real handlers, every call under recover(): resource manager under both policies on generated machines "
                "(ids drawn from small spaces so that unknown, forgotten, duplicated and re-used pod/container ids, out-of-order and repeated lifecycle events all occur; "
                "pods with 0-3 of the 19 interpreted annotation keys in all three key forms with values from a 50-entry malformed/huge/wrongly-typed YAML/JSON pool; containers "
                "with absent linux/resources/cpu/memory/oom sub-messages, zero/negative quota and limits, bogus mounts and devices; Synchronize with random subsets, containers "
                "without their pods; re-applied configuration); a reference lifecycle on the fresh plugin and after draining everything at the end of each history. "
                "Side plugins memory-qos, memtierd, sgx-epc: every handler, with nil/empty/full configuration, annotations with arbitrary values in every key form, absent sub-messages, "
                "malformed Configure payloads. non-trivial = refused requests (error replies)")
    res.assumptions += ["a pod or container message itself is never nil and repeated fields hold no nil elements (cannot occur on the wire)",
                        "the ttrpc stub, agent watches and metrics servers are outside the harness (no network)"]
    if not drv:
        return
    tot = {"events": 0, "refused": 0, "hists": 0, "panics": 0, "probes": 0}
    seen = set()
    for pkg, test, what in RUNS:
        out = os.path.join(core.WORK, f"c14_{test}.txt")
        rc, log = core.go_test(res, pkg, test, out, timeout=6000)
        if rc != 0 or not os.path.exists(out) or os.path.getsize(out) == 0:
            res.broken.append((f"harness {what}", log[-3000:]))
            continue
        summ, diffs = core.run_driver(res, drv, "c14", out)
        for k in tot:
            tot[k] += summ.get(k, 0)
        other = [d for d in diffs if "kind=property" not in d]
        if other:
            res.broken.append((f"C14 {what}: line protocol", "\n".join(other[:10])))
        for d in diffs:
            if "kind=property" not in d:
                continue
            m = re.search(r"detail=(\S+)", d)
            cls = (m.group(1) if m else "C14")[:160]
            key = re.sub(r"_hist=\d+.*", "", cls)
            if key in seen or len(res.violations) >= 6:
                continue
            seen.add(key)
            mh, ml = re.search(r"hist=(\d+)", d), re.search(r"line=(\d+)", d)
            res.violations.append((key, {"plugin": what, "driver_line": d[:600],
                                         "history": hist_lines(out, mh.group(1), int(ml.group(1))) if mh and ml else None}))
        os.remove(out)
    res.evaluations = tot["events"]
    res.traces = tot["hists"]
    res.nontrivial = tot["refused"]
    res.extra["c14_summary"] = tot
    res.samples += [f"theorem {n}" for n in names]


def replay(res, path):
    import json
    print(json.dumps(json.load(open(path)), indent=1)[:20000])
    return 0
