"""C18 — effective annotations: container-specific beats pod-wide beats bare key."""
import os
from vlib import core

LEVEL = "proof"

RUNS = [("./pkg/resmgr/cache/", "TestVerifC18Cache", "cache"), ("./cmd/plugins/sgx-epc/", "TestVerifC18Sgx", "sgx"),
        ("./cmd/plugins/memory-qos/", "TestVerifC18MemoryQos", "mqos"), ("./cmd/plugins/memtierd/", "TestVerifC18Memtierd", "memtierd")]


def run(res):
    core.regenerate(res)
    names = core.lean_prove(res, "C18", res.tier == "thorough")
    drv = core.build_driver(res)
    res.rule = ("seeded annotation maps (any subset of the three forms for several keys and 10 container names incl. names that are "
                "prefixes of each other, contain '.', '-', '_', or look like key suffixes; empty values; other plugins' keys) evaluated by the real "
                "GetEffectiveAnnotation, parseEpcLimit, memory-qos/memtierd effectiveAnnotations and memory-qos CreateContainer, each several times "
                "(Go randomises map iteration order per loop); result compared with the Lean model and with the precedence predicate computed from "
                "the raw map. non-trivial = cases where at least two competing forms coexist (or class + explicit parameter)")
    res.assumptions += ["container names contain no '/' (Kubernetes DNS-label names)",
                        "memory-qos class-derived parameter values are taken from a probe call of the real CreateContainer (float32 arithmetic is not modelled)"]
    if not drv:
        return
    for pkg, test, tag in RUNS:
        out = os.path.join(core.WORK, f"c18_{tag}.txt")
        rc, log = core.go_test(res, pkg, test, out)
        if rc != 0 or not os.path.exists(out):
            res.broken.append((f"harness {pkg}", log[-3000:]))
            continue
        summ, diffs = core.run_driver(res, drv, "c18", out)
        res.evaluations += summ.get("cases", 0)
        res.traces += summ.get("cases", 0)
        res.nontrivial += summ.get("nontrivial", 0)
        core.classify_diffs(res, diffs, f"c18/{tag}")
        with open(out) as f:
            for i, l in enumerate(f):
                if i in (3, 700):
                    res.samples.append(l.strip()[:300])
        os.remove(out)
    res.samples += [f"theorem {n}" for n in names]


def replay(res, path):
    import json
    print(json.dumps(json.load(open(path)), indent=1))
    return 0
