"""C20 — resource requirements reconstructed from cgroup parameters are faithful."""
import os
from vlib import core

LEVEL = "proof"


def run(res):
    thorough = res.tier == "thorough"
    core.regenerate(res)
    names = core.lean_prove(res, "C20", thorough)
    drv = core.build_driver(res)
    res.rule = ("exhaustive: every mCPU value 0..256000 through MilliCPUToShares/SharesToMilliCPU/MilliCPUToQuota/"
                "QuotaToMilliCPU and every shares value 2..262144; sampled: clamping region, other periods, OOM tables for "
                "capacities 2^20..2^50 (powers of two, neighbours, random), accessor on adj -2..1002, "
                "estimateResourceRequirements on generated NRI resources. non-trivial = distinct OOM tables built + "
                "distinct estimate cases; every line also evaluates the property's predicate on the implementation's values")
    res.assumptions += [
        "float64 expressions in SharesToMilliCPU/QuotaToMilliCPU equal exact round-half-up on the domain (checked exhaustively on 0..256000 / 2..262144)",
        "OOM table: float estimate within +-2 of exact (checked per table by the driver); capacities < 2^53",
    ]
    if not drv:
        return
    total = 0
    for pkg, run_, tag in (("./pkg/kubernetes/", "TestVerifC20", "k8s"), ("./pkg/resmgr/cache/", "TestVerifC20Estimate", "est")):
        out = os.path.join(core.WORK, f"c20_{tag}.txt")
        rc, log = core.go_test(res, pkg, run_, out)
        if rc != 0 or not os.path.exists(out):
            res.broken.append((f"harness {pkg} {run_}", log[-3000:]))
            continue
        summ, diffs = core.run_driver(res, drv, "c20", out)
        total += summ.get("lines", 0)
        if tag == "k8s":
            res.nontrivial += summ.get("oomtables", 0)
            res.extra["exhaustive_domain_lines"] = 256001 + 262143
        else:
            with open(out) as f:
                res.nontrivial += len({l for l in f})
        core.classify_diffs(res, diffs, f"c20/{tag}")
        with open(out) as f:
            for i, l in enumerate(f):
                if i in (1500, 300000) or (tag == "est" and i < 2):
                    res.samples.append(l.strip()[:200])
        os.remove(out)
    res.evaluations = total
    res.traces = total
    res.exhaustive = True
    res.samples += [f"theorem {n}" for n in names[:20]]


def replay(res, path):
    import json
    print(json.dumps(json.load(open(path)), indent=1))
    return 0
