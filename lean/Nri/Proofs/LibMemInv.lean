import Nri.Model.LibMem
import Nri.Proofs.LibMem
/-!
Further invariants of the libmem model (C06/C07), core Lean only.

* `Realloc` is transactional (failure restores the request list, version and journal).
* `WF` (no open journal, unique ids) is preserved by every public operation, so the
  per-operation theorems compose over arbitrary histories.
* A generic preservation combinator for the overcommit machinery: a predicate closed under
  the one primitive the machinery applies (`zoneMove` of a current user of an overcommitted
  zone to a strict superset) is preserved by `handleOvercommit`.
-/
namespace Nri.LibMem

/-! ### Realloc is transactional -/

theorem realloc_spec (s : St) (hw : WF s) (id : String) (nodes : Mask) (types : Nat) :
    (∀ e, (s.Realloc id nodes types).2 = .error e →
      (s.Realloc id nodes types).1.reqs = s.reqs ∧ (s.Realloc id nodes types).1.version = s.version ∧
      (s.Realloc id nodes types).1.journal = none) := by
  intro e h
  unfold St.Realloc at h ⊢
  cases hr : s.req? id with
  | none => simp only [hr]; exact ⟨trivial, trivial, hw.journal⟩
  | some r =>
    simp only [hr] at h ⊢
    cases hv : s.validateRealloc r nodes types with
    | error e' => simp only [hv]; exact ⟨trivial, trivial, hw.journal⟩
    | ok v =>
      obtain ⟨n1, t1, fl⟩ := v
      cases fl with
      | true => simp only [hv] at h; cases h
      | false =>
        simp only [hv] at h ⊢
        have hg0 : Good s s.startJournal := good_start s hw.journal hw.ids
        cases hx : s.startJournal.expand (r.zone ||| n1) t1 with
        | mk newNodes newTypes =>
          simp only [hx] at h ⊢
          by_cases hz : (newNodes == 0) = true
          · simp only [hz, if_true]
            obtain ⟨_, a2, a3, a4, _⟩ := revert_restores s _ hg0 hw.ids
            exact ⟨a2, a4, a3⟩
          · simp only [hz, Bool.false_eq_true, if_false] at h ⊢
            have hne : r.zone ||| n1 ||| newNodes ≠ 0 := by
              intro hh
              have := (Nat.or_eq_zero_iff.1 hh).2
              simp [this] at hz
            have hg1 := zoneMove_good s _ hg0 (r.zone ||| n1 ||| newNodes) hne id
            have hg2 := handleOvercommit_good s _ hg1 (r.zone ||| n1 ||| newNodes)
            cases ho : (s.startJournal.zoneMove (r.zone ||| n1 ||| newNodes) id).handleOvercommit (r.zone ||| n1 ||| newNodes) with
            | mk s3 oe =>
              rw [ho] at hg2
              simp only [ho] at h ⊢
              cases oe with
              | some e' =>
                simp only []
                obtain ⟨_, a2, a3, a4, _⟩ := revert_restores s s3 hg2 hw.ids
                exact ⟨a2, a4, a3⟩
              | none => simp only [] at h; cases h

end Nri.LibMem

namespace Nri.LibMem

/-! ### `WF` is preserved by every public operation -/

theorem ids_of_good (b s : St) (hg : Good b s) : s.reqs.map (·.id) = b.reqs.map (·.id) := by
  obtain ⟨⟨Z, j, hreqs, _⟩, _, _⟩ := hg
  rw [hreqs, List.map_map]
  apply List.map_congr_left
  intro r _; rfl

theorem withNew_ids_nodup (s : St) (hw : WF s) (r : Req) (hnew : s.req? r.id = none) :
    ((withNew s r).reqs.map (·.id)).Nodup := by
  simp only [withNew, List.map_append, List.map_cons, List.map_nil]
  rw [List.nodup_append]
  refine ⟨hw.ids, by simp, ?_⟩
  intro a ha b' hb'
  simp at hb'; subst hb'
  intro e; subst e
  exact req?_none_not_mem s _ hnew ha

theorem commitJournal_reqs (s : St) (id : String) : (s.commitJournal id).1.reqs = s.reqs := by
  unfold St.commitJournal; split <;> rfl

theorem commitJournal_journal (s : St) (id : String) : (s.commitJournal id).1.journal = none := by
  unfold St.commitJournal; split
  · rfl
  · rename_i h; exact h

theorem allocate_wf (s : St) (hw : WF s) (r : Req) : WF (s.Allocate r).1 := by
  have hs := allocate_spec s hw r
  unfold St.Allocate
  cases ha : s.allocate r with
  | mk s' res =>
    rw [ha] at hs
    cases res with
    | error e =>
      obtain ⟨h1, _, h3⟩ := hs.1 e rfl
      exact ⟨h3, by show (s'.reqs.map (·.id)).Nodup; rw [h1]; exact hw.ids⟩
    | ok r' =>
      obtain ⟨hg, hnone, _⟩ := hs.2 r' rfl
      simp only []
      refine ⟨?_, ?_⟩
      · show (s'.commitJournal r'.id).1.journal = none
        exact commitJournal_journal _ _
      · show ((s'.commitJournal r'.id).1.reqs.map (·.id)).Nodup
        rw [commitJournal_reqs, ids_of_good _ _ hg]
        exact withNew_ids_nodup s hw r' hnone

theorem setZone_ids (s : St) (id : String) (z : Mask) : (s.setZone id z).reqs.map (·.id) = s.reqs.map (·.id) := by
  unfold St.setZone
  simp only [List.map_map]
  apply List.map_congr_left
  intro r _
  simp only [Function.comp]
  split <;> rfl

theorem zoneAssign_ids (s : St) (z : Mask) (id : String) : (s.zoneAssign z id).reqs.map (·.id) = s.reqs.map (·.id) := by
  unfold St.zoneAssign; exact setZone_ids _ _ _

theorem zoneRemove_ids (s : St) (z : Mask) (id : String) : (s.zoneRemove z id).reqs.map (·.id) = s.reqs.map (·.id) := by
  unfold St.zoneRemove
  split
  · split
    · exact setZone_ids _ _ _
    · rfl
  · rfl

theorem zoneMove_ids (s : St) (z : Mask) (id : String) : (s.zoneMove z id).reqs.map (·.id) = s.reqs.map (·.id) := by
  unfold St.zoneMove
  split
  · split
    · split
      · rfl
      · rw [zoneAssign_ids, zoneRemove_ids]
    · exact zoneAssign_ids _ _ _
  · rfl

theorem zoneAssign_journal_none (s : St) (z : Mask) (id : String) (h : s.journal = none) : (s.zoneAssign z id).journal = none := by
  simp [St.zoneAssign, St.setZone, h]

theorem zoneRemove_journal_none (s : St) (z : Mask) (id : String) (h : s.journal = none) : (s.zoneRemove z id).journal = none := by
  unfold St.zoneRemove
  split
  · split
    · simp [St.setZone, h]
    · exact h
  · exact h

theorem zoneMove_journal_none (s : St) (z : Mask) (id : String) (h : s.journal = none) : (s.zoneMove z id).journal = none := by
  unfold St.zoneMove
  split
  · split
    · split
      · exact h
      · exact zoneAssign_journal_none _ _ _ (zoneRemove_journal_none _ _ _ h)
    · exact zoneAssign_journal_none _ _ _ h
  · exact h

theorem release_wf (s : St) (hw : WF s) (id : String) : WF (s.Release id).1 := by
  unfold St.Release
  cases hr : s.req? id with
  | none => exact hw
  | some r =>
    simp only []
    split
    · exact hw
    · refine ⟨?_, ?_⟩
      · show (s.zoneRemove r.zone id).journal = none
        exact zoneRemove_journal_none _ _ _ hw.journal
      · show (((s.zoneRemove r.zone id).reqs.filter (·.id != id)).map (·.id)).Nodup
        have h1 : ((s.zoneRemove r.zone id).reqs.map (·.id)).Nodup := by rw [zoneRemove_ids]; exact hw.ids
        exact (List.filter_sublist.map _).nodup h1

/-- one update of `Commit`'s replay loop -/
def commitStep (req : Req) (s : St) (p : String × Mask) : St :=
  if p.1 == req.id then
    let s := if (s.req? p.1).isSome then s else { s with reqs := s.reqs ++ [{ req with zone := 0 }] }
    s.zoneAssign p.2 p.1
  else if (s.req? p.1).isSome then s.zoneMove p.2 p.1 else s

theorem commit_eq (s : St) (o : Offer) : s.Commit o =
    if o.version ≠ s.version then (s, .error .expiredOffer) else
    let s' := o.updates.foldl (commitStep o.req) s
    let s' := { s' with version := s'.version + 1 }
    (s'.cleanupUnusedZones, .ok ⟨(alGet o.updates o.req.id).getD 0, alErase o.updates o.req.id⟩) := rfl

theorem commitStep_wf (req : Req) (s : St) (hw : WF s) (p : String × Mask) : WF (commitStep req s p) := by
  unfold commitStep
  split
  · rename_i hp
    simp only []
    split
    · exact ⟨zoneAssign_journal_none _ _ _ hw.journal, by rw [zoneAssign_ids]; exact hw.ids⟩
    · rename_i hnone
      have hn : s.req? req.id = none := by
        have : p.1 = req.id := by simpa using hp
        rw [← this]
        cases h : s.req? p.1 with
        | none => rfl
        | some x => simp [h] at hnone
      refine ⟨zoneAssign_journal_none _ _ _ hw.journal, ?_⟩
      rw [zoneAssign_ids]
      exact withNew_ids_nodup s hw req hn
  · split
    · exact ⟨zoneMove_journal_none _ _ _ hw.journal, by rw [zoneMove_ids]; exact hw.ids⟩
    · exact hw

theorem commit_wf (s : St) (hw : WF s) (o : Offer) : WF (s.Commit o).1 := by
  rw [commit_eq]
  split
  · exact hw
  · have : WF (o.updates.foldl (commitStep o.req) s) :=
      foldl_inv WF (commitStep o.req) (fun a x h => commitStep_wf o.req a h x) _ _ hw
    exact ⟨this.journal, this.ids⟩

theorem realloc_wf (s : St) (hw : WF s) (id : String) (nodes : Mask) (types : Nat) : WF (s.Realloc id nodes types).1 := by
  cases hres : (s.Realloc id nodes types).2 with
  | error e =>
    obtain ⟨h1, _, h3⟩ := realloc_spec s hw id nodes types e hres
    exact ⟨h3, by rw [h1]; exact hw.ids⟩
  | ok res =>
    unfold St.Realloc at hres ⊢
    cases hr : s.req? id with
    | none => simp only [hr] at hres; cases hres
    | some r =>
      simp only [hr] at hres ⊢
      cases hv : s.validateRealloc r nodes types with
      | error e' => simp only [hv] at hres; cases hres
      | ok v =>
        obtain ⟨n1, t1, fl⟩ := v
        cases fl with
        | true => simp only []; exact hw
        | false =>
          simp only [hv] at hres ⊢
          have hg0 : Good s s.startJournal := good_start s hw.journal hw.ids
          cases hx : s.startJournal.expand (r.zone ||| n1) t1 with
          | mk newNodes newTypes =>
            simp only [hx] at hres ⊢
            by_cases hz : (newNodes == 0) = true
            · simp only [hz, if_true] at hres; cases hres
            · simp only [hz, Bool.false_eq_true, if_false] at hres ⊢
              have hne : r.zone ||| n1 ||| newNodes ≠ 0 := by
                intro hh
                have := (Nat.or_eq_zero_iff.1 hh).2
                simp [this] at hz
              have hg1 := zoneMove_good s _ hg0 (r.zone ||| n1 ||| newNodes) hne id
              have hg2 := handleOvercommit_good s _ hg1 (r.zone ||| n1 ||| newNodes)
              cases ho : (s.startJournal.zoneMove (r.zone ||| n1 ||| newNodes) id).handleOvercommit (r.zone ||| n1 ||| newNodes) with
              | mk s3 oe =>
                rw [ho] at hg2
                simp only [ho] at hres ⊢
                cases oe with
                | some e' => simp only [] at hres; cases hres
                | none =>
                  simp only []
                  refine ⟨?_, ?_⟩
                  · show (St.commitJournal _ id).1.journal = none
                    exact commitJournal_journal _ _
                  · show ((St.commitJournal _ id).1.reqs.map (·.id)).Nodup
                    rw [commitJournal_reqs]
                    simp only [List.map_map]
                    have : (s3.reqs.map ((fun (x : Req) => x.id) ∘ fun (q : Req) => if q.id == id then { q with types := q.types ||| newTypes } else q))
                        = s3.reqs.map (·.id) := by
                      apply List.map_congr_left
                      intro q _
                      simp only [Function.comp]
                      split <;> rfl
                    rw [this, ids_of_good _ _ hg2]
                    exact hw.ids

end Nri.LibMem

namespace Nri.LibMem

/-! ### a preservation combinator for the overcommit machinery -/

theorem insertBy_perm {α} (lt : α → α → Bool) (x : α) : ∀ l : List α, (insertBy lt x l).Perm (x :: l) := by
  intro l
  induction l with
  | nil => exact List.Perm.refl _
  | cons y ys ih =>
    unfold insertBy
    split
    · exact List.Perm.refl _
    · exact ((List.Perm.cons y ih).trans (List.Perm.swap x y ys))

theorem sortBy_perm {α} (lt : α → α → Bool) (l : List α) : (sortBy lt l).Perm l := by
  unfold sortBy
  suffices h : ∀ (l acc : List α), (l.foldl (fun acc x => insertBy lt x acc) acc).Perm (l.reverse ++ acc) by
    have := h l []
    simp only [List.append_nil] at this
    exact this.trans (List.reverse_perm l)
  intro l
  induction l with
  | nil => intro acc; exact List.Perm.refl _
  | cons x xs ih =>
    intro acc
    simp only [List.foldl_cons, List.reverse_cons, List.append_assoc, List.singleton_append]
    exact (ih _).trans (List.Perm.append_left _ (insertBy_perm lt x acc))

theorem foldl_inv_mem {α β : Type} (P : β → Prop) (f : β → α → β) :
    ∀ (l : List α) (init : β), (∀ a x, x ∈ l → P a → P (f a x)) → P init → P (l.foldl f init) := by
  intro l
  induction l with
  | nil => intro init _ hi; exact hi
  | cons x xs ih =>
    intro init h hi
    exact ih _ (fun a y hy => h a y (List.mem_cons_of_mem _ hy)) (h _ _ (List.mem_cons_self) hi)

def IdsNodup (s : St) : Prop := (s.reqs.map (·.id)).Nodup

theorem find?_of_mem_nodup (l : List Req) (hnd : (l.map (·.id)).Nodup) (r : Req) (hr : r ∈ l) :
    l.find? (·.id == r.id) = some r := by
  induction l with
  | nil => cases hr
  | cons x xs ih =>
    simp only [List.map_cons, List.nodup_cons] at hnd
    simp only [List.find?_cons]
    rcases List.mem_cons.1 hr with e | hm
    · subst e; simp
    · have : x.id ≠ r.id := by
        intro e; apply hnd.1; rw [e]; exact List.mem_map_of_mem hm
      have hb : (x.id == r.id) = false := by simp [this]
      simp only [hb]
      exact ih hnd.2 hm

theorem req?_of_mem_nodup (s : St) (hnd : IdsNodup s) (r : Req) (hr : r ∈ s.reqs) : s.req? r.id = some r :=
  find?_of_mem_nodup s.reqs hnd r hr

theorem mem_setZone (s : St) (id : String) (z : Mask) (q' : Req) (h : q' ∈ (s.setZone id z).reqs) :
    ∃ q ∈ s.reqs, q' = if q.id == id then { q with zone := z } else q := by
  unfold St.setZone at h
  obtain ⟨q, hq, e⟩ := List.mem_map.1 h
  exact ⟨q, hq, e.symm⟩

/-- what `zoneMove` does to the request list, for a request that is in it. -/
theorem zoneMove_reqs_mem (s : St) (hnd : IdsNodup s) (r : Req) (hr : r ∈ s.reqs) (t : Mask) (q' : Req)
    (h : q' ∈ (s.zoneMove t r.id).reqs) : (q' ∈ s.reqs ∧ q'.id ≠ r.id) ∨ q' = { r with zone := t } := by
  have hreq := req?_of_mem_nodup s hnd r hr
  have huniq : ∀ q ∈ s.reqs, q.id = r.id → q = r := by
    intro q hq e
    have := req?_of_mem_nodup s hnd q hq
    rw [e, hreq] at this
    exact (Option.some.inj this).symm
  -- in every branch the result is `s.reqs` or `s.reqs` with the zone of `r.id` set to `t`
  have key : (s.zoneMove t r.id).reqs = s.reqs ∧ r.zone = t ∨
      (s.zoneMove t r.id).reqs = s.reqs.map (fun q => if q.id == r.id then { q with zone := t } else q) := by
    unfold St.zoneMove
    simp only [hreq]
    by_cases hz : r.zone ≠ 0
    · rw [if_pos hz]
      by_cases he : (r.zone == t) = true
      · left; simp only [he, if_true]; exact ⟨trivial, by simpa using he⟩
      · right
        simp only [he, Bool.false_eq_true, if_false]
        unfold St.zoneRemove
        simp only [hreq]
        have : (r.zone ≠ 0 ∧ (r.zone == r.zone) = true) := ⟨hz, by simp⟩
        rw [if_pos this]
        unfold St.zoneAssign St.setZone
        simp only [List.map_map]
        apply List.map_congr_left
        intro q _
        simp only [Function.comp]
        by_cases hq : (q.id == r.id) = true
        · simp [hq]
        · simp [hq]
    · right
      rw [if_neg hz]
      unfold St.zoneAssign St.setZone
      rfl
  rcases key with ⟨e, ez⟩ | e
  · rw [e] at h
    by_cases hid : q'.id = r.id
    · right
      have := huniq q' h hid
      rw [this, ← ez]
    · exact Or.inl ⟨h, hid⟩
  · rw [e] at h
    obtain ⟨q, hq, e'⟩ := List.mem_map.1 h
    by_cases hid : (q.id == r.id) = true
    · right
      simp only [hid, if_true] at e'
      have : q = r := huniq q hq (by simpa using hid)
      rw [← e', this]
    · left
      simp only [hid, Bool.false_eq_true, if_false] at e'
      rw [← e']
      exact ⟨hq, by simpa using hid⟩

theorem zoneMove_mem_other (s : St) (t : Mask) (id : String) (q : Req) (hq : q ∈ s.reqs) (hid : q.id ≠ id) :
    q ∈ (s.zoneMove t id).reqs := by
  have hset : ∀ (s : St) (z : Mask), q ∈ s.reqs → q ∈ (s.setZone id z).reqs := by
    intro s z hq
    unfold St.setZone
    apply List.mem_map.2
    refine ⟨q, hq, ?_⟩
    have : (q.id == id) = false := by simp [hid]
    simp [this]
  have hassign : ∀ (s : St) (z : Mask), q ∈ s.reqs → q ∈ (s.zoneAssign z id).reqs := by
    intro s z hq; unfold St.zoneAssign; exact hset _ _ hq
  have hremove : ∀ (s : St) (z : Mask), q ∈ s.reqs → q ∈ (s.zoneRemove z id).reqs := by
    intro s z hq
    unfold St.zoneRemove
    split
    · split
      · exact hset _ _ hq
      · exact hq
    · exact hq
  unfold St.zoneMove
  split
  · split
    · split
      · exact hq
      · exact hassign _ _ (hremove _ _ hq)
    · exact hassign _ _ hq
  · exact hq

def touches (nodes0 z : Mask) : Prop := nodes0 = 0 ∨ z &&& nodes0 ≠ 0

/-- the facts available about one move of the overcommit machinery -/
structure MoveOK (s : St) (nodes0 : Mask) (r : Req) (nodes : Mask) : Prop where
  ids : IdsNodup s
  mem : r ∈ s.reqs
  zone : r.zone ≠ 0
  new : nodes ≠ 0
  prio : r.prio ≤ 32766
  touch : touches nodes0 r.zone
  /-- `nodes` is what `expand` returned for the request's zone (on a state with the same node
  table), together with the types `ty` of those nodes; a strict request is only moved when its
  types are exactly the zone's types plus `ty` -/
  strictOk : ∃ (s0 : St) (extra ty : Nat), s0.nodes = s.nodes ∧
    s0.expand r.zone (s0.zoneType r.zone ||| extra) = (nodes, ty) ∧
    (r.strict = true → r.types = s0.zoneType r.zone ||| ty)

theorem mem_sortBy {α} (lt : α → α → Bool) (l : List α) (x : α) : x ∈ sortBy lt l ↔ x ∈ l :=
  (sortBy_perm lt l).mem_iff

theorem checkOvercommit_touch (nodes0 : Mask) (s : St) : ∀ z ∈ s.checkOvercommit nodes0, touches nodes0 z.1 := by
  intro z hz
  unfold St.checkOvercommit at hz
  obtain ⟨z0, hz0, e⟩ := List.mem_map.1 hz
  rw [mem_sortBy, mem_sortBy] at hz0
  obtain ⟨_, hf⟩ := List.mem_filter.1 hz0
  subst e
  simp only [Bool.and_eq_true, Bool.or_eq_true, beq_iff_eq, decide_eq_true_eq] at hf
  unfold touches
  exact hf.1

theorem zoneMove_nodes' (s : St) (z : Mask) (id : String) : (s.zoneMove z id).nodes = s.nodes := by
  have hassign : ∀ (s : St) (z : Mask), (s.zoneAssign z id).nodes = s.nodes := by
    intro s z; simp [St.zoneAssign, St.setZone]
  have hremove : ∀ (s : St) (z : Mask), (s.zoneRemove z id).nodes = s.nodes := by
    intro s z
    unfold St.zoneRemove
    split
    · split <;> simp [St.setZone]
    · rfl
  unfold St.zoneMove
  split
  · split
    · split
      · rfl
      · rw [hassign, hremove]
    · exact hassign _ _
  · rfl

section Combinator
variable (nodes0 : Mask) (P : St → Prop)
variable (hamb : ∀ s x, P s → P { s with ambig := x })
variable (hmove : ∀ s r nodes, P s → MoveOK s nodes0 r nodes → P (s.zoneMove (r.zone ||| nodes) r.id))
include hamb hmove

theorem shrinkGo_pres (zone nodes : Mask) (hn : nodes ≠ 0) (ht : touches nodes0 zone) (amount : Int) (zt ty : Nat)
    (s0 : St) (extra : Nat) (hzt : zt = s0.zoneType zone) (hexp : s0.expand zone (s0.zoneType zone ||| extra) = (nodes, ty)) :
    ∀ (l : List Req) (s : St) (moved : Int), IdsNodup s → P s → s.nodes = s0.nodes →
      (∀ r ∈ l, r ∈ s.reqs ∧ r.zone ≠ 0 ∧ r.zone = zone ∧ r.prio ≤ 32766) → (l.map (·.id)).Nodup →
      IdsNodup (St.zoneShrinkUsage.go zone amount zt nodes ty s moved l).1 ∧
      P (St.zoneShrinkUsage.go zone amount zt nodes ty s moved l).1 := by
  intro l
  induction l with
  | nil => intro s moved hnd hp _ _ _; simpa [St.zoneShrinkUsage.go] using ⟨hnd, hp⟩
  | cons r rs ih =>
    intro s moved hnd hp hnodes hl hln
    obtain ⟨hrm, hrz, hrzone, hrp⟩ := hl r (List.mem_cons_self)
    have hrest : ∀ r' ∈ rs, r' ∈ (s.zoneMove (zone ||| nodes) r.id).reqs ∧ r'.zone ≠ 0 ∧ r'.zone = zone ∧ r'.prio ≤ 32766 := by
      intro r' hr'
      obtain ⟨a, b, c, d⟩ := hl r' (List.mem_cons_of_mem _ hr')
      refine ⟨zoneMove_mem_other s _ r.id r' a ?_, b, c, d⟩
      simp only [List.map_cons, List.nodup_cons] at hln
      intro e; apply hln.1; rw [← e]; exact List.mem_map_of_mem hr'
    have hrsn : (rs.map (·.id)).Nodup := by
      simp only [List.map_cons, List.nodup_cons] at hln; exact hln.2
    unfold St.zoneShrinkUsage.go
    split
    · rename_i hcond
      have hstrict : r.strict = true → r.types = s0.zoneType r.zone ||| ty := by
        intro hs
        rw [hrzone, ← hzt]
        simp only [hs, Bool.not_true, Bool.false_or, beq_iff_eq] at hcond
        exact hcond
      have hstep : IdsNodup (s.zoneMove (zone ||| nodes) r.id) ∧ P (s.zoneMove (zone ||| nodes) r.id) := by
        refine ⟨?_, ?_⟩
        · unfold IdsNodup; rw [zoneMove_ids]; exact hnd
        · have := hmove s r nodes hp ⟨hnd, hrm, hrz, hn, hrp, by rw [hrzone]; exact ht,
            ⟨s0, extra, ty, hnodes.symm, by rw [hrzone]; exact hexp, hstrict⟩⟩
          rw [hrzone] at this; exact this
      simp only []
      split
      · exact hstep
      · exact ih _ _ hstep.1 hstep.2 (by rw [zoneMove_nodes']; exact hnodes) hrest hrsn
    · exact ih _ _ hnd hp hnodes (fun r' hr' => hl r' (List.mem_cons_of_mem _ hr')) hrsn

theorem zoneShrinkUsage_pres (s : St) (hnd : IdsNodup s) (hp : P s) (zone : Mask) (ht : touches nodes0 zone)
    (amount limit : Int) (hl : limit ≤ 32766) (extra : Nat) :
    IdsNodup (s.zoneShrinkUsage zone amount limit extra).1 ∧ P (s.zoneShrinkUsage zone amount limit extra).1 := by
  unfold St.zoneShrinkUsage
  split
  · exact ⟨hnd, hp⟩
  · simp only []
    split
    · exact ⟨hnd, hp⟩
    · rename_i hnodes
      have hperm := sortBy_perm reqLt (s.reqs.filter (fun r => r.zone ≠ 0 ∧ r.zone == zone ∧ r.prio ≤ limit))
      have hn0 : (s.expand zone (s.zoneType zone ||| extra)).1 ≠ 0 := fun h => hnodes (beq_iff_eq.2 h)
      apply shrinkGo_pres nodes0 P hamb hmove zone _ hn0 ht amount _ _ s extra rfl rfl
      · exact hnd
      · exact hp
      · rfl
      · intro r hr
        have hm := (hperm.mem_iff).1 hr
        obtain ⟨hm1, hm2⟩ := List.mem_filter.1 hm
        simp only [decide_eq_true_eq] at hm2
        exact ⟨hm1, hm2.1, by simpa using hm2.2.1, Int.le_trans hm2.2.2 hl⟩
      · have h1 : ((s.reqs.filter (fun r => r.zone ≠ 0 ∧ r.zone == zone ∧ r.prio ≤ limit)).map (·.id)).Nodup :=
          (List.filter_sublist.map _).nodup hnd
        exact ((hperm.map _).nodup_iff).2 h1

theorem ocCell_pres (s : St) (hnd : IdsNodup s) (hp : P s) (oc : List (Mask × Int)) (hoc : ∀ z ∈ oc, touches nodes0 z.1)
    (prio : Int) (hl : prio ≤ 32766) (types : Nat) :
    IdsNodup (s.ocCell nodes0 oc prio types).1 ∧ P (s.ocCell nodes0 oc prio types).1 := by
  unfold St.ocCell
  apply foldl_inv_mem (fun (acc : St × Int) => IdsNodup acc.1 ∧ P acc.1)
  · intro acc z hz h
    exact zoneShrinkUsage_pres nodes0 P hamb hmove acc.1 h.1 h.2 z.1 (hoc z hz) _ _ hl _
  · exact ⟨hnd, hp⟩

/-- accumulator invariant of the double loop -/
def AccOK (acc : St × List (Mask × Int) × Int × Bool × Nat) : Prop :=
  IdsNodup acc.1 ∧ P acc.1 ∧ ∀ z ∈ acc.2.1, touches nodes0 z.1

theorem ocStep_pres (acc : St × List (Mask × Int) × Int × Bool × Nat) (c : Int × Nat) (hc : c.1 ≤ 32766)
    (h : AccOK nodes0 P acc) : AccOK nodes0 P (St.ocStep nodes0 acc c) := by
  unfold St.ocStep
  split
  · exact h
  · simp only []
    split
    · exact h
    · have hcell := ocCell_pres nodes0 P hamb hmove acc.1 h.1 h.2.1 acc.2.1 h.2.2 c.1 hc
      refine ⟨(hcell _).1, hamb _ _ (hcell _).2, ?_⟩
      exact checkOvercommit_touch nodes0 _

theorem ocPass_pres (s : St) (hnd : IdsNodup s) (hp : P s) (oc : List (Mask × Int)) (hoc : ∀ z ∈ oc, touches nodes0 z.1) :
    IdsNodup (s.ocPass nodes0 oc).1 ∧ P (s.ocPass nodes0 oc).1 ∧ ∀ z ∈ (s.ocPass nodes0 oc).2.1, touches nodes0 z.1 := by
  unfold St.ocPass
  simp only []
  have := foldl_inv_mem (AccOK nodes0 P) (St.ocStep nodes0)
    (allowedPrios.flatMap (fun p => expandTypes.map (fun e => (p, e)))) (s, oc, 0, false, 0)
    (by
      intro a c hc h
      apply ocStep_pres nodes0 P hamb hmove a c _ h
      obtain ⟨p, hp, hm⟩ := List.mem_flatMap.1 hc
      obtain ⟨e, _, he⟩ := List.mem_map.1 hm
      subst he
      simp only [allowedPrios, List.mem_cons, List.not_mem_nil, or_false] at hp
      rcases hp with h | h | h <;> subst h <;> simp)
    ⟨hnd, hp, hoc⟩
  exact this

theorem resolveOvercommit_pres :
    ∀ (fuel : Nat) (s : St) (oc : List (Mask × Int)), IdsNodup s → P s → (∀ z ∈ oc, touches nodes0 z.1) →
      IdsNodup (s.resolveOvercommit nodes0 fuel oc).1 ∧ P (s.resolveOvercommit nodes0 fuel oc).1 := by
  intro fuel
  induction fuel with
  | zero => intro s oc hnd hp _; simpa [St.resolveOvercommit] using ⟨hnd, hp⟩
  | succ n ih =>
    intro s oc hnd hp hoc
    unfold St.resolveOvercommit
    have hpass := ocPass_pres nodes0 P hamb hmove s hnd hp oc hoc
    simp only []
    split
    · exact ⟨hpass.1, hpass.2.1⟩
    · split
      · exact ⟨hpass.1, hpass.2.1⟩
      · exact ih _ _ hpass.1 hpass.2.1 hpass.2.2

/-- **The combinator.** A predicate closed under the single primitive of overcommit resolution
(moving a current user of an overcommitted zone that intersects `nodes0`, of priority below
Reservation, to a strict superset of its zone) is preserved by `handleOvercommit`. -/
theorem handleOvercommit_pres (s : St) (hnd : IdsNodup s) (hp : P s) :
    IdsNodup (s.handleOvercommit nodes0).1 ∧ P (s.handleOvercommit nodes0).1 := by
  unfold St.handleOvercommit
  simp only []
  split
  · exact ⟨hnd, hamb _ _ hp⟩
  · exact resolveOvercommit_pres nodes0 P hamb hmove _ _ _ hnd (hamb _ _ hp) (checkOvercommit_touch nodes0 s)

end Combinator

end Nri.LibMem
