import Nri.Model.LibMem
import Nri.Proofs.LibMem
import Nri.Proofs.LibMemInv
import Nri.Proofs.LibMemTrack
import Nri.Proofs.LibMemUpd
import Nri.Proofs.LibMemCommit
/-!
C06: committing a fresh offer leaves the allocator with exactly the assignments a direct
`Allocate` leaves.  `Commit` replays the offer's update map; the map has unique keys and is
exact, so the replay reproduces the zones of the internal `allocate`.  Core Lean only.
-/
namespace Nri.LibMem

def setz (id : String) (z : Mask) (q : Req) : Req := if q.id == id then { q with zone := z } else q

/-- override the zones of a request list by an update map -/
def ov (U : List (String × Mask)) (q : Req) : Req :=
  match alGet U q.id with
  | some z => { q with zone := z }
  | none => q

theorem alGet_cons (p : String × Mask) (U : List (String × Mask)) (k : String) :
    alGet (p :: U) k = if p.1 == k then some p.2 else alGet U k := by
  unfold alGet
  simp only [List.find?_cons]
  cases h : (p.1 == k) <;> simp

theorem alGet_none_of_not_mem (U : List (String × Mask)) (k : String) (h : k ∉ U.map (·.1)) : alGet U k = none := by
  cases hg : alGet U k with
  | none => rfl
  | some z =>
    exfalso; apply h
    exact (alGet_isSome_iff U k).1 (by rw [hg]; rfl)

/-- one replayed update composed with the rest of the map -/
theorem ov_setz (id : String) (z : Mask) (U : List (String × Mask)) (hid : id ∉ U.map (·.1)) (q : Req) :
    ov U (setz id z q) = ov ((id, z) :: U) q := by
  unfold ov setz
  by_cases e : q.id = id
  · have hb : (q.id == id) = true := by simp [e]
    simp only [hb, if_true]
    rw [alGet_cons]
    have hb2 : ((id, z).1 == q.id) = true := by simp [e]
    simp only [hb2, if_true]
    have : alGet U q.id = none := by rw [e]; exact alGet_none_of_not_mem U id hid
    rw [this]
  · have hb : (q.id == id) = false := by simp [e]
    simp only [hb, Bool.false_eq_true, if_false]
    rw [alGet_cons]
    have hb2 : ((id, z).1 == q.id) = false := by simp [Ne.symm e]
    simp only [hb2, Bool.false_eq_true, if_false]

theorem zoneAssign_reqs_map (t : St) (z : Mask) (id : String) : (t.zoneAssign z id).reqs = t.reqs.map (setz id z) := rfl

theorem map_setz_absent (l : List Req) (id : String) (z : Mask) (h : id ∉ l.map (·.id)) : l.map (setz id z) = l := by
  have : ∀ q ∈ l, setz id z q = q := by
    intro q hq
    unfold setz
    have : q.id ≠ id := by intro e; apply h; rw [← e]; exact List.mem_map_of_mem hq
    simp [this]
  calc l.map (setz id z) = l.map _root_.id := List.map_congr_left this
    _ = l := List.map_id l

theorem zoneMove_reqs_map (t : St) (hnd : IdsNodup t) (z : Mask) (id : String) :
    (t.zoneMove z id).reqs = t.reqs.map (setz id z) := by
  cases hr : t.req? id with
  | none =>
    have : t.zoneMove z id = t := by unfold St.zoneMove; simp [hr]
    rw [this, map_setz_absent t.reqs id z (req?_none_not_mem t id hr)]
  | some r =>
    have hrm : r ∈ t.reqs := List.mem_of_find?_eq_some hr
    have hrid : r.id = id := by have := List.find?_some hr; simpa using this
    subst hrid
    by_cases hne : r.zone = z
    · -- same zone: nothing changes, and setting the same zone is the identity
      have hsame : t.reqs.map (setz r.id z) = t.reqs := by
        have : ∀ q ∈ t.reqs, setz r.id z q = q := by
          intro q hq
          unfold setz
          by_cases e : q.id = r.id
          · have hq' := req?_of_mem_nodup t hnd q hq
            rw [e, hr] at hq'
            have : q = r := (Option.some.inj hq').symm
            subst this
            simp only [beq_self_eq_true, if_true]
            cases q; simp only at hne; subst hne; rfl
          · simp [e]
        calc t.reqs.map (setz r.id z) = t.reqs.map id := List.map_congr_left this
          _ = t.reqs := List.map_id _
      rw [hsame]
      by_cases hz : r.zone ≠ 0
      · rw [← hne, zoneMove_noop t hnd r hrm hz]
      · have hz0 : r.zone = 0 := by simpa using hz
        unfold St.zoneMove
        simp only [hr]
        rw [if_neg hz]
        rw [zoneAssign_reqs_map, hsame]
    · exact zoneMove_reqs_eq t hnd r hrm z hne

/-- replay with the requester already present: every step is a zone overwrite -/
theorem replay_present (req : Req) :
    ∀ (U : List (String × Mask)) (t : St), IdsNodup t → (U.map (·.1)).Nodup → (t.req? req.id).isSome →
      (U.foldl (commitStep req) t).reqs = t.reqs.map (ov U) ∧ IdsNodup (U.foldl (commitStep req) t) := by
  intro U
  induction U with
  | nil =>
    intro t hnd _ _
    refine ⟨?_, hnd⟩
    show t.reqs = _
    have : ∀ q ∈ t.reqs, ov [] q = q := by intro q _; simp [ov, alGet]
    calc t.reqs = t.reqs.map id := (List.map_id _).symm
      _ = t.reqs.map (ov []) := (List.map_congr_left this).symm
  | cons p U ih =>
    intro t hnd hU hpres
    simp only [List.map_cons, List.nodup_cons] at hU
    simp only [List.foldl_cons]
    have hstep : (commitStep req t p).reqs = t.reqs.map (setz p.1 p.2) ∧ IdsNodup (commitStep req t p) ∧
        ((commitStep req t p).req? req.id).isSome := by
      have hids : ∀ (t' : St), t'.reqs = t.reqs.map (setz p.1 p.2) → IdsNodup t' ∧ (t'.req? req.id).isSome := by
        intro t' h
        have hm : t'.reqs.map (·.id) = t.reqs.map (·.id) := by
          rw [h, List.map_map]; apply List.map_congr_left; intro q _; simp only [Function.comp, setz]; split <;> rfl
        refine ⟨by unfold IdsNodup; rw [hm]; exact hnd, ?_⟩
        have h1 : req.id ∈ t.reqs.map (·.id) := by
          cases hq : t.req? req.id with
          | none => simp [hq] at hpres
          | some q =>
            have := List.find?_some hq
            have hqm := List.mem_of_find?_eq_some hq
            have e : q.id = req.id := by simpa using this
            rw [← e]; exact List.mem_map_of_mem hqm
        cases hq : t'.req? req.id with
        | some _ => rfl
        | none => exact absurd (by rw [hm]; exact h1) (req?_none_not_mem t' req.id hq)
      unfold commitStep
      split
      · rename_i hp
        have hpid : p.1 = req.id := by simpa using hp
        have hpres' : (t.req? p.1).isSome = true := by rw [hpid]; exact hpres
        simp only [hpres', if_true]
        have h := zoneAssign_reqs_map t p.2 p.1
        exact ⟨h, hids _ h⟩
      · split
        · have h := zoneMove_reqs_map t hnd p.2 p.1
          exact ⟨h, hids _ h⟩
        · rename_i _ habs
          have hnone : t.req? p.1 = none := by
            cases hq : t.req? p.1 with
            | none => rfl
            | some _ => simp [hq] at habs
          have h : t.reqs = t.reqs.map (setz p.1 p.2) := (map_setz_absent t.reqs p.1 p.2 (req?_none_not_mem t p.1 hnone)).symm
          exact ⟨h, hids t h⟩
    obtain ⟨h1, h2, h3⟩ := hstep
    obtain ⟨ih1, ih2⟩ := ih (commitStep req t p) h2 hU.2 h3
    refine ⟨?_, ih2⟩
    rw [ih1, h1, List.map_map]
    apply List.map_congr_left
    intro q _
    simp only [Function.comp]
    exact ov_setz p.1 p.2 U hU.1 q

theorem List.map_append_singleton_setz (l : List Req) (req : Req) (id : String) (z : Mask) (hne : id ≠ req.id) :
    (l ++ [{ req with zone := 0 }]).map (setz id z) = l.map (setz id z) ++ [{ req with zone := 0 }] := by
  rw [List.map_append]
  congr 1
  simp only [List.map_cons, List.map_nil, setz]
  have : ((({ req with zone := 0 } : Req).id) == id) = false := by
    show (req.id == id) = false
    simp [Ne.symm hne]
  simp [this]

/-- replay with the requester absent and named by the map: it is appended once, everything
else is a zone overwrite -/
theorem replay_absent (req : Req) :
    ∀ (U : List (String × Mask)) (t : St), IdsNodup t → (U.map (·.1)).Nodup → t.req? req.id = none →
      req.id ∈ U.map (·.1) →
      (U.foldl (commitStep req) t).reqs = (t.reqs ++ [{ req with zone := 0 }]).map (ov U) := by
  intro U
  induction U with
  | nil => intro t _ _ _ hin; cases hin
  | cons p U ih =>
    intro t hnd hU hnone hin
    simp only [List.map_cons, List.nodup_cons] at hU
    simp only [List.foldl_cons]
    by_cases hp : (p.1 == req.id) = true
    · -- the requester's own entry: append and assign, then only overwrites remain
      have hpid : p.1 = req.id := by simpa using hp
      have hstep : (commitStep req t p).reqs = (t.reqs ++ [{ req with zone := 0 }]).map (setz p.1 p.2) := by
        unfold commitStep
        simp only [hp, if_true]
        have : (t.req? p.1).isSome = false := by rw [hpid, hnone]; rfl
        simp only [this, Bool.false_eq_true, if_false]
        rfl
      have hids : (commitStep req t p).reqs.map (fun (q : Req) => q.id) = (t.reqs ++ [({ req with zone := 0 } : Req)]).map (fun (q : Req) => q.id) := by
        rw [hstep, List.map_map]; apply List.map_congr_left; intro q _; simp only [Function.comp, setz]; split <;> rfl
      have hnd1 : IdsNodup (commitStep req t p) := by
        unfold IdsNodup; rw [hids]
        simp only [List.map_append, List.map_cons, List.map_nil]
        rw [List.nodup_append]
        refine ⟨hnd, by simp, ?_⟩
        intro a ha b' hb'
        simp at hb'; subst hb'
        intro e; subst e
        exact req?_none_not_mem t _ hnone ha
      have hpres1 : ((commitStep req t p).req? req.id).isSome := by
        cases hq : (commitStep req t p).req? req.id with
        | some _ => rfl
        | none =>
          exfalso
          apply req?_none_not_mem _ _ hq
          show req.id ∈ (commitStep req t p).reqs.map (fun (q : Req) => q.id)
          rw [hids, List.map_append]
          apply List.mem_append_right
          simp
      obtain ⟨h1, _⟩ := replay_present req U (commitStep req t p) hnd1 hU.2 hpres1
      rw [h1, hstep, List.map_map]
      apply List.map_congr_left
      intro q _
      simp only [Function.comp]
      exact ov_setz p.1 p.2 U hU.1 q
    · have hpne : p.1 ≠ req.id := by simpa using hp
      have hb : (p.1 == req.id) = false := by simpa using hp
      have hstep : (commitStep req t p).reqs = t.reqs.map (setz p.1 p.2) := by
        unfold commitStep
        simp only [hb, Bool.false_eq_true, if_false]
        split
        · exact zoneMove_reqs_map t hnd p.2 p.1
        · rename_i habs
          have hnone' : t.req? p.1 = none := by
            cases hq : t.req? p.1 with
            | none => rfl
            | some _ => simp [hq] at habs
          exact (map_setz_absent t.reqs p.1 p.2 (req?_none_not_mem t p.1 hnone')).symm
      have hids : (commitStep req t p).reqs.map (·.id) = t.reqs.map (·.id) := by
        rw [hstep, List.map_map]; apply List.map_congr_left; intro q _; simp only [Function.comp, setz]; split <;> rfl
      have hnd1 : IdsNodup (commitStep req t p) := by unfold IdsNodup; rw [hids]; exact hnd
      have hnone1 : (commitStep req t p).req? req.id = none := by
        cases hq : (commitStep req t p).req? req.id with
        | none => rfl
        | some q =>
          exfalso
          have hqm := List.mem_of_find?_eq_some hq
          have hqid : q.id = req.id := by have := List.find?_some hq; simpa using this
          apply req?_none_not_mem t _ hnone
          rw [← hids, ← hqid]; exact List.mem_map_of_mem hqm
      have hin1 : req.id ∈ U.map (·.1) := by
        simp only [List.map_cons, List.mem_cons] at hin
        rcases hin with e | h
        · exact absurd e.symm hpne
        · exact h
      rw [ih (commitStep req t p) hnd1 hU.2 hnone1 hin1, hstep, ← List.map_append_singleton_setz t.reqs req p.1 p.2 hpne, List.map_map]
      apply List.map_congr_left
      intro q _
      simp only [Function.comp]
      exact ov_setz p.1 p.2 U hU.1 q

/-! ### the update map has unique keys -/

theorem alSet_keys_nodup (l : List (String × Mask)) (k : String) (v : Mask) (h : (l.map (·.1)).Nodup) :
    ((alSet l k v).map (·.1)).Nodup := by
  unfold alSet
  split
  · have : (l.map (fun p => if p.1 == k then (k, v) else p)).map (·.1) = l.map (·.1) := by
      rw [List.map_map]
      apply List.map_congr_left
      intro p _
      simp only [Function.comp]
      by_cases e : (p.1 == k) = true
      · simp only [e, if_true]; exact (by simpa using e : p.1 = k).symm
      · simp [e]
    rw [this]; exact h
  · rename_i hnot
    rw [List.map_append, List.nodup_append]
    refine ⟨h, by simp, ?_⟩
    intro a ha b hb
    simp at hb; subst hb
    intro e; subst e
    apply hnot
    obtain ⟨p, hp, hpk⟩ := List.mem_map.1 ha
    exact List.any_eq_true.2 ⟨p, hp, by simp [hpk]⟩

def KN (s : St) : Prop := ∃ j, s.journal = some j ∧ (j.updates.map (·.1)).Nodup

theorem kn_move (nodes0 : Mask) (s : St) (r : Req) (nodes : Mask) (h : KN s) (hm : MoveOK s nodes0 r nodes) :
    KN (s.zoneMove (r.zone ||| nodes) r.id) := by
  obtain ⟨j, hj, hn⟩ := h
  have ht : r.zone ||| nodes ≠ 0 := by
    intro e; exact hm.zone (Nat.or_eq_zero_iff.1 e).1
  obtain ⟨j', hj', hups⟩ := zoneMove_journal s hm.ids r hm.mem (r.zone ||| nodes) ht j hj
  refine ⟨j', hj', ?_⟩
  rw [hups]
  split
  · exact hn
  · exact alSet_keys_nodup _ _ _ hn

theorem handleOvercommit_kn (s : St) (nodes0 : Mask) (hnd : IdsNodup s) (h : KN s) : KN (s.handleOvercommit nodes0).1 :=
  (handleOvercommit_pres nodes0 KN (fun _ _ h => h) (fun s r nodes h hm => kn_move nodes0 s r nodes h hm) s hnd h).2

theorem allocate_kn (s : St) (hw : WF s) (r r' : Req) (h : (s.allocate r).2 = .ok r') : KN (s.allocate r).1 := by
  obtain ⟨hnone, hnorm, _, _, _, heq⟩ := allocate_ok_eq s r r' h
  have hz : r'.zone ≠ 0 := and_ne_zero_left hnorm
  rw [heq]
  have hbnd : IdsNodup (withNew s r') := withNew_ids_nodup s hw r' hnone
  have hb0 : IdsNodup (withNew s r').startJournal := hbnd
  have hmem0 : ({ r' with zone := 0 } : Req) ∈ (withNew s r').startJournal.reqs := by
    simp [withNew, St.startJournal]
  have hne0 : ({ r' with zone := 0 } : Req).zone ≠ r'.zone := fun e => hz e.symm
  obtain ⟨j', hj', hups⟩ := zoneMove_journal (withNew s r').startJournal hb0 { r' with zone := 0 } hmem0 r'.zone hz {} rfl
  rw [if_neg hne0] at hups
  have hnd1 : IdsNodup ((withNew s r').startJournal.zoneMove r'.zone r'.id) := by
    unfold IdsNodup; rw [zoneMove_ids]; exact hbnd
  apply handleOvercommit_kn _ _ hnd1
  refine ⟨j', hj', ?_⟩
  rw [hups]
  exact alSet_keys_nodup _ _ _ (by simp)

/-! ### the theorem -/

theorem GetOffer_reqs (s : St) (hw : WF s) (r : Req) : (s.GetOffer r).1.reqs = s.reqs := by
  have hs := allocate_spec s hw r
  unfold St.GetOffer
  cases ha : s.allocate r with
  | mk s' res =>
    rw [ha] at hs
    cases res with
    | error e => exact (hs.1 e rfl).1
    | ok r' =>
      obtain ⟨hg, hnone, _⟩ := hs.2 r' rfl
      have := revert_restores_drop (withNew s r') s' hg (withNew_ids_nodup s hw r' hnone) r'.id
      have hreqs : (s'.revertJournal (some r'.id)).1.reqs = s.reqs := by
        rw [this.2.1]
        exact filter_append_new s.reqs { r' with zone := 0 } (req?_none_not_mem s _ hnone)
      simp only []
      cases hrv : s'.revertJournal (some r'.id) with
      | mk s'' rest =>
        obtain ⟨ups, oe⟩ := rest
        rw [hrv] at hreqs
        cases oe with
        | some e => simp only [St.cleanupUnusedZones]; exact hreqs
        | none => simp only [St.cleanupUnusedZones]; exact hreqs

/-- **Commit of a fresh offer = Allocate (assignments).** The request list - ids, sizes, types
and zones, hence the usage of every node set - after committing a fresh offer is the one a
direct `Allocate` produces. -/
theorem commit_fresh_reqs_eq_allocate (s : St) (hw : WF s) (hp : Placed s) (r : Req) (o : Offer)
    (h : (s.GetOffer r).2 = .ok o) :
    ((s.GetOffer r).1.Commit o).1.reqs = (s.Allocate r).1.reqs := by
  obtain ⟨r', j, ha, hj, hups, hreq, hver⟩ := getOffer_ok_shape s hw r o h
  obtain ⟨hnone, _, _, _, _, _⟩ := allocate_ok_eq s r r' ha
  obtain ⟨hndF, htrack, ⟨j2, hj2, h1, h2⟩⟩ := allocate_tu s hw hp r r' ha
  have hjj : j2 = j := by rw [hj] at hj2; exact (Option.some.inj hj2).symm
  subst hjj
  obtain ⟨j3, hj3, hkn⟩ := allocate_kn s hw r r' ha
  have hjj3 : j3 = j2 := by rw [hj] at hj3; exact (Option.some.inj hj3).symm
  subst hjj3
  obtain ⟨hg, _, _⟩ := (allocate_spec s hw r).2 r' ha
  obtain ⟨⟨Z, jj, hreqs, _⟩, _, _⟩ := hg
  have hbnd : IdsNodup (withNew s r') := withNew_ids_nodup s hw r' hnone
  -- the right-hand side
  have hres : ∃ res, (s.Allocate r).2 = .ok res := ⟨_, Allocate_ok_result s r r' j3 ha hj⟩
  obtain ⟨res, hres⟩ := hres
  obtain ⟨r'', ha'', hAreqs, _⟩ := Allocate_ok_shape s r res hres
  rw [hAreqs, hreqs]
  -- the left-hand side: the replay
  have hs1reqs := GetOffer_reqs s hw r
  have hs1nd : IdsNodup (s.GetOffer r).1 := by unfold IdsNodup; rw [hs1reqs]; exact hw.ids
  have hs1none : (s.GetOffer r).1.req? o.req.id = none := by
    rw [hreq]; show (s.GetOffer r).1.req? r'.id = none
    unfold St.req?; rw [hs1reqs]; exact hnone
  have hv1 : (s.GetOffer r).1.version = s.version := GetOffer_version s hw r
  have hne : ¬ (o.version ≠ (s.GetOffer r).1.version) := by rw [hver, hv1]; simp
  have hmemb : ({ r' with zone := 0 } : Req) ∈ (withNew s r').reqs := by simp [withNew]
  have hq0 : withZone Z { r' with zone := 0 } ∈ (s.allocate r).1.reqs := by rw [hreqs]; exact List.mem_map_of_mem hmemb
  have hzb : zoneIn (withNew s r') r'.id = 0 :=
    zoneIn_of_mem (withNew s r') hbnd ({ r' with zone := 0 } : Req) hmemb
  have hin : o.req.id ∈ o.updates.map (·.1) := by
    rw [hups, hreq]
    apply (alGet_isSome_iff _ _).1
    have hqz : (withZone Z { r' with zone := 0 }).zone ≠ 0 := and_ne_zero_left (htrack.normal _ hq0)
    have := h1 _ hq0 (by show (withZone Z { r' with zone := 0 }).zone ≠ zoneIn (withNew s r') r'.id; rw [hzb]; exact hqz)
    show (alGet j3.updates r'.id).isSome = true
    have e : (withZone Z { r' with zone := 0 }).id = r'.id := rfl
    rw [e] at this; rw [this]; rfl
  rw [commit_eq, if_neg hne]
  show (o.updates.foldl (commitStep o.req) (s.GetOffer r).1).reqs = _
  rw [replay_absent o.req o.updates _ hs1nd (by rw [hups]; exact hkn) hs1none hin, hs1reqs, hups, hreq]
  show (s.reqs ++ [({ r' with zone := 0 } : Req)]).map (ov j3.updates) = (withNew s r').reqs.map (withZone Z)
  apply List.map_congr_left
  intro q hq
  have hqb : q ∈ (withNew s r').reqs := hq
  have hqF : withZone Z q ∈ (s.allocate r).1.reqs := by rw [hreqs]; exact List.mem_map_of_mem hqb
  unfold ov
  cases hg' : alGet j3.updates q.id with
  | some z =>
    simp only []
    obtain ⟨q2, hq2, hq2id, hq2z, _⟩ := h2 q.id z hg'
    have e1 := req?_of_mem_nodup _ hndF q2 hq2
    have e2 := req?_of_mem_nodup _ hndF (withZone Z q) hqF
    have e3 : (withZone Z q).id = q.id := rfl
    rw [hq2id] at e1; rw [e3] at e2
    have : q2 = withZone Z q := by rw [e1] at e2; exact Option.some.inj e2
    rw [this] at hq2z
    show ({ q with zone := z } : Req) = withZone Z q
    unfold withZone at hq2z ⊢
    simp only at hq2z
    rw [hq2z]
  | none =>
    simp only []
    have hsame : (withZone Z q).zone = zoneIn (withNew s r') (withZone Z q).id := by
      apply Classical.byContradiction
      intro hne'
      have := h1 _ hqF hne'
      have e3 : (withZone Z q).id = q.id := rfl
      rw [e3, hg'] at this
      cases this
    have e3 : (withZone Z q).id = q.id := rfl
    rw [e3, zoneIn_of_mem _ hbnd q hqb] at hsame
    show q = withZone Z q
    unfold withZone at hsame ⊢
    simp only at hsame
    rw [hsame]

end Nri.LibMem
