import Nri.Model.PipeLife
/-! Helper lemmas for the life-cycle pipeline model (C05): per-container reasoning. -/
namespace Nri.PipeLife

/-- all writes of a list, seen from one container -/
def writesTo (c : Ctr) (ws : List Write) : Ctr :=
  ws.foldl (fun c w => if c.id = w.ctr then setField c w.field w.value else c) c

@[simp] theorem setField_id (c : Ctr) (i : Nat) (v : String) : (setField c i v).id = c.id := rfl
@[simp] theorem setField_state (c : Ctr) (i : Nat) (v : String) : (setField c i v).state = c.state := rfl
@[simp] theorem setField_told (c : Ctr) (i : Nat) (v : String) : (setField c i v).told = c.told := rfl

theorem writesTo_id (ws : List Write) : ∀ c : Ctr, (writesTo c ws).id = c.id := by
  induction ws with
  | nil => intro c; rfl
  | cons w ws ih =>
    intro c
    simp only [writesTo, List.foldl_cons] at ih ⊢
    rw [ih]
    split <;> rfl

theorem writesTo_state (ws : List Write) : ∀ c : Ctr, (writesTo c ws).state = c.state := by
  induction ws with
  | nil => intro c; rfl
  | cons w ws ih =>
    intro c
    simp only [writesTo, List.foldl_cons] at ih ⊢
    rw [ih]
    split <;> rfl

theorem map_ids {g : Ctr → Ctr} (hg : ∀ c, (g c).id = c.id) (s : St) : (s.map g).map (·.id) = s.map (·.id) := by
  induction s with
  | nil => rfl
  | cons c s ih => simp only [List.map_cons, hg, ih]

theorem applyWrite_eq (s : St) (w : Write) :
    applyWrite s w = s.map (fun c => writesTo c [w]) := rfl

theorem applyWrites_eq (ws : List Write) : ∀ s : St, applyWrites s ws = s.map (fun c => writesTo c ws) := by
  induction ws with
  | nil => intro s; simp [applyWrites, writesTo]
  | cons w ws ih =>
    intro s
    have h := ih (applyWrite s w)
    simp only [applyWrites, List.foldl_cons] at h ⊢
    rw [h, applyWrite_eq, List.map_map]
    rfl

theorem setField_inv (c : Ctr) (i : Nat) (v : String) (h : CtrInv c) : CtrInv (setField c i v) := by
  cases hr : c.req with
  | none =>
    refine ⟨?_, ?_, ?_, ?_⟩
    · intro hd
      have ha : ∀ j, c.told j = c.cache j := by have := h.agree hd; simp only [Agree, hr] at this; exact this
      simp only [Agree, setField, hr]
      intro j
      by_cases hj : j = i
      · simp [upd, hj]
      · simp [upd, hj]; exact ha j
    · intro _; rfl
    · intro f hf
      simp only [setField, hr, Option.some.injEq, Prod.mk.injEq] at hf
      by_cases hs : c.state = .creating
      · simp [isLive, hs]
      · simp [hs] at hf
    · intro hs f hf
      simp only [setField_state] at hs
      simp only [setField, hr, Option.some.injEq, Prod.mk.injEq, hs, if_true] at hf
      exact absurd hf.1 (by decide)
  | some r =>
    obtain ⟨k, f⟩ := r
    refine ⟨?_, ?_, ?_, ?_⟩
    · intro hd
      have ha : ∀ j, (f j = none → c.told j = c.cache j) ∧ (∀ v, f j = some v → c.cache j = v) := by
        have := h.agree hd; simp only [Agree, hr] at this; exact this
      simp only [Agree, setField, hr]
      intro j
      by_cases hj : j = i
      · simp [upd, hj]
      · simp [upd, hj]; exact ha j
    · intro _; rfl
    · intro f' hf
      simp only [setField, hr, Option.some.injEq, Prod.mk.injEq] at hf
      exact h.adjNotLive f (by rw [hr, hf.1])
    · intro hs f' hf
      simp only [setField_state] at hs
      simp only [setField, hr, Option.some.injEq, Prod.mk.injEq] at hf
      exact h.creatingNoUpd hs f (by rw [hr, hf.1])

theorem writesTo_inv (ws : List Write) : ∀ c : Ctr, CtrInv c → CtrInv (writesTo c ws) := by
  induction ws with
  | nil => intro c h; exact h
  | cons w ws ih =>
    intro c h
    simp only [writesTo, List.foldl_cons] at ih ⊢
    apply ih
    split
    · exact setField_inv c _ _ h
    · exact h

/-- a container nobody writes to is unchanged -/
theorem writesTo_untouched (ws : List Write) : ∀ c : Ctr, (∀ w ∈ ws, w.ctr ≠ c.id) → writesTo c ws = c := by
  induction ws with
  | nil => intro c _; rfl
  | cons w ws ih =>
    intro c h
    simp only [writesTo, List.foldl_cons] at ih ⊢
    have hw : ¬ c.id = w.ctr := fun e => h w (List.mem_cons_self) e.symm
    simp only [hw, if_false]
    exact ih c (fun w' hw' => h w' (List.mem_cons_of_mem _ hw'))

/-- writes never turn a waiting adjustment into an update or vice versa, and a container that is
not `creating` never gets an adjustment from a write -/
theorem setField_update_kind (c : Ctr) (i : Nat) (v : String) (f : Fields)
    (h : (setField c i v).req = some (.update, f)) :
    (∃ f0, c.req = some (.update, f0)) ∨ (c.req = none ∧ c.state ≠ .creating) := by
  cases hr : c.req with
  | none =>
    right
    refine ⟨rfl, ?_⟩
    intro hs
    simp only [setField, hr, hs, if_true, Option.some.injEq, Prod.mk.injEq] at h
    exact absurd h.1 (by decide)
  | some r =>
    obtain ⟨k, f0⟩ := r
    left
    simp only [setField, hr, Option.some.injEq, Prod.mk.injEq] at h
    exact ⟨f0, by rw [h.1]⟩

theorem writesTo_update_kind (ws : List Write) : ∀ (c : Ctr) (f : Fields),
    (writesTo c ws).req = some (.update, f) →
    (∃ f0, c.req = some (.update, f0)) ∨ (c.state ≠ .creating ∧ ∃ w ∈ ws, w.ctr = c.id) := by
  induction ws with
  | nil => intro c f h; exact Or.inl ⟨f, h⟩
  | cons w ws ih =>
    intro c f h
    simp only [writesTo, List.foldl_cons] at ih h
    by_cases hw : c.id = w.ctr
    · simp only [hw, if_true] at h
      have hw' : c.id = w.ctr := hw
      rcases ih _ f (by simpa [hw'] using h) with ⟨f0, h0⟩ | ⟨hs, _⟩
      · have h0' : (setField c w.field w.value).req = some (.update, f0) := by simpa [hw'] using h0
        rcases setField_update_kind c _ _ f0 h0' with hl | ⟨_, hs⟩
        · exact Or.inl hl
        · exact Or.inr ⟨hs, w, List.mem_cons_self, hw.symm⟩
      · exact Or.inr ⟨by simpa using hs, w, List.mem_cons_self, hw.symm⟩
    · simp only [hw, if_false] at h
      rcases ih c f h with hl | ⟨hs, w', hw', e⟩
      · exact Or.inl hl
      · exact Or.inr ⟨hs, w', List.mem_cons_of_mem _ hw', e⟩

/-! ### delivery -/

theorem takeAdjustment_id (c : Ctr) : (takeAdjustment c).1.id = c.id := by
  unfold takeAdjustment; split <;> rfl
theorem takeAdjustment_state (c : Ctr) : (takeAdjustment c).1.state = c.state := by
  unfold takeAdjustment; split <;> rfl
theorem takeAdjustment_req (c : Ctr) : (takeAdjustment c).1.req = none := by
  unfold takeAdjustment; split <;> rfl

theorem takeUpdate_id (skip : Option String) (c : Ctr) : (takeUpdate skip c).1.id = c.id := by
  unfold takeUpdate; split; rfl; split; rfl; split <;> rfl
theorem takeUpdate_state (skip : Option String) (c : Ctr) : (takeUpdate skip c).1.state = c.state := by
  unfold takeUpdate; split; rfl; split; rfl; split <;> rfl

theorem takeUpdate_msg_id (skip : Option String) (c : Ctr) (m : Msg) (h : (takeUpdate skip c).2 = some m) : m.id = c.id := by
  unfold takeUpdate at h
  split at h; · cases h
  split at h; · cases h
  split at h
  · simp only [Option.some.injEq] at h; rw [← h]
  · cases h
  · cases h

theorem takeUpdate_msg_not_skip (skip : Option String) (c : Ctr) (m : Msg) (h : (takeUpdate skip c).2 = some m) : skip ≠ some c.id := by
  unfold takeUpdate at h
  split at h; · cases h
  split at h; · cases h
  · assumption

theorem takeUpdate_msg_req (skip : Option String) (c : Ctr) (m : Msg) (h : (takeUpdate skip c).2 = some m) :
    c.req = some (.update, m.fields) := by
  unfold takeUpdate at h
  split at h; · cases h
  split at h; · cases h
  split at h
  · rename_i f hr
    simp only [Option.some.injEq] at h; rw [← h]; exact hr
  · cases h
  · cases h

theorem agree_overlay (c : Ctr) (k : Kind) (f : Fields) (hr : c.req = some (k, f)) (h : Agree c) :
    ∀ i, overlay c.told f i = c.cache i := by
  intro i
  simp only [Agree, hr] at h
  simp only [overlay]
  cases hf : f i with
  | none => exact (h i).1 hf
  | some v => exact ((h i).2 v hf).symm

theorem dead_of_not (st : CState) (h1 : isLive st = false) (h2 : st ≠ .creating) : isDead st = true := by
  cases st <;> simp_all [isLive, isDead]

theorem live_not_dead (st : CState) (h : isLive st = true) : isDead st = false := by
  cases st <;> simp_all [isLive, isDead]

theorem takeAdjustment_inv (c : Ctr) (h : CtrInv c) (hd : isDead c.state = false) (hk : ∀ f, c.req ≠ some (.update, f)) :
    CtrInv (takeAdjustment c).1 ∧ Clean (takeAdjustment c).1 := by
  unfold takeAdjustment
  split
  · rename_i f hr
    have ho := agree_overlay c _ f hr (h.agree hd)
    refine ⟨⟨fun _ => ?_, fun hn => absurd rfl hn, fun _ hf => ?_, fun _ _ hf => ?_⟩, rfl, ho⟩
    · simpa [Agree] using ho
    · cases hf
    · cases hf
  · rename_i f hr; exact absurd hr (hk f)
  · rename_i hr
    have ha : ∀ i, c.told i = c.cache i := by have := h.agree hd; simp only [Agree, hr] at this; exact this
    refine ⟨⟨fun _ => ?_, fun hn => absurd rfl hn, fun _ hf => ?_, fun _ _ hf => ?_⟩, rfl, ha⟩
    · simpa [Agree] using ha
    · cases hf
    · cases hf

theorem takeUpdate_inv (skip : Option String) (c : Ctr) (h : CtrInv c) (hs : c.state ≠ .creating) : CtrInv (takeUpdate skip c).1 := by
  unfold takeUpdate
  split; · exact h
  split; · exact h
  split
  · rename_i f hr
    refine ⟨fun hd => ?_, fun hn => absurd rfl hn, fun _ hf => ?_, fun _ _ hf => ?_⟩
    · have ho := agree_overlay c _ f hr (h.agree hd)
      simpa [Agree] using ho
    · cases hf
    · cases hf
  · rename_i f hr
    -- a mismatching (adjustment) request is dropped: only possible for a container that is not live
    have hdead := dead_of_not c.state (h.adjNotLive f hr) hs
    refine ⟨fun hd => ?_, fun hn => absurd rfl hn, fun _ hf => ?_, fun _ _ hf => ?_⟩
    · simp [hdead] at hd
    · cases hf
    · cases hf
  · exact h

/-- after `getPendingUpdates`, a live container that was not skipped has nothing pending and the
runtime has what the cache records -/
theorem takeUpdate_clean (skip : Option String) (c : Ctr) (h : CtrInv c) (hl : isLive c.state = true)
    (hskip : skip ≠ some c.id) : Clean (takeUpdate skip c).1 := by
  have hd := live_not_dead _ hl
  unfold takeUpdate
  by_cases hm : (!c.marked) = true
  · rw [if_pos hm]
    have hr : c.req = none := by
      cases hr : c.req with
      | none => rfl
      | some r => have := h.marked (by simp [hr]); simp [this] at hm
    have := h.agree hd; simp only [Agree, hr] at this
    exact ⟨hr, this⟩
  · rw [if_neg hm, if_neg hskip]
    split
    · rename_i f hr
      exact ⟨rfl, agree_overlay c _ f hr (h.agree hd)⟩
    · rename_i f hr
      have := h.adjNotLive f hr; simp [hl] at this
    · rename_i hr
      have := h.agree hd; simp only [Agree, hr] at this
      exact ⟨hr, this⟩

theorem setDead_inv (c : Ctr) (st : CState) (hst : isDead st = true) (h : CtrInv c) : CtrInv { c with state := st } :=
  ⟨fun hd => by simp [hst] at hd, h.marked, fun f hf => by cases st <;> simp_all [isDead, isLive],
   fun hs => by cases st <;> simp_all [isDead]⟩

end Nri.PipeLife

namespace Nri.PipeLife

/-! ### state-level lemmas -/

def LiveClean (s : St) : Prop := ∀ c ∈ s, isLive c.state = true → Clean c

theorem inv_map (s : St) (g : Ctr → Ctr) (hn : (s.map (·.id)).Nodup) (hid : ∀ c, (g c).id = c.id)
    (hg : ∀ c ∈ s, CtrInv (g c) ∧ (g c).state ≠ .creating) : Inv (s.map g) := by
  refine ⟨by rw [map_ids hid]; exact hn, ?_, ?_⟩
  · intro c' hc'
    obtain ⟨c, hc, rfl⟩ := List.mem_map.mp hc'
    exact (hg c hc).1
  · intro c' hc'
    obtain ⟨c, hc, rfl⟩ := List.mem_map.mp hc'
    exact (hg c hc).2

theorem ups_ids_sublist (skip : Option String) (s : St) :
    ((takeUpdates skip s).2.map (·.id)).Sublist (s.map (·.id)) := by
  induction s with
  | nil => exact List.Sublist.slnil
  | cons c s ih =>
    simp only [takeUpdates, List.filterMap_cons, List.map_cons] at ih ⊢
    cases hm : (takeUpdate skip c).2 with
    | none => simp only; exact List.Sublist.cons _ ih
    | some m =>
      simp only [List.map_cons]
      rw [takeUpdate_msg_id skip c m hm]
      exact List.Sublist.cons_cons _ ih

theorem ups_nodup (skip : Option String) (s : St) (hn : (s.map (·.id)).Nodup) :
    ((takeUpdates skip s).2.map (·.id)).Nodup := (ups_ids_sublist skip s).nodup hn

theorem ups_not_skip (id : String) (s : St) : ∀ m ∈ (takeUpdates (some id) s).2, m.id ≠ id := by
  intro m hm
  simp only [takeUpdates, List.mem_filterMap] at hm
  obtain ⟨c, _, hc⟩ := hm
  have h1 := takeUpdate_msg_not_skip _ c m hc
  have h2 := takeUpdate_msg_id _ c m hc
  intro e
  exact h1 (by rw [← h2, e])

end Nri.PipeLife

namespace Nri.PipeLife

/-- the flushing tail shared by UpdateContainer, Synchronize and the configuration push -/
theorem flush_all (s : St) (ws : List Write) (h : Inv s) :
    let s' := (takeUpdates none (applyWrites s ws)).1
    Inv s' ∧ LiveClean s' := by
  simp only [takeUpdates, applyWrites_eq, List.map_map]
  refine ⟨inv_map s _ h.nodup (fun c => by simp [Function.comp, takeUpdate_id, writesTo_id]) ?_, ?_⟩
  · intro c hc
    have h1 := writesTo_inv ws c (h.ctr c hc)
    have h2 : (writesTo c ws).state ≠ .creating := by rw [writesTo_state]; exact h.settled c hc
    exact ⟨takeUpdate_inv none _ h1 h2, by simp only [Function.comp, takeUpdate_state]; exact h2⟩
  · intro c' hc' hl
    obtain ⟨c, hc, rfl⟩ := List.mem_map.mp hc'
    simp only [Function.comp] at hl ⊢
    rw [takeUpdate_state] at hl
    exact takeUpdate_clean none _ (writesTo_inv ws c (h.ctr c hc)) hl (by simp)

theorem writes_only (s : St) (ws : List Write) (h : Inv s) : Inv (applyWrites s ws) := by
  rw [applyWrites_eq]
  refine inv_map s _ h.nodup (fun c => writesTo_id ws c) ?_
  intro c hc
  exact ⟨writesTo_inv ws c (h.ctr c hc), by rw [writesTo_state]; exact h.settled c hc⟩

/-- StopContainer of a known container -/
theorem flush_stop (s : St) (id : String) (ws : List Write) (h : Inv s) :
    let s' := (takeUpdates (some id) (setState (applyWrites s ws) id .exited)).1
    Inv s' ∧ LiveClean s' := by
  simp only [takeUpdates, applyWrites_eq, setState, List.map_map]
  have key : ∀ c ∈ s, CtrInv ((fun c : Ctr => if c.id = id then { c with state := CState.exited } else c) (writesTo c ws)) ∧
      ((fun c : Ctr => if c.id = id then { c with state := CState.exited } else c) (writesTo c ws)).state ≠ .creating := by
    intro c hc
    have h1 := writesTo_inv ws c (h.ctr c hc)
    have h2 : (writesTo c ws).state ≠ .creating := by rw [writesTo_state]; exact h.settled c hc
    simp only
    split
    · exact ⟨setDead_inv _ _ (by decide) h1, by simp⟩
    · exact ⟨h1, h2⟩
  refine ⟨inv_map s _ h.nodup (fun c => by simp only [Function.comp, takeUpdate_id]; split <;> simp [writesTo_id]) ?_, ?_⟩
  · intro c hc
    have := key c hc
    exact ⟨takeUpdate_inv _ _ this.1 this.2, by simp only [Function.comp, takeUpdate_state]; exact this.2⟩
  · intro c' hc' hl
    obtain ⟨c, hc, rfl⟩ := List.mem_map.mp hc'
    simp only [Function.comp] at hl ⊢
    rw [takeUpdate_state] at hl
    have hk := key c hc
    by_cases hid : (writesTo c ws).id = id
    · simp only [hid, if_true] at hl
      simp [isLive] at hl
    · refine takeUpdate_clean _ _ hk.1 hl ?_
      simp only [hid, if_false]
      intro e
      exact hid (Option.some.inj e).symm

end Nri.PipeLife

namespace Nri.PipeLife

theorem takeAdjustment_spec (c : Ctr) (ha : Agree c) (hk : ∀ f, c.req ≠ some (.update, f)) :
    CtrInv (takeAdjustment c).1 ∧ Clean (takeAdjustment c).1 := by
  unfold takeAdjustment
  split
  · rename_i f hr
    have ho := agree_overlay c _ f hr ha
    refine ⟨⟨fun _ => ?_, fun hn => absurd rfl hn, fun _ hf => ?_, fun _ _ hf => ?_⟩, rfl, ho⟩
    · simpa [Agree] using ho
    · cases hf
    · cases hf
  · rename_i f hr; exact absurd hr (hk f)
  · rename_i hr
    have ha : ∀ i, c.told i = c.cache i := by simp only [Agree, hr] at ha; exact ha
    refine ⟨⟨fun _ => ?_, fun hn => absurd rfl hn, fun _ hf => ?_, fun _ _ hf => ?_⟩, rfl, ha⟩
    · simpa [Agree] using ha
    · cases hf
    · cases hf

/-- marking the stale instance of the same name as exited -/
def markOld (old : Option String) (id : String) (c : Ctr) : Ctr :=
  match old with
  | some o => if o = id then c else (if c.id = o then { c with state := .exited } else c)
  | none => c

theorem markOld_id (old : Option String) (id : String) (c : Ctr) : (markOld old id c).id = c.id := by
  unfold markOld; split
  · split; rfl; split <;> rfl
  · rfl

theorem markOld_self (old : Option String) (id : String) (c : Ctr) (h : c.id = id) : markOld old id c = c := by
  unfold markOld; split
  · rename_i o
    by_cases ho : o = id
    · simp [ho]
    · have : ¬ c.id = o := fun e => ho (e.symm.trans h)
      simp [ho, this]
  · rfl

theorem markOld_inv (old : Option String) (id : String) (c : Ctr) (h : CtrInv c) (hs : c.state ≠ .creating) :
    CtrInv (markOld old id c) ∧ (markOld old id c).state ≠ .creating := by
  unfold markOld; split
  · split
    · exact ⟨h, hs⟩
    · split
      · exact ⟨setDead_inv _ _ (by decide) h, by simp⟩
      · exact ⟨h, hs⟩
  · exact ⟨h, hs⟩

def newCtr (id : String) (init : Nat → String) : Ctr := ⟨id, .creating, init, init, none, false⟩

theorem newCtr_inv (id : String) (init : Nat → String) : CtrInv (newCtr id init) := by
  refine ⟨fun _ => ?_, fun hn => absurd rfl hn, fun _ hf => ?_, fun _ _ hf => ?_⟩
  · simp [Agree, newCtr]
  · cases hf
  · cases hf

/-- the state right after inserting the new container -/
def inserted (s : St) (id : String) (init : Nat → String) : St := newCtr id init :: s.filter (fun c => c.id ≠ id)

theorem inserted_nodup (s : St) (id : String) (init : Nat → String) (hn : (s.map (·.id)).Nodup) :
    ((inserted s id init).map (·.id)).Nodup := by
  simp only [inserted, List.map_cons, List.nodup_cons]
  refine ⟨?_, ?_⟩
  · intro hm
    obtain ⟨c, hc, e⟩ := List.mem_map.mp hm
    have := (List.mem_filter.mp hc).2
    simp only [newCtr] at e
    simp [e] at this
  · exact (List.Sublist.map _ (List.filter_sublist)).nodup hn

theorem inserted_mem (s : St) (id : String) (init : Nat → String) (c : Ctr) (hc : c ∈ inserted s id init) :
    c = newCtr id init ∨ (c ∈ s ∧ c.id ≠ id) := by
  simp only [inserted, List.mem_cons] at hc
  rcases hc with e | hc
  · exact Or.inl e
  · have := List.mem_filter.mp hc
    exact Or.inr ⟨this.1, by simpa using this.2⟩

/-- per-container composite of a successful CreateContainer -/
def createG (id : String) (old : Option String) (ws : List Write) (c : Ctr) : Ctr :=
  let c := markOld old id (writesTo c ws)
  let c := if c.id = id then { c with state := CState.created } else c
  let c := if c.id = id then (takeAdjustment c).1 else c
  (takeUpdate (some id) c).1

/-- per-container composite of a failed CreateContainer -/
def createF (id : String) (old : Option String) (ws : List Write) (c : Ctr) : Ctr :=
  let c := markOld old id (writesTo c ws)
  if c.id = id then { c with state := CState.stale } else c

theorem markOld_map (old : Option String) (id : String) (s : St) :
    retire s old id = s.map (markOld old id) := by
  unfold retire
  cases old with
  | none =>
    have : markOld none id = fun c => c := by funext c; rfl
    simp [this]
  | some o =>
    by_cases ho : o = id
    · subst ho
      have : markOld (some o) o = fun c => c := by funext c; simp [markOld]
      simp [this]
    · have : markOld (some o) id = fun c : Ctr => if c.id = o then { c with state := CState.exited } else c := by
        funext c; simp [markOld, ho]
      simp only [ho, if_false, setState, this]

theorem create_ok_state (s : St) (id : String) (init : Nat → String) (old : Option String) (ws : List Write) :
    (step s (.create id init old ws true)).1 = (inserted s id init).map (createG id old ws) := by
  simp only [step, markOld_map, applyWrites_eq, setState, takeUpdates, List.map_map, Bool.not_true, Bool.false_eq_true, if_false]
  rfl

theorem create_err_state (s : St) (id : String) (init : Nat → String) (old : Option String) (ws : List Write) :
    (step s (.create id init old ws false)).1 = (inserted s id init).map (createF id old ws) := by
  simp only [step, markOld_map, applyWrites_eq, setState, List.map_map, Bool.not_false, if_true]
  rfl

end Nri.PipeLife

namespace Nri.PipeLife

theorem takeUpdate_skip (id : String) (c : Ctr) (h : c.id = id) : takeUpdate (some id) c = (c, none) := by
  unfold takeUpdate
  split; · rfl
  rw [if_pos (by rw [h])]

theorem createG_self (id : String) (old : Option String) (ws : List Write) (c : Ctr) (h : c.id = id) :
    createG id old ws c = (takeAdjustment { writesTo c ws with state := CState.created }).1 := by
  have hid : (writesTo c ws).id = id := by rw [writesTo_id]; exact h
  have e1 : markOld old id (writesTo c ws) = writesTo c ws := markOld_self _ _ _ hid
  unfold createG
  simp only [e1]
  rw [if_pos hid]
  have hid2 : ({ writesTo c ws with state := CState.created } : Ctr).id = id := hid
  rw [if_pos hid2]
  rw [takeUpdate_skip id _ (by rw [takeAdjustment_id]; exact hid2)]

theorem createG_nonself (id : String) (old : Option String) (ws : List Write) (c : Ctr) (h : c.id ≠ id) :
    createG id old ws c = (takeUpdate (some id) (markOld old id (writesTo c ws))).1 := by
  have hmid : ¬ (markOld old id (writesTo c ws)).id = id := by rw [markOld_id, writesTo_id]; exact h
  unfold createG
  simp only []
  rw [if_neg hmid, if_neg hmid]

theorem createF_self (id : String) (old : Option String) (ws : List Write) (c : Ctr) (h : c.id = id) :
    createF id old ws c = { writesTo c ws with state := CState.stale } := by
  have hid : (writesTo c ws).id = id := by rw [writesTo_id]; exact h
  have e1 : markOld old id (writesTo c ws) = writesTo c ws := markOld_self _ _ _ hid
  unfold createF
  simp only [e1]
  rw [if_pos hid]

theorem createF_nonself (id : String) (old : Option String) (ws : List Write) (c : Ctr) (h : c.id ≠ id) :
    createF id old ws c = markOld old id (writesTo c ws) := by
  have hmid : ¬ (markOld old id (writesTo c ws)).id = id := by rw [markOld_id, writesTo_id]; exact h
  unfold createF
  simp only []
  rw [if_neg hmid]

theorem createG_id (id : String) (old : Option String) (ws : List Write) (c : Ctr) : (createG id old ws c).id = c.id := by
  by_cases h : c.id = id
  · rw [createG_self _ _ _ _ h, takeAdjustment_id]; exact writesTo_id ws c
  · rw [createG_nonself _ _ _ _ h, takeUpdate_id, markOld_id, writesTo_id]

theorem createF_id (id : String) (old : Option String) (ws : List Write) (c : Ctr) : (createF id old ws c).id = c.id := by
  by_cases h : c.id = id
  · rw [createF_self _ _ _ _ h]; exact writesTo_id ws c
  · rw [createF_nonself _ _ _ _ h, markOld_id, writesTo_id]

theorem createG_new (id : String) (init : Nat → String) (old : Option String) (ws : List Write) :
    CtrInv (createG id old ws (newCtr id init)) ∧ Clean (createG id old ws (newCtr id init)) ∧
    (createG id old ws (newCtr id init)).state = .created := by
  have hst : (writesTo (newCtr id init) ws).state = .creating := by rw [writesTo_state]; rfl
  have hinv := writesTo_inv ws _ (newCtr_inv id init)
  rw [createG_self id old ws (newCtr id init) rfl]
  have hag : Agree { writesTo (newCtr id init) ws with state := CState.created } := by
    have := hinv.agree (by rw [hst]; rfl)
    simpa [Agree] using this
  have hk : ∀ f, ({ writesTo (newCtr id init) ws with state := CState.created } : Ctr).req ≠ some (.update, f) :=
    fun f => hinv.creatingNoUpd hst f
  have := takeAdjustment_spec _ hag hk
  exact ⟨this.1, this.2, by rw [takeAdjustment_state]⟩

theorem createG_other (id : String) (old : Option String) (ws : List Write) (c : Ctr)
    (h : CtrInv c) (hs : c.state ≠ .creating) (hid : c.id ≠ id) :
    CtrInv (createG id old ws c) ∧ (createG id old ws c).state ≠ .creating ∧
    (isLive (createG id old ws c).state = true → Clean (createG id old ws c)) := by
  have h1 := writesTo_inv ws c h
  have h2 : (writesTo c ws).state ≠ .creating := by rw [writesTo_state]; exact hs
  have hm := markOld_inv old id _ h1 h2
  have hmid : (markOld old id (writesTo c ws)).id ≠ id := by rw [markOld_id, writesTo_id]; exact hid
  rw [createG_nonself _ _ _ _ hid]
  refine ⟨takeUpdate_inv _ _ hm.1 hm.2, by rw [takeUpdate_state]; exact hm.2, ?_⟩
  intro hl
  rw [takeUpdate_state] at hl
  exact takeUpdate_clean _ _ hm.1 hl (fun e => hmid (Option.some.inj e).symm)

theorem createF_new (id : String) (init : Nat → String) (old : Option String) (ws : List Write) :
    CtrInv (createF id old ws (newCtr id init)) ∧ (createF id old ws (newCtr id init)).state = .stale := by
  have hinv := writesTo_inv ws _ (newCtr_inv id init)
  rw [createF_self id old ws (newCtr id init) rfl]
  exact ⟨setDead_inv _ .stale (by decide) hinv, rfl⟩

theorem createF_other (id : String) (old : Option String) (ws : List Write) (c : Ctr)
    (h : CtrInv c) (hs : c.state ≠ .creating) (hid : c.id ≠ id) :
    CtrInv (createF id old ws c) ∧ (createF id old ws c).state ≠ .creating := by
  have h1 := writesTo_inv ws c h
  have h2 : (writesTo c ws).state ≠ .creating := by rw [writesTo_state]; exact hs
  rw [createF_nonself _ _ _ _ hid]
  exact markOld_inv old id _ h1 h2

/-- CreateContainer that succeeds: invariant, and every live container is clean afterwards -/
theorem flush_create (s : St) (id : String) (init : Nat → String) (old : Option String) (ws : List Write) (h : Inv s) :
    Inv (step s (.create id init old ws true)).1 ∧ LiveClean (step s (.create id init old ws true)).1 := by
  rw [create_ok_state]
  have key : ∀ c ∈ inserted s id init, CtrInv (createG id old ws c) ∧ (createG id old ws c).state ≠ .creating ∧
      (isLive (createG id old ws c).state = true → Clean (createG id old ws c)) := by
    intro c hc
    rcases inserted_mem s id init c hc with rfl | ⟨hcs, hne⟩
    · have := createG_new id init old ws
      exact ⟨this.1, by rw [this.2.2]; decide, fun _ => this.2.1⟩
    · exact createG_other id old ws c (h.ctr c hcs) (h.settled c hcs) hne
  refine ⟨inv_map _ _ (inserted_nodup s id init h.nodup) (createG_id id old ws) (fun c hc => ⟨(key c hc).1, (key c hc).2.1⟩), ?_⟩
  intro c' hc' hl
  obtain ⟨c, hc, rfl⟩ := List.mem_map.mp hc'
  exact (key c hc).2.2 hl

theorem fail_create (s : St) (id : String) (init : Nat → String) (old : Option String) (ws : List Write) (h : Inv s) :
    Inv (step s (.create id init old ws false)).1 := by
  rw [create_err_state]
  refine inv_map _ _ (inserted_nodup s id init h.nodup) (createF_id id old ws) ?_
  intro c hc
  rcases inserted_mem s id init c hc with rfl | ⟨hcs, hne⟩
  · have := createF_new id init old ws
    exact ⟨this.1, by rw [this.2]; decide⟩
  · exact createF_other id old ws c (h.ctr c hcs) (h.settled c hcs) hne

end Nri.PipeLife

namespace Nri.PipeLife

theorem setState_ids (s : St) (id : String) (st : CState) : (setState s id st).map (·.id) = s.map (·.id) := by
  unfold setState
  exact map_ids (fun c => by split <;> rfl) s

theorem applyWrites_ids (s : St) (ws : List Write) : (applyWrites s ws).map (·.id) = s.map (·.id) := by
  rw [applyWrites_eq]; exact map_ids (fun c => writesTo_id ws c) s

theorem retire_ids (s : St) (old : Option String) (id : String) : (retire s old id).map (·.id) = s.map (·.id) := by
  rw [markOld_map]; exact map_ids (fun c => markOld_id old id c) s

/-- the updates of every reply address pairwise different containers -/
theorem step_updates_nodup (s : St) (e : Ev) (h : Inv s) (adj : Option Fields) (ups : List Msg)
    (hr : (step s e).2 = .ok adj ups) : (ups.map (·.id)).Nodup := by
  cases e with
  | create id init old ws ok =>
    cases ok with
    | false => simp [step] at hr
    | true =>
      simp only [step, Bool.not_true, Bool.false_eq_true, if_false, Reply.ok.injEq] at hr
      rw [← hr.2]
      apply ups_nodup
      rw [map_ids (fun c => by split; exact takeAdjustment_id c; rfl), setState_ids, retire_ids, applyWrites_ids]
      exact inserted_nodup s id init h.nodup
  | start id => simp only [step, Reply.ok.injEq] at hr; rw [← hr.2]; exact List.nodup_nil
  | update ws ok =>
    cases ok with
    | false => simp [step] at hr
    | true =>
      simp only [step, Bool.not_true, Bool.false_eq_true, if_false, Reply.ok.injEq] at hr
      rw [← hr.2]; apply ups_nodup; rw [applyWrites_ids]; exact h.nodup
  | stop id ws ok =>
    simp only [step] at hr
    split at hr
    · simp only [Reply.ok.injEq] at hr; rw [← hr.2]; exact List.nodup_nil
    · cases ok with
      | false => simp at hr
      | true =>
        simp only [Bool.not_true, Bool.false_eq_true, if_false, Reply.ok.injEq] at hr
        rw [← hr.2]; apply ups_nodup; rw [setState_ids, applyWrites_ids]; exact h.nodup
  | remove id => simp only [step, Reply.ok.injEq] at hr; rw [← hr.2]; exact List.nodup_nil
  | push ws ok =>
    cases ok with
    | false => simp [step] at hr
    | true =>
      simp only [step, Bool.not_true, Bool.false_eq_true, if_false, Reply.ok.injEq] at hr
      rw [← hr.2]; apply ups_nodup; rw [applyWrites_ids]; exact h.nodup

/-- no update in a CreateContainer reply addresses the container being created: what concerns it is in
the adjustment (and only there) -/
theorem create_updates_skip_self (s : St) (id : String) (init : Nat → String) (old : Option String) (ws : List Write) (ok : Bool)
    (adj : Option Fields) (ups : List Msg) (hr : (step s (.create id init old ws ok)).2 = .ok adj ups) :
    ∀ m ∈ ups, m.id ≠ id := by
  cases ok with
  | false => simp [step] at hr
  | true =>
    simp only [step, Bool.not_true, Bool.false_eq_true, if_false, Reply.ok.injEq] at hr
    rw [← hr.2]
    exact ups_not_skip id _

/-- likewise StopContainer never addresses the container being stopped -/
theorem stop_updates_skip_self (s : St) (id : String) (ws : List Write) (ok : Bool)
    (adj : Option Fields) (ups : List Msg) (hr : (step s (.stop id ws ok)).2 = .ok adj ups) :
    ∀ m ∈ ups, m.id ≠ id := by
  simp only [step] at hr
  split at hr
  · simp only [Reply.ok.injEq] at hr; rw [← hr.2]; intro m hm; cases hm
  · cases ok with
    | false => simp at hr
    | true =>
      simp only [Bool.not_true, Bool.false_eq_true, if_false, Reply.ok.injEq] at hr
      rw [← hr.2]
      exact ups_not_skip id _

/-- the invariant is preserved by every request, successful or refused -/
theorem inv_step (s : St) (e : Ev) (h : Inv s) (hw : WfEv s e) : Inv (step s e).1 := by
  cases e with
  | create id init old ws ok =>
    cases ok with
    | false => exact fail_create s id init old ws h
    | true => exact (flush_create s id init old ws h).1
  | start id =>
    simp only [step]
    refine inv_map s _ h.nodup (fun c => by split <;> rfl) ?_
    intro c hc
    split
    · rename_i hid
      have hst := hw c hc hid
      have hi := h.ctr c hc
      refine ⟨⟨fun _ => ?_, hi.marked, fun f hf => ?_, fun hs => ?_⟩, by simp⟩
      · have hd : isDead c.state = false := by rcases hst with e | e <;> rw [e] <;> rfl
        simpa [Agree] using hi.agree hd
      · have := hi.adjNotLive f hf
        rcases hst with e | e <;> rw [e] at this <;> simp [isLive] at this
      · simp at hs
    · exact ⟨h.ctr c hc, h.settled c hc⟩
  | update ws ok =>
    cases ok with
    | false => simpa [step] using writes_only s ws h
    | true => simpa [step] using (flush_all s ws h).1
  | stop id ws ok =>
    simp only [step]
    split
    · exact h
    · cases ok with
      | false => simpa using writes_only s ws h
      | true => simpa using (flush_stop s id ws h).1
  | remove id =>
    simp only [step]
    refine ⟨(List.Sublist.map _ List.filter_sublist).nodup h.nodup, ?_, ?_⟩
    · intro c hc; exact h.ctr c (List.mem_filter.mp hc).1
    · intro c hc; exact h.settled c (List.mem_filter.mp hc).1
  | push ws ok =>
    cases ok with
    | false => simpa [step] using writes_only s ws h
    | true => simpa [step] using (flush_all s ws h).1

/-- a request that flushes (CreateContainer, UpdateContainer, StopContainer of a known container,
Synchronize, the push after a configuration update) and succeeds leaves every live container
clean - whatever was pending before, e.g. after earlier error replies -/
theorem flush_establishes_clean (s : St) (e : Ev) (h : Inv s)
    (hf : match e with
      | .create _ _ _ _ ok => ok = true
      | .update _ ok => ok = true
      | .push _ ok => ok = true
      | .stop id _ ok => ok = true ∧ s.any (fun c => c.id = id) = true
      | _ => False) : LiveClean (step s e).1 := by
  cases e with
  | create id init old ws ok => simp only at hf; subst hf; exact (flush_create s id init old ws h).2
  | start id => simp at hf
  | update ws ok => simp only at hf; subst hf; simpa [step] using (flush_all s ws h).2
  | stop id ws ok =>
    simp only at hf
    obtain ⟨rfl, hany⟩ := hf
    simp only [step, hany, Bool.not_true, Bool.false_eq_true, if_false]
    exact (flush_stop s id ws h).2
  | remove id => simp at hf
  | push ws ok => simp only at hf; subst hf; simpa [step] using (flush_all s ws h).2

/-- every successful reply preserves "all live containers are clean" -/
theorem clean_step (s : St) (e : Ev) (h : Inv s) (hw : WfEv s e) (hc : LiveClean s)
    (adj : Option Fields) (ups : List Msg) (hr : (step s e).2 = .ok adj ups) : LiveClean (step s e).1 := by
  cases e with
  | create id init old ws ok =>
    cases ok with
    | false => simp [step] at hr
    | true => exact (flush_create s id init old ws h).2
  | start id =>
    simp only [step]
    intro c' hc' hl
    obtain ⟨c, hcs, rfl⟩ := List.mem_map.mp hc'
    split at hl
    · rename_i hid
      have hst := hw c hcs hid
      have := hc c hcs (by rcases hst with e | e <;> rw [e] <;> rfl)
      simp only [hid, if_true]
      exact this
    · rename_i hid
      simp only [hid, if_false]
      exact hc c hcs hl
  | update ws ok =>
    cases ok with
    | false => simp [step] at hr
    | true => simpa [step] using (flush_all s ws h).2
  | stop id ws ok =>
    simp only [step] at hr ⊢
    split
    · exact hc
    · cases ok with
      | false => rename_i hn; simp [hn] at hr
      | true => simpa using (flush_stop s id ws h).2
  | remove id =>
    simp only [step]
    intro c hcm hl
    exact hc c (List.mem_filter.mp hcm).1 hl
  | push ws ok =>
    cases ok with
    | false => simp [step] at hr
    | true => simpa [step] using (flush_all s ws h).2

end Nri.PipeLife

namespace Nri.PipeLife

/-! ### no update addresses a container the runtime has stopped (under a well-behaved policy) -/

theorem ups_mem (skip : Option String) (pre : St) (m : Msg) (hm : m ∈ (takeUpdates skip pre).2) :
    ∃ p ∈ pre, (takeUpdate skip p).2 = some m ∧ (takeUpdate skip p).1 ∈ (takeUpdates skip pre).1 := by
  simp only [takeUpdates, List.mem_filterMap] at hm
  obtain ⟨p, hp, hpm⟩ := hm
  exact ⟨p, hp, hpm, List.mem_map.mpr ⟨p, hp, rfl⟩⟩

theorem takeUpdate_req_update (skip : Option String) (c : Ctr) (f : Fields)
    (h : (takeUpdate skip c).1.req = some (.update, f)) : c.req = some (.update, f) ∧ (takeUpdate skip c).1 = c := by
  unfold takeUpdate at h ⊢
  by_cases hm : (!c.marked) = true
  · rw [if_pos hm] at h ⊢; exact ⟨h, rfl⟩
  · rw [if_neg hm] at h ⊢
    by_cases hs : skip = some c.id
    · rw [if_pos hs] at h ⊢; exact ⟨h, rfl⟩
    · rw [if_neg hs] at h ⊢
      cases hr : c.req with
      | none => rw [hr] at h; simp at h; rw [hr] at h; cases h
      | some r =>
        obtain ⟨k, f'⟩ := r
        cases k with
        | adjustment => rw [hr] at h; simp at h
        | update => rw [hr] at h; simp at h

/-- where a waiting update can come from when everything was settled before the request -/
theorem upd_req_origin (s : St) (ws : List Write) (self notTo : Option String)
    (h : Inv s) (hc : LiveClean s) (hq : DeadQuiet s) (hg : goodWrites s ws self notTo)
    (c : Ctr) (hcs : c ∈ s) (hself : some c.id ≠ self) (f : Fields)
    (hreq : (writesTo c ws).req = some (.update, f)) : isLive c.state = true ∧ some c.id ≠ notTo := by
  rcases writesTo_update_kind ws c f hreq with ⟨f0, h0⟩ | ⟨_, w, hw, hwc⟩
  · exfalso
    by_cases hl : isLive c.state = true
    · have := (hc c hcs hl).1; rw [h0] at this; cases this
    · have hd := dead_of_not c.state (by simpa using hl) (h.settled c hcs)
      exact hq c hcs hd f0 h0
  · have := hg w hw
    refine ⟨?_, by rw [← hwc]; exact this.1⟩
    rcases this.2 with e | hl
    · exact absurd (by rw [← hwc]; exact e) hself
    · exact hl c hcs hwc.symm

theorem good_flush_all (s : St) (ws : List Write) (h : Inv s) (hc : LiveClean s) (hq : DeadQuiet s)
    (hg : goodWrites s ws none none) :
    DeadQuiet (takeUpdates none (applyWrites s ws)).1 ∧
    ∀ m ∈ (takeUpdates none (applyWrites s ws)).2, ∃ c ∈ (takeUpdates none (applyWrites s ws)).1, c.id = m.id ∧ isLive c.state = true := by
  refine ⟨?_, ?_⟩
  · intro c' hc' hd f hreq
    simp only [takeUpdates, applyWrites_eq, List.map_map] at hc'
    obtain ⟨c, hcs, rfl⟩ := List.mem_map.mp hc'
    simp only [Function.comp] at hd hreq
    have hr := takeUpdate_req_update none _ f hreq
    have := upd_req_origin s ws none none h hc hq hg c hcs (by simp) f hr.1
    rw [takeUpdate_state, writesTo_state] at hd
    rw [live_not_dead _ this.1] at hd; cases hd
  · intro m hm
    obtain ⟨p, hp, hpm, hpost⟩ := ups_mem none _ m hm
    rw [applyWrites_eq] at hp
    obtain ⟨c, hcs, rfl⟩ := List.mem_map.mp hp
    have hr := takeUpdate_msg_req none _ m hpm
    have := upd_req_origin s ws none none h hc hq hg c hcs (by simp) _ hr
    refine ⟨_, hpost, ?_, ?_⟩
    · rw [takeUpdate_id, takeUpdate_msg_id none _ m hpm]
    · rw [takeUpdate_state, writesTo_state]; exact this.1

theorem good_flush_stop (s : St) (id : String) (ws : List Write) (h : Inv s) (hc : LiveClean s) (hq : DeadQuiet s)
    (hg : goodWrites s ws none (some id)) :
    let pre := setState (applyWrites s ws) id .exited
    DeadQuiet (takeUpdates (some id) pre).1 ∧
    ∀ m ∈ (takeUpdates (some id) pre).2, ∃ c ∈ (takeUpdates (some id) pre).1, c.id = m.id ∧ isLive c.state = true := by
  have pre_mem : ∀ p ∈ setState (applyWrites s ws) id .exited, ∀ f, p.req = some (.update, f) →
      isLive p.state = true := by
    intro p hp f hreq
    simp only [setState, applyWrites_eq, List.map_map] at hp
    obtain ⟨c, hcs, rfl⟩ := List.mem_map.mp hp
    simp only [Function.comp] at hreq ⊢
    have hreq' : (writesTo c ws).req = some (.update, f) := by split at hreq <;> exact hreq
    have := upd_req_origin s ws none (some id) h hc hq hg c hcs (by simp) f hreq'
    have hne : ¬ (writesTo c ws).id = id := by rw [writesTo_id]; intro e; exact this.2 (by rw [e])
    rw [if_neg hne, writesTo_state]; exact this.1
  refine ⟨?_, ?_⟩
  · intro c' hc' hd f hreq
    simp only [takeUpdates] at hc'
    obtain ⟨p, hp, rfl⟩ := List.mem_map.mp hc'
    have hr := takeUpdate_req_update (some id) _ f hreq
    have := pre_mem p hp f hr.1
    rw [takeUpdate_state, live_not_dead _ this] at hd; cases hd
  · intro m hm
    obtain ⟨p, hp, hpm, hpost⟩ := ups_mem (some id) _ m hm
    have hr := takeUpdate_msg_req (some id) _ m hpm
    have := pre_mem p hp _ hr
    exact ⟨_, hpost, by rw [takeUpdate_id, takeUpdate_msg_id _ _ m hpm], by rw [takeUpdate_state]; exact this⟩

end Nri.PipeLife

namespace Nri.PipeLife

/-- the state a successful CreateContainer collects its updates from -/
def createPre (id : String) (old : Option String) (ws : List Write) (c : Ctr) : Ctr :=
  let c1 := markOld old id (writesTo c ws)
  let c2 := if c1.id = id then { c1 with state := CState.created } else c1
  if c2.id = id then (takeAdjustment c2).1 else c2

theorem create_ok_full (s : St) (id : String) (init : Nat → String) (old : Option String) (ws : List Write) :
    ∃ adj, step s (.create id init old ws true) =
      ((takeUpdates (some id) ((inserted s id init).map (createPre id old ws))).1,
       .ok adj (takeUpdates (some id) ((inserted s id init).map (createPre id old ws))).2) := by
  simp only [step, markOld_map, applyWrites_eq, setState, List.map_map, Bool.not_true, Bool.false_eq_true, if_false]
  exact ⟨_, rfl⟩

theorem createPre_self (id : String) (old : Option String) (ws : List Write) (c : Ctr) (h : c.id = id) :
    (createPre id old ws c).req = none := by
  have hid : (writesTo c ws).id = id := by rw [writesTo_id]; exact h
  have e1 : markOld old id (writesTo c ws) = writesTo c ws := markOld_self _ _ _ hid
  unfold createPre
  simp only [e1]
  rw [if_pos hid]
  have hid2 : ({ writesTo c ws with state := CState.created } : Ctr).id = id := hid
  rw [if_pos hid2, takeAdjustment_req]

theorem createPre_nonself (id : String) (old : Option String) (ws : List Write) (c : Ctr) (h : c.id ≠ id) :
    createPre id old ws c = markOld old id (writesTo c ws) := by
  have hmid : ¬ (markOld old id (writesTo c ws)).id = id := by rw [markOld_id, writesTo_id]; exact h
  unfold createPre
  simp only []
  rw [if_neg hmid, if_neg hmid]

theorem markOld_req (old : Option String) (id : String) (c : Ctr) : (markOld old id c).req = c.req := by
  unfold markOld; split
  · split; rfl; split <;> rfl
  · rfl

theorem markOld_state_other (old : Option String) (id : String) (c : Ctr) (h : some c.id ≠ old) : (markOld old id c).state = c.state := by
  unfold markOld; split
  · rename_i o
    split; rfl
    have : ¬ c.id = o := fun e => h (by rw [e])
    rw [if_neg this]
  · rfl

theorem good_flush_create (s : St) (id : String) (init : Nat → String) (old : Option String) (ws : List Write)
    (h : Inv s) (hc : LiveClean s) (hq : DeadQuiet s) (hg : goodWrites s ws (some id) old) :
    let pre := (inserted s id init).map (createPre id old ws)
    DeadQuiet (takeUpdates (some id) pre).1 ∧
    ∀ m ∈ (takeUpdates (some id) pre).2, ∃ c ∈ (takeUpdates (some id) pre).1, c.id = m.id ∧ isLive c.state = true := by
  have pre_mem : ∀ p ∈ (inserted s id init).map (createPre id old ws), ∀ f, p.req = some (.update, f) →
      isLive p.state = true := by
    intro p hp f hreq
    obtain ⟨c, hci, rfl⟩ := List.mem_map.mp hp
    rcases inserted_mem s id init c hci with rfl | ⟨hcs, hne⟩
    · rw [createPre_self id old ws _ rfl] at hreq; cases hreq
    · rw [createPre_nonself _ _ _ _ hne] at hreq ⊢
      rw [markOld_req] at hreq
      have := upd_req_origin s ws (some id) old h hc hq hg c hcs (fun e => hne (Option.some.inj e)) f hreq
      rw [markOld_state_other _ _ _ (by rw [writesTo_id]; exact this.2), writesTo_state]
      exact this.1
  refine ⟨?_, ?_⟩
  · intro c' hc' hd f hreq
    simp only [takeUpdates] at hc'
    obtain ⟨p, hp, rfl⟩ := List.mem_map.mp hc'
    have hr := takeUpdate_req_update (some id) _ f hreq
    have := pre_mem p hp f hr.1
    rw [takeUpdate_state, live_not_dead _ this] at hd; cases hd
  · intro m hm
    obtain ⟨p, hp, hpm, hpost⟩ := ups_mem (some id) _ m hm
    have hr := takeUpdate_msg_req (some id) _ m hpm
    have := pre_mem p hp _ hr
    exact ⟨_, hpost, by rw [takeUpdate_id, takeUpdate_msg_id _ _ m hpm], by rw [takeUpdate_state]; exact this⟩

/-- with a well-behaved policy and no refused request: no stopped/failed container ever has an
update waiting, and every update of every reply addresses a container that is live -/
theorem good_step (s : St) (e : Ev) (h : Inv s) (hc : LiveClean s) (hq : DeadQuiet s) (hw : WfEv s e) (hg : GoodEv s e) :
    DeadQuiet (step s e).1 ∧
    ∀ adj ups, (step s e).2 = .ok adj ups → ∀ m ∈ ups, ∃ c ∈ (step s e).1, c.id = m.id ∧ isLive c.state = true := by
  cases e with
  | create id init old ws ok =>
    obtain ⟨rfl, hgw⟩ := hg
    obtain ⟨adj0, hst⟩ := create_ok_full s id init old ws
    have := good_flush_create s id init old ws h hc hq hgw
    rw [hst]
    refine ⟨this.1, ?_⟩
    intro adj ups hr m hm
    simp only [Reply.ok.injEq] at hr
    rw [← hr.2] at hm
    exact this.2 m hm
  | start id =>
    refine ⟨?_, ?_⟩
    · simp only [step]
      intro c' hc' hd f hreq
      obtain ⟨c, hcs, rfl⟩ := List.mem_map.mp hc'
      split at hd
      · simp [isDead] at hd
      · rename_i hne
        rw [if_neg hne] at hreq
        exact hq c hcs hd f hreq
    · intro adj ups hr m hm
      simp only [step, Reply.ok.injEq] at hr
      rw [← hr.2] at hm; cases hm
  | update ws ok =>
    obtain ⟨rfl, hgw⟩ := hg
    have := good_flush_all s ws h hc hq hgw
    simp only [step, Bool.not_true, Bool.false_eq_true, if_false]
    refine ⟨this.1, ?_⟩
    intro adj ups hr m hm
    simp only [Reply.ok.injEq] at hr
    rw [← hr.2] at hm
    exact this.2 m hm
  | stop id ws ok =>
    obtain ⟨rfl, hgw⟩ := hg
    simp only [step]
    split
    · refine ⟨hq, ?_⟩
      intro adj ups hr m hm
      simp only [Reply.ok.injEq] at hr
      rw [← hr.2] at hm; cases hm
    · have := good_flush_stop s id ws h hc hq hgw
      simp only [Bool.not_true, Bool.false_eq_true, if_false]
      refine ⟨this.1, ?_⟩
      intro adj ups hr m hm
      simp only [Reply.ok.injEq] at hr
      rw [← hr.2] at hm
      exact this.2 m hm
  | remove id =>
    refine ⟨?_, ?_⟩
    · simp only [step]
      intro c hcm hd f hreq
      exact hq c (List.mem_filter.mp hcm).1 hd f hreq
    · intro adj ups hr m hm
      simp only [step, Reply.ok.injEq] at hr
      rw [← hr.2] at hm; cases hm
  | push ws ok =>
    obtain ⟨rfl, hgw⟩ := hg
    have := good_flush_all s ws h hc hq hgw
    simp only [step, Bool.not_true, Bool.false_eq_true, if_false]
    refine ⟨this.1, ?_⟩
    intro adj ups hr m hm
    simp only [Reply.ok.injEq] at hr
    rw [← hr.2] at hm
    exact this.2 m hm

end Nri.PipeLife

namespace Nri.PipeLife

/-- states reachable from the empty cache by requests the runtime can send (any policy behaviour,
any mixture of successful and refused requests) -/
inductive Reach : St → Prop where
  | init : Reach []
  | step {s : St} (e : Ev) : Reach s → WfEv s e → Reach (step s e).1

/-- states reachable when the policy behaves and no request is refused -/
inductive GoodReach : St → Prop where
  | init : GoodReach []
  | step {s : St} (e : Ev) : GoodReach s → WfEv s e → GoodEv s e → GoodReach (step s e).1

theorem inv_init : Inv [] := ⟨List.nodup_nil, fun _ h => (by cases h), fun _ h => (by cases h)⟩

theorem reach_inv {s : St} (h : Reach s) : Inv s := by
  induction h with
  | init => exact inv_init
  | step e _ hw ih => exact inv_step _ e ih hw

theorem goodEv_ok (s : St) (e : Ev) (hg : GoodEv s e) : ∃ adj ups, (step s e).2 = .ok adj ups := by
  cases e with
  | create id init old ws ok => obtain ⟨rfl, _⟩ := hg; obtain ⟨adj, h⟩ := create_ok_full s id init old ws; exact ⟨adj, _, by rw [h]⟩
  | start id => exact ⟨_, _, rfl⟩
  | update ws ok => obtain ⟨rfl, _⟩ := hg; exact ⟨_, _, rfl⟩
  | stop id ws ok =>
    obtain ⟨rfl, _⟩ := hg
    simp only [step]
    split
    · exact ⟨_, _, rfl⟩
    · exact ⟨_, _, rfl⟩
  | remove id => exact ⟨_, _, rfl⟩
  | push ws ok => obtain ⟨rfl, _⟩ := hg; exact ⟨_, _, rfl⟩

theorem good_reach {s : St} (h : GoodReach s) : Inv s ∧ LiveClean s ∧ DeadQuiet s := by
  induction h with
  | init => exact ⟨inv_init, fun _ h => (by cases h), fun _ h => (by cases h)⟩
  | step e _ hw hg ih =>
    obtain ⟨adj, ups, hr⟩ := goodEv_ok _ e hg
    exact ⟨inv_step _ e ih.1 hw, clean_step _ e ih.1 hw ih.2.1 adj ups hr, (good_step _ e ih.1 ih.2.1 ih.2.2 hw hg).1⟩

end Nri.PipeLife
