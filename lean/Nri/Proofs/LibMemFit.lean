import Nri.Model.LibMem
import Nri.Proofs.LibMem
import Nri.Proofs.LibMemInv
import Nri.Proofs.LibMemTrack
import Nri.Proofs.LibMemUpd
/-!
C07/C04 capacity clause over whole histories: every ASSIGNED zone holds no more than its
capacity after every operation.  Ingredients: the zone table contains every assigned zone
(`Ent`), requests moved by a transaction end in zones that touch the handled nodes (`touch`),
zones only grow (`Track.mono`), hence the usage of a zone that does not touch the handled
nodes cannot have grown, and the zones that do touch them were checked by the final
`checkOvercommit`.  Core Lean only.
-/
namespace Nri.LibMem

/-! ### the zone table only grows inside a transaction -/

theorem zoneAssign_entries_sup (s : St) (t : Mask) (id : String) (z : Mask) (hz : z ∈ s.entries) :
    z ∈ (s.zoneAssign t id).entries := by
  unfold St.zoneAssign St.setZone
  simp only []
  split
  · exact hz
  · exact List.mem_append_left _ hz

theorem zoneAssign_entries_self (s : St) (t : Mask) (id : String) : t ∈ (s.zoneAssign t id).entries := by
  unfold St.zoneAssign St.setZone
  simp only []
  split
  · rename_i h; simpa using h
  · simp

theorem zoneRemove_entries (s : St) (z : Mask) (id : String) : (s.zoneRemove z id).entries = s.entries := by
  unfold St.zoneRemove
  split
  · split <;> simp [St.setZone]
  · rfl

theorem zoneMove_entries_sup (s : St) (t : Mask) (id : String) (z : Mask) (hz : z ∈ s.entries) :
    z ∈ (s.zoneMove t id).entries := by
  unfold St.zoneMove
  split
  · split
    · split
      · exact hz
      · apply zoneAssign_entries_sup; rw [zoneRemove_entries]; exact hz
    · exact zoneAssign_entries_sup _ _ _ _ hz
  · exact hz

theorem zoneMove_entries_self (s : St) (hnd : IdsNodup s) (r : Req) (hr : r ∈ s.reqs) (t : Mask) (hne : r.zone ≠ t) :
    t ∈ (s.zoneMove t r.id).entries := by
  have hreq := req?_of_mem_nodup s hnd r hr
  unfold St.zoneMove
  simp only [hreq]
  by_cases hz : r.zone ≠ 0
  · rw [if_pos hz]
    have he : (r.zone == t) = false := by simpa using hne
    simp only [he, Bool.false_eq_true, if_false]
    exact zoneAssign_entries_self _ _ _
  · rw [if_neg hz]
    exact zoneAssign_entries_self _ _ _

/-- entries of `b` survive (`EntSup`) -/
def EntSup (b s : St) : Prop := ∀ z ∈ b.entries, z ∈ s.entries

theorem handleOvercommit_entsup (b s : St) (nodes0 : Mask) (hnd : IdsNodup s) (h : EntSup b s) :
    EntSup b (s.handleOvercommit nodes0).1 :=
  (handleOvercommit_pres nodes0 (EntSup b) (fun _ _ h => h)
    (fun s r nodes h _ => fun z hz => zoneMove_entries_sup s _ _ z (h z hz)) s hnd h).2

theorem revStep_entries_sup (acc : St × Option Err) (p : String × Mask) (z : Mask) (hz : z ∈ acc.1.entries) :
    z ∈ (revStep acc p).1.entries := by
  unfold revStep
  split
  · exact hz
  · split
    · exact hz
    · split
      · exact hz
      · simp only []
        split
        · apply zoneAssign_entries_sup; rw [zoneRemove_entries]; exact hz
        · rw [zoneRemove_entries]; exact hz

theorem revertJournal_entries_sup (s : St) (drop : Option String) (z : Mask) (hz : z ∈ s.entries) :
    z ∈ (s.revertJournal drop).1.entries := by
  cases hj : s.journal with
  | none => unfold St.revertJournal; simp only [hj]; exact hz
  | some j =>
    rw [revertJournal_eq s drop j hj]
    have : z ∈ (j.reverts.foldl revStep ({ s with journal := none }, none)).1.entries :=
      foldl_inv (fun (acc : St × Option Err) => z ∈ acc.1.entries) revStep
        (fun a x h => revStep_entries_sup a x z h) _ _ hz
    simp only []
    split
    · exact this
    · cases drop <;> exact this

/-! ### the zone table holds every assigned zone; moved requests touch the handled nodes -/

structure EF (b : St) (nodes0 : Mask) (s : St) : Prop where
  ent : ∀ q ∈ s.reqs, q.zone ≠ 0 → q.zone ∈ s.entries
  touch : ∀ q ∈ s.reqs, q.zone ≠ zoneIn b q.id → q.zone &&& nodes0 ≠ 0

theorem ef_move (b : St) (nodes0 : Mask) (hn0 : nodes0 ≠ 0) (s : St) (r : Req) (nodes : Mask) (h : EF b nodes0 s)
    (hm : MoveOK s nodes0 r nodes) : EF b nodes0 (s.zoneMove (r.zone ||| nodes) r.id) := by
  by_cases he : r.zone = r.zone ||| nodes
  · rw [← he, zoneMove_noop s hm.ids r hm.mem hm.zone]; exact h
  · refine ⟨?_, ?_⟩
    · intro q' hq' hz
      rcases zoneMove_reqs_mem s hm.ids r hm.mem _ q' hq' with ⟨hq, _⟩ | e
      · exact zoneMove_entries_sup s _ _ _ (h.ent q' hq hz)
      · subst e; exact zoneMove_entries_self s hm.ids r hm.mem _ he
    · intro q' hq' hz
      rcases zoneMove_reqs_mem s hm.ids r hm.mem _ q' hq' with ⟨hq, _⟩ | e
      · exact h.touch q' hq hz
      · subst e
        have ht : r.zone &&& nodes0 ≠ 0 := by
          rcases hm.touch with h0 | h1
          · exact absurd h0 hn0
          · exact h1
        exact and_ne_zero_of_msub (msub_or_self r.zone nodes) ht

theorem handleOvercommit_ef (b : St) (nodes0 : Mask) (hn0 : nodes0 ≠ 0) (s : St) (hnd : IdsNodup s) (h : EF b nodes0 s) :
    EF b nodes0 (s.handleOvercommit nodes0).1 :=
  (handleOvercommit_pres nodes0 (EF b nodes0) (fun _ _ h => ⟨h.ent, h.touch⟩)
    (fun s r nodes h hm => ef_move b nodes0 hn0 s r nodes h hm) s hnd h).2

/-! ### usage cannot grow when no counted request appears -/

def counted (q : Req) (z : Mask) : Prop := q.zone ≠ 0 ∧ msub q.zone z = true

instance (q : Req) (z : Mask) : Decidable (counted q z) := by unfold counted; exact inferInstance

def usageL (l : List Req) (z : Mask) : Int :=
  l.foldl (fun u r => if r.zone ≠ 0 ∧ msub r.zone z then u + r.size else u) 0

theorem zoneUsage_eq (s : St) (z : Mask) : s.zoneUsage z = usageL s.reqs z := rfl

theorem usageL_shift (l : List Req) (z : Mask) (a : Int) :
    l.foldl (fun u r => if r.zone ≠ 0 ∧ msub r.zone z then u + r.size else u) a = a + usageL l z := by
  unfold usageL
  induction l generalizing a with
  | nil => simp
  | cons r rs ih =>
    simp only [List.foldl_cons]
    rw [ih, ih (if r.zone ≠ 0 ∧ msub r.zone z = true then 0 + r.size else 0)]
    split <;> omega

theorem usageL_cons (q : Req) (l : List Req) (z : Mask) :
    usageL (q :: l) z = (if q.zone ≠ 0 ∧ msub q.zone z = true then q.size else 0) + usageL l z := by
  show (q :: l).foldl _ 0 = _
  simp only [List.foldl_cons]
  rw [usageL_shift]
  split <;> simp

theorem usageL_append (l1 l2 : List Req) (z : Mask) : usageL (l1 ++ l2) z = usageL l1 z + usageL l2 z := by
  induction l1 with
  | nil => simp [usageL]
  | cons q l ih => rw [List.cons_append, usageL_cons, usageL_cons, ih]; omega

theorem usageL_map_le (l : List Req) (f : Req → Req) (z : Mask)
    (hsize : ∀ q ∈ l, (f q).size = q.size ∧ 0 ≤ q.size)
    (hc : ∀ q ∈ l, ((f q).zone ≠ 0 ∧ msub (f q).zone z = true) → (q.zone ≠ 0 ∧ msub q.zone z = true)) :
    usageL (l.map f) z ≤ usageL l z := by
  induction l with
  | nil => simp [usageL]
  | cons q l ih =>
    rw [List.map_cons, usageL_cons, usageL_cons]
    have ih' := ih (fun x hx => hsize x (List.mem_cons_of_mem _ hx)) (fun x hx => hc x (List.mem_cons_of_mem _ hx))
    obtain ⟨hs1, hs2⟩ := hsize q List.mem_cons_self
    have hcq := hc q List.mem_cons_self
    by_cases c1 : (f q).zone ≠ 0 ∧ msub (f q).zone z = true
    · rw [if_pos c1, if_pos (hcq c1), hs1]; omega
    · rw [if_neg c1]
      split <;> omega

theorem zoneFree_of_reqs (s s' : St) (hr : s'.reqs = s.reqs) (hn : s'.nodes = s.nodes) (z : Mask) :
    s'.zoneFree z = s.zoneFree z := by
  unfold St.zoneFree St.zoneUsage St.zoneCapacity
  rw [hr, hn]

theorem numUsers_ne_zero (s : St) (q : Req) (hq : q ∈ s.reqs) (hz : q.zone ≠ 0) : s.numUsers q.zone ≠ 0 := by
  unfold St.numUsers
  intro h
  have : q ∈ s.reqs.filter (fun r => r.zone ≠ 0 ∧ r.zone == q.zone) := by
    apply List.mem_filter.2
    exact ⟨hq, by simp [hz]⟩
  rw [List.length_eq_zero_iff.1 h] at this
  cases this

/-! ### the core argument -/

theorem msub_trans' {a b c : Mask} (h1 : msub a b = true) (h2 : msub b c = true) : msub a c = true := by
  rw [msub_iff] at *
  intro i h; exact h2 i (h1 i h)

theorem and_eq_zero_of_msub {a b m : Mask} (h : msub a b = true) (hb : b &&& m = 0) : a &&& m = 0 := by
  apply Classical.byContradiction
  intro ha
  exact and_ne_zero_of_msub h ha hb

/-- `F` is the state at the end of a successful transaction that started from `b` and handled
`nodes0`: if every assigned zone of `b` fits, every assigned zone of `F` fits. -/
theorem fit_core (b F : St) (ex : String) (nodes0 : Mask) (hbnd : IdsNodup b)
    (hg : Good b F) (ht : Track b ex F) (hef : EF b nodes0 F)
    (hchk : ∀ z ∈ F.entries, z &&& nodes0 ≠ 0 → 0 ≤ F.zoneFree z)
    (hsz : ∀ q ∈ b.reqs, 0 ≤ q.size)
    (hfit : ∀ q ∈ b.reqs, q.zone ≠ 0 → 0 ≤ b.zoneFree q.zone) :
    ∀ q ∈ F.reqs, q.zone ≠ 0 → 0 ≤ F.zoneFree q.zone := by
  intro q hq hz
  by_cases htouch : q.zone &&& nodes0 ≠ 0
  · exact hchk _ (hef.ent q hq hz) htouch
  · have ht0 : q.zone &&& nodes0 = 0 := by simpa using htouch
    obtain ⟨⟨Z, j, hreqs, _⟩, hnodes, _⟩ := hg
    -- q was not moved: it sits in its zone of `b`
    have hsame : q.zone = zoneIn b q.id := by
      apply Classical.byContradiction
      intro hne
      exact hef.touch q hq hne ht0
    rw [hreqs] at hq
    obtain ⟨qb, hqb, e⟩ := List.mem_map.1 hq
    have hqid : q.id = qb.id := by rw [← e]; rfl
    have hqbz : qb.zone = q.zone := by rw [hsame, hqid, zoneIn_of_mem b hbnd qb hqb]
    have hold : 0 ≤ b.zoneFree q.zone := by rw [← hqbz]; exact hfit qb hqb (by rw [hqbz]; exact hz)
    -- usage of q.zone did not grow
    have hle : usageL F.reqs q.zone ≤ usageL b.reqs q.zone := by
      rw [hreqs]
      apply usageL_map_le
      · intro x hx; exact ⟨rfl, hsz x hx⟩
      · intro x hx hc
        have hxF : withZone Z x ∈ F.reqs := by rw [hreqs]; exact List.mem_map_of_mem hx
        have hmono := ht.mono (withZone Z x) hxF
        have hzx : zoneIn b (withZone Z x).id = x.zone := zoneIn_of_mem b hbnd x hx
        rw [hzx] at hmono
        refine ⟨?_, msub_trans' hmono hc.2⟩
        intro hx0
        -- an unassigned request of `b` that is counted now was moved, so its zone touches nodes0
        have hmoved : (withZone Z x).zone ≠ zoneIn b (withZone Z x).id := by rw [hzx, hx0]; exact hc.1
        exact hef.touch _ hxF hmoved (and_eq_zero_of_msub hc.2 ht0)
    unfold St.zoneFree at hold ⊢
    have hcap : F.zoneCapacity q.zone = b.zoneCapacity q.zone := by unfold St.zoneCapacity; rw [hnodes]
    rw [hcap, zoneUsage_eq]
    rw [zoneUsage_eq] at hold
    omega

end Nri.LibMem
