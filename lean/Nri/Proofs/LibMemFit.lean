import Nri.Model.LibMem
import Nri.Proofs.LibMem
import Nri.Proofs.LibMemInv
import Nri.Proofs.LibMemTrack
import Nri.Proofs.LibMemUpd
import Nri.Proofs.LibMemChk
/-!
C07/C04 capacity clause over whole histories: every ASSIGNED zone holds no more than its
capacity after every operation.  Ingredients: the zone table contains every assigned zone
(`Ent`), requests moved by a transaction end in zones that touch the handled nodes (`touch`),
zones only grow (`Track.mono`), hence the usage of a zone that does not touch the handled
nodes cannot have grown, and the zones that do touch them were checked by the final
`checkOvercommit`.  Core Lean only.
-/
namespace Nri.LibMem

/-! ### the zone table only grows inside a transaction -/

theorem zoneAssign_entries_sup (s : St) (t : Mask) (id : String) (z : Mask) (hz : z ∈ s.entries) :
    z ∈ (s.zoneAssign t id).entries := by
  unfold St.zoneAssign St.setZone
  simp only []
  split
  · exact hz
  · exact List.mem_append_left _ hz

theorem zoneAssign_entries_self (s : St) (t : Mask) (id : String) : t ∈ (s.zoneAssign t id).entries := by
  unfold St.zoneAssign St.setZone
  simp only []
  split
  · rename_i h; simpa using h
  · simp

theorem zoneRemove_entries (s : St) (z : Mask) (id : String) : (s.zoneRemove z id).entries = s.entries := by
  unfold St.zoneRemove
  split
  · split <;> simp [St.setZone]
  · rfl

theorem zoneMove_entries_sup (s : St) (t : Mask) (id : String) (z : Mask) (hz : z ∈ s.entries) :
    z ∈ (s.zoneMove t id).entries := by
  unfold St.zoneMove
  split
  · split
    · split
      · exact hz
      · apply zoneAssign_entries_sup; rw [zoneRemove_entries]; exact hz
    · exact zoneAssign_entries_sup _ _ _ _ hz
  · exact hz

theorem zoneMove_entries_self (s : St) (hnd : IdsNodup s) (r : Req) (hr : r ∈ s.reqs) (t : Mask) (hne : r.zone ≠ t) :
    t ∈ (s.zoneMove t r.id).entries := by
  have hreq := req?_of_mem_nodup s hnd r hr
  unfold St.zoneMove
  simp only [hreq]
  by_cases hz : r.zone ≠ 0
  · rw [if_pos hz]
    have he : (r.zone == t) = false := by simpa using hne
    simp only [he, Bool.false_eq_true, if_false]
    exact zoneAssign_entries_self _ _ _
  · rw [if_neg hz]
    exact zoneAssign_entries_self _ _ _

/-- entries of `b` survive (`EntSup`) -/
def EntSup (b s : St) : Prop := ∀ z ∈ b.entries, z ∈ s.entries

theorem handleOvercommit_entsup (b s : St) (nodes0 : Mask) (hnd : IdsNodup s) (h : EntSup b s) :
    EntSup b (s.handleOvercommit nodes0).1 :=
  (handleOvercommit_pres nodes0 (EntSup b) (fun _ _ h => h)
    (fun s r nodes h _ => fun z hz => zoneMove_entries_sup s _ _ z (h z hz)) s hnd h).2

theorem revStep_entries_sup (acc : St × Option Err) (p : String × Mask) (z : Mask) (hz : z ∈ acc.1.entries) :
    z ∈ (revStep acc p).1.entries := by
  unfold revStep
  split
  · exact hz
  · split
    · exact hz
    · split
      · exact hz
      · simp only []
        split
        · apply zoneAssign_entries_sup; rw [zoneRemove_entries]; exact hz
        · rw [zoneRemove_entries]; exact hz

theorem revertJournal_entries_sup (s : St) (drop : Option String) (z : Mask) (hz : z ∈ s.entries) :
    z ∈ (s.revertJournal drop).1.entries := by
  cases hj : s.journal with
  | none => unfold St.revertJournal; simp only [hj]; exact hz
  | some j =>
    rw [revertJournal_eq s drop j hj]
    have : z ∈ (j.reverts.foldl revStep ({ s with journal := none }, none)).1.entries :=
      foldl_inv (fun (acc : St × Option Err) => z ∈ acc.1.entries) revStep
        (fun a x h => revStep_entries_sup a x z h) _ _ hz
    simp only []
    split
    · exact this
    · cases drop <;> exact this

/-! ### the zone table holds every assigned zone; moved requests touch the handled nodes -/

structure EF (b : St) (nodes0 : Mask) (s : St) : Prop where
  ent : ∀ q ∈ s.reqs, q.zone ≠ 0 → q.zone ∈ s.entries
  touch : ∀ q ∈ s.reqs, q.zone ≠ zoneIn b q.id → q.zone &&& nodes0 ≠ 0

theorem ef_move (b : St) (nodes0 : Mask) (hn0 : nodes0 ≠ 0) (s : St) (r : Req) (nodes : Mask) (h : EF b nodes0 s)
    (hm : MoveOK s nodes0 r nodes) : EF b nodes0 (s.zoneMove (r.zone ||| nodes) r.id) := by
  by_cases he : r.zone = r.zone ||| nodes
  · rw [← he, zoneMove_noop s hm.ids r hm.mem hm.zone]; exact h
  · refine ⟨?_, ?_⟩
    · intro q' hq' hz
      rcases zoneMove_reqs_mem s hm.ids r hm.mem _ q' hq' with ⟨hq, _⟩ | e
      · exact zoneMove_entries_sup s _ _ _ (h.ent q' hq hz)
      · subst e; exact zoneMove_entries_self s hm.ids r hm.mem _ he
    · intro q' hq' hz
      rcases zoneMove_reqs_mem s hm.ids r hm.mem _ q' hq' with ⟨hq, _⟩ | e
      · exact h.touch q' hq hz
      · subst e
        have ht : r.zone &&& nodes0 ≠ 0 := by
          rcases hm.touch with h0 | h1
          · exact absurd h0 hn0
          · exact h1
        exact and_ne_zero_of_msub (msub_or_self r.zone nodes) ht

theorem handleOvercommit_ef (b : St) (nodes0 : Mask) (hn0 : nodes0 ≠ 0) (s : St) (hnd : IdsNodup s) (h : EF b nodes0 s) :
    EF b nodes0 (s.handleOvercommit nodes0).1 :=
  (handleOvercommit_pres nodes0 (EF b nodes0) (fun _ _ h => ⟨h.ent, h.touch⟩)
    (fun s r nodes h hm => ef_move b nodes0 hn0 s r nodes h hm) s hnd h).2

/-! ### usage cannot grow when no counted request appears -/

def counted (q : Req) (z : Mask) : Prop := q.zone ≠ 0 ∧ msub q.zone z = true

instance (q : Req) (z : Mask) : Decidable (counted q z) := by unfold counted; exact inferInstance

def usageL (l : List Req) (z : Mask) : Int :=
  l.foldl (fun u r => if r.zone ≠ 0 ∧ msub r.zone z then u + r.size else u) 0

theorem zoneUsage_eq (s : St) (z : Mask) : s.zoneUsage z = usageL s.reqs z := rfl

theorem usageL_shift (l : List Req) (z : Mask) (a : Int) :
    l.foldl (fun u r => if r.zone ≠ 0 ∧ msub r.zone z then u + r.size else u) a = a + usageL l z := by
  unfold usageL
  induction l generalizing a with
  | nil => simp
  | cons r rs ih =>
    simp only [List.foldl_cons]
    rw [ih, ih (if r.zone ≠ 0 ∧ msub r.zone z = true then 0 + r.size else 0)]
    split <;> omega

theorem usageL_cons (q : Req) (l : List Req) (z : Mask) :
    usageL (q :: l) z = (if q.zone ≠ 0 ∧ msub q.zone z = true then q.size else 0) + usageL l z := by
  show (q :: l).foldl _ 0 = _
  simp only [List.foldl_cons]
  rw [usageL_shift]
  split <;> simp

theorem usageL_append (l1 l2 : List Req) (z : Mask) : usageL (l1 ++ l2) z = usageL l1 z + usageL l2 z := by
  induction l1 with
  | nil => simp [usageL]
  | cons q l ih => rw [List.cons_append, usageL_cons, usageL_cons, ih]; omega

theorem usageL_map_le (l : List Req) (f : Req → Req) (z : Mask)
    (hsize : ∀ q ∈ l, (f q).size = q.size ∧ 0 ≤ q.size)
    (hc : ∀ q ∈ l, ((f q).zone ≠ 0 ∧ msub (f q).zone z = true) → (q.zone ≠ 0 ∧ msub q.zone z = true)) :
    usageL (l.map f) z ≤ usageL l z := by
  induction l with
  | nil => simp [usageL]
  | cons q l ih =>
    rw [List.map_cons, usageL_cons, usageL_cons]
    have ih' := ih (fun x hx => hsize x (List.mem_cons_of_mem _ hx)) (fun x hx => hc x (List.mem_cons_of_mem _ hx))
    obtain ⟨hs1, hs2⟩ := hsize q List.mem_cons_self
    have hcq := hc q List.mem_cons_self
    by_cases c1 : (f q).zone ≠ 0 ∧ msub (f q).zone z = true
    · rw [if_pos c1, if_pos (hcq c1), hs1]; omega
    · rw [if_neg c1]
      split <;> omega

theorem zoneFree_of_reqs (s s' : St) (hr : s'.reqs = s.reqs) (hn : s'.nodes = s.nodes) (z : Mask) :
    s'.zoneFree z = s.zoneFree z := by
  unfold St.zoneFree St.zoneUsage St.zoneCapacity
  rw [hr, hn]

theorem numUsers_ne_zero (s : St) (q : Req) (hq : q ∈ s.reqs) (hz : q.zone ≠ 0) : s.numUsers q.zone ≠ 0 := by
  unfold St.numUsers
  intro h
  have : q ∈ s.reqs.filter (fun r => r.zone ≠ 0 ∧ r.zone == q.zone) := by
    apply List.mem_filter.2
    exact ⟨hq, by simp [hz]⟩
  rw [List.length_eq_zero_iff.1 h] at this
  cases this

/-! ### the core argument -/

theorem msub_trans' {a b c : Mask} (h1 : msub a b = true) (h2 : msub b c = true) : msub a c = true := by
  rw [msub_iff] at *
  intro i h; exact h2 i (h1 i h)

theorem and_eq_zero_of_msub {a b m : Mask} (h : msub a b = true) (hb : b &&& m = 0) : a &&& m = 0 := by
  apply Classical.byContradiction
  intro ha
  exact and_ne_zero_of_msub h ha hb

/-- `F` is the state at the end of a successful transaction that started from `b` and handled
`nodes0`: if every assigned zone of `b` fits, every assigned zone of `F` fits. -/
theorem fit_core (b F : St) (ex : String) (nodes0 : Mask) (hbnd : IdsNodup b)
    (hg : Good b F) (ht : Track b ex F) (hef : EF b nodes0 F)
    (hchk : ∀ z ∈ F.entries, z &&& nodes0 ≠ 0 → 0 ≤ F.zoneFree z)
    (hsz : ∀ q ∈ b.reqs, 0 ≤ q.size)
    (hfit : ∀ q ∈ b.reqs, q.zone ≠ 0 → 0 ≤ b.zoneFree q.zone) :
    ∀ q ∈ F.reqs, q.zone ≠ 0 → 0 ≤ F.zoneFree q.zone := by
  intro q hq hz
  by_cases htouch : q.zone &&& nodes0 ≠ 0
  · exact hchk _ (hef.ent q hq hz) htouch
  · have ht0 : q.zone &&& nodes0 = 0 := by simpa using htouch
    obtain ⟨⟨Z, j, hreqs, _⟩, hnodes, _⟩ := hg
    -- q was not moved: it sits in its zone of `b`
    have hsame : q.zone = zoneIn b q.id := by
      apply Classical.byContradiction
      intro hne
      exact hef.touch q hq hne ht0
    rw [hreqs] at hq
    obtain ⟨qb, hqb, e⟩ := List.mem_map.1 hq
    have hqid : q.id = qb.id := by rw [← e]; rfl
    have hqbz : qb.zone = q.zone := by rw [hsame, hqid, zoneIn_of_mem b hbnd qb hqb]
    have hold : 0 ≤ b.zoneFree q.zone := by rw [← hqbz]; exact hfit qb hqb (by rw [hqbz]; exact hz)
    -- usage of q.zone did not grow
    have hle : usageL F.reqs q.zone ≤ usageL b.reqs q.zone := by
      rw [hreqs]
      apply usageL_map_le
      · intro x hx; exact ⟨rfl, hsz x hx⟩
      · intro x hx hc
        have hxF : withZone Z x ∈ F.reqs := by rw [hreqs]; exact List.mem_map_of_mem hx
        have hmono := ht.mono (withZone Z x) hxF
        have hzx : zoneIn b (withZone Z x).id = x.zone := zoneIn_of_mem b hbnd x hx
        rw [hzx] at hmono
        refine ⟨?_, msub_trans' hmono hc.2⟩
        intro hx0
        -- an unassigned request of `b` that is counted now was moved, so its zone touches nodes0
        have hmoved : (withZone Z x).zone ≠ zoneIn b (withZone Z x).id := by rw [hzx, hx0]; exact hc.1
        exact hef.touch _ hxF hmoved (and_eq_zero_of_msub hc.2 ht0)
    unfold St.zoneFree at hold ⊢
    have hcap : F.zoneCapacity q.zone = b.zoneCapacity q.zone := by unfold St.zoneCapacity; rw [hnodes]
    rw [hcap, zoneUsage_eq]
    rw [zoneUsage_eq] at hold
    omega

/-! ### `Allocate` -/

def Ent (s : St) : Prop := ∀ q ∈ s.reqs, q.zone ≠ 0 → q.zone ∈ s.entries
def FitInv (s : St) : Prop := ∀ q ∈ s.reqs, q.zone ≠ 0 → 0 ≤ s.zoneFree q.zone
def Sizes (s : St) : Prop := ∀ q ∈ s.reqs, 0 ≤ q.size

theorem ent_cleanup (s : St) (h : Ent s) : Ent s.cleanupUnusedZones := by
  intro q hq hz
  unfold St.cleanupUnusedZones
  apply List.mem_filter.2
  refine ⟨h q hq hz, ?_⟩
  have := numUsers_ne_zero s q hq hz
  simpa using this

/-- the overcommit check at the end of a successful internal `allocate` passed -/
theorem allocate_ok_chk (s : St) (r r' : Req) (h : (s.allocate r).2 = .ok r') :
    (((withNew s r').startJournal.zoneMove r'.zone r'.id).handleOvercommit r'.zone).2 = none := by
  unfold St.allocate at h
  cases hv : s.validateRequest r with
  | error e => simp [hv] at h
  | ok t1 =>
    simp only [hv] at h
    cases hf : s.findInitialZone { r with types := t1 } with
    | error e => simp [hf] at h
    | ok z1 =>
      simp only [hf] at h
      cases hn : s.ensureNormalMemory { r with types := t1, zone := z1 } with
      | error e => simp [hn] at h
      | ok zt =>
        obtain ⟨z2, t2⟩ := zt
        simp only [hn] at h
        have hnone := validateRequest_spec s r t1 hv
        cases hh : (({ s.startJournal with reqs := s.startJournal.reqs ++ [{ ({ r with types := t2, zone := z2 } : Req) with zone := 0 }] } : St).zoneAssign z2 r.id).handleOvercommit z2 with
        | mk s2 oe =>
          simp only [hh] at h
          cases oe with
          | some e => simp only [] at h; cases h
          | none =>
            simp only [Except.ok.injEq] at h
            subst h
            simp only []
            have heq : ({ s.startJournal with reqs := s.startJournal.reqs ++ [{ ({ r with types := t2, zone := z2 } : Req) with zone := 0 }] } : St)
                = (withNew s { r with types := t2, zone := z2 }).startJournal := by
              simp [withNew, St.startJournal]
            have hreq : (withNew s { r with types := t2, zone := z2 }).startJournal.req? r.id = some { ({ r with types := t2, zone := z2 } : Req) with zone := 0 } := by
              unfold St.req? withNew St.startJournal
              simp only [List.find?_append]
              have : s.reqs.find? (·.id == r.id) = none := hnone
              simp [this]
            have hmove : (withNew s { r with types := t2, zone := z2 }).startJournal.zoneAssign z2 r.id
                = (withNew s { r with types := t2, zone := z2 }).startJournal.zoneMove z2 r.id := by
              unfold St.zoneMove
              simp [hreq]
            rw [← hmove, ← heq, hh]

theorem Allocate_fit (s : St) (hw : WF s) (hp : Placed s) (hsz : Sizes s) (hent : Ent s) (hfit : FitInv s)
    (r : Req) (hr : 0 ≤ r.size) (res : Result) (h : (s.Allocate r).2 = .ok res) :
    Sizes (s.Allocate r).1 ∧ Ent (s.Allocate r).1 ∧ FitInv (s.Allocate r).1 := by
  obtain ⟨r', ha, hreqs, hnodes⟩ := Allocate_ok_shape s r res h
  obtain ⟨hnone, hnorm, _, _, hsize, heq⟩ := allocate_ok_eq s r r' ha
  have hchk0 := allocate_ok_chk s r r' ha
  have hz : r'.zone ≠ 0 := and_ne_zero_left hnorm
  have hg : Good (withNew s r') (s.allocate r).1 := ((allocate_spec s hw r).2 r' ha).1
  obtain ⟨_, ht⟩ := allocate_track s hw hp r r' ha
  have hbnd : IdsNodup (withNew s r') := withNew_ids_nodup s hw r' hnone
  have hb0 : IdsNodup (withNew s r').startJournal := hbnd
  have hmem0 : ({ r' with zone := 0 } : Req) ∈ (withNew s r').startJournal.reqs := by
    simp [withNew, St.startJournal]
  have hback : ({ ({ r' with zone := 0 } : Req) with zone := r'.zone } : Req) = r' := by cases r'; rfl
  have hne0 : ({ r' with zone := 0 } : Req).zone ≠ r'.zone := fun e => hz e.symm
  -- EF at the start of overcommit handling
  have hef0 : EF (withNew s r') r'.zone ((withNew s r').startJournal.zoneMove r'.zone r'.id) := by
    have hcases : ∀ q' ∈ ((withNew s r').startJournal.zoneMove r'.zone r'.id).reqs,
        (q' ∈ (withNew s r').reqs ∧ q'.id ≠ r'.id) ∨ q' = r' := by
      intro q' hq'
      have := zoneMove_reqs_mem (withNew s r').startJournal hb0 { r' with zone := 0 } hmem0 r'.zone q' hq'
      rw [hback] at this
      exact this
    refine ⟨?_, ?_⟩
    · intro q' hq' hzq
      rcases hcases q' hq' with ⟨hq, hid⟩ | e
      · simp only [withNew, List.mem_append, List.mem_singleton] at hq
        rcases hq with hq | hq
        · exact zoneMove_entries_sup _ _ _ _ (hent q' hq hzq)
        · subst hq; exact absurd rfl hid
      · subst e
        exact zoneMove_entries_self (withNew s q').startJournal hb0 { q' with zone := 0 } hmem0 q'.zone hne0
    · intro q' hq' hzq
      rcases hcases q' hq' with ⟨hq, _⟩ | e
      · exact absurd (zoneIn_of_mem _ hbnd q' hq).symm hzq
      · subst e; rw [Nat.and_self]; exact hz
  have hnd1 : IdsNodup ((withNew s r').startJournal.zoneMove r'.zone r'.id) := by
    unfold IdsNodup; rw [zoneMove_ids]; exact hbnd
  have hef := handleOvercommit_ef (withNew s r') r'.zone hz _ hnd1 hef0
  have hchk := handleOvercommit_ok_fits _ r'.zone hchk0
  rw [← heq] at hef hchk
  -- the old zones fit in `withNew s r'` as they did in `s`
  have hbsz : ∀ q ∈ (withNew s r').reqs, 0 ≤ q.size := by
    intro q hq
    simp only [withNew, List.mem_append, List.mem_singleton] at hq
    rcases hq with hq | hq
    · exact hsz q hq
    · subst hq; show 0 ≤ r'.size; rw [hsize]; exact hr
  have hbfree : ∀ z, (withNew s r').zoneFree z = s.zoneFree z := by
    intro z
    unfold St.zoneFree
    have hc : (withNew s r').zoneCapacity z = s.zoneCapacity z := rfl
    rw [hc, zoneUsage_eq, zoneUsage_eq]
    show _ - usageL (s.reqs ++ [{ r' with zone := 0 }]) z = _
    rw [usageL_append]
    have : usageL [({ r' with zone := 0 } : Req)] z = 0 := by simp [usageL]
    rw [this]; simp
  have hbfit : ∀ q ∈ (withNew s r').reqs, q.zone ≠ 0 → 0 ≤ (withNew s r').zoneFree q.zone := by
    intro q hq hzq
    rw [hbfree]
    simp only [withNew, List.mem_append, List.mem_singleton] at hq
    rcases hq with hq | hq
    · exact hfit q hq hzq
    · subst hq; exact absurd rfl hzq
  have hcore := fit_core (withNew s r') (s.allocate r).1 r'.id r'.zone hbnd hg ht hef
    (fun z hz htz => hchk z hz (Or.inr htz)) hbsz hbfit
  refine ⟨?_, ?_, ?_⟩
  · -- sizes
    intro q hq
    rw [hreqs] at hq
    obtain ⟨⟨Z, j, hr2, _⟩, _, _⟩ := hg
    rw [hr2] at hq
    obtain ⟨qb, hqb, e⟩ := List.mem_map.1 hq
    rw [← e]; exact hbsz qb hqb
  · -- zone table
    have hfinal : (s.Allocate r).1 = St.cleanupUnusedZones
        { ((s.allocate r).1.commitJournal r'.id).1 with version := ((s.allocate r).1.commitJournal r'.id).1.version + 1 } := by
      unfold St.Allocate
      cases ha' : s.allocate r with
      | mk s' res' =>
        rw [ha'] at ha
        simp only [] at ha
        subst ha
        rfl
    rw [hfinal]
    apply ent_cleanup
    intro q hq hzq
    have hq' : q ∈ (s.allocate r).1.reqs := by
      have : ((s.allocate r).1.commitJournal r'.id).1.reqs = (s.allocate r).1.reqs := commitJournal_reqs _ _
      simpa [this] using hq
    have := hef.ent q hq' hzq
    show q.zone ∈ ((s.allocate r).1.commitJournal r'.id).1.entries
    unfold St.commitJournal
    split <;> exact this
  · intro q hq hzq
    rw [hreqs] at hq
    rw [zoneFree_of_reqs _ _ hreqs hnodes]
    exact hcore q hq hzq

/-! ### `Realloc` -/

theorem Realloc_ok_shape2 (s : St) (id : String) (nodes : Mask) (types : Nat) (res : Result)
    (h : (s.Realloc id nodes types).2 = .ok res) :
    (s.Realloc id nodes types).1 = s ∨
    ∃ (r : Req) (target : Mask) (t : Nat) (S4 : St), s.req? id = some r ∧ msub r.zone target = true ∧ target ≠ 0 ∧
      ((s.startJournal.zoneMove target id).handleOvercommit target).2 = none ∧
      (s.Realloc id nodes types).1 = S4.cleanupUnusedZones ∧
      S4.reqs = (((s.startJournal.zoneMove target id).handleOvercommit target).1).reqs.map (addTypes id t) ∧
      S4.entries = (((s.startJournal.zoneMove target id).handleOvercommit target).1).entries ∧
      S4.nodes = (((s.startJournal.zoneMove target id).handleOvercommit target).1).nodes := by
  unfold St.Realloc at h ⊢
  cases hr : s.req? id with
  | none => simp [hr] at h
  | some r =>
    simp only [hr] at h ⊢
    cases hv : s.validateRealloc r nodes types with
    | error e' => simp [hv] at h
    | ok v =>
      obtain ⟨n1, t1, fl⟩ := v
      cases fl with
      | true => left; rfl
      | false =>
        right
        simp only [hv] at h ⊢
        cases hx : s.startJournal.expand (r.zone ||| n1) t1 with
        | mk newNodes newTypes =>
          simp only [hx] at h ⊢
          by_cases hz : (newNodes == 0) = true
          · simp [hz] at h
          · simp only [hz, Bool.false_eq_true, if_false] at h ⊢
            have hne : r.zone ||| n1 ||| newNodes ≠ 0 := by
              intro hh
              have := (Nat.or_eq_zero_iff.1 hh).2
              simp [this] at hz
            cases ho : (s.startJournal.zoneMove (r.zone ||| n1 ||| newNodes) id).handleOvercommit (r.zone ||| n1 ||| newNodes) with
            | mk s3 oe =>
              simp only [ho] at h ⊢
              cases oe with
              | some e' => simp at h
              | none =>
                simp only []
                refine ⟨r, r.zone ||| n1 ||| newNodes, newTypes, _, rfl, ?_, hne, ?_, rfl, ?_, ?_, ?_⟩
                · exact msub_or_right newNodes (msub_or_self r.zone n1)
                · rw [ho]
                · rw [commitJournal_reqs, ho]; rfl
                · rw [ho]; simp only [St.commitJournal]; split <;> rfl
                · rw [ho]; simp only [St.commitJournal]; split <;> rfl

theorem Realloc_fit (s : St) (hw : WF s) (hp : Placed s) (hsz : Sizes s) (hent : Ent s) (hfit : FitInv s)
    (id : String) (nodes : Mask) (types : Nat) (res : Result) (h : (s.Realloc id nodes types).2 = .ok res) :
    Sizes (s.Realloc id nodes types).1 ∧ Ent (s.Realloc id nodes types).1 ∧ FitInv (s.Realloc id nodes types).1 := by
  have hnd : IdsNodup s := hw.ids
  rcases Realloc_ok_shape2 s id nodes types res h with e | ⟨r, target, t, S4, hr, hsub, hne, hok, hfin, hreqs, hents, hnodes⟩
  · rw [e]; exact ⟨hsz, hent, hfit⟩
  · have hrm : r ∈ s.reqs := List.mem_of_find?_eq_some hr
    have hrid : r.id = id := by have := List.find?_some hr; simpa using this
    subst hrid
    have hb0 : IdsNodup s.startJournal := hnd
    have hcases : ∀ q' ∈ (s.startJournal.zoneMove target r.id).reqs,
        (q' ∈ s.reqs ∧ q'.id ≠ r.id) ∨ q' = { r with zone := target } := by
      intro q' hq'
      exact zoneMove_reqs_mem s.startJournal hb0 r hrm target q' hq'
    have hnm : (s.startJournal.zoneMove target r.id).normalMask = s.normalMask :=
      normalMask_of_nodes _ _ (by rw [zoneMove_nodes]; rfl)
    have ht0 : Track s r.id (s.startJournal.zoneMove target r.id) := by
      refine ⟨?_, ?_, ?_, ?_⟩
      · intro q' hq'
        rcases hcases q' hq' with ⟨hq, _⟩ | e
        · rw [zoneIn_of_mem s hnd q' hq]; exact msub_refl _
        · subst e
          show msub (zoneIn s r.id) target = true
          rw [zoneIn_of_mem s hnd r hrm]; exact hsub
      · intro q' hq' _ hne'
        rcases hcases q' hq' with ⟨hq, _⟩ | e
        · exact (zoneIn_of_mem s hnd q' hq).symm
        · subst e; exact absurd rfl hne'
      · intro q' hq'
        rw [hnm]
        rcases hcases q' hq' with ⟨hq, _⟩ | e
        · exact hp q' hq
        · subst e; exact and_ne_zero_of_msub hsub (hp r hrm)
      · rw [zoneMove_nodes]; rfl
    have hef0 : EF s target (s.startJournal.zoneMove target r.id) := by
      refine ⟨?_, ?_⟩
      · intro q' hq' hzq
        rcases hcases q' hq' with ⟨hq, _⟩ | e
        · exact zoneMove_entries_sup _ _ _ _ (hent q' hq hzq)
        · subst e
          by_cases hsame : r.zone = target
          · show target ∈ _
            rw [← hsame]
            exact zoneMove_entries_sup _ _ _ _ (hent r hrm (by rw [hsame]; exact hne))
          · exact zoneMove_entries_self s.startJournal hb0 r hrm target hsame
      · intro q' hq' hzq
        rcases hcases q' hq' with ⟨hq, _⟩ | e
        · exact absurd (zoneIn_of_mem s hnd q' hq).symm hzq
        · subst e; show target &&& target ≠ 0; rw [Nat.and_self]; exact hne
    have hnd1 : IdsNodup (s.startJournal.zoneMove target r.id) := by
      unfold IdsNodup; rw [zoneMove_ids]; exact hnd
    have hg0 : Good s s.startJournal := good_start s hw.journal hw.ids
    have hg := handleOvercommit_good s _ (zoneMove_good s _ hg0 target hne r.id) target
    obtain ⟨_, ht⟩ := handleOvercommit_track s r.id _ target hnd1 ht0
    have hef := handleOvercommit_ef s target hne _ hnd1 hef0
    have hchk := handleOvercommit_ok_fits _ target hok
    have hcore := fit_core s _ r.id target hnd hg ht hef (fun z hz htz => hchk z hz (Or.inr htz)) hsz
      (fun q hq hzq => hfit q hq hzq)
    -- transfer through the types update and the clean-up
    have hS4free : ∀ z, S4.zoneFree z = (((s.startJournal.zoneMove target r.id).handleOvercommit target).1).zoneFree z := by
      intro z
      unfold St.zoneFree St.zoneCapacity
      rw [hnodes, zoneUsage_eq, zoneUsage_eq, hreqs]
      have : usageL (List.map (addTypes r.id t) (((s.startJournal.zoneMove target r.id).handleOvercommit target).1).reqs) z
          = usageL (((s.startJournal.zoneMove target r.id).handleOvercommit target).1).reqs z := by
        generalize (((s.startJournal.zoneMove target r.id).handleOvercommit target).1).reqs = l
        induction l with
        | nil => rfl
        | cons q l ih =>
          rw [List.map_cons, usageL_cons, usageL_cons, ih, addTypes_zone]
          have : (addTypes r.id t q).size = q.size := by unfold addTypes; split <;> rfl
          rw [this]
      rw [this]
    rw [hfin]
    refine ⟨?_, ?_, ?_⟩
    · intro q hq
      have hq' : q ∈ S4.reqs := hq
      rw [hreqs] at hq'
      obtain ⟨q0, hq0, e⟩ := List.mem_map.1 hq'
      have : q.size = q0.size := by rw [← e]; unfold addTypes; split <;> rfl
      rw [this]
      obtain ⟨⟨Z, j, hr2, _⟩, _, _⟩ := hg
      rw [hr2] at hq0
      obtain ⟨qb, hqb, e2⟩ := List.mem_map.1 hq0
      rw [← e2]; exact hsz qb hqb
    · apply ent_cleanup
      intro q hq hzq
      rw [hreqs] at hq
      obtain ⟨q0, hq0, e⟩ := List.mem_map.1 hq
      rw [hents, ← e, addTypes_zone]
      rw [← e, addTypes_zone] at hzq
      exact hef.ent q0 hq0 hzq
    · intro q hq hzq
      have hq' : q ∈ S4.reqs := hq
      rw [zoneFree_of_reqs S4 S4.cleanupUnusedZones rfl rfl, hS4free]
      rw [hreqs] at hq'
      obtain ⟨q0, hq0, e⟩ := List.mem_map.1 hq'
      rw [← e, addTypes_zone]
      rw [← e, addTypes_zone] at hzq
      exact hcore q0 hq0 hzq

/-! ### failing operations, offers and releases keep the zone table complete -/

theorem ent_of_sup (s S : St) (hr : S.reqs = s.reqs) (hs : EntSup s S) (h : Ent s) : Ent S := by
  intro q hq hz
  rw [hr] at hq
  exact hs _ (h q hq hz)

theorem allocate_entries_sup (s : St) (hw : WF s) (r : Req) : EntSup s (s.allocate r).1 := by
  unfold St.allocate
  cases hv : s.validateRequest r with
  | error e => exact fun z hz => hz
  | ok t1 =>
    simp only []
    cases hf : s.findInitialZone { r with types := t1 } with
    | error e => exact fun z hz => hz
    | ok z1 =>
      simp only []
      cases hn : s.ensureNormalMemory { r with types := t1, zone := z1 } with
      | error e => exact fun z hz => hz
      | ok zt =>
        obtain ⟨z2, t2⟩ := zt
        simp only []
        have hnone := validateRequest_spec s r t1 hv
        let r3 : Req := { r with types := t2, zone := z2 }
        have hnone3 : s.req? r3.id = none := hnone
        have hnd0 : IdsNodup (({ s.startJournal with reqs := s.startJournal.reqs ++ [{ r3 with zone := 0 }] } : St).zoneAssign z2 r3.id) := by
          unfold IdsNodup
          rw [zoneAssign_ids]
          exact withNew_ids_nodup s hw r3 hnone3
        have hsup0 : EntSup s (({ s.startJournal with reqs := s.startJournal.reqs ++ [{ r3 with zone := 0 }] } : St).zoneAssign z2 r3.id) :=
          fun z hz => zoneAssign_entries_sup _ _ _ z hz
        have hsup1 := handleOvercommit_entsup s _ z2 hnd0 hsup0
        cases hh : (({ s.startJournal with reqs := s.startJournal.reqs ++ [{ r3 with zone := 0 }] } : St).zoneAssign z2 r3.id).handleOvercommit z2 with
        | mk s2 oe =>
          rw [hh] at hsup1
          cases oe with
          | none => exact hsup1
          | some e => exact fun z hz => revertJournal_entries_sup _ _ z (hsup1 z hz)

theorem Allocate_fail_ent (s : St) (hw : WF s) (hent : Ent s) (r : Req) (e : Err) (h : (s.Allocate r).2 = .error e) :
    Ent (s.Allocate r).1 := by
  have hs := allocate_spec s hw r
  have hsup := allocate_entries_sup s hw r
  unfold St.Allocate at h ⊢
  cases ha : s.allocate r with
  | mk s' res =>
    rw [ha] at hs hsup h
    cases res with
    | ok r' => simp only [] at h; cases h
    | error e' =>
      simp only []
      exact ent_cleanup _ (ent_of_sup s s' (hs.1 e' rfl).1 hsup hent)

theorem GetOffer_ent (s : St) (hw : WF s) (hent : Ent s) (r : Req) : Ent (s.GetOffer r).1 := by
  have hs := allocate_spec s hw r
  have hsup := allocate_entries_sup s hw r
  unfold St.GetOffer
  cases ha : s.allocate r with
  | mk s' res =>
    rw [ha] at hs hsup
    cases res with
    | error e' =>
      simp only []
      exact ent_cleanup _ (ent_of_sup s s' (hs.1 e' rfl).1 hsup hent)
    | ok r' =>
      obtain ⟨hg, hnone, _⟩ := hs.2 r' rfl
      have hrr := revert_restores_drop (withNew s r') s' hg (withNew_ids_nodup s hw r' hnone) r'.id
      have hsup2 : EntSup s (s'.revertJournal (some r'.id)).1 :=
        fun z hz => revertJournal_entries_sup _ _ z (hsup z hz)
      have hreqs : (s'.revertJournal (some r'.id)).1.reqs = s.reqs := by
        rw [hrr.2.1]
        exact filter_append_new s.reqs { r' with zone := 0 } (req?_none_not_mem s _ hnone)
      simp only []
      cases hrv : s'.revertJournal (some r'.id) with
      | mk s'' rest =>
        obtain ⟨ups, oe⟩ := rest
        rw [hrv] at hsup2 hreqs
        cases oe with
        | some e => exact ent_cleanup _ (ent_of_sup s s'' hreqs hsup2 hent)
        | none => exact ent_cleanup _ (ent_of_sup s s'' hreqs hsup2 hent)

theorem Realloc_fail_ent (s : St) (hw : WF s) (hent : Ent s) (id : String) (nodes : Mask) (types : Nat) (e : Err)
    (h : (s.Realloc id nodes types).2 = .error e) : Ent (s.Realloc id nodes types).1 := by
  unfold St.Realloc at h ⊢
  cases hr : s.req? id with
  | none => exact hent
  | some r =>
    simp only [hr] at h ⊢
    cases hv : s.validateRealloc r nodes types with
    | error e' => exact hent
    | ok v =>
      obtain ⟨n1, t1, fl⟩ := v
      cases fl with
      | true => simp only [hv] at h; cases h
      | false =>
        simp only [hv] at h ⊢
        have hg0 : Good s s.startJournal := good_start s hw.journal hw.ids
        cases hx : s.startJournal.expand (r.zone ||| n1) t1 with
        | mk newNodes newTypes =>
          simp only [hx] at h ⊢
          by_cases hz : (newNodes == 0) = true
          · simp only [hz, if_true]
            have hrr := revert_restores s _ hg0 hw.ids
            apply ent_cleanup
            exact ent_of_sup s _ hrr.2.1 (fun z hz => revertJournal_entries_sup _ _ z hz) hent
          · simp only [hz, Bool.false_eq_true, if_false] at h ⊢
            have hne : r.zone ||| n1 ||| newNodes ≠ 0 := by
              intro hh
              have := (Nat.or_eq_zero_iff.1 hh).2
              simp [this] at hz
            have hg1 := zoneMove_good s _ hg0 (r.zone ||| n1 ||| newNodes) hne id
            have hg2 := handleOvercommit_good s _ hg1 (r.zone ||| n1 ||| newNodes)
            have hnd1 : IdsNodup (s.startJournal.zoneMove (r.zone ||| n1 ||| newNodes) id) := by
              unfold IdsNodup; rw [zoneMove_ids]; exact hw.ids
            have hsup1 := handleOvercommit_entsup s _ (r.zone ||| n1 ||| newNodes) hnd1
              (fun z hz => zoneMove_entries_sup s.startJournal _ _ z hz)
            cases ho : (s.startJournal.zoneMove (r.zone ||| n1 ||| newNodes) id).handleOvercommit (r.zone ||| n1 ||| newNodes) with
            | mk s3 oe =>
              rw [ho] at hg2 hsup1
              simp only [ho] at h ⊢
              cases oe with
              | none => simp only [] at h; cases h
              | some e' =>
                simp only []
                have hrr := revert_restores s s3 hg2 hw.ids
                apply ent_cleanup
                exact ent_of_sup s _ hrr.2.1 (fun z hz => revertJournal_entries_sup _ _ z (hsup1 z hz)) hent

theorem usageL_filter_le (l : List Req) (p : Req → Bool) (z : Mask) (hsz : ∀ q ∈ l, 0 ≤ q.size) :
    usageL (l.filter p) z ≤ usageL l z := by
  induction l with
  | nil => simp [usageL]
  | cons q l ih =>
    have ih' := ih (fun x hx => hsz x (List.mem_cons_of_mem _ hx))
    have hq := hsz q List.mem_cons_self
    rw [List.filter_cons, usageL_cons]
    split
    · rw [usageL_cons]; omega
    · split <;> omega

theorem Release_inv (s : St) (hsz : Sizes s) (hent : Ent s) (hfit : FitInv s) (id : String)
    (hreqs : (s.Release id).1.reqs = s.reqs.filter (·.id != id)) (hnodes : (s.Release id).1.nodes = s.nodes) :
    Sizes (s.Release id).1 ∧ FitInv (s.Release id).1 := by
  have hsub : ∀ q ∈ (s.Release id).1.reqs, q ∈ s.reqs := by
    intro q hq; rw [hreqs] at hq; exact (List.mem_filter.1 hq).1
  refine ⟨fun q hq => hsz q (hsub q hq), ?_⟩
  intro q hq hz
  have hold := hfit q (hsub q hq) hz
  unfold St.zoneFree at hold ⊢
  have hcap : (s.Release id).1.zoneCapacity q.zone = s.zoneCapacity q.zone := by unfold St.zoneCapacity; rw [hnodes]
  rw [hcap, zoneUsage_eq, hreqs]
  rw [zoneUsage_eq] at hold
  have := usageL_filter_le s.reqs (·.id != id) q.zone hsz
  omega

theorem Release_ent (s : St) (hent : Ent s) (id : String) : Ent (s.Release id).1 := by
  unfold St.Release
  cases hr : s.req? id with
  | none => exact hent
  | some r =>
    simp only []
    split
    · exact hent
    · apply ent_cleanup
      intro q hq hz
      show q.zone ∈ (s.zoneRemove r.zone id).entries
      rw [zoneRemove_entries]
      have hq' : q ∈ (s.zoneRemove r.zone id).reqs.filter (·.id != id) := hq
      obtain ⟨hq1, hq2⟩ := List.mem_filter.1 hq'
      -- q is an element of s.reqs whose id differs from `id` (zoneRemove only touches `id`)
      have : q ∈ s.reqs := by
        unfold St.zoneRemove at hq1
        simp only [hr] at hq1
        split at hq1
        · obtain ⟨q0, hq0, e⟩ := mem_setZone s id 0 q hq1
          by_cases hid : (q0.id == id) = true
          · simp only [hid, if_true] at e
            have : q.id = id := by rw [e]; simpa using hid
            simp [this] at hq2
          · simp only [hid, Bool.false_eq_true, if_false] at e
            rw [e]; exact hq0
        · exact hq1
      exact hent q this hz

end Nri.LibMem
