import Nri.Model.Annot
/-! Helper lemmas for C18: the suffix-classified fold computes an order-free specification. -/
namespace Nri.Annot

theorem aget_aset (m : AMap) (k v k' : String) :
    aget (aset m k v) k' = if k' = k then some v else aget m k' := by
  unfold aset
  split
  · rename_i hany
    unfold aget
    induction m with
    | nil => simp at hany
    | cons p ps ih =>
      simp only [List.map_cons, List.find?_cons]
      by_cases e : p.1 = k
      · have h1 : (p.1 == k) = true := by simp [e]
        simp only [h1, if_true]
        by_cases e' : k' = k
        · simp [e']
        · have : (k == k') = false := by simp [Ne.symm e']
          simp only [this, e', if_false]
          have h2 : (p.1 == k') = false := by simp [e, Ne.symm e']
          simp only [h2]
          by_cases hany' : ps.any (·.1 == k) = true
          · have := ih hany'
            simp only [e', if_false] at this
            exact this
          · -- no more k in ps: the map is the identity on ps
            have hid : ps.map (fun p => if p.1 == k then (k, v) else p) = ps := by
              have : ∀ x ∈ ps, (x.1 == k) = false := by
                intro x hx
                cases hxk : (x.1 == k) with
                | false => rfl
                | true => exact absurd (List.any_eq_true.2 ⟨x, hx, hxk⟩) hany'
              conv => rhs; rw [← List.map_id ps]
              apply List.map_congr_left
              intro x hx; simp [this x hx]
            rw [hid]
      · have h1 : (p.1 == k) = false := by simp [e]
        simp only [h1, Bool.false_eq_true, if_false]
        have hany' : ps.any (·.1 == k) = true := by
          simp only [List.any_cons, h1, Bool.false_or] at hany; exact hany
        by_cases e' : k' = k
        · have h2 : (p.1 == k') = false := by simp [e', e]
          simp only [h2]
          have := ih hany'
          exact this
        · by_cases e2 : p.1 = k'
          · have h2 : (p.1 == k') = true := by simp [e2]
            simp [h2, e']
          · have h2 : (p.1 == k') = false := by simp [e2]
            simp only [h2]
            exact ih hany'
  · rename_i hany
    unfold aget
    rw [List.find?_append]
    have hnone : m.find? (·.1 == k) = none := by
      apply List.find?_eq_none.2
      intro x hx hxk
      exact hany (List.any_eq_true.2 ⟨x, hx, hxk⟩)
    by_cases e' : k' = k
    · subst e'
      simp [hnone]
    · simp only [e', if_false]
      have : (k == k') = false := by simp [Ne.symm e']
      simp [List.find?_cons, this]

/-- order-free specification of the suffix-classified fold: a container-specific entry for
prefix `p` wins, else the pod-level one. -/
def Spec (entries : List (Cls × String)) (p v : String) : Prop :=
  (Cls.ctr p, v) ∈ entries ∨ ((∀ w, (Cls.ctr p, w) ∉ entries) ∧ (Cls.pod p, v) ∈ entries)

/-- distinct annotation keys classify to distinct (non-`other`) classes -/
def UniqCls (entries : List (Cls × String)) : Prop :=
  entries.Pairwise (fun a b => a.1 = Cls.other ∨ b.1 = Cls.other ∨ a.1 ≠ b.1)

def FoldInv (done : List (Cls × String)) (acc : AMap) : Prop :=
  ∀ p v, aget acc p = some v ↔ Spec done p v

theorem aget_associate (m : AMap) (k v k' : String) (ov : Bool) :
    aget (associate m k v ov) k' =
      if ov || (aget m k).isNone then (if k' = k then some v else aget m k') else aget m k' := by
  unfold associate
  split
  · rw [aget_aset]
  · rfl

theorem effStep_inv (done : List (Cls × String)) (acc : AMap) (e : Cls × String)
    (hinv : FoldInv done acc) (hu : UniqCls (done ++ [e])) : FoldInv (done ++ [e]) (effStep acc e) := by
  obtain ⟨c, x⟩ := e
  have hnot : c ≠ Cls.other → ∀ w, (c, w) ∉ done := by
    intro hc w hm
    have := (List.pairwise_append.1 hu).2.2 (c, w) hm (c, x) (by simp)
    rcases this with h | h | h
    · exact hc h
    · exact hc h
    · exact h rfl
  intro p v
  unfold effStep
  cases c with
  | other =>
    simp only []
    rw [hinv p v]
    unfold Spec
    simp [List.mem_append]
  | ctr q =>
    simp only []
    rw [aget_associate]
    simp only [Bool.true_or, if_true]
    have hq := hnot (by simp)
    by_cases e : p = q
    · subst e
      simp only [if_true, Option.some.injEq]
      unfold Spec
      constructor
      · intro h; left; simp [List.mem_append, h]
      · intro h
        rcases h with h | h
        · simp only [List.mem_append, List.mem_singleton, Prod.mk.injEq, Cls.ctr.injEq, true_and] at h
          rcases h with h | h
          · exact absurd h (hq v)
          · exact h.symm
        · exact absurd (by simp [List.mem_append]) (h.1 x)
    · simp only [e, if_false]
      rw [hinv p v]
      unfold Spec
      have hne : Cls.ctr p ≠ Cls.ctr q := by intro h; injection h with h; exact e h
      simp [List.mem_append, hne]
  | pod q =>
    simp only []
    rw [aget_associate]
    simp only [Bool.false_or]
    have hq := hnot (by simp)
    by_cases e : p = q
    · subst e
      cases hacc : aget acc p with
      | none =>
        simp only [Option.isNone_none, if_true, Option.some.injEq]
        have hnospec : ∀ w, ¬ Spec done p w := by
          intro w hw
          have := (hinv p w).2 hw
          rw [hacc] at this; cases this
        unfold Spec
        constructor
        · intro h
          right
          refine ⟨?_, by simp [List.mem_append, h]⟩
          intro w hw
          simp only [List.mem_append, List.mem_singleton, Prod.mk.injEq] at hw
          rcases hw with hw | hw
          · exact hnospec w (Or.inl hw)
          · cases hw.1
        · intro h
          rcases h with h | h
          · simp only [List.mem_append, List.mem_singleton, Prod.mk.injEq] at h
            rcases h with h | h
            · exact absurd (Or.inl h) (hnospec v)
            · cases h.1
          · have := h.2
            simp only [List.mem_append, List.mem_singleton, Prod.mk.injEq, Cls.pod.injEq, true_and] at this
            rcases this with h' | h'
            · exact absurd h' (hq v)
            · exact h'.symm
      | some y =>
        simp only [Option.isNone_some, Bool.false_eq_true, if_false]
        have hy : Spec done p y := (hinv p y).1 hacc
        have hctr : (Cls.ctr p, y) ∈ done := by
          rcases hy with h | h
          · exact h
          · exact absurd h.2 (hq y)
        have huniq : ∀ w, (Cls.ctr p, w) ∈ done → w = y := by
          intro w hw
          have h1 : aget acc p = some w := (hinv p w).2 (Or.inl hw)
          rw [hacc] at h1; injection h1 with h1; exact h1.symm
        unfold Spec
        constructor
        · intro h
          injection h with h
          subst h
          left; simp [List.mem_append, hctr]
        · intro h
          rcases h with h | h
          · simp only [List.mem_append, List.mem_singleton, Prod.mk.injEq] at h
            rcases h with h | h
            · rw [huniq v h]
            · cases h.1
          · exact absurd (by simp [List.mem_append, hctr]) (h.1 y)
    · simp only [e, if_false]
      have hne : Cls.pod p ≠ Cls.pod q := by intro h; injection h with h; exact e h
      have : (if (aget acc q).isNone = true then aget acc p else aget acc p) = aget acc p := by split <;> rfl
      rw [this, hinv p v]
      unfold Spec
      simp [List.mem_append, hne]

theorem effFold_from (rest : List (Cls × String)) :
    ∀ (done : List (Cls × String)) (acc : AMap), FoldInv done acc → UniqCls (done ++ rest) →
      FoldInv (done ++ rest) (rest.foldl effStep acc) := by
  induction rest with
  | nil => intro done acc h _; simpa using h
  | cons e es ih =>
    intro done acc h hu
    simp only [List.foldl_cons]
    have hu' : UniqCls ((done ++ [e]) ++ es) := by simpa using hu
    have hstep := effStep_inv done acc e h (by
      have := (List.pairwise_append.1 hu').1
      exact this)
    have := ih (done ++ [e]) (effStep acc e) hstep hu'
    simpa using this

/-- the fold computes the order-free specification. -/
theorem effFold_spec (entries : List (Cls × String)) (hu : UniqCls entries) (p v : String) :
    aget (effFold entries) p = some v ↔ Spec entries p v := by
  have h0 : FoldInv [] [] := by
    intro p v; simp [aget, Spec]
  have := effFold_from entries [] [] h0 (by simpa using hu)
  simpa [effFold] using this p v

end Nri.Annot
