import Nri.Model.LibMem
import Nri.Proofs.LibMem
import Nri.Proofs.LibMemInv
/-!
C09, memory half: releasing every allocation - in any order, with any repetitions and unknown
ids in between - leaves no request behind, hence zero usage of every node set.  Core Lean only.
-/
namespace Nri.LibMem

def Assigned (s : St) : Prop := ∀ q ∈ s.reqs, q.zone ≠ 0

theorem filter_setZone' (reqs : List Req) (id : String) (z : Mask) :
    (reqs.map (fun r => if r.id == id then { r with zone := z } else r)).filter (·.id != id)
      = reqs.filter (·.id != id) := by
  induction reqs with
  | nil => rfl
  | cons x xs ih =>
    simp only [List.map_cons, List.filter_cons]
    by_cases e : x.id = id
    · have h1 : (x.id == id) = true := by simp [e]
      have h2 : (x.id != id) = false := by simp [e]
      simp only [h1, if_true, h2, Bool.false_eq_true, if_false]
      exact ih
    · have h1 : (x.id == id) = false := by simp [e]
      simp only [h1, Bool.false_eq_true, if_false]
      have h2 : (x.id != id) = true := by simp [e]
      simp only [h2, if_true, ih]

/-- with every request assigned, `Release id` removes exactly the requests named `id` (none if
the id is unknown), whatever it returns. -/
theorem Release_reqs (s : St) (ha : Assigned s) (id : String) :
    (s.Release id).1.reqs = s.reqs.filter (·.id != id) := by
  unfold St.Release
  cases hr : s.req? id with
  | none =>
    simp only []
    symm
    apply List.filter_eq_self.2
    intro x hx
    have := List.find?_eq_none.1 hr x hx
    simpa using this
  | some r =>
    have hrm : r ∈ s.reqs := List.mem_of_find?_eq_some hr
    have hz : r.zone ≠ 0 := ha r hrm
    have hb : (r.zone == 0) = false := by simpa using hz
    simp only [hb, Bool.false_eq_true, if_false, St.cleanupUnusedZones]
    unfold St.zoneRemove
    simp only [hr]
    split
    · exact filter_setZone' s.reqs id 0
    · rfl

theorem Release_assigned (s : St) (ha : Assigned s) (id : String) : Assigned (s.Release id).1 := by
  intro q hq
  rw [Release_reqs s ha id] at hq
  exact ha q (List.mem_filter.1 hq).1

/-- releasing a list of ids one after the other -/
def St.releaseAll (s : St) (ids : List String) : St := ids.foldl (fun s id => (s.Release id).1) s

theorem releaseAll_reqs (ids : List String) : ∀ (s : St), Assigned s →
    Assigned (s.releaseAll ids) ∧ (s.releaseAll ids).reqs = s.reqs.filter (fun r => !ids.contains r.id) := by
  induction ids with
  | nil =>
    intro s ha
    refine ⟨ha, ?_⟩
    show s.reqs = _
    symm; apply List.filter_eq_self.2; intro x _; simp
  | cons id ids ih =>
    intro s ha
    have h1 := Release_reqs s ha id
    have ha1 := Release_assigned s ha id
    obtain ⟨ha2, h2⟩ := ih (s.Release id).1 ha1
    refine ⟨ha2, ?_⟩
    show ((s.Release id).1.releaseAll ids).reqs = _
    rw [h2, h1, List.filter_filter]
    apply List.filter_congr
    intro x _
    by_cases e : x.id = id
    · simp [e]
    · have : (x.id != id) = true := by simp [e]
      have h3 : (x.id == id) = false := by simp [e]
      simp [this, List.contains_cons]
      intro _; exact e

/-- **Quiescence.** Releasing (at least) every known id leaves the allocator without requests;
every node set then has zero usage. -/
theorem releaseAll_empty (s : St) (ha : Assigned s) (ids : List String) (hall : ∀ q ∈ s.reqs, q.id ∈ ids) :
    (s.releaseAll ids).reqs = [] ∧ ∀ z, (s.releaseAll ids).zoneUsage z = 0 := by
  have h := (releaseAll_reqs ids s ha).2
  have hnil : (s.releaseAll ids).reqs = [] := by
    rw [h]
    apply List.filter_eq_nil_iff.2
    intro x hx
    have := hall x hx
    simp [this]
  refine ⟨hnil, ?_⟩
  intro z
  unfold St.zoneUsage
  rw [hnil]; rfl

end Nri.LibMem
