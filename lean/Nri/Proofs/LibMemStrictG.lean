import Nri.Model.LibMem
import Nri.Model.LibMemHist
import Nri.Proofs.LibMem
import Nri.Proofs.LibMemInv
import Nri.Proofs.LibMemTrack
import Nri.Proofs.LibMemUpd
import Nri.Proofs.LibMemFit
import Nri.Proofs.LibMemStrict
/-!
Strict-type confinement with a ghost record of the types named by re-allocations: the
"requested types" of a request are the types it was created with (validated), extended by the
types every successful re-allocation named or implied by its nodes.  `G id` is that extension.
Core Lean only.
-/
namespace Nri.LibMem

/-- every strict request sits on nodes whose types are among its requested types (`types` field
or the ghost record `G` of types named by its re-allocations) -/
def StrictInvG (G : String → Nat) (s : St) : Prop :=
  ∀ q ∈ s.reqs, q.strict = true → msub (s.zoneType q.zone) (q.types ||| G q.id) = true

def SUG (G : String → Nat) (s : St) : Prop := NodesUniq s ∧ StrictInvG G s

theorem sug_move (G : String → Nat) (nodes0 : Mask) (s : St) (r : Req) (nodes : Mask) (h : SUG G s) (hm : MoveOK s nodes0 r nodes) :
    SUG G (s.zoneMove (r.zone ||| nodes) r.id) := by
  have hn : (s.zoneMove (r.zone ||| nodes) r.id).nodes = s.nodes := zoneMove_nodes _ _ _
  refine ⟨nodesUniq_of_nodes s _ hn h.1, ?_⟩
  intro q' hq' hs
  rw [zoneType_nodes s _ hn]
  rcases zoneMove_reqs_mem s hm.ids r hm.mem _ q' hq' with ⟨hq, _⟩ | e
  · exact h.2 q' hq hs
  · subst e
    obtain ⟨s0, extra, ty, hn0, hexp, hst⟩ := hm.strictOk
    have hty := hst hs
    have hu0 : NodesUniq s0 := nodesUniq_of_nodes s s0 hn0 h.1
    have := expand_zoneType s0 hu0 r.zone (s0.zoneType r.zone ||| extra)
    rw [hexp] at this
    show msub (s.zoneType (r.zone ||| nodes)) (r.types ||| G r.id) = true
    apply msub_or_right
    rw [hty, ← zoneType_nodes s s0 hn0]
    exact this

theorem handleOvercommit_sug (G : String → Nat) (s : St) (nodes0 : Mask) (hnd : IdsNodup s) (h : SUG G s) :
    SUG G (s.handleOvercommit nodes0).1 :=
  (handleOvercommit_pres nodes0 (SUG G) (fun _ _ h => ⟨h.1, h.2⟩) (fun s r nodes h hm => sug_move G nodes0 s r nodes h hm) s hnd h).2

theorem sug_of_reqs_eq (G : String → Nat) (s s' : St) (h : SUG G s) (hr : s'.reqs = s.reqs) (hn : s'.nodes = s.nodes) : SUG G s' := by
  refine ⟨nodesUniq_of_nodes s s' hn h.1, ?_⟩
  intro q hq hs
  rw [hr] at hq
  rw [zoneType_nodes s s' hn]
  exact h.2 q hq hs

/-- weakening the ghost record keeps the invariant -/
theorem sug_mono (G G' : String → Nat) (s : St) (h : SUG G s) (hle : ∀ id, msub (G id) (G' id) = true) : SUG G' s := by
  refine ⟨h.1, ?_⟩
  intro q hq hs
  exact msub_trans'' (h.2 q hq hs) (msub_or_or (msub_refl _) (hle q.id))

theorem allocate_sug (G : String → Nat) (s : St) (hw : WF s) (h : SUG G s) (r r' : Req) (ha : (s.allocate r).2 = .ok r') :
    SUG G (s.allocate r).1 := by
  obtain ⟨hnone, _, _, _, _, heq⟩ := allocate_ok_eq s r r' ha
  obtain ⟨_, hst⟩ := allocate_ok_strict s h.1 r r' ha
  rw [heq]
  have hbnd : IdsNodup (withNew s r') := withNew_ids_nodup s hw r' hnone
  have hb0 : IdsNodup (withNew s r').startJournal := hbnd
  have hmem0 : ({ r' with zone := 0 } : Req) ∈ (withNew s r').startJournal.reqs := by
    simp [withNew, St.startJournal]
  have hback : ({ ({ r' with zone := 0 } : Req) with zone := r'.zone } : Req) = r' := by cases r'; rfl
  have hn : ((withNew s r').startJournal.zoneMove r'.zone r'.id).nodes = s.nodes := by rw [zoneMove_nodes]; rfl
  have hnd1 : IdsNodup ((withNew s r').startJournal.zoneMove r'.zone r'.id) := by
    unfold IdsNodup; rw [zoneMove_ids]; exact hbnd
  apply handleOvercommit_sug G _ _ hnd1
  refine ⟨nodesUniq_of_nodes s _ hn h.1, ?_⟩
  intro q' hq' hs
  rw [zoneType_nodes s _ hn]
  have := zoneMove_reqs_mem (withNew s r').startJournal hb0 { r' with zone := 0 } hmem0 r'.zone q' hq'
  rw [hback] at this
  rcases this with ⟨hq, hid⟩ | e
  · simp only [St.startJournal, withNew, List.mem_append, List.mem_singleton] at hq
    rcases hq with hq | hq
    · exact h.2 q' hq hs
    · subst hq; exact absurd rfl hid
  · subst e; exact msub_or_right _ (hst hs)

theorem Allocate_sug (G : String → Nat) (s : St) (hw : WF s) (h : SUG G s) (r : Req) (res : Result)
    (hok : (s.Allocate r).2 = .ok res) : SUG G (s.Allocate r).1 := by
  obtain ⟨r', ha, hreqs, hnodes⟩ := Allocate_ok_shape s r res hok
  exact sug_of_reqs_eq G (s.allocate r).1 _ (allocate_sug G s hw h r r' ha) hreqs hnodes

/-! ### re-allocation of a (possibly strict) request -/

theorem all_testBit (s : St) (i : Nat) : s.all.testBit i = true ↔ ∃ n ∈ s.nodes, n.id = i := by
  unfold St.all
  have key : ∀ (l : List Node) (init : Nat),
      (l.foldl (fun m n => m ||| bit n.id) init).testBit i = (init.testBit i || l.any (fun n => decide (n.id = i))) := by
    intro l
    induction l with
    | nil => intro init; simp
    | cons n l ih =>
      intro init
      simp only [List.foldl_cons, List.any_cons]
      rw [ih, Nat.testBit_or, bit_testBit, Bool.or_assoc]
  rw [key]
  simp only [Nat.zero_testBit, Bool.false_or, List.any_eq_true, decide_eq_true_eq]

theorem zoneType_and_all (s : St) (z : Mask) : s.zoneType (z &&& s.all) = s.zoneType z := by
  apply Nat.eq_of_testBit_eq
  intro k
  apply Bool.eq_iff_iff.2
  rw [zoneType_testBit, zoneType_testBit]
  constructor
  · intro ⟨n, hn, hz, ht⟩
    rw [Nat.testBit_and, Bool.and_eq_true] at hz
    exact ⟨n, hn, hz.1, ht⟩
  · intro ⟨n, hn, hz, ht⟩
    refine ⟨n, hn, ?_, ht⟩
    rw [Nat.testBit_and, hz, (all_testBit s n.id).2 ⟨n, hn, rfl⟩]; rfl

/-- the nodes a re-allocation asks for have only types it names (or implies) -/
theorem validateRealloc_types (s : St) (hu : NodesUniq s) (r : Req) (nodes : Mask) (types : Nat) (n1 : Mask) (t1 : Nat)
    (h : s.validateRealloc r nodes types = .ok (n1, t1, false)) : msub (s.zoneType n1) t1 = true := by
  unfold St.validateRealloc at h
  repeat' split at h
  all_goals (try (simp only [Except.ok.injEq, Prod.mk.injEq, Bool.true_eq_false, and_false, and_true, reduceCtorEq] at h))
  all_goals first
    | (obtain ⟨h1, h2⟩ := h; rw [← h1, ← h2]; first
        | (rw [zoneType_and_all]; exact msub_refl _)
        | exact zoneType_sub_of_byTypes s hu _ _ (msub_and_right _ _))
    | cases h
    | exact False.elim h

/-- the types a re-allocation names (or implies by its nodes); `0` when it is refused or a no-op -/
def St.reallocTypes (s : St) (id : String) (nodes : Mask) (types : Nat) : Nat :=
  match s.req? id with
  | none => 0
  | some r =>
    match s.validateRealloc r nodes types with
    | .ok (_, t1, false) => t1
    | _ => 0

def ghostAdd (G : String → Nat) (id : String) (t : Nat) : String → Nat := fun i => if i = id then G i ||| t else G i

theorem ghostAdd_le (G : String → Nat) (id : String) (t : Nat) (i : String) : msub (G i) (ghostAdd G id t i) = true := by
  unfold ghostAdd; split
  · exact msub_or_self _ _
  · exact msub_refl _

theorem Realloc_ok_shape3 (s : St) (id : String) (nodes : Mask) (types : Nat) (res : Result)
    (h : (s.Realloc id nodes types).2 = .ok res) :
    (s.Realloc id nodes types).1 = s ∨
    ∃ (r : Req) (n1 : Mask) (t1 : Nat) (newNodes : Mask) (newTypes : Nat) (S4 : St),
      s.req? id = some r ∧ s.validateRealloc r nodes types = .ok (n1, t1, false) ∧
      s.expand (r.zone ||| n1) t1 = (newNodes, newTypes) ∧ r.zone ||| n1 ||| newNodes ≠ 0 ∧
      (s.Realloc id nodes types).1 = S4.cleanupUnusedZones ∧
      S4.reqs = (((s.startJournal.zoneMove (r.zone ||| n1 ||| newNodes) id).handleOvercommit (r.zone ||| n1 ||| newNodes)).1).reqs.map (addTypes id newTypes) ∧
      S4.nodes = (((s.startJournal.zoneMove (r.zone ||| n1 ||| newNodes) id).handleOvercommit (r.zone ||| n1 ||| newNodes)).1).nodes := by
  unfold St.Realloc at h ⊢
  cases hr : s.req? id with
  | none => simp [hr] at h
  | some r =>
    simp only [hr] at h ⊢
    cases hv : s.validateRealloc r nodes types with
    | error e' => simp [hv] at h
    | ok v =>
      obtain ⟨n1, t1, fl⟩ := v
      cases fl with
      | true => left; rfl
      | false =>
        right
        simp only [hv] at h ⊢
        cases hx : s.startJournal.expand (r.zone ||| n1) t1 with
        | mk newNodes newTypes =>
          simp only [hx] at h ⊢
          by_cases hz : (newNodes == 0) = true
          · simp [hz] at h
          · simp only [hz, Bool.false_eq_true, if_false] at h ⊢
            have hne : r.zone ||| n1 ||| newNodes ≠ 0 := by
              intro hh
              have := (Nat.or_eq_zero_iff.1 hh).2
              simp [this] at hz
            cases ho : (s.startJournal.zoneMove (r.zone ||| n1 ||| newNodes) id).handleOvercommit (r.zone ||| n1 ||| newNodes) with
            | mk s3 oe =>
              simp only [ho] at h ⊢
              cases oe with
              | some e' => simp at h
              | none =>
                simp only []
                refine ⟨r, n1, t1, newNodes, newTypes, _, rfl, hv, ?_, hne, rfl, ?_, ?_⟩
                · rw [← hx]; exact (expand_nodes s s.startJournal rfl _ _).symm
                · rw [commitJournal_reqs, ho]; rfl
                · rw [ho]; simp only [St.commitJournal]; split <;> rfl

theorem reallocTypes_eq (s : St) (id : String) (nodes : Mask) (types : Nat) (r : Req) (n1 : Mask) (t1 : Nat)
    (hr : s.req? id = some r) (hv : s.validateRealloc r nodes types = .ok (n1, t1, false)) :
    s.reallocTypes id nodes types = t1 := by
  unfold St.reallocTypes; simp only [hr, hv]

/-- a successful re-allocation - of a strict request too - keeps the invariant once the ghost
record of the request is extended by the types the re-allocation named -/
theorem Realloc_sug (G : String → Nat) (s : St) (hw : WF s) (h : SUG G s) (id : String) (nodes : Mask) (types : Nat)
    (res : Result) (hok : (s.Realloc id nodes types).2 = .ok res) :
    SUG (ghostAdd G id (s.reallocTypes id nodes types)) (s.Realloc id nodes types).1 := by
  have hnd : IdsNodup s := hw.ids
  rcases Realloc_ok_shape3 s id nodes types res hok with e | ⟨r, n1, t1, newNodes, newTypes, S4, hr, hv, hx, hne, hfin, hreqs, hnodes⟩
  · rw [e]; exact sug_mono G _ s h (ghostAdd_le G id _)
  · rw [reallocTypes_eq s id nodes types r n1 t1 hr hv]
    have hrm : r ∈ s.reqs := List.mem_of_find?_eq_some hr
    have hrid : r.id = id := by have := List.find?_some hr; simpa using this
    subst hrid
    have hb0 : IdsNodup s.startJournal := hnd
    have hn : (s.startJournal.zoneMove (r.zone ||| n1 ||| newNodes) r.id).nodes = s.nodes := by rw [zoneMove_nodes]; rfl
    have hnd1 : IdsNodup (s.startJournal.zoneMove (r.zone ||| n1 ||| newNodes) r.id) := by
      unfold IdsNodup; rw [zoneMove_ids]; exact hnd
    have hG := sug_mono G (ghostAdd G r.id t1) s h (ghostAdd_le G r.id t1)
    have hexpt := expand_types s h.1 (r.zone ||| n1) t1
    rw [hx] at hexpt
    have h0 : SUG (ghostAdd G r.id t1) (s.startJournal.zoneMove (r.zone ||| n1 ||| newNodes) r.id) := by
      refine ⟨nodesUniq_of_nodes s _ hn h.1, ?_⟩
      intro q' hq' hs
      rw [zoneType_nodes s _ hn]
      rcases zoneMove_reqs_mem s.startJournal hb0 r hrm _ q' hq' with ⟨hq, _⟩ | e
      · exact hG.2 q' hq hs
      · subst e
        show msub (s.zoneType (r.zone ||| n1 ||| newNodes)) (r.types ||| ghostAdd G r.id t1 r.id) = true
        have hgid : ghostAdd G r.id t1 r.id = G r.id ||| t1 := by unfold ghostAdd; simp
        rw [hgid, zoneType_or, zoneType_or]
        have a1 : msub (s.zoneType r.zone) (r.types ||| (G r.id ||| t1)) = true := by
          have := h.2 r hrm hs
          exact msub_trans'' this (msub_or_or (msub_refl _) (msub_or_self _ _))
        have a2 : msub (s.zoneType n1) (r.types ||| (G r.id ||| t1)) = true := by
          have := validateRealloc_types s h.1 r nodes types n1 t1 hv
          have h2 : msub t1 (r.types ||| (G r.id ||| t1)) = true := by
            rw [Nat.or_comm r.types, Nat.or_comm (G r.id)]
            exact msub_or_right _ (msub_or_self _ _)
          exact msub_trans'' this h2
        have a3 : msub (s.zoneType newNodes) (r.types ||| (G r.id ||| t1)) = true := by
          have h2 : msub t1 (r.types ||| (G r.id ||| t1)) = true := by
            rw [Nat.or_comm r.types, Nat.or_comm (G r.id)]
            exact msub_or_right _ (msub_or_self _ _)
          exact msub_trans'' hexpt.1 (msub_trans'' hexpt.2 h2)
        exact msub_or_of _ _ _ (msub_or_of _ _ _ a1 a2) a3
    have h1 := handleOvercommit_sug (ghostAdd G r.id t1) _ (r.zone ||| n1 ||| newNodes) hnd1 h0
    rw [hfin]
    refine ⟨nodesUniq_of_nodes _ _ (by show S4.nodes = _; exact hnodes) h1.1, ?_⟩
    intro q hq hs
    have hq' : q ∈ S4.reqs := hq
    rw [hreqs] at hq'
    obtain ⟨q0, hq0, e⟩ := List.mem_map.1 hq'
    have hzt : (S4.cleanupUnusedZones).zoneType q.zone =
        (((s.startJournal.zoneMove (r.zone ||| n1 ||| newNodes) r.id).handleOvercommit (r.zone ||| n1 ||| newNodes)).1).zoneType q.zone :=
      zoneType_nodes _ _ (by show S4.nodes = _; exact hnodes) _
    rw [hzt]
    have hs0 : q0.strict = true := by rw [← e] at hs; unfold addTypes at hs; split at hs <;> exact hs
    have := h1.2 q0 hq0 hs0
    have hz : q.zone = q0.zone := by rw [← e, addTypes_zone]
    have hid : q.id = q0.id := by rw [← e, addTypes_id]
    rw [hz, hid]
    -- the types field only grows
    have hty : msub q0.types q.types = true := by
      rw [← e]; unfold addTypes; split
      · exact msub_or_self _ _
      · exact msub_refl _
    exact msub_trans'' this (msub_or_or hty (msub_refl _))

/-! ### histories with the ghost record -/

/-- the ghost record after one operation: a re-allocation adds the types it names to its request,
a release forgets the record of the released id -/
def ghostStep (G : String → Nat) (s : St) : Op → (String → Nat)
  | .realloc id nodes types =>
    match (s.Realloc id nodes types).2 with
    | .ok _ => ghostAdd G id (s.reallocTypes id nodes types)
    | .error _ => G
  | .release id =>
    match (s.Release id).2 with
    | .ok _ => fun i => if i = id then 0 else G i
    | .error _ => G
  | _ => G

def ghostRun : (String → Nat) → St → List Op → (String → Nat)
  | G, _, [] => G
  | G, s, op :: ops => ghostRun (ghostStep G s op) (s.step op) ops

theorem ghostStep_realloc_ok (G : String → Nat) (s : St) (id : String) (n : Mask) (t : Nat) (res : Result)
    (h : (s.Realloc id n t).2 = .ok res) : ghostStep G s (.realloc id n t) = ghostAdd G id (s.reallocTypes id n t) := by
  simp [ghostStep, h]

theorem ghostStep_realloc_err (G : String → Nat) (s : St) (id : String) (n : Mask) (t : Nat) (e : Err)
    (h : (s.Realloc id n t).2 = .error e) : ghostStep G s (.realloc id n t) = G := by
  simp [ghostStep, h]

theorem ghostStep_release_ok (G : String → Nat) (s : St) (id : String) (u : Unit)
    (h : (s.Release id).2 = .ok u) : ghostStep G s (.release id) = fun i => if i = id then 0 else G i := by
  simp [ghostStep, h]

theorem ghostStep_release_err (G : String → Nat) (s : St) (id : String) (e : Err)
    (h : (s.Release id).2 = .error e) : ghostStep G s (.release id) = G := by
  simp [ghostStep, h]

end Nri.LibMem
