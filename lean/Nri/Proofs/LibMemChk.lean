import Nri.Model.LibMem
import Nri.Proofs.LibMem
/-!
Helper lemmas (moved here from Props/C07 so that proof modules can use them): when overcommit
handling reports success, the final `checkOvercommit` returned nothing, i.e. every zone of the
zone table that intersects the handled nodes fits.  Core Lean only.
-/
namespace Nri.LibMem

/-! ### success of overcommit handling means the handled zones fit -/

theorem sortBy_nil_iff {α} (lt : α → α → Bool) (l : List α) : sortBy lt l = [] ↔ l = [] := by
  constructor
  · intro h
    cases l with
    | nil => rfl
    | cons x xs =>
      exfalso
      have hlen : ∀ (l : List α) (acc : List α), (l.foldl (fun acc x => insertBy lt x acc) acc).length = acc.length + l.length := by
        intro l
        induction l with
        | nil => intro acc; simp
        | cons y ys ih =>
          intro acc
          simp only [List.foldl_cons, List.length_cons]
          rw [ih]
          have : (insertBy lt y acc).length = acc.length + 1 := by
            induction acc with
            | nil => simp [insertBy]
            | cons a as iha => simp only [insertBy]; split <;> simp [iha]
          omega
      have := hlen (x :: xs) []
      unfold sortBy at h
      rw [h] at this
      simp at this
  · intro h; subst h; rfl

/-- `checkOvercommit nodes = []` means: no zone of the zone table that intersects `nodes`
(or any zone, if `nodes = 0`) is over its capacity. -/
theorem checkOvercommit_nil (s : St) (nodes : Mask) (h : s.checkOvercommit nodes = []) :
    ∀ z ∈ s.entries, (nodes = 0 ∨ z &&& nodes ≠ 0) → 0 ≤ s.zoneFree z := by
  intro z hz hn
  unfold St.checkOvercommit at h
  simp only [List.map_eq_nil_iff] at h
  rw [sortBy_nil_iff, sortBy_nil_iff] at h
  have := List.filter_eq_nil_iff.1 h z hz
  simp only [Bool.and_eq_true, Bool.or_eq_true, beq_iff_eq, bne_iff_ne, ne_eq, decide_eq_true_eq, not_and, Int.not_lt] at this
  apply this
  rcases hn with hn | hn
  · exact Or.inl hn
  · exact Or.inr hn

theorem checkOvercommit_ambig (s : St) (nodes : Mask) (x : Bool) :
    ({ s with ambig := x } : St).checkOvercommit nodes = s.checkOvercommit nodes := rfl

theorem ocStep_done (nodes : Mask) (acc : St × List (Mask × Int) × Int × Bool × Nat) (c : Int × Nat)
    (h : acc.2.2.2.1 = true → acc.1.checkOvercommit nodes = []) :
    (St.ocStep nodes acc c).2.2.2.1 = true → (St.ocStep nodes acc c).1.checkOvercommit nodes = [] := by
  unfold St.ocStep
  split
  · exact h
  · rename_i hnd
    simp only []
    split
    · intro hd; exact absurd hd hnd
    · intro hd
      rw [checkOvercommit_ambig]
      simpa using hd

theorem ocPass_done (s : St) (nodes : Mask) (oc : List (Mask × Int)) :
    (s.ocPass nodes oc).2.2.2 = true → (s.ocPass nodes oc).1.checkOvercommit nodes = [] := by
  unfold St.ocPass
  simp only []
  have key : ∀ (cells : List (Int × Nat)) (acc : St × List (Mask × Int) × Int × Bool × Nat),
      (acc.2.2.2.1 = true → acc.1.checkOvercommit nodes = []) →
      ((cells.foldl (St.ocStep nodes) acc).2.2.2.1 = true →
        (cells.foldl (St.ocStep nodes) acc).1.checkOvercommit nodes = []) := by
    intro cells
    induction cells with
    | nil => intro acc h; exact h
    | cons c cs ih =>
      intro acc h
      simp only [List.foldl_cons]
      exact ih _ (ocStep_done nodes acc c h)
  exact key _ (s, oc, 0, false, 0) (by intro h; cases h)

theorem resolveOvercommit_ok (nodes : Mask) :
    ∀ (fuel : Nat) (s : St) (oc : List (Mask × Int)),
      (s.resolveOvercommit nodes fuel oc).2 = none → (s.resolveOvercommit nodes fuel oc).1.checkOvercommit nodes = [] := by
  intro fuel
  induction fuel with
  | zero => intro s oc h; simp [St.resolveOvercommit] at h
  | succ n ih =>
    intro s oc h
    unfold St.resolveOvercommit at h ⊢
    simp only [] at h ⊢
    split
    · rename_i hd
      exact ocPass_done s nodes oc hd
    · rename_i hd
      simp only [hd] at h
      split
      · rename_i hm; simp [hm] at h
      · rename_i hm
        simp only [hm] at h
        exact ih _ _ h

/-- **Fit of the handled zones.** When overcommit handling for `nodes` succeeds, every zone in
the allocator's zone table that intersects `nodes` holds no more than its capacity. -/
theorem handleOvercommit_ok_fits (s : St) (nodes : Mask) (h : (s.handleOvercommit nodes).2 = none) :
    ∀ z ∈ (s.handleOvercommit nodes).1.entries, (nodes = 0 ∨ z &&& nodes ≠ 0) →
      0 ≤ (s.handleOvercommit nodes).1.zoneFree z := by
  apply checkOvercommit_nil
  unfold St.handleOvercommit at h ⊢
  simp only [] at h ⊢
  split
  · rename_i he
    rw [checkOvercommit_ambig]
    simpa using he
  · rename_i he
    simp only [he] at h
    exact resolveOvercommit_ok nodes _ _ _ h

end Nri.LibMem
