import Nri.Model.LibMem
import Nri.Model.LibMemHist
import Nri.Proofs.LibMem
import Nri.Proofs.LibMemInv
import Nri.Proofs.LibMemTrack
import Nri.Proofs.LibMemUpd
import Nri.Proofs.LibMemCommit
import Nri.Proofs.LibMemReplay
/-!
C06 "offers committed arbitrarily late": the version never decreases, and it stays the same only
if the request list stayed the same.  Hence an offer that is still accepted after any number of
further operations is accepted in a state with exactly the assignments it was computed for.
Core Lean only.
-/
namespace Nri.LibMem

/-- a successful `Realloc` is a no-op or bumps the version by one -/
theorem Realloc_ok_version (s : St) (hw : WF s) (id : String) (nodes : Mask) (types : Nat) (res : Result)
    (h : (s.Realloc id nodes types).2 = .ok res) :
    (s.Realloc id nodes types).1 = s ∨ (s.Realloc id nodes types).1.version = s.version + 1 := by
  unfold St.Realloc at h ⊢
  cases hr : s.req? id with
  | none => simp [hr] at h
  | some r =>
    simp only [hr] at h ⊢
    cases hv : s.validateRealloc r nodes types with
    | error e' => simp [hv] at h
    | ok v =>
      obtain ⟨n1, t1, fl⟩ := v
      cases fl with
      | true => left; rfl
      | false =>
        right
        simp only [hv] at h ⊢
        have hg0 : Good s s.startJournal := good_start s hw.journal hw.ids
        cases hx : s.startJournal.expand (r.zone ||| n1) t1 with
        | mk newNodes newTypes =>
          simp only [hx] at h ⊢
          by_cases hz : (newNodes == 0) = true
          · simp [hz] at h
          · simp only [hz, Bool.false_eq_true, if_false] at h ⊢
            have hne : r.zone ||| n1 ||| newNodes ≠ 0 := by
              intro hh
              have := (Nat.or_eq_zero_iff.1 hh).2
              simp [this] at hz
            have hg1 := zoneMove_good s _ hg0 (r.zone ||| n1 ||| newNodes) hne id
            have hg2 := handleOvercommit_good s _ hg1 (r.zone ||| n1 ||| newNodes)
            cases ho : (s.startJournal.zoneMove (r.zone ||| n1 ||| newNodes) id).handleOvercommit (r.zone ||| n1 ||| newNodes) with
            | mk s3 oe =>
              rw [ho] at hg2
              simp only [ho] at h ⊢
              cases oe with
              | some e' => simp at h
              | none =>
                have hv3 : s3.version = s.version := hg2.version
                simp only [St.cleanupUnusedZones, St.commitJournal]
                split <;> simp [hv3]

/-! ### the version is a faithful change counter -/

theorem Allocate_version (s : St) (hw : WF s) (r : Req) :
    ((s.Allocate r).1.version = s.version ∧ (s.Allocate r).1.reqs = s.reqs) ∨ (s.Allocate r).1.version = s.version + 1 := by
  have hs := allocate_spec s hw r
  unfold St.Allocate
  cases ha : s.allocate r with
  | mk s' res =>
    rw [ha] at hs
    cases res with
    | error e =>
      left
      obtain ⟨h1, h2, _⟩ := hs.1 e rfl
      exact ⟨h2, h1⟩
    | ok r' =>
      right
      have hv : s'.version = s.version := (hs.2 r' rfl).1.version
      simp only [St.commitJournal]
      cases hj : s'.journal <;> simp [St.cleanupUnusedZones, hv]

theorem Release_version (s : St) (id : String) :
    (s.Release id).1 = s ∨ (s.Release id).1.version = s.version + 1 := by
  unfold St.Release
  cases hr : s.req? id with
  | none => left; rfl
  | some r =>
    simp only []
    split
    · left; rfl
    · right
      simp only [St.cleanupUnusedZones]
      show (s.zoneRemove r.zone id).version + 1 = s.version + 1
      have : (s.zoneRemove r.zone id).version = s.version := by
        unfold St.zoneRemove
        split
        · split <;> simp [St.setZone]
        · rfl
      rw [this]

/-- one operation: the version does not decrease, and if it is unchanged so is the request list;
well-formedness is kept. -/
theorem step_version (s : St) (hw : WF s) (op : Op) :
    WF (s.step op) ∧ s.version ≤ (s.step op).version ∧
    ((s.step op).version = s.version → (s.step op).reqs = s.reqs) := by
  cases op with
  | allocate r =>
    show WF (s.Allocate r).1 ∧ _
    refine ⟨allocate_wf s hw r, ?_⟩
    rcases Allocate_version s hw r with ⟨hv, hr⟩ | hv
    · exact ⟨by show s.version ≤ (s.Allocate r).1.version; omega, fun _ => hr⟩
    · exact ⟨by show s.version ≤ (s.Allocate r).1.version; omega, fun h => by
        have : (s.Allocate r).1.version = s.version := h
        omega⟩
  | getOffer r =>
    show WF (s.GetOffer r).1 ∧ _
    have hr := GetOffer_reqs s hw r
    have hv := GetOffer_version s hw r
    refine ⟨⟨?_, by show ((s.GetOffer r).1.reqs.map (·.id)).Nodup; rw [hr]; exact hw.ids⟩, by show s.version ≤ (s.GetOffer r).1.version; omega, fun _ => hr⟩
    -- the journal is closed
    have hs := allocate_spec s hw r
    unfold St.GetOffer
    cases ha : s.allocate r with
    | mk s' res =>
      rw [ha] at hs
      cases res with
      | error e => exact (hs.1 e rfl).2.2
      | ok r' =>
        obtain ⟨hg, hnone, _⟩ := hs.2 r' rfl
        have := revert_restores_drop (withNew s r') s' hg (withNew_ids_nodup s hw r' hnone) r'.id
        simp only []
        cases hrv : s'.revertJournal (some r'.id) with
        | mk s'' rest =>
          obtain ⟨ups, oe⟩ := rest
          rw [hrv] at this
          cases oe with
          | some e => simp only [St.cleanupUnusedZones]; exact this.2.2.1
          | none => simp only [St.cleanupUnusedZones]; exact this.2.2.1
  | realloc id nodes types =>
    show WF (s.Realloc id nodes types).1 ∧ _
    refine ⟨realloc_wf s hw id nodes types, ?_⟩
    cases hres : (s.Realloc id nodes types).2 with
    | error e =>
      obtain ⟨h1, h2, _⟩ := realloc_spec s hw id nodes types e hres
      exact ⟨by show s.version ≤ (s.Realloc id nodes types).1.version; omega, fun _ => h1⟩
    | ok res =>
      rcases Realloc_ok_version s hw id nodes types res hres with e | hv
      · exact ⟨by show s.version ≤ (s.Realloc id nodes types).1.version; rw [e]; omega, fun _ => by show (s.Realloc id nodes types).1.reqs = s.reqs; rw [e]⟩
      · exact ⟨by show s.version ≤ (s.Realloc id nodes types).1.version; omega, fun h => by
          have : (s.Realloc id nodes types).1.version = s.version := h
          omega⟩
  | release id =>
    show WF (s.Release id).1 ∧ _
    refine ⟨release_wf s hw id, ?_⟩
    rcases Release_version s id with e | hv
    · exact ⟨by show s.version ≤ (s.Release id).1.version; rw [e]; omega, fun _ => by show (s.Release id).1.reqs = s.reqs; rw [e]⟩
    · exact ⟨by show s.version ≤ (s.Release id).1.version; omega, fun h => by
        have : (s.Release id).1.version = s.version := h
        omega⟩

/-- any history: the version does not decrease; if it is the same at the end, the request list
is the same - every change of an assignment moved the version on. -/
theorem run_version (ops : List Op) : ∀ (s : St), WF s →
    WF (s.run ops) ∧ s.version ≤ (s.run ops).version ∧ ((s.run ops).version = s.version → (s.run ops).reqs = s.reqs) := by
  induction ops with
  | nil => intro s hw; exact ⟨hw, Nat.le_refl _, fun _ => rfl⟩
  | cons op ops ih =>
    intro s hw
    obtain ⟨hw1, hle1, heq1⟩ := step_version s hw op
    obtain ⟨hw2, hle2, heq2⟩ := ih (s.step op) hw1
    refine ⟨hw2, Nat.le_trans hle1 hle2, ?_⟩
    intro h
    have hrun : (s.run (op :: ops)) = (s.step op).run ops := rfl
    rw [hrun] at h ⊢
    have h1 : (s.step op).version = s.version := by omega
    have h2 : ((s.step op).run ops).version = (s.step op).version := by omega
    rw [heq2 h2, heq1 h1]

/-! ### committing depends on the assignments only -/

/-- the outcome of committing an offer whose request is not yet known depends only on the request
list and the version of the state it is committed in. -/
theorem commit_congr (s t : St) (hs : IdsNodup s) (ht : IdsNodup t) (hr : s.reqs = t.reqs) (hv : s.version = t.version)
    (o : Offer) (hk : (o.updates.map (·.1)).Nodup) (hnone : s.req? o.req.id = none) (hin : o.req.id ∈ o.updates.map (·.1)) :
    (s.Commit o).2 = (t.Commit o).2 ∧ (s.Commit o).1.reqs = (t.Commit o).1.reqs := by
  have hnone' : t.req? o.req.id = none := by unfold St.req? at hnone ⊢; rw [← hr]; exact hnone
  rw [commit_eq, commit_eq, hv]
  by_cases hne : o.version ≠ t.version
  · rw [if_pos hne, if_pos hne]; exact ⟨rfl, hr⟩
  · rw [if_neg hne, if_neg hne]
    refine ⟨rfl, ?_⟩
    show (o.updates.foldl (commitStep o.req) s).reqs = (o.updates.foldl (commitStep o.req) t).reqs
    rw [replay_absent o.req o.updates s hs hk hnone hin, replay_absent o.req o.updates t ht hk hnone' hin, hr]

/-- what a successful `GetOffer` guarantees about the offer it hands out -/
theorem offer_facts (s : St) (hw : WF s) (hp : Placed s) (r : Req) (o : Offer) (h : (s.GetOffer r).2 = .ok o) :
    (o.updates.map (·.1)).Nodup ∧ s.req? o.req.id = none ∧ o.req.id ∈ o.updates.map (·.1) ∧ o.version = s.version := by
  obtain ⟨r', j, ha, hj, hups, hreq, hver⟩ := getOffer_ok_shape s hw r o h
  obtain ⟨hnone, _, _, _, _, _⟩ := allocate_ok_eq s r r' ha
  obtain ⟨hndF, htrack, ⟨j2, hj2, h1, _⟩⟩ := allocate_tu s hw hp r r' ha
  have hjj : j2 = j := by rw [hj] at hj2; exact (Option.some.inj hj2).symm
  subst hjj
  obtain ⟨j3, hj3, hkn⟩ := allocate_kn s hw r r' ha
  have hjj3 : j3 = j2 := by rw [hj] at hj3; exact (Option.some.inj hj3).symm
  subst hjj3
  obtain ⟨hg, _, _⟩ := (allocate_spec s hw r).2 r' ha
  obtain ⟨⟨Z, jj, hreqs, _⟩, _, _⟩ := hg
  have hbnd : IdsNodup (withNew s r') := withNew_ids_nodup s hw r' hnone
  have hmemb : ({ r' with zone := 0 } : Req) ∈ (withNew s r').reqs := by simp [withNew]
  have hq0 : withZone Z { r' with zone := 0 } ∈ (s.allocate r).1.reqs := by rw [hreqs]; exact List.mem_map_of_mem hmemb
  have hzb : zoneIn (withNew s r') r'.id = 0 :=
    zoneIn_of_mem (withNew s r') hbnd ({ r' with zone := 0 } : Req) hmemb
  refine ⟨by rw [hups]; exact hkn, by rw [hreq]; exact hnone, ?_, hver⟩
  rw [hups, hreq]
  apply (alGet_isSome_iff _ _).1
  have hqz : (withZone Z { r' with zone := 0 }).zone ≠ 0 := and_ne_zero_left (htrack.normal _ hq0)
  have := h1 _ hq0 (by show (withZone Z { r' with zone := 0 }).zone ≠ zoneIn (withNew s r') r'.id; rw [hzb]; exact hqz)
  show (alGet j3.updates r'.id).isSome = true
  have e : (withZone Z { r' with zone := 0 }).id = r'.id := rfl
  rw [e] at this; rw [this]; rfl

/-- **Late commits.** An offer taken in state `s` and committed after ANY further history of
operations is either refused without any change (its version is not the current one), or the
version is still the one it was computed at - and then no assignment has changed since, and the
commit returns the zone and updates and leaves the assignments that a direct `Allocate` in `s`
would have. -/
theorem late_commit (s : St) (hw : WF s) (hp : Placed s) (r : Req) (o : Offer) (h : (s.GetOffer r).2 = .ok o)
    (ops : List Op) :
    (o.version ≠ ((s.GetOffer r).1.run ops).version →
        ((s.GetOffer r).1.run ops).Commit o = (((s.GetOffer r).1.run ops), .error .expiredOffer)) ∧
    (o.version = ((s.GetOffer r).1.run ops).version →
        ((s.GetOffer r).1.run ops).reqs = s.reqs ∧
        (((s.GetOffer r).1.run ops).Commit o).2 = (s.Allocate r).2 ∧
        (((s.GetOffer r).1.run ops).Commit o).1.reqs = (s.Allocate r).1.reqs) := by
  obtain ⟨hk, hnone, hin, hver⟩ := offer_facts s hw hp r o h
  have hs1r := GetOffer_reqs s hw r
  have hs1v := GetOffer_version s hw r
  have hw1 : WF (s.GetOffer r).1 := (step_version s hw (.getOffer r)).1
  obtain ⟨hw2, _, heq⟩ := run_version ops (s.GetOffer r).1 hw1
  refine ⟨?_, ?_⟩
  · intro hne
    unfold St.Commit; simp [hne]
  · intro hv
    have hv2 : ((s.GetOffer r).1.run ops).version = (s.GetOffer r).1.version := by rw [← hv, hver, hs1v]
    have hr2 := heq hv2
    have hnone2 : ((s.GetOffer r).1.run ops).req? o.req.id = none := by
      unfold St.req?; rw [hr2, hs1r]; exact hnone
    obtain ⟨c1, c2⟩ := commit_congr ((s.GetOffer r).1.run ops) (s.GetOffer r).1 hw2.ids hw1.ids hr2 hv2 o hk hnone2 hin
    refine ⟨by rw [hr2, hs1r], ?_, ?_⟩
    · rw [c1]; exact commit_fresh_result_eq_allocate s hw hp r o h
    · rw [c2]; exact commit_fresh_reqs_eq_allocate s hw hp r o h

end Nri.LibMem
