import Nri.Model.LibMem
import Nri.Proofs.LibMem
import Nri.Proofs.LibMemInv
import Nri.Proofs.LibMemTrack
/-!
C07 "the set of moved allocations reported to the caller is exactly the set whose assignment
changed, with their new assignments": the journal's `updates` map is, at every point of a
transaction, exactly the map `id ↦ current zone` of the requests whose zone differs from the
one they had when the transaction started.  Core Lean only.
-/
namespace Nri.LibMem

/-! ### assoc-list facts -/

theorem alGet_alSet_same (l : List (String × Mask)) (k : String) (v : Mask) : alGet (alSet l k v) k = some v := by
  unfold alSet
  split
  · rename_i h
    unfold alGet
    induction l with
    | nil => simp at h
    | cons p ps ih =>
      simp only [List.map_cons, List.find?_cons]
      by_cases e : (p.1 == k) = true
      · simp [e]
      · have hb : (p.1 == k) = false := by simpa using e
        simp only [hb]
        simp only [List.any_cons, hb, Bool.false_or] at h
        simpa [hb] using ih h
  · rename_i h
    unfold alGet
    rw [List.find?_append]
    have : l.find? (·.1 == k) = none := by
      apply List.find?_eq_none.2
      intro x hx hxk
      apply h
      exact List.any_eq_true.2 ⟨x, hx, hxk⟩
    simp [this]

theorem alGet_alSet_other (l : List (String × Mask)) (k k' : String) (v : Mask) (hne : k' ≠ k) :
    alGet (alSet l k v) k' = alGet l k' := by
  unfold alSet
  split
  · rename_i h
    clear h
    unfold alGet
    induction l with
    | nil => rfl
    | cons p ps ih =>
      simp only [List.map_cons, List.find?_cons]
      by_cases e : (p.1 == k) = true
      · have hk : p.1 = k := by simpa using e
        have hb : (p.1 == k') = false := by simp [hk, Ne.symm hne]
        have hb' : (k == k') = false := by simp [Ne.symm hne]
        simp only [e, if_true, hb', hb]
        exact ih
      · have hb : (p.1 == k) = false := by simpa using e
        simp only [hb, Bool.false_eq_true, if_false]
        cases hc : (p.1 == k')
        · simp only []; exact ih
        · rfl
  · unfold alGet
    rw [List.find?_append]
    have hb : (k == k') = false := by simp [Ne.symm hne]
    cases hf : l.find? (·.1 == k') <;> simp [hb]

theorem alGet_alErase (l : List (String × Mask)) (k k' : String) :
    alGet (alErase l k) k' = if k' = k then none else alGet l k' := by
  unfold alErase alGet
  by_cases e' : k' = k
  · subst e'
    simp only [if_true]
    have : (l.filter (fun x => x.1 != k')).find? (fun x => x.1 == k') = none := by
      apply List.find?_eq_none.2
      intro x hx hxk
      have := (List.mem_filter.1 hx).2
      simp only [bne_iff_ne, ne_eq] at this
      exact this (by simpa using hxk)
    rw [this]; rfl
  · simp only [e', if_false]
    induction l with
    | nil => rfl
    | cons p ps ih =>
      simp only [List.filter_cons]
      by_cases e : p.1 = k
      · have hb : (p.1 != k) = false := by simp [e]
        have hc : (p.1 == k') = false := by simp [e, Ne.symm e']
        simp only [hb, Bool.false_eq_true, if_false, List.find?_cons, hc]
        exact ih
      · have hb : (p.1 != k) = true := by simp [e]
        simp only [hb, if_true, List.find?_cons]
        cases hc : (p.1 == k')
        · simp only []; exact ih
        · rfl

theorem msub_antisymm {a b : Mask} (h1 : msub a b = true) (h2 : msub b a = true) : a = b := by
  unfold msub at *
  simp only [beq_iff_eq] at *
  calc a = a &&& b := h1.symm
    _ = b &&& a := Nat.and_comm _ _
    _ = b := h2

/-! ### what `zoneMove` does to the journal -/

theorem zoneMove_journal (s : St) (hnd : IdsNodup s) (r : Req) (hr : r ∈ s.reqs) (t : Mask) (ht : t ≠ 0) (j : Journal)
    (hj : s.journal = some j) :
    ∃ j', (s.zoneMove t r.id).journal = some j' ∧
      j'.updates = if r.zone = t then j.updates else alSet j.updates r.id t := by
  have hreq := req?_of_mem_nodup s hnd r hr
  unfold St.zoneMove
  simp only [hreq]
  by_cases hz : r.zone ≠ 0
  · rw [if_pos hz]
    by_cases he : (r.zone == t) = true
    · have : r.zone = t := by simpa using he
      simp only [he, if_true]
      exact ⟨j, hj, by simp [this]⟩
    · have hne : r.zone ≠ t := by simpa using he
      simp only [he, Bool.false_eq_true, if_false]
      unfold St.zoneRemove
      simp only [hreq]
      have : (r.zone ≠ 0 ∧ (r.zone == r.zone) = true) := ⟨hz, by simp⟩
      rw [if_pos this]
      simp only [St.zoneAssign, St.setZone, hj, Option.map_some]
      refine ⟨_, rfl, ?_⟩
      simp only [Journal.assign, Journal.delete, hne, if_false]
      split <;> rfl
  · have hz0 : r.zone = 0 := by simpa using hz
    rw [if_neg hz]
    simp only [St.zoneAssign, St.setZone, hj, Option.map_some]
    refine ⟨_, rfl, ?_⟩
    simp only [Journal.assign]
    have e : r.zone ≠ t := by rw [hz0]; exact Ne.symm ht
    simp [e]

theorem zoneMove_noop (s : St) (hnd : IdsNodup s) (r : Req) (hr : r ∈ s.reqs) (hz : r.zone ≠ 0) :
    s.zoneMove r.zone r.id = s := by
  have hreq := req?_of_mem_nodup s hnd r hr
  unfold St.zoneMove
  simp only [hreq]
  rw [if_pos hz]
  simp

theorem zoneMove_reqs_eq (s : St) (hnd : IdsNodup s) (r : Req) (hr : r ∈ s.reqs) (t : Mask) (hne : r.zone ≠ t) :
    (s.zoneMove t r.id).reqs = s.reqs.map (fun q => if q.id == r.id then { q with zone := t } else q) := by
  have hreq := req?_of_mem_nodup s hnd r hr
  unfold St.zoneMove
  simp only [hreq]
  by_cases hz : r.zone ≠ 0
  · rw [if_pos hz]
    have he : (r.zone == t) = false := by simpa using hne
    simp only [he, Bool.false_eq_true, if_false]
    unfold St.zoneRemove
    simp only [hreq]
    have : (r.zone ≠ 0 ∧ (r.zone == r.zone) = true) := ⟨hz, by simp⟩
    rw [if_pos this]
    unfold St.zoneAssign St.setZone
    simp only [List.map_map]
    apply List.map_congr_left
    intro q _
    simp only [Function.comp]
    by_cases hq : (q.id == r.id) = true
    · simp [hq]
    · simp [hq]
  · rw [if_neg hz]
    unfold St.zoneAssign St.setZone
    rfl

theorem zoneMove_mem_self (s : St) (hnd : IdsNodup s) (r : Req) (hr : r ∈ s.reqs) (t : Mask) (hne : r.zone ≠ t) :
    ({ r with zone := t } : Req) ∈ (s.zoneMove t r.id).reqs := by
  rw [zoneMove_reqs_eq s hnd r hr t hne]
  apply List.mem_map.2
  exact ⟨r, hr, by simp⟩

/-! ### the journal's update map is exact -/

structure Upd (b s : St) : Prop where
  ex : ∃ j, s.journal = some j ∧
    (∀ q ∈ s.reqs, q.zone ≠ zoneIn b q.id → alGet j.updates q.id = some q.zone) ∧
    (∀ id z, alGet j.updates id = some z → ∃ q ∈ s.reqs, q.id = id ∧ q.zone = z ∧ z ≠ zoneIn b id)

def TU (b : St) (ex : String) (s : St) : Prop := Track b ex s ∧ Upd b s

theorem tu_ambig (b : St) (ex : String) (s : St) (x : Bool) (h : TU b ex s) : TU b ex { s with ambig := x } :=
  ⟨track_ambig b ex s x h.1, ⟨h.2.ex⟩⟩

theorem tu_move (b : St) (ex : String) (nodes0 : Mask) (s : St) (r : Req) (nodes : Mask) (h : TU b ex s)
    (hm : MoveOK s nodes0 r nodes) : TU b ex (s.zoneMove (r.zone ||| nodes) r.id) := by
  refine ⟨track_move b ex nodes0 s r nodes h.1 hm, ?_⟩
  by_cases he : r.zone = r.zone ||| nodes
  · rw [← he, zoneMove_noop s hm.ids r hm.mem hm.zone]; exact h.2
  · obtain ⟨j, hj, h1, h2⟩ := h.2.ex
    have ht : r.zone ||| nodes ≠ 0 := by
      intro e; exact hm.zone (Nat.or_eq_zero_iff.1 e).1
    obtain ⟨j', hj', hups⟩ := zoneMove_journal s hm.ids r hm.mem (r.zone ||| nodes) ht j hj
    rw [if_neg he] at hups
    refine ⟨⟨j', hj', ?_, ?_⟩⟩
    · intro q' hq' hz
      rw [hups]
      rcases zoneMove_reqs_mem s hm.ids r hm.mem _ q' hq' with ⟨hq, hid⟩ | e
      · rw [alGet_alSet_other _ _ _ _ hid]; exact h1 q' hq hz
      · subst e; exact alGet_alSet_same _ _ _
    · intro id z hz
      rw [hups] at hz
      by_cases hid : id = r.id
      · subst hid
        rw [alGet_alSet_same] at hz
        have hzt : r.zone ||| nodes = z := Option.some.inj hz
        refine ⟨{ r with zone := r.zone ||| nodes }, zoneMove_mem_self s hm.ids r hm.mem _ he, rfl, hzt, ?_⟩
        rw [← hzt]
        intro e
        apply he
        have m1 := h.1.mono r hm.mem
        rw [← e] at m1
        exact msub_antisymm (msub_or_self r.zone nodes) m1
      · rw [alGet_alSet_other _ _ _ _ hid] at hz
        obtain ⟨q, hq, hqid, hqz, hne⟩ := h2 id z hz
        exact ⟨q, zoneMove_mem_other s _ r.id q hq (by rw [hqid]; exact hid), hqid, hqz, hne⟩

theorem handleOvercommit_tu (b : St) (ex : String) (s : St) (nodes0 : Mask) (hnd : IdsNodup s) (h : TU b ex s) :
    IdsNodup (s.handleOvercommit nodes0).1 ∧ TU b ex (s.handleOvercommit nodes0).1 :=
  handleOvercommit_pres nodes0 (TU b ex) (fun s x h => tu_ambig b ex s x h)
    (fun s r nodes h hm => tu_move b ex nodes0 s r nodes h hm) s hnd h

/-! ### `Allocate` reports exactly the moved allocations -/

theorem allocate_tu (s : St) (hw : WF s) (hp : Placed s) (r r' : Req) (h : (s.allocate r).2 = .ok r') :
    IdsNodup (s.allocate r).1 ∧ TU (withNew s r') r'.id (s.allocate r).1 := by
  obtain ⟨hnone, hnorm, _, _, _, heq⟩ := allocate_ok_eq s r r' h
  have hz : r'.zone ≠ 0 := and_ne_zero_left hnorm
  rw [heq]
  have hbnd : IdsNodup (withNew s r') := withNew_ids_nodup s hw r' hnone
  have hb0 : IdsNodup (withNew s r').startJournal := hbnd
  have hmem0 : ({ r' with zone := 0 } : Req) ∈ (withNew s r').startJournal.reqs := by
    simp [withNew, St.startJournal]
  have hback : ({ ({ r' with zone := 0 } : Req) with zone := r'.zone } : Req) = r' := by cases r'; rfl
  have hnewzone : zoneIn (withNew s r') r'.id = 0 :=
    zoneIn_of_mem (withNew s r') hbnd ({ r' with zone := 0 } : Req) (by simp [withNew])
  -- Track part: as in `allocate_track`, re-derived from the equation
  have htrack : Track (withNew s r') r'.id ((withNew s r').startJournal.zoneMove r'.zone r'.id) := by
    have hcases : ∀ q' ∈ ((withNew s r').startJournal.zoneMove r'.zone r'.id).reqs,
        (q' ∈ (withNew s r').reqs ∧ q'.id ≠ r'.id) ∨ q' = r' := by
      intro q' hq'
      have := zoneMove_reqs_mem (withNew s r').startJournal hb0 { r' with zone := 0 } hmem0 r'.zone q' hq'
      rw [hback] at this
      exact this
    have hnm : ((withNew s r').startJournal.zoneMove r'.zone r'.id).normalMask = s.normalMask :=
      normalMask_of_nodes _ _ (by rw [zoneMove_nodes]; rfl)
    refine ⟨?_, ?_, ?_, ?_⟩
    · intro q' hq'
      rcases hcases q' hq' with ⟨hq, _⟩ | e
      · rw [zoneIn_of_mem _ hbnd q' hq]; exact msub_refl _
      · subst e; rw [hnewzone]; exact msub_zero _
    · intro q' hq' _ hne
      rcases hcases q' hq' with ⟨hq, _⟩ | e
      · exact (zoneIn_of_mem _ hbnd q' hq).symm
      · subst e; exact absurd rfl hne
    · intro q' hq'
      rw [hnm]
      rcases hcases q' hq' with ⟨hq, hid⟩ | e
      · simp only [withNew, List.mem_append, List.mem_singleton] at hq
        rcases hq with hq | hq
        · exact hp q' hq
        · subst hq; exact absurd rfl hid
      · subst e; exact hnorm
    · rw [zoneMove_nodes]; rfl
  have hupd : Upd (withNew s r') ((withNew s r').startJournal.zoneMove r'.zone r'.id) := by
    have hne0 : ({ r' with zone := 0 } : Req).zone ≠ r'.zone := fun e => hz e.symm
    obtain ⟨j', hj', hups⟩ := zoneMove_journal (withNew s r').startJournal hb0 { r' with zone := 0 } hmem0 r'.zone hz {} rfl
    rw [if_neg hne0] at hups
    have hself := zoneMove_mem_self (withNew s r').startJournal hb0 { r' with zone := 0 } hmem0 r'.zone hne0
    rw [hback] at hself
    refine ⟨⟨j', hj', ?_, ?_⟩⟩
    · intro q' hq' hzq
      rw [hups]
      have := zoneMove_reqs_mem (withNew s r').startJournal hb0 { r' with zone := 0 } hmem0 r'.zone q' hq'
      rw [hback] at this
      rcases this with ⟨hq, _⟩ | e
      · exact absurd (zoneIn_of_mem _ hbnd q' hq).symm hzq
      · subst e; exact alGet_alSet_same _ _ _
    · intro id z hzz
      rw [hups] at hzz
      by_cases hid : id = r'.id
      · subst hid
        have : alGet (alSet ([] : List (String × Mask)) r'.id r'.zone) r'.id = some r'.zone := alGet_alSet_same _ _ _
        have e : (({ r' with zone := 0 } : Req).id) = r'.id := rfl
        rw [e, this] at hzz
        have hzt : r'.zone = z := Option.some.inj hzz
        exact ⟨r', hself, rfl, hzt, by rw [← hzt, hnewzone]; exact hz⟩
      · have e : (({ r' with zone := 0 } : Req).id) = r'.id := rfl
        rw [e, alGet_alSet_other _ _ _ _ hid] at hzz
        simp [alGet] at hzz
  have hnd1 : IdsNodup ((withNew s r').startJournal.zoneMove r'.zone r'.id) := by
    unfold IdsNodup; rw [zoneMove_ids]; exact hbnd
  exact handleOvercommit_tu (withNew s r') r'.id _ r'.zone hnd1 ⟨htrack, hupd⟩

/-- **Exact updates (Allocate).** The update map returned by a successful `Allocate` maps `id` to
`z` exactly when `id` is another request whose zone is now `z` and was something else before. -/
theorem Allocate_updates_exact (s : St) (hw : WF s) (hp : Placed s) (r : Req) (res : Result)
    (h : (s.Allocate r).2 = .ok res) (id : String) (z : Mask) :
    alGet res.updates id = some z ↔
      (id ≠ r.id ∧ ∃ q ∈ (s.Allocate r).1.reqs, q.id = id ∧ q.zone = z ∧ z ≠ zoneIn s id) := by
  obtain ⟨r', ha, hreqs, _⟩ := Allocate_ok_shape s r res h
  obtain ⟨hnone, _, hid, _, _, _⟩ := allocate_ok_eq s r r' ha
  obtain ⟨_, _, ⟨j, hj, h1, h2⟩⟩ := allocate_tu s hw hp r r' ha
  -- the returned map is the journal's, without the requester
  have hres : res.updates = alErase j.updates r'.id := by
    unfold St.Allocate at h
    cases ha' : s.allocate r with
    | mk s' res' =>
      rw [ha'] at ha h hj
      simp only [] at ha
      subst ha
      simp only [St.commitJournal] at h
      simp only [] at hj
      rw [hj] at h
      simp only [Except.ok.injEq] at h
      rw [← h]
  rw [hres, alGet_alErase, hreqs]
  constructor
  · intro hg
    by_cases e : id = r'.id
    · simp [e] at hg
    · simp only [e, if_false] at hg
      obtain ⟨q, hq, hqid, hqz, hne⟩ := h2 id z hg
      refine ⟨by rw [← hid]; exact e, q, hq, hqid, hqz, ?_⟩
      rw [← zoneIn_withNew s r' hnone]; exact hne
  · intro ⟨hne, q, hq, hqid, hqz, hzne⟩
    have e : id ≠ r'.id := by rw [hid]; exact hne
    simp only [e, if_false]
    have := h1 q hq (by rw [hqz, hqid, zoneIn_withNew s r' hnone]; exact hzne)
    rw [hqid, hqz] at this
    exact this

end Nri.LibMem
