import Nri.Model.LibMem
/-!
Helper lemmas for C06/C07: the journal invariant `Good b s` ("`s` is `b` with some zones
moved, and the journal knows how to undo it") is preserved by every primitive and every loop
of the overcommit machinery, and `revertJournal` then restores `b`'s assignments.
Core Lean only.
-/
namespace Nri.LibMem

/-! ### small facts -/

def withZone (Z : String → Mask) (r : Req) : Req := { r with zone := Z r.id }

def zoneIn (s : St) (id : String) : Mask := ((s.req? id).map (·.zone)).getD 0

def revKeys (j : Journal) : List String := j.reverts.map (·.1)

theorem alGet_isSome_iff (l : List (String × Mask)) (k : String) :
    (alGet l k).isSome = true ↔ k ∈ l.map (·.1) := by
  unfold alGet
  induction l with
  | nil => simp
  | cons p l ih =>
    simp only [List.find?_cons, List.map_cons, List.mem_cons]
    by_cases h : p.1 = k
    · simp [h]
    · have : (p.1 == k) = false := by simp [h]
      simp only [this]
      rw [ih]
      constructor
      · intro hh; exact Or.inr hh
      · intro hh; rcases hh with hh | hh
        · exact absurd hh.symm h
        · exact hh

theorem req?_map_withZone (reqs : List Req) (Z : String → Mask) (id : String) :
    (reqs.map (withZone Z)).find? (·.id == id) = (reqs.find? (·.id == id)).map (withZone Z) := by
  induction reqs with
  | nil => rfl
  | cons r rs ih =>
    simp only [List.map_cons, List.find?_cons]
    have : (withZone Z r).id = r.id := rfl
    rw [this]
    cases h : (r.id == id) <;> simp [ih]

/-- setting a zone through `setZone` is an update of the zone function. -/
theorem setZone_map (b : St) (Z : String → Mask) (s : St) (h : s.reqs = b.reqs.map (withZone Z))
    (id : String) (z : Mask) :
    (s.setZone id z).reqs = b.reqs.map (withZone (fun i => if i == id then z else Z i)) := by
  unfold St.setZone
  simp only [h, List.map_map]
  apply List.map_congr_left
  intro r _
  simp only [Function.comp, withZone]
  by_cases hh : r.id = id
  · simp [hh]
  · have : (r.id == id) = false := by simp [hh]
    simp [this]

/-! ### the journal invariant -/

structure Good (b s : St) : Prop where
  ex : ∃ (Z : String → Mask) (j : Journal),
    s.reqs = b.reqs.map (withZone Z) ∧ s.journal = some j ∧
    (revKeys j).Nodup ∧
    (∀ p ∈ j.reverts, (∃ r ∈ b.reqs, r.id = p.1) ∧ p.2 = zoneIn b p.1 ∧ Z p.1 ≠ 0) ∧
    (∀ id, id ∉ revKeys j → Z id = zoneIn b id)
  nodes : s.nodes = b.nodes
  version : s.version = b.version

theorem zoneIn_of_map (b s : St) (Z : String → Mask) (h : s.reqs = b.reqs.map (withZone Z)) (id : String)
    (hex : ∃ r ∈ b.reqs, r.id = id) : zoneIn s id = Z id := by
  unfold zoneIn St.req?
  rw [h, req?_map_withZone]
  obtain ⟨r, hr, hid⟩ := hex
  cases hf : b.reqs.find? (·.id == id) with
  | none =>
    have := List.find?_eq_none.1 hf r hr
    simp [hid] at this
  | some q =>
    have hq := List.find?_some hf
    simp only [Option.map_some, Option.getD_some, withZone]
    have : q.id = id := by simpa using hq
    rw [this]

theorem req?_of_map (b s : St) (Z : String → Mask) (h : s.reqs = b.reqs.map (withZone Z)) (id : String) :
    s.req? id = (b.req? id).map (withZone Z) := by
  unfold St.req?; rw [h, req?_map_withZone]

/-- `zoneMove` to a non-empty zone preserves the invariant. -/
theorem zoneMove_good (b s : St) (hg : Good b s) (z : Mask) (hz : z ≠ 0) (id : String) :
    Good b (s.zoneMove z id) := by
  obtain ⟨⟨Z, j, hreqs, hj, hnd, hrev, hfree⟩, hn, hv⟩ := hg
  unfold St.zoneMove
  cases hr : s.req? id with
  | none => exact ⟨⟨Z, j, hreqs, hj, hnd, hrev, hfree⟩, hn, hv⟩
  | some r =>
    have hr' := hr
    rw [req?_of_map b s Z hreqs] at hr'
    cases hb : b.req? id with
    | none => simp [hb] at hr'
    | some rb =>
      simp only [hb, Option.map_some, Option.some.injEq] at hr'
      have hbid : rb.id = id := by
        have := List.find?_some hb; simpa using this
      have hbmem : rb ∈ b.reqs := List.mem_of_find?_eq_some hb
      have hrz : r.zone = Z id := by rw [← hr', withZone, hbid]
      have hexid : ∃ q ∈ b.reqs, q.id = id := ⟨rb, hbmem, hbid⟩
      -- the new zone function
      let Z' : String → Mask := fun i => if i == id then z else Z i
      by_cases hz0 : r.zone = 0
      · -- unassigned: plain zoneAssign
        simp only [hz0, ne_eq, not_true_eq_false, if_false]
        unfold St.zoneAssign
        refine ⟨⟨Z', j.assign z id, ?_, ?_, ?_, ?_, ?_⟩, hn, hv⟩
        · exact setZone_map b Z _ (by simpa using hreqs) id z
        · simp [St.setZone, hj]
        · -- keys stay nodup
          unfold Journal.assign revKeys
          by_cases hk : (alGet j.reverts id).isSome = true
          · simp [hk]; exact hnd
          · simp only [hk]
            have hnot : id ∉ j.reverts.map (·.1) := fun hm => hk ((alGet_isSome_iff _ _).2 hm)
            simp only [Bool.false_eq_true, if_false, List.map_append, List.map_cons, List.map_nil]
            rw [List.nodup_append]
            refine ⟨hnd, by simp, ?_⟩
            intro a ha b' hb'
            simp at hb'; subst hb'
            intro e; subst e; exact hnot ha
        · intro p hp
          unfold Journal.assign at hp
          by_cases hk : (alGet j.reverts id).isSome = true
          · simp only [hk, if_true] at hp
            obtain ⟨h1, h2, h3⟩ := hrev p hp
            refine ⟨h1, h2, ?_⟩
            show (if p.1 == id then z else Z p.1) ≠ 0
            by_cases e : p.1 = id
            · simp [e, hz]
            · have : (p.1 == id) = false := by simp [e]
              simp [this, h3]
          · simp only [hk, Bool.false_eq_true, if_false, List.mem_append, List.mem_singleton] at hp
            rcases hp with hp | hp
            · obtain ⟨h1, h2, h3⟩ := hrev p hp
              refine ⟨h1, h2, ?_⟩
              show (if p.1 == id then z else Z p.1) ≠ 0
              by_cases e : p.1 = id
              · simp [e, hz]
              · have : (p.1 == id) = false := by simp [e]
                simp [this, h3]
            · subst hp
              have hnot : id ∉ revKeys j := fun hm => hk ((alGet_isSome_iff _ _).2 hm)
              refine ⟨hexid, ?_, ?_⟩
              · show (0 : Mask) = zoneIn b id
                rw [← hfree id hnot, ← hrz, hz0]
              · show (if id == id then z else Z id) ≠ 0
                simp [hz]
        · intro i hi
          have hi' : i ∉ revKeys j ∧ i ≠ id := by
            unfold Journal.assign revKeys at hi
            by_cases hk : (alGet j.reverts id).isSome = true
            · simp only [hk, if_true] at hi
              refine ⟨hi, ?_⟩
              intro e; subst e
              exact hi ((alGet_isSome_iff _ _).1 hk)
            · simp only [hk, Bool.false_eq_true, if_false, List.map_append, List.mem_append, List.map_cons,
                List.map_nil, List.mem_singleton, not_or] at hi
              exact hi
          show (if i == id then z else Z i) = zoneIn b i
          have : (i == id) = false := by simp [hi'.2]
          simp [this, hfree i hi'.1]
      · simp only [ne_eq, hz0, not_false_eq_true, if_true]
        by_cases hsame : (r.zone == z) = true
        · simp only [hsame, if_true]
          exact ⟨⟨Z, j, hreqs, hj, hnd, hrev, hfree⟩, hn, hv⟩
        · simp only [hsame, Bool.false_eq_true, if_false]
          -- zoneRemove then zoneAssign
          have hrm : s.zoneRemove r.zone id =
              { (s.setZone id 0) with journal := some (j.delete r.zone id) } := by
            unfold St.zoneRemove
            simp only [hr, ne_eq, hz0, not_false_eq_true, beq_self_eq_true, and_self, if_true]
            simp [St.setZone, hj]
          rw [hrm]
          unfold St.zoneAssign
          -- after remove+assign: zone function Z', journal (j.delete ..).assign ..
          let j1 := j.delete r.zone id
          have hj1keys : id ∈ revKeys j1 := by
            unfold j1 Journal.delete revKeys
            by_cases hk : (alGet j.reverts id).isSome = true
            · simp only [hk, if_true]; exact (alGet_isSome_iff _ _).1 hk
            · simp [hk]
          have hj1some : (alGet j1.reverts id).isSome = true := (alGet_isSome_iff _ _).2 hj1keys
          have hassign : j1.assign z id = { j1 with updates := alSet j1.updates id z } := by
            unfold Journal.assign; simp [hj1some]
          have hj1nd : (revKeys j1).Nodup := by
            unfold j1 Journal.delete revKeys
            by_cases hk : (alGet j.reverts id).isSome = true
            · simp only [hk, if_true]; exact hnd
            · simp only [hk, Bool.false_eq_true, if_false, List.map_append, List.map_cons, List.map_nil]
              have hnot : id ∉ j.reverts.map (·.1) := fun hm => hk ((alGet_isSome_iff _ _).2 hm)
              rw [List.nodup_append]
              refine ⟨hnd, by simp, ?_⟩
              intro a ha b' hb'
              simp at hb'; subst hb'
              intro e; subst e; exact hnot ha
          have hj1rev : ∀ p ∈ j1.reverts, (∃ q ∈ b.reqs, q.id = p.1) ∧ p.2 = zoneIn b p.1 ∧ Z' p.1 ≠ 0 := by
            intro p hp
            have hZ' : ∀ q : String × Mask, Z q.1 ≠ 0 → Z' q.1 ≠ 0 := by
              intro q hq
              show (if q.1 == id then z else Z q.1) ≠ 0
              by_cases e : q.1 = id
              · simp [e, hz]
              · have : (q.1 == id) = false := by simp [e]
                simp [this, hq]
            unfold j1 Journal.delete at hp
            by_cases hk : (alGet j.reverts id).isSome = true
            · simp only [hk, if_true] at hp
              obtain ⟨h1, h2, h3⟩ := hrev p hp
              exact ⟨h1, h2, hZ' p h3⟩
            · simp only [hk, Bool.false_eq_true, if_false, List.mem_append, List.mem_singleton] at hp
              rcases hp with hp | hp
              · obtain ⟨h1, h2, h3⟩ := hrev p hp
                exact ⟨h1, h2, hZ' p h3⟩
              · subst hp
                have hnot : id ∉ revKeys j := fun hm => hk ((alGet_isSome_iff _ _).2 hm)
                refine ⟨hexid, ?_, ?_⟩
                · show r.zone = zoneIn b id
                  rw [hrz]; exact hfree id hnot
                · show (if id == id then z else Z id) ≠ 0
                  simp [hz]
          have hj1free : ∀ i, i ∉ revKeys j1 → Z' i = zoneIn b i := by
            intro i hi
            have hne : i ≠ id := fun e => hi (e ▸ hj1keys)
            have hi0 : i ∉ revKeys j := by
              intro hm
              apply hi
              unfold j1 Journal.delete revKeys
              by_cases hk : (alGet j.reverts id).isSome = true
              · simp only [hk, if_true]; exact hm
              · simp only [hk, Bool.false_eq_true, if_false, List.map_append, List.mem_append]
                exact Or.inl hm
            show (if i == id then z else Z i) = zoneIn b i
            have : (i == id) = false := by simp [hne]
            simp [this, hfree i hi0]
          refine ⟨⟨Z', { j1 with updates := alSet j1.updates id z }, ?_, ?_, hj1nd, hj1rev, hj1free⟩, hn, hv⟩
          · have h0 := setZone_map b Z s hreqs id 0
            have h1 := setZone_map b (fun i => if i == id then 0 else Z i)
              { (s.setZone id 0) with journal := some (j.delete r.zone id) } (by simpa using h0) id z
            simp only [St.setZone] at h1 ⊢
            rw [h1]
            apply List.map_congr_left
            intro q _
            simp only [withZone]
            by_cases e : q.id = id
            · simp [e, Z']
            · have : (q.id == id) = false := by simp [e]
              simp [this, Z']
              intro h; exact absurd h e
          · simp [St.setZone, hassign, j1]

end Nri.LibMem

namespace Nri.LibMem

theorem good_ambig (b s : St) (hg : Good b s) (x : Bool) : Good b { s with ambig := x } :=
  ⟨hg.ex, hg.nodes, hg.version⟩

theorem foldl_inv {α β : Type} (P : β → Prop) (f : β → α → β) (h : ∀ a x, P a → P (f a x)) :
    ∀ (l : List α) (init : β), P init → P (l.foldl f init) := by
  intro l
  induction l with
  | nil => intro init hi; exact hi
  | cons x xs ih => intro init hi; exact ih _ (h _ _ hi)

theorem shrinkGo_good (b : St) (zone nodes : Mask) (hnz : zone ||| nodes ≠ 0) (amount : Int) (zt ty : Nat) :
    ∀ (l : List Req) (s : St) (moved : Int), Good b s →
      Good b (St.zoneShrinkUsage.go zone amount zt nodes ty s moved l).1 := by
  intro l
  induction l with
  | nil => intro s moved hg; simpa [St.zoneShrinkUsage.go] using hg
  | cons r rs ih =>
    intro s moved hg
    unfold St.zoneShrinkUsage.go
    split
    · simp only []
      split
      · exact zoneMove_good b s hg _ hnz r.id
      · exact ih _ _ (zoneMove_good b s hg _ hnz r.id)
    · exact ih _ _ hg

theorem zoneShrinkUsage_good (b s : St) (hg : Good b s) (zone : Mask) (amount limit : Int) (extra : Nat) :
    Good b (s.zoneShrinkUsage zone amount limit extra).1 := by
  unfold St.zoneShrinkUsage
  split
  · exact hg
  · simp only []
    split
    · exact hg
    · rename_i hnodes
      apply shrinkGo_good
      · intro h
        have := (Nat.or_eq_zero_iff.1 h).2
        simp [this] at hnodes
      · exact hg

theorem ocCell_good (b s : St) (hg : Good b s) (nodes : Mask) (oc : List (Mask × Int)) (prio : Int) (types : Nat) :
    Good b (s.ocCell nodes oc prio types).1 := by
  unfold St.ocCell
  apply foldl_inv (fun (acc : St × Int) => Good b acc.1)
  · intro acc z h
    exact zoneShrinkUsage_good b acc.1 h _ _ _ _
  · exact hg

theorem ocStep_good (b : St) (nodes : Mask) (acc : St × List (Mask × Int) × Int × Bool × Nat) (c : Int × Nat)
    (h : Good b acc.1) : Good b (St.ocStep nodes acc c).1 := by
  unfold St.ocStep
  split
  · exact h
  · simp only []
    split
    · exact h
    · exact good_ambig b _ (ocCell_good b acc.1 h _ _ _ _) _

theorem ocPass_good (b s : St) (hg : Good b s) (nodes : Mask) (oc : List (Mask × Int)) :
    Good b (s.ocPass nodes oc).1 := by
  unfold St.ocPass
  simp only []
  apply foldl_inv (fun (acc : St × List (Mask × Int) × Int × Bool × Nat) => Good b acc.1)
  · intro acc c h; exact ocStep_good b nodes acc c h
  · exact hg

theorem resolveOvercommit_good (b : St) (nodes : Mask) :
    ∀ (fuel : Nat) (s : St) (oc : List (Mask × Int)), Good b s → Good b (s.resolveOvercommit nodes fuel oc).1 := by
  intro fuel
  induction fuel with
  | zero => intro s oc hg; simpa [St.resolveOvercommit] using hg
  | succ n ih =>
    intro s oc hg
    unfold St.resolveOvercommit
    have hp := ocPass_good b s hg nodes oc
    simp only []
    split
    · exact hp
    · split
      · exact hp
      · exact ih _ _ hp

theorem handleOvercommit_good (b s : St) (hg : Good b s) (nodes : Mask) :
    Good b (s.handleOvercommit nodes).1 := by
  unfold St.handleOvercommit
  simp only []
  split
  · exact good_ambig b s hg _
  · exact resolveOvercommit_good b nodes _ _ _ (good_ambig b s hg _)

end Nri.LibMem

namespace Nri.LibMem

/-- the step function of `revertJournal`'s fold -/
def revStep (acc : St × Option Err) (p : String × Mask) : St × Option Err :=
  match acc.2 with
  | some _ => acc
  | none =>
    match acc.1.req? p.1 with
    | none => (acc.1, some .internal)
    | some r =>
      if r.zone == 0 then (acc.1, some .internal) else
      let s := acc.1.zoneRemove r.zone p.1
      (if p.2 ≠ 0 then s.zoneAssign p.2 p.1 else s, none)

theorem revertJournal_eq (s : St) (drop : Option String) (j : Journal) (hj : s.journal = some j) :
    s.revertJournal drop =
      (let r := j.reverts.foldl revStep ({ s with journal := none }, none)
       match r.2 with
       | some e => (r.1, [], some e)
       | none =>
         let s := match drop with
           | some id => { r.1 with reqs := r.1.reqs.filter (·.id != id) }
           | none => r.1
         (s, j.updates, none)) := by
  unfold St.revertJournal
  simp only [hj]
  rfl

theorem revFold (b : St) :
    ∀ (l : List (String × Mask)) (s : St) (Z : String → Mask),
      s.reqs = b.reqs.map (withZone Z) → s.journal = none →
      (l.map (·.1)).Nodup →
      (∀ p ∈ l, (∃ r ∈ b.reqs, r.id = p.1) ∧ p.2 = zoneIn b p.1 ∧ Z p.1 ≠ 0) →
      (∀ id, id ∉ l.map (·.1) → Z id = zoneIn b id) →
      (l.foldl revStep (s, none)).2 = none ∧
      (l.foldl revStep (s, none)).1.reqs = b.reqs.map (withZone (zoneIn b)) ∧
      (l.foldl revStep (s, none)).1.journal = none ∧
      (l.foldl revStep (s, none)).1.nodes = s.nodes ∧
      (l.foldl revStep (s, none)).1.version = s.version := by
  intro l
  induction l with
  | nil =>
    intro s Z hreqs hj _ _ hfree
    refine ⟨rfl, ?_, hj, rfl, rfl⟩
    simp only [List.foldl_nil]
    rw [hreqs]
    apply List.map_congr_left
    intro r _
    simp only [withZone]
    rw [hfree r.id (by simp)]
  | cons p rest ih =>
    intro s Z hreqs hj hnd hrev hfree
    simp only [List.foldl_cons]
    obtain ⟨⟨rb, hrbm, hrbid⟩, hp2, hZp⟩ := hrev p (List.mem_cons_self)
    -- the request is present with a non-zero zone
    have hreq : s.req? p.1 = (b.req? p.1).map (withZone Z) := req?_of_map b s Z hreqs p.1
    have hzin : zoneIn s p.1 = Z p.1 := zoneIn_of_map b s Z hreqs p.1 ⟨rb, hrbm, hrbid⟩
    cases hb : b.req? p.1 with
    | none =>
      have := List.find?_eq_none.1 hb rb hrbm
      simp [hrbid] at this
    | some q =>
      have hqid : q.id = p.1 := by have := List.find?_some hb; simpa using this
      have hsreq : s.req? p.1 = some (withZone Z q) := by rw [hreq, hb]; rfl
      have hzq : (withZone Z q).zone = Z p.1 := by simp [withZone, hqid]
      have hne : ((withZone Z q).zone == 0) = false := by rw [hzq]; simpa using hZp
      -- one step
      let Z' : String → Mask := fun i => if i == p.1 then p.2 else Z i
      have hrm : s.zoneRemove (withZone Z q).zone p.1 = s.setZone p.1 0 := by
        unfold St.zoneRemove
        rw [hsreq]
        have : (withZone Z q).zone ≠ 0 := by rw [hzq]; exact hZp
        simp [this, St.setZone, hj]
      have hstep : revStep (s, none) p =
          ((if p.2 ≠ 0 then (s.setZone p.1 0).zoneAssign p.2 p.1 else s.setZone p.1 0), none) := by
        unfold revStep
        simp only [hsreq, hne, Bool.false_eq_true, if_false, hrm]
      rw [hstep]
      have h0 := setZone_map b Z s hreqs p.1 0
      have hnew_reqs : (if p.2 ≠ 0 then (s.setZone p.1 0).zoneAssign p.2 p.1 else s.setZone p.1 0).reqs
          = b.reqs.map (withZone Z') := by
        split
        · unfold St.zoneAssign
          have h1 := setZone_map b (fun i => if i == p.1 then 0 else Z i)
            { (s.setZone p.1 0) with entries := if (s.setZone p.1 0).entries.contains p.2 then (s.setZone p.1 0).entries else (s.setZone p.1 0).entries ++ [p.2] }
            (by simpa using h0) p.1 p.2
          simp only [St.setZone] at h1 ⊢
          rw [h1]
          apply List.map_congr_left
          intro r _
          simp only [withZone]
          by_cases e : r.id = p.1
          · simp [e, Z']
          · have : (r.id == p.1) = false := by simp [e]
            simp [this, Z']
            intro h; exact absurd h e
        · rename_i hp0
          have hp0' : p.2 = 0 := by simpa using hp0
          rw [h0]
          apply List.map_congr_left
          intro r _
          simp only [withZone]
          by_cases e : r.id = p.1
          · simp [e, Z', hp0']
          · have : (r.id == p.1) = false := by simp [e]
            simp [this, Z']
            try (intro h; exact absurd h e)
      have hnew_j : (if p.2 ≠ 0 then (s.setZone p.1 0).zoneAssign p.2 p.1 else s.setZone p.1 0).journal = none := by
        split <;> simp [St.zoneAssign, St.setZone, hj]
      have hnew_n : (if p.2 ≠ 0 then (s.setZone p.1 0).zoneAssign p.2 p.1 else s.setZone p.1 0).nodes = s.nodes := by
        split <;> simp [St.zoneAssign, St.setZone]
      have hnew_v : (if p.2 ≠ 0 then (s.setZone p.1 0).zoneAssign p.2 p.1 else s.setZone p.1 0).version = s.version := by
        split <;> simp [St.zoneAssign, St.setZone]
      have hnd' : (rest.map (·.1)).Nodup := (List.nodup_cons.1 (by simpa using hnd)).2
      have hpnot : p.1 ∉ rest.map (·.1) := (List.nodup_cons.1 (by simpa using hnd)).1
      have := ih _ Z' hnew_reqs hnew_j hnd'
        (by
          intro q' hq'
          obtain ⟨h1, h2, h3⟩ := hrev q' (List.mem_cons_of_mem _ hq')
          refine ⟨h1, h2, ?_⟩
          have hne' : q'.1 ≠ p.1 := by
            intro e; apply hpnot; rw [← e]; exact List.mem_map_of_mem hq'
          show (if q'.1 == p.1 then p.2 else Z q'.1) ≠ 0
          have : (q'.1 == p.1) = false := by simp [hne']
          simp [this, h3])
        (by
          intro i hi
          show (if i == p.1 then p.2 else Z i) = zoneIn b i
          by_cases e : i = p.1
          · simp [e, hp2]
          · have : (i == p.1) = false := by simp [e]
            simp only [this, Bool.false_eq_true, if_false]
            apply hfree
            simp only [List.map_cons, List.mem_cons, not_or]
            exact ⟨e, hi⟩)
      obtain ⟨a1, a2, a3, a4, a5⟩ := this
      exact ⟨a1, a2, a3, by rw [a4, hnew_n], by rw [a5, hnew_v]⟩

/-- ids are unique ⇒ reading each request's zone back through its id is the identity. -/
theorem map_withZone_zoneIn (b : St) (hnd : (b.reqs.map (·.id)).Nodup) :
    b.reqs.map (withZone (zoneIn b)) = b.reqs := by
  have key : ∀ r ∈ b.reqs, zoneIn b r.id = r.zone := by
    intro r hr
    unfold zoneIn St.req?
    -- the first request with this id is r itself
    have : ∀ (l : List Req), (l.map (·.id)).Nodup → r ∈ l → l.find? (·.id == r.id) = some r := by
      intro l
      induction l with
      | nil => intro _ h; cases h
      | cons x xs ih =>
        intro hn hm
        simp only [List.map_cons, List.nodup_cons] at hn
        simp only [List.find?_cons]
        rcases List.mem_cons.1 hm with e | hm'
        · subst e; simp
        · have hne : x.id ≠ r.id := by
            intro e; apply hn.1; rw [e]; exact List.mem_map_of_mem hm'
          have : (x.id == r.id) = false := by simp [hne]
          simp only [this]
          exact ih hn.2 hm'
    rw [this b.reqs hnd hr]; rfl
  conv => rhs; rw [← List.map_id b.reqs]
  apply List.map_congr_left
  intro r hr
  simp only [withZone, id, key r hr]

/-- **Revert restores.** From any state reachable inside a journaled section (`Good b s`),
`revertJournal` succeeds and restores every request exactly as it was in `b`. -/
theorem revert_restores (b s : St) (hg : Good b s) (hnd : (b.reqs.map (·.id)).Nodup) :
    (s.revertJournal none).2.2 = none ∧
    (s.revertJournal none).1.reqs = b.reqs ∧
    (s.revertJournal none).1.journal = none ∧
    (s.revertJournal none).1.version = b.version ∧
    (s.revertJournal none).1.nodes = b.nodes := by
  obtain ⟨⟨Z, j, hreqs, hj, hnd', hrev, hfree⟩, hn, hv⟩ := hg
  rw [revertJournal_eq s none j hj]
  have := revFold b j.reverts { s with journal := none } Z (by simpa using hreqs) rfl hnd' hrev hfree
  obtain ⟨a1, a2, a3, a4, a5⟩ := this
  simp only [a1]
  refine ⟨trivial, ?_, a3, ?_, ?_⟩
  · rw [a2]; exact map_withZone_zoneIn b hnd
  · rw [a5]; exact hv
  · rw [a4]; exact hn

theorem revert_restores_drop (b s : St) (hg : Good b s) (hnd : (b.reqs.map (·.id)).Nodup) (id : String) :
    (s.revertJournal (some id)).2.2 = none ∧
    (s.revertJournal (some id)).1.reqs = b.reqs.filter (·.id != id) ∧
    (s.revertJournal (some id)).1.journal = none ∧
    (s.revertJournal (some id)).1.version = b.version ∧
    (s.revertJournal (some id)).1.nodes = b.nodes ∧
    (s.revertJournal (some id)).2.1 = (match s.journal with | some j => j.updates | none => []) := by
  obtain ⟨⟨Z, j, hreqs, hj, hnd', hrev, hfree⟩, hn, hv⟩ := hg
  rw [revertJournal_eq s (some id) j hj]
  have := revFold b j.reverts { s with journal := none } Z (by simpa using hreqs) rfl hnd' hrev hfree
  obtain ⟨a1, a2, a3, a4, a5⟩ := this
  simp only [a1, hj]
  refine ⟨trivial, ?_, a3, ?_, ?_, trivial⟩
  · show List.filter _ _ = _
    rw [a2, map_withZone_zoneIn b hnd]
  · show _ = b.version
    rw [← hv]; exact a5
  · show _ = b.nodes
    rw [← hn]; exact a4

end Nri.LibMem

namespace Nri.LibMem

/-! ### frame facts used by the property theorems -/

structure WF (s : St) : Prop where
  journal : s.journal = none
  ids : (s.reqs.map (·.id)).Nodup

theorem good_start (b : St) (hj : b.journal = none) (hnd : (b.reqs.map (·.id)).Nodup) :
    Good b b.startJournal := by
  refine ⟨⟨zoneIn b, {}, ?_, ?_, ?_, ?_, ?_⟩, rfl, rfl⟩
  · simp [St.startJournal, map_withZone_zoneIn b hnd]
  · rfl
  · simp [revKeys]
  · intro p hp; cases hp
  · intro id _; rfl

theorem ensureNormalLoop_spec (s : St) (types : Nat) :
    ∀ (fuel : Nat) (zone z' : Mask), s.ensureNormalLoop types fuel zone = some z' → z' &&& s.normalMask ≠ 0 := by
  intro fuel
  induction fuel with
  | zero => intro zone z' h; simp [St.ensureNormalLoop] at h
  | succ n ih =>
    intro zone z' h
    unfold St.ensureNormalLoop at h
    simp only [] at h
    split at h
    · cases h
    · split at h
      · rename_i hnz
        simp only [Option.some.injEq] at h
        rw [← h]; exact hnz
      · exact ih _ _ h

theorem ensureNormalMemory_zone (s : St) (r : Req) (z : Mask) (t : Nat) (h : s.ensureNormalMemory r = .ok (z, t)) :
    z &&& s.normalMask ≠ 0 := by
  unfold St.ensureNormalMemory at h
  split at h
  · rename_i hz
    simp only [Except.ok.injEq, Prod.mk.injEq] at h
    rw [← h.1]; exact hz
  · simp only [] at h
    split at h
    · cases h
    · rename_i types ht
      split at h
      · rename_i zone hz
        simp only [Except.ok.injEq, Prod.mk.injEq] at h
        rw [← h.1]
        exact ensureNormalLoop_spec s _ _ _ _ hz
      · cases h

theorem and_ne_zero_left {a b : Nat} (h : a &&& b ≠ 0) : a ≠ 0 := by
  intro e; subst e; simp at h

theorem validateRequest_spec (s : St) (r : Req) (t : Nat) (h : s.validateRequest r = .ok t) :
    s.req? r.id = none := by
  unfold St.validateRequest at h
  split at h
  · cases h
  · rename_i hnone
    cases hh : s.req? r.id with
    | none => rfl
    | some x => simp [hh] at hnone

theorem req?_none_not_mem (s : St) (id : String) (h : s.req? id = none) : id ∉ s.reqs.map (·.id) := by
  intro hm
  obtain ⟨r, hr, hid⟩ := List.mem_map.1 hm
  have := List.find?_eq_none.1 h r hr
  simp [hid] at this

theorem filter_append_new (reqs : List Req) (r0 : Req) (h : r0.id ∉ reqs.map (·.id)) :
    (reqs ++ [r0]).filter (·.id != r0.id) = reqs := by
  rw [List.filter_append]
  have h1 : reqs.filter (·.id != r0.id) = reqs := by
    apply List.filter_eq_self.2
    intro x hx
    have : x.id ≠ r0.id := by
      intro e; apply h; rw [← e]; exact List.mem_map_of_mem hx
    simp [this]
  simp [h1]

/-- the state `allocate` works on after inserting the new (unassigned) request -/
def withNew (s : St) (r : Req) : St := { s with reqs := s.reqs ++ [{ r with zone := 0 }] }

theorem allocate_body_good (s : St) (hw : WF s) (r : Req) (hnew : s.req? r.id = none) (zone : Mask) (hz : zone ≠ 0) :
    Good (withNew s r)
      ((({ s.startJournal with reqs := s.startJournal.reqs ++ [{ r with zone := 0 }] } : St).zoneAssign zone r.id).handleOvercommit zone).1 := by
  have hb_nd : ((withNew s r).reqs.map (·.id)).Nodup := by
    simp only [withNew, List.map_append, List.map_cons, List.map_nil]
    rw [List.nodup_append]
    refine ⟨hw.ids, by simp, ?_⟩
    intro a ha b' hb'
    simp at hb'; subst hb'
    intro e; subst e
    exact req?_none_not_mem s _ hnew ha
  have hg0 : Good (withNew s r) (withNew s r).startJournal := good_start _ (by simp [withNew, hw.journal]) hb_nd
  have heq : ({ s.startJournal with reqs := s.startJournal.reqs ++ [{ r with zone := 0 }] } : St) = (withNew s r).startJournal := by
    simp [withNew, St.startJournal]
  rw [heq]
  -- zoneAssign on an unassigned request is zoneMove
  have hreq : (withNew s r).startJournal.req? r.id = some { r with zone := 0 } := by
    unfold St.req? withNew St.startJournal
    simp only [List.find?_append]
    have : s.reqs.find? (·.id == r.id) = none := hnew
    simp [this]
  have hmove : (withNew s r).startJournal.zoneAssign zone r.id = (withNew s r).startJournal.zoneMove zone r.id := by
    unfold St.zoneMove
    simp [hreq]
  rw [hmove]
  exact handleOvercommit_good _ _ (zoneMove_good _ _ hg0 zone hz r.id) zone

theorem cleanup_reqs (s : St) : s.cleanupUnusedZones.reqs = s.reqs := rfl
theorem cleanup_version (s : St) : s.cleanupUnusedZones.version = s.version := rfl

/-- internal `allocate`: on failure nothing is left behind; on success the state is a
journaled variant of `withNew s r'` at the same version. -/
theorem allocate_spec (s : St) (hw : WF s) (r : Req) :
    (∀ e, (s.allocate r).2 = .error e →
        (s.allocate r).1.reqs = s.reqs ∧ (s.allocate r).1.version = s.version ∧ (s.allocate r).1.journal = none) ∧
    (∀ r', (s.allocate r).2 = .ok r' →
        Good (withNew s r') (s.allocate r).1 ∧ s.req? r'.id = none ∧ r'.id = r.id) := by
  unfold St.allocate
  cases hv : s.validateRequest r with
  | error e => simp [hw.journal]
  | ok t1 =>
    simp only []
    cases hf : s.findInitialZone { r with types := t1 } with
    | error e => simp [hw.journal]
    | ok z1 =>
      simp only []
      cases hn : s.ensureNormalMemory { r with types := t1, zone := z1 } with
      | error e => simp [hw.journal]
      | ok zt =>
        obtain ⟨z2, t2⟩ := zt
        simp only []
        have hnone := validateRequest_spec s r t1 hv
        have hzn := ensureNormalMemory_zone s _ z2 t2 hn
        have hz : z2 ≠ 0 := and_ne_zero_left hzn
        let r3 : Req := { r with types := t2, zone := z2 }
        have hnone3 : s.req? r3.id = none := hnone
        have hgood := allocate_body_good s hw r3 hnone3 z2 hz
        cases hh : (({ s.startJournal with reqs := s.startJournal.reqs ++ [{ r3 with zone := 0 }] } : St).zoneAssign z2 r3.id).handleOvercommit z2 with
        | mk s2 oe =>
          rw [hh] at hgood
          cases oe with
          | none =>
            simp only []
            refine ⟨(by intro e h; cases h), ?_⟩
            intro r' h
            simp only [Except.ok.injEq] at h
            subst h
            exact ⟨hgood, hnone3, rfl⟩
          | some e =>
            simp only []
            refine ⟨?_, (by intro r' h; cases h)⟩
            intro e' _
            have hb_nd : ((withNew s r3).reqs.map (·.id)).Nodup := by
              simp only [withNew, List.map_append, List.map_cons, List.map_nil]
              rw [List.nodup_append]
              refine ⟨hw.ids, by simp, ?_⟩
              intro a ha b' hb'
              simp at hb'; subst hb'
              intro e; subst e
              exact req?_none_not_mem s _ hnone3 ha
            have := revert_restores_drop (withNew s r3) s2 hgood hb_nd r3.id
            obtain ⟨_, a2, a3, a4, _, _⟩ := this
            refine ⟨?_, ?_, a3⟩
            · rw [a2]
              exact filter_append_new s.reqs { r3 with zone := 0 } (req?_none_not_mem s _ hnone3)
            · rw [a4]; rfl

end Nri.LibMem
