import Nri.Model.LibMem
import Nri.Proofs.LibMem
import Nri.Proofs.LibMemInv
import Nri.Proofs.LibMemTrack
import Nri.Proofs.LibMemUpd
import Nri.Proofs.LibMemFit
/-!
C07 "a request with strict type preference is assigned only nodes of the requested types":
bit-level facts about `zoneType`, `byTypes`, `newCloseNodesOfType` and `expand`.  Core Lean only.
-/
namespace Nri.LibMem

theorem bit_testBit (i k : Nat) : (bit i).testBit k = decide (i = k) := by
  unfold bit
  rw [Nat.one_shiftLeft, Nat.testBit_two_pow]

theorem foldl_or_testBit (l : List Node) (P : Node → Prop) [DecidablePred P] (f : Node → Nat) (init k : Nat) :
    (l.foldl (fun m n => if P n then m ||| bit (f n) else m) init).testBit k =
      (init.testBit k || l.any (fun n => decide (P n) && decide (f n = k))) := by
  induction l generalizing init with
  | nil => simp
  | cons n l ih =>
    simp only [List.foldl_cons, List.any_cons]
    rw [ih]
    by_cases hp : P n
    · simp only [hp, if_true, Nat.testBit_or, bit_testBit, decide_true, Bool.true_and, Bool.or_assoc]
    · simp only [hp, if_false, decide_false, Bool.false_and, Bool.false_or]

/-- `k` is a type of the zone iff some node of the zone has type `k` -/
theorem zoneType_testBit (s : St) (z : Mask) (k : Nat) :
    (s.zoneType z).testBit k = true ↔ ∃ n ∈ s.nodes, z.testBit n.id = true ∧ n.typ = k := by
  unfold St.zoneType
  rw [foldl_or_testBit s.nodes (fun n => z.testBit n.id = true) (fun n => n.typ) 0 k]
  simp only [Nat.zero_testBit, Bool.false_or, List.any_eq_true, Bool.and_eq_true, decide_eq_true_eq]

/-- node `i` is in `byTypes t` iff some node with memory, id `i` and a type in `t` exists -/
theorem byTypes_testBit (s : St) (t : Nat) (i : Nat) :
    (s.byTypes t).testBit i = true ↔ ∃ n ∈ s.nodes, (n.cap > 0 ∧ t.testBit n.typ = true) ∧ n.id = i := by
  unfold St.byTypes
  rw [foldl_or_testBit s.nodes (fun n => n.cap > 0 ∧ t.testBit n.typ = true) (fun n => n.id) 0 i]
  simp only [Nat.zero_testBit, Bool.false_or, List.any_eq_true, Bool.and_eq_true, decide_eq_true_eq]

theorem zoneType_or (s : St) (a b : Mask) : s.zoneType (a ||| b) = s.zoneType a ||| s.zoneType b := by
  apply Nat.eq_of_testBit_eq
  intro k
  rw [Nat.testBit_or]
  apply Bool.eq_iff_iff.2
  rw [Bool.or_eq_true, zoneType_testBit, zoneType_testBit, zoneType_testBit]
  constructor
  · intro ⟨n, hn, hz, ht⟩
    rw [Nat.testBit_or, Bool.or_eq_true] at hz
    rcases hz with h | h
    · exact Or.inl ⟨n, hn, h, ht⟩
    · exact Or.inr ⟨n, hn, h, ht⟩
  · intro h
    rcases h with ⟨n, hn, hz, ht⟩ | ⟨n, hn, hz, ht⟩
    · exact ⟨n, hn, by rw [Nat.testBit_or, hz]; rfl, ht⟩
    · exact ⟨n, hn, by rw [Nat.testBit_or, hz]; simp, ht⟩

theorem zoneType_mono (s : St) {a b : Mask} (h : msub a b = true) : msub (s.zoneType a) (s.zoneType b) = true := by
  rw [msub_iff] at h ⊢
  intro k hk
  rw [zoneType_testBit] at hk ⊢
  obtain ⟨n, hn, hz, ht⟩ := hk
  exact ⟨n, hn, h _ hz, ht⟩

/-- node ids are unique (`newAllocator` refuses duplicate ids) -/
def NodesUniq (s : St) : Prop := ∀ n ∈ s.nodes, ∀ n' ∈ s.nodes, n.id = n'.id → n = n'

/-- a zone inside `byTypes t` has only types of `t` -/
theorem zoneType_sub_of_byTypes (s : St) (hu : NodesUniq s) (z : Mask) (t : Nat) (h : msub z (s.byTypes t) = true) :
    msub (s.zoneType z) t = true := by
  rw [msub_iff] at h ⊢
  intro k hk
  rw [zoneType_testBit] at hk
  obtain ⟨n, hn, hz, ht⟩ := hk
  have := h _ hz
  rw [byTypes_testBit] at this
  obtain ⟨n', hn', ⟨_, htt⟩, hid⟩ := this
  have : n' = n := hu n' hn' n hn hid
  subst this
  rw [← ht]; exact htt

theorem msub_and_left (a b : Mask) : msub (a &&& b) a = true := by
  rw [msub_iff]; intro i h; rw [Nat.testBit_and, Bool.and_eq_true] at h; exact h.1

theorem msub_and_right (a b : Mask) : msub (a &&& b) b = true := by
  rw [msub_iff]; intro i h; rw [Nat.testBit_and, Bool.and_eq_true] at h; exact h.2

theorem msub_or_of (a b c : Mask) (h1 : msub a c = true) (h2 : msub b c = true) : msub (a ||| b) c = true := by
  rw [msub_iff] at *
  intro i h
  rw [Nat.testBit_or, Bool.or_eq_true] at h
  rcases h with h | h
  · exact h1 i h
  · exact h2 i h

theorem msub_mdiff (a b : Mask) : msub (mdiff a b) a = true := by
  rw [msub_iff]
  intro i h
  unfold mdiff at h
  rw [Nat.testBit_xor, Nat.testBit_and] at h
  cases ha : a.testBit i with
  | true => rfl
  | false => simp [ha] at h

theorem msub_trans'' {a b c : Mask} (h1 : msub a b = true) (h2 : msub b c = true) : msub a c = true := by
  rw [msub_iff] at *
  intro i h; exact h2 i (h1 i h)

theorem msub_or_or {a b c d : Mask} (h1 : msub a c = true) (h2 : msub b d = true) : msub (a ||| b) (c ||| d) = true :=
  msub_or_of a b (c ||| d) (msub_or_right d h1) (by rw [Nat.or_comm c d]; exact msub_or_right c h2)

theorem msub_bit (t types : Nat) (h : types.testBit t = true) : msub (bit t) types = true := by
  rw [msub_iff]
  intro i hi
  rw [bit_testBit] at hi
  have : t = i := by simpa using hi
  rw [← this]; exact h

/-- `newCloseNodesOfType zone t` returns nodes of `byTypes (bit t)` only -/
theorem newClose_sub (s : St) (zone : Mask) (t : Nat) :
    msub (s.newCloseNodesOfType zone t) (s.byTypes (bit t)) = true := by
  unfold St.newCloseNodesOfType
  simp only []
  have key : ∀ (l : List Nat) (acc : Mask × Option Nat), msub acc.1 (mdiff (s.byTypes (bit t)) zone) = true →
      msub (l.foldl (fun (acc : Mask × Option Nat) (id : Nat) =>
        match s.node? id with
        | none => acc
        | some node =>
          match (node.classes.drop 1).find? (fun c => c.2 &&& mdiff (s.byTypes (bit t)) zone ≠ 0) with
          | none => acc
          | some (d, nodes) =>
            let le := match acc.2 with | none => true | some mx => d ≤ mx
            if le then (acc.1 ||| (nodes &&& mdiff (s.byTypes (bit t)) zone), some d) else acc) acc).1
        (mdiff (s.byTypes (bit t)) zone) = true := by
    intro l
    induction l with
    | nil => intro acc h; exact h
    | cons id l ih =>
      intro acc h
      simp only [List.foldl_cons]
      apply ih
      split
      · exact h
      · split
        · exact h
        · split <;> (try split) <;> first | exact h | exact msub_or_of _ _ _ h (msub_and_right _ _)
  exact msub_trans'' (key _ (0, none) (msub_zero _)) (msub_mdiff _ _)

/-- `expand zone ts = (nodes, ty)`: the new nodes have only types of `ty`, and `ty ⊆ ts` -/
theorem expand_types (s : St) (hu : NodesUniq s) (zone : Mask) (ts : Nat) :
    msub (s.zoneType (s.expand zone ts).1) (s.expand zone ts).2 = true ∧ msub (s.expand zone ts).2 ts = true := by
  unfold St.expand
  apply foldl_inv (fun (acc : Mask × Nat) => msub (s.zoneType acc.1) acc.2 = true ∧ msub acc.2 ts = true)
  · intro acc t h
    split
    · rename_i ht
      simp only []
      split
      · refine ⟨?_, ?_⟩
        · rw [zoneType_or]
          apply msub_or_or h.1
          have h1 := zoneType_sub_of_byTypes s hu _ _ (newClose_sub s zone t)
          exact h1
        · exact msub_or_of _ _ _ h.2 (msub_bit t ts ht)
      · exact h
    · exact h
  · refine ⟨?_, msub_zero _⟩
    have : s.zoneType 0 = 0 := by
      apply Nat.eq_of_testBit_eq
      intro k
      apply Bool.eq_iff_iff.2
      rw [zoneType_testBit]
      simp
    rw [this]; exact msub_zero _

/-- the types of an expanded zone -/
theorem expand_zoneType (s : St) (hu : NodesUniq s) (zone : Mask) (ts : Nat) :
    msub (s.zoneType (zone ||| (s.expand zone ts).1)) (s.zoneType zone ||| (s.expand zone ts).2) = true := by
  rw [zoneType_or]
  exact msub_or_or (msub_refl _) (expand_types s hu zone ts).1

theorem zoneType_nodes (s s' : St) (h : s'.nodes = s.nodes) (z : Mask) : s'.zoneType z = s.zoneType z := by
  unfold St.zoneType; rw [h]

theorem expand_nodes (s s' : St) (h : s'.nodes = s.nodes) (z : Mask) (ts : Nat) : s'.expand z ts = s.expand z ts := by
  unfold St.expand St.newCloseNodesOfType St.byTypes St.all St.node?
  rw [h]

/-! ### the invariant and its preservation by overcommit resolution -/

/-- every strict request sits on nodes of its requested types only -/
def StrictInv (s : St) : Prop := ∀ q ∈ s.reqs, q.strict = true → msub (s.zoneType q.zone) q.types = true

def SU (s : St) : Prop := NodesUniq s ∧ StrictInv s

theorem nodesUniq_of_nodes (s s' : St) (h : s'.nodes = s.nodes) (hu : NodesUniq s) : NodesUniq s' := by
  unfold NodesUniq at *; rw [h]; exact hu

theorem su_move (nodes0 : Mask) (s : St) (r : Req) (nodes : Mask) (h : SU s) (hm : MoveOK s nodes0 r nodes) :
    SU (s.zoneMove (r.zone ||| nodes) r.id) := by
  have hn : (s.zoneMove (r.zone ||| nodes) r.id).nodes = s.nodes := zoneMove_nodes _ _ _
  refine ⟨nodesUniq_of_nodes s _ hn h.1, ?_⟩
  intro q' hq' hs
  rw [zoneType_nodes s _ hn]
  rcases zoneMove_reqs_mem s hm.ids r hm.mem _ q' hq' with ⟨hq, _⟩ | e
  · exact h.2 q' hq hs
  · subst e
    obtain ⟨s0, extra, ty, hn0, hexp, hst⟩ := hm.strictOk
    have hty := hst hs
    have hu0 : NodesUniq s0 := nodesUniq_of_nodes s s0 hn0 h.1
    have := expand_zoneType s0 hu0 r.zone (s0.zoneType r.zone ||| extra)
    rw [hexp] at this
    show msub (s.zoneType (r.zone ||| nodes)) r.types = true
    rw [hty, ← zoneType_nodes s s0 hn0]
    exact this

theorem handleOvercommit_su (s : St) (nodes0 : Mask) (hnd : IdsNodup s) (h : SU s) : SU (s.handleOvercommit nodes0).1 :=
  (handleOvercommit_pres nodes0 SU (fun _ _ h => ⟨h.1, h.2⟩) (fun s r nodes h hm => su_move nodes0 s r nodes h hm) s hnd h).2

/-! ### the initial zone of a strict request -/

theorem findInitialZone_strict (s : St) (hu : NodesUniq s) (r : Req) (hs : r.strict = true) (z : Mask)
    (h : s.findInitialZone r = .ok z) : msub (s.zoneType z) r.types = true := by
  unfold St.findInitialZone at h
  simp only [hs, if_true] at h
  by_cases hmiss : mdiff r.types (s.zoneType (r.aff &&& s.all)) ≠ 0
  · rw [if_pos hmiss] at h
    split at h
    · cases h
    · simp only [Except.ok.injEq] at h
      rw [← h]
      exact zoneType_sub_of_byTypes s hu _ _ (msub_and_right _ _)
  · rw [if_neg hmiss] at h
    split at h
    · cases h
    · simp only [Except.ok.injEq] at h
      rw [← h]
      exact zoneType_sub_of_byTypes s hu _ _ (msub_and_right _ _)

theorem ensureNormalLoop_types (s : St) (hu : NodesUniq s) (types T : Nat) (hT : msub types T = true) :
    ∀ (fuel : Nat) (zone z' : Mask), msub (s.zoneType zone) T = true →
      s.ensureNormalLoop types fuel zone = some z' → msub (s.zoneType z') T = true := by
  intro fuel
  induction fuel with
  | zero => intro zone z' _ h; simp [St.ensureNormalLoop] at h
  | succ n ih =>
    intro zone z' hz h
    unfold St.ensureNormalLoop at h
    simp only [] at h
    have hgrow : msub (s.zoneType (zone ||| (s.expand zone types).1)) T = true := by
      rw [zoneType_or]
      exact msub_or_of _ _ _ hz (msub_trans'' (expand_types s hu zone types).1 (msub_trans'' (expand_types s hu zone types).2 hT))
    split at h
    · cases h
    · split at h
      · simp only [Option.some.injEq] at h
        rw [← h]; exact hgrow
      · exact ih _ _ hgrow h

theorem ensureNormalMemory_strict (s : St) (hu : NodesUniq s) (r : Req) (hs : r.strict = true)
    (hz : msub (s.zoneType r.zone) r.types = true) (z : Mask) (t : Nat)
    (h : s.ensureNormalMemory r = .ok (z, t)) : msub (s.zoneType z) t = true := by
  unfold St.ensureNormalMemory at h
  split at h
  · simp only [Except.ok.injEq, Prod.mk.injEq] at h
    rw [← h.1, ← h.2]; exact hz
  · simp only [] at h
    split at h
    · cases h
    · rename_i types ht
      split at h
      · rename_i zone hloop
        simp only [Except.ok.injEq, Prod.mk.injEq] at h
        rw [← h.1, ← h.2]
        refine ensureNormalLoop_types s hu types (r.types ||| types) ?_ 65 r.zone zone (msub_or_right types hz) hloop
        rw [Nat.or_comm]; exact msub_or_self types r.types
      · cases h

/-! ### `Allocate`, `Realloc` -/

theorem allocate_ok_strict (s : St) (hu : NodesUniq s) (r r' : Req) (h : (s.allocate r).2 = .ok r') :
    r'.strict = r.strict ∧ (r'.strict = true → msub (s.zoneType r'.zone) r'.types = true) := by
  unfold St.allocate at h
  cases hv : s.validateRequest r with
  | error e => simp [hv] at h
  | ok t1 =>
    simp only [hv] at h
    cases hf : s.findInitialZone { r with types := t1 } with
    | error e => simp [hf] at h
    | ok z1 =>
      simp only [hf] at h
      cases hn : s.ensureNormalMemory { r with types := t1, zone := z1 } with
      | error e => simp [hn] at h
      | ok zt =>
        obtain ⟨z2, t2⟩ := zt
        simp only [hn] at h
        cases hh : (({ s.startJournal with reqs := s.startJournal.reqs ++ [{ ({ r with types := t2, zone := z2 } : Req) with zone := 0 }] } : St).zoneAssign z2 r.id).handleOvercommit z2 with
        | mk s2 oe =>
          simp only [hh] at h
          cases oe with
          | some e => simp only [] at h; cases h
          | none =>
            simp only [Except.ok.injEq] at h
            subst h
            refine ⟨rfl, ?_⟩
            intro hs
            have hs' : r.strict = true := hs
            have h1 := findInitialZone_strict s hu { r with types := t1 } hs' z1 hf
            exact ensureNormalMemory_strict s hu { r with types := t1, zone := z1 } hs' h1 z2 t2 hn

theorem allocate_su (s : St) (hw : WF s) (h : SU s) (r r' : Req) (ha : (s.allocate r).2 = .ok r') :
    SU (s.allocate r).1 := by
  obtain ⟨hnone, _, _, _, _, heq⟩ := allocate_ok_eq s r r' ha
  obtain ⟨_, hst⟩ := allocate_ok_strict s h.1 r r' ha
  rw [heq]
  have hbnd : IdsNodup (withNew s r') := withNew_ids_nodup s hw r' hnone
  have hb0 : IdsNodup (withNew s r').startJournal := hbnd
  have hmem0 : ({ r' with zone := 0 } : Req) ∈ (withNew s r').startJournal.reqs := by
    simp [withNew, St.startJournal]
  have hback : ({ ({ r' with zone := 0 } : Req) with zone := r'.zone } : Req) = r' := by cases r'; rfl
  have hn : ((withNew s r').startJournal.zoneMove r'.zone r'.id).nodes = s.nodes := by rw [zoneMove_nodes]; rfl
  have hnd1 : IdsNodup ((withNew s r').startJournal.zoneMove r'.zone r'.id) := by
    unfold IdsNodup; rw [zoneMove_ids]; exact hbnd
  apply handleOvercommit_su _ _ hnd1
  refine ⟨nodesUniq_of_nodes s _ hn h.1, ?_⟩
  intro q' hq' hs
  rw [zoneType_nodes s _ hn]
  have := zoneMove_reqs_mem (withNew s r').startJournal hb0 { r' with zone := 0 } hmem0 r'.zone q' hq'
  rw [hback] at this
  rcases this with ⟨hq, hid⟩ | e
  · simp only [St.startJournal, withNew, List.mem_append, List.mem_singleton] at hq
    rcases hq with hq | hq
    · exact h.2 q' hq hs
    · subst hq; exact absurd rfl hid
  · subst e; exact hst hs

theorem su_of_reqs_eq (s s' : St) (h : SU s) (hr : s'.reqs = s.reqs) (hn : s'.nodes = s.nodes) : SU s' := by
  refine ⟨nodesUniq_of_nodes s s' hn h.1, ?_⟩
  intro q hq hs
  rw [hr] at hq
  rw [zoneType_nodes s s' hn]
  exact h.2 q hq hs

theorem Allocate_su (s : St) (hw : WF s) (h : SU s) (r : Req) (res : Result) (hok : (s.Allocate r).2 = .ok res) :
    SU (s.Allocate r).1 := by
  obtain ⟨r', ha, hreqs, hnodes⟩ := Allocate_ok_shape s r res hok
  exact su_of_reqs_eq (s.allocate r).1 _ (allocate_su s hw h r r' ha) hreqs hnodes

/-- re-allocating a NON-strict request keeps the strict-type invariant of everybody else -/
theorem Realloc_su (s : St) (hw : WF s) (h : SU s) (id : String) (nodes : Mask) (types : Nat) (res : Result)
    (hok : (s.Realloc id nodes types).2 = .ok res) (hns : ∀ q, s.req? id = some q → q.strict = false) :
    SU (s.Realloc id nodes types).1 := by
  have hnd : IdsNodup s := hw.ids
  rcases Realloc_ok_shape2 s id nodes types res hok with e | ⟨r, target, t, S4, hr, _, hne, _, hfin, hreqs, _, hnodes⟩
  · rw [e]; exact h
  · have hrm : r ∈ s.reqs := List.mem_of_find?_eq_some hr
    have hrid : r.id = id := by have := List.find?_some hr; simpa using this
    have hrs : r.strict = false := hns r hr
    subst hrid
    have hb0 : IdsNodup s.startJournal := hnd
    have hn : (s.startJournal.zoneMove target r.id).nodes = s.nodes := by rw [zoneMove_nodes]; rfl
    have hnd1 : IdsNodup (s.startJournal.zoneMove target r.id) := by
      unfold IdsNodup; rw [zoneMove_ids]; exact hnd
    have h0 : SU (s.startJournal.zoneMove target r.id) := by
      refine ⟨nodesUniq_of_nodes s _ hn h.1, ?_⟩
      intro q' hq' hs
      rw [zoneType_nodes s _ hn]
      rcases zoneMove_reqs_mem s.startJournal hb0 r hrm target q' hq' with ⟨hq, _⟩ | e
      · exact h.2 q' hq hs
      · subst e; rw [hrs] at hs; cases hs
    have h1 := handleOvercommit_su _ target hnd1 h0
    -- every request of the final internal state is a request of `s` with another zone
    have hg0 : Good s s.startJournal := good_start s hw.journal hw.ids
    obtain ⟨⟨Z, j, hreqsG, _⟩, _, _⟩ := handleOvercommit_good s _ (zoneMove_good s _ hg0 target hne r.id) target
    rw [hfin]
    refine ⟨nodesUniq_of_nodes _ _ (by show S4.nodes = _; exact hnodes) h1.1, ?_⟩
    intro q hq hs
    have hq' : q ∈ S4.reqs := hq
    rw [hreqs] at hq'
    obtain ⟨q0, hq0, e⟩ := List.mem_map.1 hq'
    have hzt : (S4.cleanupUnusedZones).zoneType q.zone = (((s.startJournal.zoneMove target r.id).handleOvercommit target).1).zoneType q.zone :=
      zoneType_nodes _ _ (by show S4.nodes = _; exact hnodes) _
    rw [hzt]
    by_cases hid : (q0.id == r.id) = true
    · -- the re-allocated request itself: not strict
      exfalso
      have hq0r : q0.id = r.id := by simpa using hid
      have hq0' := hq0
      rw [hreqsG] at hq0'
      obtain ⟨qb, hqb, eb⟩ := List.mem_map.1 hq0'
      have hqbid : qb.id = r.id := by rw [← hq0r, ← eb]; rfl
      have hqbr := req?_of_mem_nodup s hnd qb hqb
      rw [hqbid, hr] at hqbr
      have hqbe : qb = r := (Option.some.inj hqbr).symm
      have hstr : q0.strict = r.strict := by rw [← eb, hqbe]; rfl
      rw [← e] at hs
      unfold addTypes at hs
      simp only [hid, if_true] at hs
      rw [hstr, hrs] at hs; cases hs
    · have hqq : q = q0 := by rw [← e]; unfold addTypes; simp [hid]
      rw [hqq] at hs ⊢
      exact h1.2 q0 hq0 hs

end Nri.LibMem
