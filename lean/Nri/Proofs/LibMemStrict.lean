import Nri.Model.LibMem
import Nri.Proofs.LibMem
import Nri.Proofs.LibMemInv
import Nri.Proofs.LibMemTrack
/-!
C07 "a request with strict type preference is assigned only nodes of the requested types":
bit-level facts about `zoneType`, `byTypes`, `newCloseNodesOfType` and `expand`.  Core Lean only.
-/
namespace Nri.LibMem

theorem bit_testBit (i k : Nat) : (bit i).testBit k = decide (i = k) := by
  unfold bit
  rw [Nat.one_shiftLeft, Nat.testBit_two_pow]

theorem foldl_or_testBit (l : List Node) (P : Node → Prop) [DecidablePred P] (f : Node → Nat) (init k : Nat) :
    (l.foldl (fun m n => if P n then m ||| bit (f n) else m) init).testBit k =
      (init.testBit k || l.any (fun n => decide (P n) && decide (f n = k))) := by
  induction l generalizing init with
  | nil => simp
  | cons n l ih =>
    simp only [List.foldl_cons, List.any_cons]
    rw [ih]
    by_cases hp : P n
    · simp only [hp, if_true, Nat.testBit_or, bit_testBit, decide_true, Bool.true_and, Bool.or_assoc]
    · simp only [hp, if_false, decide_false, Bool.false_and, Bool.false_or]

/-- `k` is a type of the zone iff some node of the zone has type `k` -/
theorem zoneType_testBit (s : St) (z : Mask) (k : Nat) :
    (s.zoneType z).testBit k = true ↔ ∃ n ∈ s.nodes, z.testBit n.id = true ∧ n.typ = k := by
  unfold St.zoneType
  rw [foldl_or_testBit s.nodes (fun n => z.testBit n.id = true) (fun n => n.typ) 0 k]
  simp only [Nat.zero_testBit, Bool.false_or, List.any_eq_true, Bool.and_eq_true, decide_eq_true_eq]

/-- node `i` is in `byTypes t` iff some node with memory, id `i` and a type in `t` exists -/
theorem byTypes_testBit (s : St) (t : Nat) (i : Nat) :
    (s.byTypes t).testBit i = true ↔ ∃ n ∈ s.nodes, (n.cap > 0 ∧ t.testBit n.typ = true) ∧ n.id = i := by
  unfold St.byTypes
  rw [foldl_or_testBit s.nodes (fun n => n.cap > 0 ∧ t.testBit n.typ = true) (fun n => n.id) 0 i]
  simp only [Nat.zero_testBit, Bool.false_or, List.any_eq_true, Bool.and_eq_true, decide_eq_true_eq]

theorem zoneType_or (s : St) (a b : Mask) : s.zoneType (a ||| b) = s.zoneType a ||| s.zoneType b := by
  apply Nat.eq_of_testBit_eq
  intro k
  rw [Nat.testBit_or]
  apply Bool.eq_iff_iff.2
  rw [Bool.or_eq_true, zoneType_testBit, zoneType_testBit, zoneType_testBit]
  constructor
  · intro ⟨n, hn, hz, ht⟩
    rw [Nat.testBit_or, Bool.or_eq_true] at hz
    rcases hz with h | h
    · exact Or.inl ⟨n, hn, h, ht⟩
    · exact Or.inr ⟨n, hn, h, ht⟩
  · intro h
    rcases h with ⟨n, hn, hz, ht⟩ | ⟨n, hn, hz, ht⟩
    · exact ⟨n, hn, by rw [Nat.testBit_or, hz]; rfl, ht⟩
    · exact ⟨n, hn, by rw [Nat.testBit_or, hz]; simp, ht⟩

theorem zoneType_mono (s : St) {a b : Mask} (h : msub a b = true) : msub (s.zoneType a) (s.zoneType b) = true := by
  rw [msub_iff] at h ⊢
  intro k hk
  rw [zoneType_testBit] at hk ⊢
  obtain ⟨n, hn, hz, ht⟩ := hk
  exact ⟨n, hn, h _ hz, ht⟩

/-- node ids are unique (`newAllocator` refuses duplicate ids) -/
def NodesUniq (s : St) : Prop := ∀ n ∈ s.nodes, ∀ n' ∈ s.nodes, n.id = n'.id → n = n'

/-- a zone inside `byTypes t` has only types of `t` -/
theorem zoneType_sub_of_byTypes (s : St) (hu : NodesUniq s) (z : Mask) (t : Nat) (h : msub z (s.byTypes t) = true) :
    msub (s.zoneType z) t = true := by
  rw [msub_iff] at h ⊢
  intro k hk
  rw [zoneType_testBit] at hk
  obtain ⟨n, hn, hz, ht⟩ := hk
  have := h _ hz
  rw [byTypes_testBit] at this
  obtain ⟨n', hn', ⟨_, htt⟩, hid⟩ := this
  have : n' = n := hu n' hn' n hn hid
  subst this
  rw [← ht]; exact htt

theorem msub_and_left (a b : Mask) : msub (a &&& b) a = true := by
  rw [msub_iff]; intro i h; rw [Nat.testBit_and, Bool.and_eq_true] at h; exact h.1

theorem msub_and_right (a b : Mask) : msub (a &&& b) b = true := by
  rw [msub_iff]; intro i h; rw [Nat.testBit_and, Bool.and_eq_true] at h; exact h.2

theorem msub_or_of (a b c : Mask) (h1 : msub a c = true) (h2 : msub b c = true) : msub (a ||| b) c = true := by
  rw [msub_iff] at *
  intro i h
  rw [Nat.testBit_or, Bool.or_eq_true] at h
  rcases h with h | h
  · exact h1 i h
  · exact h2 i h

theorem msub_mdiff (a b : Mask) : msub (mdiff a b) a = true := by
  rw [msub_iff]
  intro i h
  unfold mdiff at h
  rw [Nat.testBit_xor, Nat.testBit_and] at h
  cases ha : a.testBit i with
  | true => rfl
  | false => simp [ha] at h

theorem msub_trans'' {a b c : Mask} (h1 : msub a b = true) (h2 : msub b c = true) : msub a c = true := by
  rw [msub_iff] at *
  intro i h; exact h2 i (h1 i h)

theorem msub_or_or {a b c d : Mask} (h1 : msub a c = true) (h2 : msub b d = true) : msub (a ||| b) (c ||| d) = true :=
  msub_or_of a b (c ||| d) (msub_or_right d h1) (by rw [Nat.or_comm c d]; exact msub_or_right c h2)

theorem msub_bit (t types : Nat) (h : types.testBit t = true) : msub (bit t) types = true := by
  rw [msub_iff]
  intro i hi
  rw [bit_testBit] at hi
  have : t = i := by simpa using hi
  rw [← this]; exact h

/-- `newCloseNodesOfType zone t` returns nodes of `byTypes (bit t)` only -/
theorem newClose_sub (s : St) (zone : Mask) (t : Nat) :
    msub (s.newCloseNodesOfType zone t) (s.byTypes (bit t)) = true := by
  unfold St.newCloseNodesOfType
  simp only []
  have key : ∀ (l : List Nat) (acc : Mask × Option Nat), msub acc.1 (mdiff (s.byTypes (bit t)) zone) = true →
      msub (l.foldl (fun (acc : Mask × Option Nat) (id : Nat) =>
        match s.node? id with
        | none => acc
        | some node =>
          match (node.classes.drop 1).find? (fun c => c.2 &&& mdiff (s.byTypes (bit t)) zone ≠ 0) with
          | none => acc
          | some (d, nodes) =>
            let le := match acc.2 with | none => true | some mx => d ≤ mx
            if le then (acc.1 ||| (nodes &&& mdiff (s.byTypes (bit t)) zone), some d) else acc) acc).1
        (mdiff (s.byTypes (bit t)) zone) = true := by
    intro l
    induction l with
    | nil => intro acc h; exact h
    | cons id l ih =>
      intro acc h
      simp only [List.foldl_cons]
      apply ih
      split
      · exact h
      · split
        · exact h
        · split <;> (try split) <;> first | exact h | exact msub_or_of _ _ _ h (msub_and_right _ _)
  exact msub_trans'' (key _ (0, none) (msub_zero _)) (msub_mdiff _ _)

/-- `expand zone ts = (nodes, ty)`: the new nodes have only types of `ty`, and `ty ⊆ ts` -/
theorem expand_types (s : St) (hu : NodesUniq s) (zone : Mask) (ts : Nat) :
    msub (s.zoneType (s.expand zone ts).1) (s.expand zone ts).2 = true ∧ msub (s.expand zone ts).2 ts = true := by
  unfold St.expand
  apply foldl_inv (fun (acc : Mask × Nat) => msub (s.zoneType acc.1) acc.2 = true ∧ msub acc.2 ts = true)
  · intro acc t h
    split
    · rename_i ht
      simp only []
      split
      · refine ⟨?_, ?_⟩
        · rw [zoneType_or]
          apply msub_or_or h.1
          have h1 := zoneType_sub_of_byTypes s hu _ _ (newClose_sub s zone t)
          exact h1
        · exact msub_or_of _ _ _ h.2 (msub_bit t ts ht)
      · exact h
    · exact h
  · refine ⟨?_, msub_zero _⟩
    have : s.zoneType 0 = 0 := by
      apply Nat.eq_of_testBit_eq
      intro k
      apply Bool.eq_iff_iff.2
      rw [zoneType_testBit]
      simp
    rw [this]; exact msub_zero _

/-- the types of an expanded zone -/
theorem expand_zoneType (s : St) (hu : NodesUniq s) (zone : Mask) (ts : Nat) :
    msub (s.zoneType (zone ||| (s.expand zone ts).1)) (s.zoneType zone ||| (s.expand zone ts).2) = true := by
  rw [zoneType_or]
  exact msub_or_or (msub_refl _) (expand_types s hu zone ts).1

theorem zoneType_nodes (s s' : St) (h : s'.nodes = s.nodes) (z : Mask) : s'.zoneType z = s.zoneType z := by
  unfold St.zoneType; rw [h]

theorem expand_nodes (s s' : St) (h : s'.nodes = s.nodes) (z : Mask) (ts : Nat) : s'.expand z ts = s.expand z ts := by
  unfold St.expand St.newCloseNodesOfType St.byTypes St.all St.node?
  rw [h]

end Nri.LibMem
