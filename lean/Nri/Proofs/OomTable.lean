import Nri.Model.K8sRes
/-! Helper lemmas for the OOM-adjustment table (C20). Core Lean only. -/
namespace Nri.K8s

/-- bucket characterisation of the adjustment: `adj r = 1000 - k` iff `k*cap ≤ 1000 r < (k+1)*cap`. -/
theorem adj_eq_of_bucket {cap r k : Nat} (hc : 0 < cap) (h1 : k * cap ≤ 1000 * r)
    (h2 : 1000 * r < k * cap + cap) : memReqToOomAdj cap r = 1000 - (k : Int) := by
  unfold memReqToOomAdj
  have : 1000 * r / cap = k := by
    rw [Nat.div_eq_iff hc]; omega
  rw [this]

theorem adj_le_of_ge {cap r k : Nat} (hc : 0 < cap) (h1 : k * cap ≤ 1000 * r) :
    memReqToOomAdj cap r ≤ 1000 - (k : Int) := by
  unfold memReqToOomAdj
  have : k ≤ 1000 * r / cap := (Nat.le_div_iff_mul_le hc).2 h1
  omega

theorem adj_gt_of_lt {cap r k : Nat} (hc : 0 < cap) (h2 : 1000 * r < k * cap) :
    1000 - (k : Int) < memReqToOomAdj cap r := by
  unfold memReqToOomAdj
  have : 1000 * r / cap < k := (Nat.div_lt_iff_lt_mul hc).2 h2
  omega

/-- Descending from `cur` through a run `[lo, cur]` of requests that all have adjustment
`prevAdj - 1`, with `lo - 1` no longer below `prevAdj`, records exactly `lo`. -/
theorem descend_spec (cap : Nat) (prevAdj : Int) (lo : Nat) (hlo : 1 ≤ lo)
    (hstop : ¬ memReqToOomAdj cap (lo - 1) < prevAdj) :
    ∀ (n cur fuel : Nat) (rec : Option Nat), cur = lo + n → n + 2 ≤ fuel →
      (∀ r, lo ≤ r → r ≤ cur → memReqToOomAdj cap r = prevAdj - 1) →
      descend cap prevAdj fuel cur rec = some lo := by
  intro n
  induction n with
  | zero =>
    intro cur fuel rec hcur hfuel hrun
    have hcur' : cur = lo := by omega
    subst hcur'
    match fuel, hfuel with
    | f+2, _ =>
      have ha := hrun cur (Nat.le_refl _) (Nat.le_refl _)
      obtain ⟨c, rfl⟩ : ∃ c, cur = c + 1 := ⟨cur - 1, by omega⟩
      simp only [descend, ha]
      have : prevAdj - 1 < prevAdj := by omega
      simp only [this, if_true]
      simp only [Nat.add_sub_cancel] at hstop
      simp [hstop]
  | succ n ih =>
    intro cur fuel rec hcur hfuel hrun
    match fuel, hfuel with
    | f+1, hf =>
      have ha := hrun cur (by omega) (Nat.le_refl _)
      obtain ⟨c, rfl⟩ : ∃ c, cur = c + 1 := ⟨cur - 1, by omega⟩
      simp only [descend, ha]
      have : prevAdj - 1 < prevAdj := by omega
      simp only [this, if_true]
      exact ih c f _ (by omega) (by omega) (fun r h1 h2 => hrun r h1 (by omega))

/-- Ascending from `cur` through a run `[cur, hi)` of requests with adjustment `prevAdj`
stops exactly at `hi` when `hi` has a different adjustment. -/
theorem ascend_spec (cap : Nat) (prevAdj : Int) (hi : Nat)
    (hstop : memReqToOomAdj cap hi ≠ prevAdj) :
    ∀ (n cur fuel : Nat), hi = cur + n → n ≤ fuel →
      (∀ r, cur ≤ r → r < hi → memReqToOomAdj cap r = prevAdj) →
      ascend cap prevAdj fuel cur = hi := by
  intro n
  induction n with
  | zero =>
    intro cur fuel hcur _ _
    have : cur = hi := by omega
    subst this
    cases fuel with
    | zero => simp [ascend]
    | succ f => simp [ascend, hstop]
  | succ n ih =>
    intro cur fuel hcur hfuel hrun
    match fuel, hfuel with
    | f+1, hf =>
      have ha := hrun cur (Nat.le_refl _) (by omega)
      simp only [ascend, ha, if_true]
      exact ih (cur+1) f (by omega) (by omega) (fun r h1 h2 => hrun r (by omega) h2)

end Nri.K8s

namespace Nri.K8s

theorem adj_smallestReq (cap i : Nat) (hc : 1000 ≤ cap) :
    memReqToOomAdj cap (smallestReq cap i) = 1000 - (i : Int) := by
  apply adj_eq_of_bucket (by omega)
  all_goals (unfold smallestReq; omega)

/-- One iteration of the table construction, started from the correct previous entry and
any estimate `est` inside the two adjacent buckets, with enough fuel to walk to the bucket
boundary, finds exactly the closed-form entry and does not panic. -/
theorem oomStep_found (cap j est fuel : Nat) (hc : 1000 ≤ cap)
    (hlo : smallestReq cap j ≤ est) (hhi : est < smallestReq cap (j + 2))
    (hf1 : est + 2 ≤ smallestReq cap (j + 1) + fuel) (hf2 : smallestReq cap (j + 1) ≤ est + fuel) :
    oomStep cap fuel (smallestReq cap j) est = .found (smallestReq cap (j + 1)) := by
  have hcpos : 0 < cap := by omega
  have e1 : (j + 1) * cap = j * cap + cap := Nat.succ_mul j cap
  have e2 : (j + 2) * cap = j * cap + cap + cap := by
    rw [show j + 2 = (j + 1) + 1 from rfl, Nat.succ_mul, e1]
  have hprev := adj_smallestReq cap j hc
  have hL1 := adj_smallestReq cap (j + 1) hc
  -- every request in [L(j), L(j+1)) has adjustment 1000 - j; in [L(j+1), L(j+2)) 1000-(j+1)
  have bucket0 : ∀ r, smallestReq cap j ≤ r → r < smallestReq cap (j + 1) →
      memReqToOomAdj cap r = 1000 - (j : Int) := by
    intro r h1 h2
    apply adj_eq_of_bucket hcpos
    · unfold smallestReq at h1; omega
    · unfold smallestReq at h2; rw [e1] at h2; omega
  have bucket1 : ∀ r, smallestReq cap (j + 1) ≤ r → r < smallestReq cap (j + 2) →
      memReqToOomAdj cap r = 1000 - ((j + 1 : Nat) : Int) := by
    intro r h1 h2
    apply adj_eq_of_bucket hcpos
    · unfold smallestReq at h1; rw [e1] at h1 ⊢; omega
    · unfold smallestReq at h2; rw [e2] at h2; rw [e1]; omega
  have hL1pos : 1 ≤ smallestReq cap (j + 1) := by
    unfold smallestReq; rw [e1]; omega
  have hLlt : smallestReq cap j < smallestReq cap (j + 1) := by
    unfold smallestReq; rw [e1]; omega
  unfold oomStep
  simp only [hprev]
  by_cases hge : smallestReq cap (j + 1) ≤ est
  · -- overshoot or exact: descend
    have ha := bucket1 est hge hhi
    have hlt : memReqToOomAdj cap est < 1000 - (j : Int) := by rw [ha]; omega
    simp only [hlt, if_true]
    have hstop : ¬ memReqToOomAdj cap (smallestReq cap (j + 1) - 1) < 1000 - (j : Int) := by
      rw [bucket0 _ (by omega) (by omega)]; omega
    have := descend_spec cap (1000 - (j : Int)) (smallestReq cap (j + 1)) hL1pos hstop
      (est - smallestReq cap (j + 1)) est fuel none (by omega) (by omega)
      (fun r h1 h2 => by rw [bucket1 r h1 (by omega)]; omega)
    rw [this]
  · -- undershoot: ascend
    have hlt' : est < smallestReq cap (j + 1) := by omega
    have ha := bucket0 est hlo hlt'
    have hnlt : ¬ memReqToOomAdj cap est < 1000 - (j : Int) := by rw [ha]; omega
    simp only [ha]
    simp only [show ¬ ((1000:Int) - (j:Int) < 1000 - (j:Int)) by omega, if_false, if_true]
    have hstop : memReqToOomAdj cap (smallestReq cap (j + 1)) ≠ 1000 - (j : Int) := by
      rw [hL1]; omega
    have := ascend_spec cap (1000 - (j : Int)) (smallestReq cap (j + 1)) hstop
      (smallestReq cap (j + 1) - est) est fuel (by omega) (by omega)
      (fun r h1 h2 => bucket0 r (by omega) h2)
    rw [this, hL1]
    have : (1000 : Int) - ((j + 1 : Nat) : Int) = 1000 - (j : Int) - 1 := by omega
    rw [this]; simp

end Nri.K8s
