import Nri.Model.TopoAware
/-! Invariant proofs for the topology-aware accounting model. Core Lean only. -/
namespace Nri.TA

theorem mem_rm (a b : List Nat) (x : Nat) : x ∈ rm a b ↔ x ∈ a ∧ x ∉ b := by
  simp [rm, List.mem_filter]

theorem mem_inter (a b : List Nat) (x : Nat) : x ∈ inter a b ↔ x ∈ a ∧ x ∈ b := by
  simp [inter, List.mem_filter]

theorem mem_uni (a b : List Nat) (x : Nat) : x ∈ uni a b ↔ x ∈ a ∨ x ∈ b := by
  simp only [uni, List.mem_append, List.mem_filter]
  constructor
  · intro h; rcases h with h | h
    · exact Or.inl h
    · exact Or.inr h.1
  · intro h; rcases h with h | h
    · exact Or.inl h
    · by_cases hx : x ∈ a
      · exact Or.inl hx
      · exact Or.inr ⟨h, by simpa using hx⟩

/-- static well-formedness of the pool tree (what C16's pool construction provides): within a
pool isolated and sharable CPUs are disjoint; pools that are neither ancestor nor descendant
of each other have disjoint CPUs. -/
structure TreeWF (tree : List PoolT) : Prop where
  kinds : ∀ (j : Nat) (pt : PoolT), tree[j]? = some pt → ∀ x, x ∈ pt.totIsolated → x ∉ pt.totSharable
  unrelated : ∀ (i j : Nat) (pi pj : PoolT), tree[i]? = some pi → tree[j]? = some pj → i ≠ j → related tree i j = false →
    ∀ x, (x ∈ pi.totIsolated ∨ x ∈ pi.totSharable) → ¬ (x ∈ pj.totIsolated ∨ x ∈ pj.totSharable)

/-- free CPUs of a pool are among its own CPUs -/
def FreeWithinTot (t : TA) : Prop :=
  ∀ (j : Nat) (pt : PoolT), t.tree[j]? = some pt →
    (∀ x, x ∈ (t.pools j).isolated → x ∈ pt.totIsolated) ∧ (∀ x, x ∈ (t.pools j).sharable → x ∈ pt.totSharable)

/-- C01 (a),(c): exclusively granted CPUs are pairwise disjoint between grants and occur in no
pool's free isolated or free sharable set. -/
structure ExclInv (t : TA) : Prop where
  notFree : ∀ g ∈ t.grants, ∀ j, j < t.tree.length → ∀ x, x ∈ g.exclusive →
    x ∉ (t.pools j).isolated ∧ x ∉ (t.pools j).sharable
  disjoint : t.grants.Pairwise (fun g h => ∀ x, x ∈ g.exclusive → x ∉ h.exclusive)

/-- two states have the same free sets, pool by pool (counters may differ) -/
def SameFree (a b : TA) : Prop :=
  a.tree = b.tree ∧ ∀ j, (a.pools j).isolated = (b.pools j).isolated ∧ (a.pools j).sharable = (b.pools j).sharable

theorem setPool_counters_sameFree (t : TA) (i : Nat) (f : PoolS → PoolS)
    (hf : ∀ q, (f q).isolated = q.isolated ∧ (f q).sharable = q.sharable) : SameFree (setPool t i f) t := by
  refine ⟨rfl, ?_⟩
  intro j
  simp only [setPool]
  by_cases h : (j == i) = true
  · simp only [h, if_true]; exact hf _
  · simp only [h]; exact ⟨rfl, rfl⟩

/-- what `takeExclusive` followed by `accountAllocate` does to the free sets -/
theorem take_account_spec (t t1 : TA) (i full : Nat) (isolate : Bool) (excl : List Nat)
    (hi : i < t.tree.length) (hwf : TreeWF t.tree) (hfw : FreeWithinTot t)
    (h : takeExclusive t i full isolate excl = .ok t1) :
    let t2 := accountAllocate t1 i excl
    t2.tree = t.tree ∧ t2.grants = t.grants ∧
    -- free sets only shrink
    (∀ j x, (x ∈ (t2.pools j).isolated → x ∈ (t.pools j).isolated) ∧ (x ∈ (t2.pools j).sharable → x ∈ (t.pools j).sharable)) ∧
    -- the picked CPUs were free at pool i and are free nowhere afterwards
    (∀ x, x ∈ excl → x ∈ (t.pools i).isolated ∨ x ∈ (t.pools i).sharable) ∧
    (∀ j, j < t.tree.length → ∀ x, x ∈ excl → x ∉ (t2.pools j).isolated ∧ x ∉ (t2.pools j).sharable) := by
  intro t2
  -- the pool record of i
  obtain ⟨pi, hpi⟩ : ∃ pi, t.tree[i]? = some pi := ⟨t.tree[i], by simp [hi]⟩
  -- case analysis on takeExclusive
  unfold takeExclusive at h
  simp only [] at h
  -- a uniform description of t1: pool i lost `excl` from the set it was picked from
  have key : (t1.tree = t.tree ∧ t1.grants = t.grants) ∧
      ((∀ x, x ∈ excl → x ∈ (t.pools i).isolated) ∧
        (∀ j, (t1.pools j).isolated = (if j == i then rm (t.pools i).isolated excl else (t.pools j).isolated) ∧
              (t1.pools j).sharable = (t.pools j).sharable) ∨
       (∀ x, x ∈ excl → x ∈ (t.pools i).sharable) ∧
        (∀ j, (t1.pools j).sharable = (if j == i then rm (t.pools i).sharable excl else (t.pools j).sharable) ∧
              (t1.pools j).isolated = (t.pools j).isolated)) := by
    split at h
    · split at h
      · rename_i hc
        simp only [Bool.and_eq_true, List.all_eq_true, List.contains_iff_mem, decide_eq_true_eq] at hc
        simp only [Except.ok.injEq] at h
        subst h
        refine ⟨⟨rfl, rfl⟩, Or.inl ⟨fun x hx => hc.2 x hx, ?_⟩⟩
        intro j
        simp only [setPool]
        by_cases hj : (j == i) = true
        · have : j = i := by simpa using hj
          subst this; simp
        · simp [hj]
      · cases h
    · split at h
      · split at h
        · rename_i hc
          simp only [Bool.and_eq_true, List.all_eq_true, List.contains_iff_mem, decide_eq_true_eq] at hc
          simp only [Except.ok.injEq] at h
          subst h
          refine ⟨⟨rfl, rfl⟩, Or.inr ⟨fun x hx => hc.2 x hx, ?_⟩⟩
          intro j
          simp only [setPool]
          by_cases hj : (j == i) = true
          · have : j = i := by simpa using hj
            subst this; simp
          · simp [hj]
        · cases h
      · split at h
        · cases h
        · split at h
          · rename_i he
            simp only [Except.ok.injEq] at h
            subst h
            have hnil : excl = [] := by simpa using he
            subst hnil
            refine ⟨⟨rfl, rfl⟩, Or.inl ⟨(fun x hx => by cases hx), ?_⟩⟩
            intro j
            by_cases hj : (j == i) = true
            · have : j = i := by simpa using hj
              subst this
              simp only [beq_self_eq_true, if_true, rm]
              refine ⟨?_, trivial⟩
              exact (List.filter_eq_self.2 (fun _ _ => rfl)).symm
            · simp [hj]
          · cases h
  obtain ⟨⟨htree, hgr⟩, hcase⟩ := key
  refine ⟨by simp [t2, accountAllocate, htree], by simp [t2, accountAllocate, hgr], ?_, ?_, ?_⟩
  · -- shrink
    intro j x
    simp only [t2, accountAllocate]
    rcases hcase with ⟨_, hp⟩ | ⟨_, hp⟩
    · obtain ⟨hiso, hsh⟩ := hp j
      split
      · simp only [mem_rm, hiso, hsh]
        constructor
        · intro hx
          by_cases hj : (j == i) = true
          · have : j = i := by simpa using hj
            subst this
            simp only [hj, if_true, mem_rm] at hx; exact hx.1.1
          · simp only [hj] at hx; exact hx.1
        · intro hx; exact hx.1
      · rw [hiso, hsh]
        constructor
        · intro hx
          by_cases hj : (j == i) = true
          · have : j = i := by simpa using hj
            subst this
            simp only [hj, if_true, mem_rm] at hx; exact hx.1
          · simpa [hj] using hx
        · intro hx; exact hx
    · obtain ⟨hsh, hiso⟩ := hp j
      split
      · simp only [mem_rm, hiso, hsh]
        constructor
        · intro hx; exact hx.1
        · intro hx
          by_cases hj : (j == i) = true
          · have : j = i := by simpa using hj
            subst this
            simp only [hj, if_true, mem_rm] at hx; exact hx.1.1
          · simp only [hj] at hx; exact hx.1
      · rw [hiso, hsh]
        constructor
        · intro hx; exact hx
        · intro hx
          by_cases hj : (j == i) = true
          · have : j = i := by simpa using hj
            subst this
            simp only [hj, if_true, mem_rm] at hx; exact hx.1
          · simpa [hj] using hx
  · intro x hx
    rcases hcase with ⟨hin, _⟩ | ⟨hin, _⟩
    · exact Or.inl (hin x hx)
    · exact Or.inr (hin x hx)
  · -- free nowhere
    intro j hj x hx
    obtain ⟨pj, hpj⟩ : ∃ pj, t.tree[j]? = some pj := ⟨t.tree[j], by simp [hj]⟩
    simp only [t2, accountAllocate, htree]
    by_cases hrel : related t.tree i j = true
    · simp only [hrel, if_true, mem_rm]
      exact ⟨fun h => h.2 hx, fun h => h.2 hx⟩
    · have hrelF : related t.tree i j = false := by simpa using hrel
      simp only [hrelF, Bool.false_eq_true, if_false]
      by_cases hji : j = i
      · subst hji
        rcases hcase with ⟨hin, hp⟩ | ⟨hin, hp⟩
        · obtain ⟨hiso, hsh⟩ := hp j
          rw [hiso, hsh]
          simp only [beq_self_eq_true, if_true, mem_rm]
          refine ⟨fun h => h.2 hx, ?_⟩
          intro hxs
          have h1 := (hfw j pi hpi).1 x (hin x hx)
          have h2 := (hfw j pi hpi).2 x hxs
          exact hwf.kinds j pi hpi x h1 h2
        · obtain ⟨hsh, hiso⟩ := hp j
          rw [hiso, hsh]
          simp only [beq_self_eq_true, if_true, mem_rm]
          refine ⟨?_, fun h => h.2 hx⟩
          intro hxi
          have h1 := (hfw j pi hpi).1 x hxi
          have h2 := (hfw j pi hpi).2 x (hin x hx)
          exact hwf.kinds j pi hpi x h1 h2
      · -- unrelated pool: its CPUs are disjoint from pool i's
        have hrel' : related t.tree i j = false := by simpa using hrel
        have hxi : x ∈ pi.totIsolated ∨ x ∈ pi.totSharable := by
          rcases hcase with ⟨hin, _⟩ | ⟨hin, _⟩
          · exact Or.inl ((hfw i pi hpi).1 x (hin x hx))
          · exact Or.inr ((hfw i pi hpi).2 x (hin x hx))
        have hdis := hwf.unrelated i j pi pj hpi hpj (Ne.symm hji) hrel' x hxi
        have hj1 : (j == i) = false := by simp [hji]
        rcases hcase with ⟨_, hp⟩ | ⟨_, hp⟩
        · obtain ⟨hiso, hsh⟩ := hp j
          rw [hiso, hsh]; simp only [hj1]
          exact ⟨fun h => hdis (Or.inl ((hfw j pj hpj).1 x h)), fun h => hdis (Or.inr ((hfw j pj hpj).2 x h))⟩
        · obtain ⟨hsh, hiso⟩ := hp j
          rw [hiso, hsh]; simp only [hj1]
          exact ⟨fun h => hdis (Or.inl ((hfw j pj hpj).1 x h)), fun h => hdis (Or.inr ((hfw j pj hpj).2 x h))⟩

/-- `addPortion` only touches counters -/
theorem addPortion_sameFree (t2 t' : TA) (ctr : String) (i fraction : Nat) (ct : CpuType) (excl : List Nat) (g : Grant)
    (h : addPortion t2 ctr i fraction ct excl = .ok (t', g)) :
    SameFree t' t2 ∧ t'.grants = t2.grants ∧ g.exclusive = excl ∧ g.ctr = ctr ∧ g.pool = i := by
  unfold addPortion at h
  split at h
  · split at h
    · cases h
    · simp only [Except.ok.injEq, Prod.mk.injEq] at h
      obtain ⟨h1, h2⟩ := h
      subst h1; subst h2
      exact ⟨setPool_counters_sameFree _ _ _ (fun q => ⟨rfl, rfl⟩), rfl, rfl, rfl, rfl⟩
  · split at h
    · split at h
      · cases h
      · simp only [Except.ok.injEq, Prod.mk.injEq] at h
        obtain ⟨h1, h2⟩ := h
        subst h1; subst h2
        exact ⟨setPool_counters_sameFree _ _ _ (fun q => ⟨rfl, rfl⟩), rfl, rfl, rfl, rfl⟩
    · simp only [Except.ok.injEq, Prod.mk.injEq] at h
      obtain ⟨h1, h2⟩ := h
      subst h1; subst h2
      exact ⟨⟨rfl, fun _ => ⟨rfl, rfl⟩⟩, rfl, rfl, rfl, rfl⟩

/-- **C01 (a),(c) is preserved by every successful allocation**, whatever pool and CPUs the
heuristics pick. -/
theorem alloc_preserves_exclusive (t t' : TA) (ctr : String) (i full fraction : Nat) (isolate : Bool)
    (ct : CpuType) (excl : List Nat) (g : Grant)
    (hwf : TreeWF t.tree) (hfw : FreeWithinTot t) (hinv : ExclInv t)
    (h : alloc t ctr i full fraction isolate ct excl = .ok (t', g)) :
    ExclInv (addGrant t' g) ∧ FreeWithinTot (addGrant t' g) := by
  unfold alloc at h
  split at h
  · cases h
  · rename_i hi
    have hi' : i < t.tree.length := by omega
    simp only [] at h
    cases hte : takeExclusive t i (normReq t i full fraction ct).1 isolate excl with
    | error e => rw [hte] at h; cases h
    | ok t1 =>
      rw [hte] at h
      simp only [] at h
      obtain ⟨htree, hgr, hshrink, hwas, hnow⟩ := take_account_spec t t1 i _ isolate excl hi' hwf hfw hte
      obtain ⟨⟨hst, hsf⟩, hsg, hge, _, _⟩ := addPortion_sameFree _ t' ctr i _ _ excl g h
      have htree' : t'.tree = t.tree := by rw [hst, htree]
      have hfree : ∀ j x, (x ∈ (t'.pools j).isolated → x ∈ (t.pools j).isolated) ∧ (x ∈ (t'.pools j).sharable → x ∈ (t.pools j).sharable) := by
        intro j x
        rw [(hsf j).1, (hsf j).2]; exact hshrink j x
      constructor
      · constructor
        · intro g' hg' j hj x hx
          simp only [addGrant] at hg' hj ⊢
          rw [htree'] at hj
          rcases List.mem_append.1 hg' with hold | hnew
          · rw [hsg, hgr] at hold
            have := hinv.notFree g' hold j hj x hx
            exact ⟨fun hh => this.1 ((hfree j x).1 hh), fun hh => this.2 ((hfree j x).2 hh)⟩
          · have : g' = g := by simpa using hnew
            subst this
            rw [hge] at hx
            have := hnow j hj x hx
            rw [(hsf j).1, (hsf j).2]; exact this
        · simp only [addGrant]
          rw [hsg, hgr]
          rw [List.pairwise_append]
          refine ⟨hinv.disjoint, by simp, ?_⟩
          intro a ha b hb x hxa hxb
          have : b = g := by simpa using hb
          subst this
          rw [hge] at hxb
          -- x was free at pool i before, but a's exclusive CPUs are free nowhere
          have := hinv.notFree a ha i hi' x hxa
          rcases hwas x hxb with hh | hh
          · exact this.1 hh
          · exact this.2 hh
      · intro j pt hpt
        simp only [addGrant] at hpt ⊢
        rw [htree'] at hpt
        exact ⟨fun x hx => (hfw j pt hpt).1 x ((hfree j x).1 hx), fun x hx => (hfw j pt hpt).2 x ((hfree j x).2 hx)⟩

end Nri.TA

namespace Nri.TA

/-- every grant's exclusive CPUs are CPUs of the pool it was made at -/
def GrantWithin (t : TA) : Prop :=
  ∀ g ∈ t.grants, ∀ (pt : PoolT), t.tree[g.pool]? = some pt → ∀ x, x ∈ g.exclusive → x ∈ pt.totIsolated ∨ x ∈ pt.totSharable

theorem alloc_grant_within (t t' : TA) (ctr : String) (i full fraction : Nat) (isolate : Bool)
    (ct : CpuType) (excl : List Nat) (g : Grant)
    (hwf : TreeWF t.tree) (hfw : FreeWithinTot t) (hgw : GrantWithin t)
    (h : alloc t ctr i full fraction isolate ct excl = .ok (t', g)) :
    GrantWithin (addGrant t' g) ∧ (addGrant t' g).tree = t.tree := by
  unfold alloc at h
  split at h
  · cases h
  · rename_i hi
    have hi' : i < t.tree.length := by omega
    simp only [] at h
    cases hte : takeExclusive t i (normReq t i full fraction ct).1 isolate excl with
    | error e => rw [hte] at h; cases h
    | ok t1 =>
      rw [hte] at h
      simp only [] at h
      obtain ⟨htree, hgr, _, hwas, _⟩ := take_account_spec t t1 i _ isolate excl hi' hwf hfw hte
      obtain ⟨⟨hst, _⟩, hsg, hge, _, hgp⟩ := addPortion_sameFree _ t' ctr i _ _ excl g h
      have htree' : t'.tree = t.tree := by rw [hst, htree]
      refine ⟨?_, by simp [addGrant, htree']⟩
      intro g' hg' pt hpt x hx
      simp only [addGrant] at hg' hpt
      rw [htree'] at hpt
      rcases List.mem_append.1 hg' with hold | hnew
      · rw [hsg, hgr] at hold
        exact hgw g' hold pt hpt x hx
      · have : g' = g := by simpa using hnew
        subst this
        rw [hgp] at hpt
        rw [hge] at hx
        rcases hwas x hx with hh | hh
        · exact Or.inl ((hfw i pt hpt).1 x hh)
        · exact Or.inr ((hfw i pt hpt).2 x hh)

/-- what `release` does to the free sets: each pool's free sets gain at most CPUs of the
released grant, and only CPUs the pool owns -/
theorem release_spec (t : TA) (g : Grant) (hgw : ∀ (pt : PoolT), t.tree[g.pool]? = some pt → ∀ x, x ∈ g.exclusive → x ∈ pt.totIsolated ∨ x ∈ pt.totSharable) :
    (release t g).tree = t.tree ∧ (release t g).grants = t.grants ∧
    ∀ j (pt : PoolT), t.tree[j]? = some pt →
      (∀ x, x ∈ ((release t g).pools j).isolated → x ∈ (t.pools j).isolated ∨ (x ∈ g.exclusive ∧ x ∈ pt.totIsolated)) ∧
      (∀ x, x ∈ ((release t g).pools j).sharable → x ∈ (t.pools j).sharable ∨ (x ∈ g.exclusive ∧ x ∈ pt.totSharable)) := by
  unfold release
  cases hp : t.tree[g.pool]? with
  | none =>
    refine ⟨rfl, rfl, ?_⟩
    intro j pt _
    exact ⟨fun x hx => Or.inl hx, fun x hx => Or.inl hx⟩
  | some pg =>
    simp only []
    refine ⟨rfl, rfl, ?_⟩
    intro j pt hpt
    simp only [accountRelease, setPool, hpt]
    by_cases hj : (j == g.pool) = true
    · have hje : j = g.pool := by simpa using hj
      have hpp : pt = pg := by
        rw [hje] at hpt; rw [hpt] at hp; exact Option.some.inj hp
      subst hpp
      simp only [hj, if_true]
      split
      · -- (related to itself: cannot happen in an acyclic tree, but harmless)
        simp only [mem_uni, mem_inter, mem_rm]
        constructor
        · intro x hx
          rcases hx with (h | h) | h
          · exact Or.inl h
          · exact Or.inr h
          · exact Or.inr h
        · intro x hx
          rcases hx with (h | h) | h
          · exact Or.inl h
          · refine Or.inr ⟨h.1, ?_⟩
            rcases hgw pt (by rw [← hje]; exact hpt) x h.1 with hh | hh
            · exact absurd ⟨h.1, hh⟩ h.2
            · exact hh
          · exact Or.inr h
      · simp only [mem_uni, mem_inter, mem_rm]
        constructor
        · intro x hx
          rcases hx with h | h
          · exact Or.inl h
          · exact Or.inr h
        · intro x hx
          rcases hx with h | h
          · exact Or.inl h
          · refine Or.inr ⟨h.1, ?_⟩
            rcases hgw pt (by rw [← hje]; exact hpt) x h.1 with hh | hh
            · exact absurd ⟨h.1, hh⟩ h.2
            · exact hh
    · simp only [hj]
      split
      · simp only [mem_uni, mem_inter]
        exact ⟨fun x hx => hx, fun x hx => hx⟩
      · exact ⟨fun x hx => Or.inl hx, fun x hx => Or.inl hx⟩

theorem pairwise_members (l : List Grant)
    (hpw : l.Pairwise (fun (g h : Grant) => ∀ x, x ∈ g.exclusive → x ∉ h.exclusive)) :
    ∀ a b, a ∈ l → b ∈ l → a ≠ b → ∀ x, x ∈ a.exclusive → x ∉ b.exclusive := by
  induction l with
  | nil => intro a b ha; cases ha
  | cons c cs ih =>
    intro a b ha hb hab
    rw [List.pairwise_cons] at hpw
    rcases List.mem_cons.1 ha with ha | ha
    · rcases List.mem_cons.1 hb with hb | hb
      · exact absurd (ha.trans hb.symm) hab
      · rw [ha]; exact hpw.1 b hb
    · rcases List.mem_cons.1 hb with hb | hb
      · rw [hb]
        intro x hxa hxc
        exact hpw.1 a ha x hxc hxa
      · exact ih hpw.2 a b ha hb hab

/-- **C01 (a),(c) is preserved by releasing a grant.** -/
theorem release_preserves_exclusive (t : TA) (g : Grant) (hg : g ∈ t.grants)
    (hfw : FreeWithinTot t) (hgw : GrantWithin t) (hinv : ExclInv t) :
    ExclInv (dropGrant (release t g) g.ctr) ∧ FreeWithinTot (dropGrant (release t g) g.ctr) ∧
    GrantWithin (dropGrant (release t g) g.ctr) := by
  obtain ⟨htree, hgr, hspec⟩ := release_spec t g (hgw g hg)
  have hsub : ∀ g', g' ∈ (dropGrant (release t g) g.ctr).grants → g' ∈ t.grants ∧ g'.ctr ≠ g.ctr := by
    intro g' h
    simp only [dropGrant, List.mem_filter, hgr] at h
    exact ⟨h.1, by simpa using h.2⟩
  -- any other grant is disjoint from g
  have hdisj : ∀ g', g' ∈ t.grants → g'.ctr ≠ g.ctr → ∀ x, x ∈ g'.exclusive → x ∉ g.exclusive := by
    intro g' hg' hne
    have hne' : g' ≠ g := fun e => hne (by rw [e])
    exact pairwise_members t.grants hinv.disjoint g' g hg' hg hne'
  refine ⟨⟨?_, ?_⟩, ?_, ?_⟩
  · intro g' hg' j hj x hx
    obtain ⟨hmem, hne⟩ := hsub g' hg'
    simp only [dropGrant] at hj ⊢
    rw [htree] at hj
    obtain ⟨pt, hpt⟩ : ∃ pt, t.tree[j]? = some pt := ⟨t.tree[j], by simp [hj]⟩
    obtain ⟨h1, h2⟩ := hspec j pt hpt
    have hold := hinv.notFree g' hmem j hj x hx
    constructor
    · intro hh
      rcases h1 x hh with h | h
      · exact hold.1 h
      · exact hdisj g' hmem hne x hx h.1
    · intro hh
      rcases h2 x hh with h | h
      · exact hold.2 h
      · exact hdisj g' hmem hne x hx h.1
  · simp only [dropGrant, hgr]
    exact List.Pairwise.filter _ hinv.disjoint
  · intro j pt hpt
    simp only [dropGrant] at hpt ⊢
    rw [htree] at hpt
    obtain ⟨h1, h2⟩ := hspec j pt hpt
    constructor
    · intro x hx
      rcases h1 x hx with h | h
      · exact (hfw j pt hpt).1 x h
      · exact h.2
    · intro x hx
      rcases h2 x hx with h | h
      · exact (hfw j pt hpt).2 x h
      · exact h.2
  · intro g' hg' pt hpt x hx
    obtain ⟨hmem, _⟩ := hsub g' hg'
    simp only [dropGrant] at hpt
    rw [htree] at hpt
    exact hgw g' hmem pt hpt x hx

end Nri.TA
