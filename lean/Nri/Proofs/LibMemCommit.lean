import Nri.Model.LibMem
import Nri.Proofs.LibMem
import Nri.Proofs.LibMemInv
import Nri.Proofs.LibMemTrack
import Nri.Proofs.LibMemUpd
/-!
C06 "committing a fresh offer gives the same zone and the same updates as allocating the
request directly".  Core Lean only.
-/
namespace Nri.LibMem

/-- what a successful `GetOffer` hands out: the journal's update map of the internal
`allocate`, the validated request (unassigned) and the current version. -/
theorem getOffer_ok_shape (s : St) (hw : WF s) (r : Req) (o : Offer) (h : (s.GetOffer r).2 = .ok o) :
    ∃ r' j, (s.allocate r).2 = .ok r' ∧ (s.allocate r).1.journal = some j ∧
      o.updates = j.updates ∧ o.req = { r' with zone := 0 } ∧ o.version = s.version := by
  have hs := allocate_spec s hw r
  unfold St.GetOffer at h
  cases ha : s.allocate r with
  | mk s' res =>
    rw [ha] at hs h
    cases res with
    | error e => simp only [] at h; cases h
    | ok r' =>
      obtain ⟨hg, hnone, _⟩ := hs.2 r' rfl
      obtain ⟨⟨Z, j, _, hj, _⟩, _, hv⟩ := hg
      have hg' : Good (withNew s r') s' := (hs.2 r' rfl).1
      have hrr := revert_restores_drop (withNew s r') s' hg' (withNew_ids_nodup s hw r' hnone) r'.id
      simp only [] at h
      cases hrv : s'.revertJournal (some r'.id) with
      | mk s'' rest =>
        obtain ⟨ups, oe⟩ := rest
        rw [hrv] at h hrr
        cases oe with
        | some e => simp only [] at h; cases h
        | none =>
          simp only [Except.ok.injEq] at h
          refine ⟨r', j, rfl, hj, ?_, ?_, ?_⟩
          · rw [← h]
            have hu : ups = (match s'.journal with | some j => j.updates | none => []) := hrr.2.2.2.2.2
            have hj' : s'.journal = some j := hj
            show ups = j.updates
            rw [hu, hj']
          · rw [← h]
          · rw [← h]
            have := hrr.2.2.2.1
            simp only [] at this
            rw [this]; rfl

theorem GetOffer_version (s : St) (hw : WF s) (r : Req) : (s.GetOffer r).1.version = s.version := by
  have hs := allocate_spec s hw r
  unfold St.GetOffer
  cases ha : s.allocate r with
  | mk s' res =>
    rw [ha] at hs
    cases res with
    | error e => exact (hs.1 e rfl).2.1
    | ok r' =>
      obtain ⟨hg, hnone, _⟩ := hs.2 r' rfl
      have := revert_restores_drop (withNew s r') s' hg (withNew_ids_nodup s hw r' hnone) r'.id
      simp only []
      cases hrv : s'.revertJournal (some r'.id) with
      | mk s'' rest =>
        obtain ⟨ups, oe⟩ := rest
        rw [hrv] at this
        cases oe with
        | some e => simp only [St.cleanupUnusedZones]; exact this.2.2.2.1
        | none => simp only [St.cleanupUnusedZones]; exact this.2.2.2.1

/-- the result of a successful public `Allocate` in terms of the internal state -/
theorem Allocate_ok_result (s : St) (r r' : Req) (j : Journal) (ha : (s.allocate r).2 = .ok r')
    (hj : (s.allocate r).1.journal = some j) :
    (s.Allocate r).2 = .ok ⟨(((s.allocate r).1.req? r'.id).map (·.zone)).getD r'.zone, alErase j.updates r'.id⟩ := by
  unfold St.Allocate
  cases ha' : s.allocate r with
  | mk s' res' =>
    rw [ha'] at ha hj
    simp only [] at ha hj
    subst ha
    simp only [St.commitJournal, hj]
    rfl

/-- **Commit of a fresh offer = Allocate (results).** If `GetOffer r` succeeds in a well-formed,
placed state, committing that offer right away returns exactly the zone and the update map
that `Allocate r` returns in the same state. -/
theorem commit_fresh_result_eq_allocate (s : St) (hw : WF s) (hp : Placed s) (r : Req) (o : Offer)
    (h : (s.GetOffer r).2 = .ok o) :
    ((s.GetOffer r).1.Commit o).2 = (s.Allocate r).2 := by
  obtain ⟨r', j, ha, hj, hups, hreq, hver⟩ := getOffer_ok_shape s hw r o h
  obtain ⟨hnone, hnorm, _, _, _, _⟩ := allocate_ok_eq s r r' ha
  obtain ⟨hndF, htrack, ⟨j2, hj2, h1, _⟩⟩ := allocate_tu s hw hp r r' ha
  have hjj : j2 = j := by rw [hj] at hj2; exact (Option.some.inj hj2).symm
  subst hjj
  obtain ⟨hg, _, _⟩ := (allocate_spec s hw r).2 r' ha
  -- the requester in the final internal state
  obtain ⟨⟨Z, jj, hreqs, _⟩, _, _⟩ := hg
  have hmemb : ({ r' with zone := 0 } : Req) ∈ (withNew s r').reqs := by simp [withNew]
  have hq : withZone Z { r' with zone := 0 } ∈ (s.allocate r).1.reqs := by rw [hreqs]; exact List.mem_map_of_mem hmemb
  have hqid : (withZone Z { r' with zone := 0 }).id = r'.id := rfl
  have hreq? : (s.allocate r).1.req? r'.id = some (withZone Z { r' with zone := 0 }) := by
    have := req?_of_mem_nodup _ hndF _ hq
    rw [hqid] at this; exact this
  have hqz : (withZone Z { r' with zone := 0 }).zone ≠ 0 := and_ne_zero_left (htrack.normal _ hq)
  have hzb : zoneIn (withNew s r') r'.id = 0 :=
    zoneIn_of_mem (withNew s r') (withNew_ids_nodup s hw r' hnone) ({ r' with zone := 0 } : Req) hmemb
  have hget : alGet j2.updates r'.id = some (withZone Z { r' with zone := 0 }).zone := by
    have := h1 _ hq (by rw [hqid, hzb]; exact hqz)
    rw [hqid] at this; exact this
  rw [Allocate_ok_result s r r' j2 ha hj, hreq?]
  -- Commit is not refused: the version is the current one
  have hv1 : (s.GetOffer r).1.version = s.version := GetOffer_version s hw r
  rw [commit_eq]
  have hne : ¬ (o.version ≠ (s.GetOffer r).1.version) := by rw [hver, hv1]; simp
  rw [if_neg hne]
  simp only [hups, hreq, hget, Option.map_some, Option.getD_some]

/-! ### `Realloc` reports exactly the moved allocations -/

theorem Realloc_ok_updates (s : St) (id : String) (nodes : Mask) (types : Nat) (res : Result)
    (h : (s.Realloc id nodes types).2 = .ok res) :
    ((s.Realloc id nodes types).1 = s ∧ res.updates = []) ∨
    ∃ (r : Req) (target : Mask) (t : Nat), s.req? id = some r ∧ msub r.zone target = true ∧ target ≠ 0 ∧
      (∀ j, (((s.startJournal.zoneMove target id).handleOvercommit target).1).journal = some j →
        res.updates = alErase j.updates id) ∧
      (s.Realloc id nodes types).1.reqs =
        (((s.startJournal.zoneMove target id).handleOvercommit target).1).reqs.map (addTypes id t) := by
  unfold St.Realloc at h ⊢
  cases hr : s.req? id with
  | none => simp [hr] at h
  | some r =>
    simp only [hr] at h ⊢
    cases hv : s.validateRealloc r nodes types with
    | error e' => simp [hv] at h
    | ok v =>
      obtain ⟨n1, t1, fl⟩ := v
      cases fl with
      | true =>
        left
        simp only [hv, Except.ok.injEq] at h
        exact ⟨rfl, by rw [← h]⟩
      | false =>
        right
        simp only [hv] at h ⊢
        cases hx : s.startJournal.expand (r.zone ||| n1) t1 with
        | mk newNodes newTypes =>
          simp only [hx] at h ⊢
          by_cases hz : (newNodes == 0) = true
          · simp [hz] at h
          · simp only [hz, Bool.false_eq_true, if_false] at h ⊢
            have hne : r.zone ||| n1 ||| newNodes ≠ 0 := by
              intro hh
              have := (Nat.or_eq_zero_iff.1 hh).2
              simp [this] at hz
            cases ho : (s.startJournal.zoneMove (r.zone ||| n1 ||| newNodes) id).handleOvercommit (r.zone ||| n1 ||| newNodes) with
            | mk s3 oe =>
              simp only [ho] at h ⊢
              cases oe with
              | some e' => simp at h
              | none =>
                simp only [Except.ok.injEq] at h
                refine ⟨r, r.zone ||| n1 ||| newNodes, newTypes, rfl, msub_or_right newNodes (msub_or_self r.zone n1), hne, ?_, ?_⟩
                · intro j hj
                  rw [ho] at hj
                  simp only [] at hj
                  rw [← h]
                  simp only [St.commitJournal, hj]
                · simp only [St.cleanupUnusedZones]
                  rw [commitJournal_reqs, ho]
                  rfl

/-- **Exact updates (Realloc).** -/
theorem Realloc_updates_exact (s : St) (hw : WF s) (hp : Placed s) (id : String) (nodes : Mask) (types : Nat)
    (res : Result) (h : (s.Realloc id nodes types).2 = .ok res) (id' : String) (z : Mask) :
    alGet res.updates id' = some z ↔
      (id' ≠ id ∧ ∃ q ∈ (s.Realloc id nodes types).1.reqs, q.id = id' ∧ q.zone = z ∧ z ≠ zoneIn s id') := by
  have hnd : IdsNodup s := hw.ids
  rcases Realloc_ok_updates s id nodes types res h with ⟨e, hu⟩ | ⟨r, target, t, hr, hsub, hne, hups, hreqs⟩
  · rw [e, hu]
    constructor
    · intro hg; simp [alGet] at hg
    · intro ⟨_, q, hq, hqid, hqz, hzne⟩
      exfalso; apply hzne
      rw [← hqz, ← hqid]; exact (zoneIn_of_mem s hnd q hq).symm
  · have hrm : r ∈ s.reqs := List.mem_of_find?_eq_some hr
    have hrid : r.id = id := by have := List.find?_some hr; simpa using this
    subst hrid
    have hb0 : IdsNodup s.startJournal := hnd
    have hcases : ∀ q' ∈ (s.startJournal.zoneMove target r.id).reqs,
        (q' ∈ s.reqs ∧ q'.id ≠ r.id) ∨ q' = { r with zone := target } := by
      intro q' hq'
      exact zoneMove_reqs_mem s.startJournal hb0 r hrm target q' hq'
    have hnm : (s.startJournal.zoneMove target r.id).normalMask = s.normalMask :=
      normalMask_of_nodes _ _ (by rw [zoneMove_nodes]; rfl)
    have ht0 : Track s r.id (s.startJournal.zoneMove target r.id) := by
      refine ⟨?_, ?_, ?_, ?_⟩
      · intro q' hq'
        rcases hcases q' hq' with ⟨hq, _⟩ | e
        · rw [zoneIn_of_mem s hnd q' hq]; exact msub_refl _
        · subst e
          show msub (zoneIn s r.id) target = true
          rw [zoneIn_of_mem s hnd r hrm]; exact hsub
      · intro q' hq' _ hne'
        rcases hcases q' hq' with ⟨hq, _⟩ | e
        · exact (zoneIn_of_mem s hnd q' hq).symm
        · subst e; exact absurd rfl hne'
      · intro q' hq'
        rw [hnm]
        rcases hcases q' hq' with ⟨hq, _⟩ | e
        · exact hp q' hq
        · subst e; exact and_ne_zero_of_msub hsub (hp r hrm)
      · rw [zoneMove_nodes]; rfl
    have hu0 : Upd s (s.startJournal.zoneMove target r.id) := by
      by_cases hsame : r.zone = target
      · have hz : r.zone ≠ 0 := by rw [hsame]; exact hne
        have hnoop : s.startJournal.zoneMove target r.id = s.startJournal := by
          rw [← hsame]; exact zoneMove_noop s.startJournal hb0 r hrm hz
        rw [hnoop]
        refine ⟨⟨{}, rfl, ?_, ?_⟩⟩
        · intro q hq hzq; exact absurd (zoneIn_of_mem s hnd q hq).symm hzq
        · intro i z' hg; simp [alGet] at hg
      · obtain ⟨j', hj', hupsj⟩ := zoneMove_journal s.startJournal hb0 r hrm target hne {} rfl
        rw [if_neg hsame] at hupsj
        refine ⟨⟨j', hj', ?_, ?_⟩⟩
        · intro q' hq' hzq
          rw [hupsj]
          rcases hcases q' hq' with ⟨hq, _⟩ | e
          · exact absurd (zoneIn_of_mem s hnd q' hq).symm hzq
          · subst e; exact alGet_alSet_same _ _ _
        · intro i z' hg
          rw [hupsj] at hg
          by_cases hid : i = r.id
          · subst hid
            rw [alGet_alSet_same] at hg
            have hzt : target = z' := Option.some.inj hg
            refine ⟨{ r with zone := target }, zoneMove_mem_self s.startJournal hb0 r hrm target hsame, rfl, hzt, ?_⟩
            rw [← hzt, zoneIn_of_mem s hnd r hrm]; exact Ne.symm hsame
          · rw [alGet_alSet_other _ _ _ _ hid] at hg
            simp [alGet] at hg
    have hnd1 : IdsNodup (s.startJournal.zoneMove target r.id) := by
      unfold IdsNodup; rw [zoneMove_ids]; exact hnd
    obtain ⟨_, _, ⟨j, hj, h1, h2⟩⟩ := handleOvercommit_tu s r.id _ target hnd1 ⟨ht0, hu0⟩
    rw [hups j hj, alGet_alErase, hreqs]
    constructor
    · intro hg
      by_cases e : id' = r.id
      · simp [e] at hg
      · simp only [e, if_false] at hg
        obtain ⟨q, hq, hqid, hqz, hzne⟩ := h2 id' z hg
        refine ⟨e, addTypes r.id t q, List.mem_map_of_mem hq, ?_, ?_, hzne⟩
        · rw [addTypes_id]; exact hqid
        · rw [addTypes_zone]; exact hqz
    · intro ⟨hne', q, hq, hqid, hqz, hzne⟩
      simp only [hne', if_false]
      obtain ⟨q0, hq0, e⟩ := List.mem_map.1 hq
      rw [← e, addTypes_id] at hqid
      rw [← e, addTypes_zone] at hqz
      have := h1 q0 hq0 (by rw [hqz, hqid]; exact hzne)
      rw [hqid, hqz] at this
      exact this

end Nri.LibMem
