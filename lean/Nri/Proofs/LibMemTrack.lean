import Nri.Model.LibMem
import Nri.Proofs.LibMem
import Nri.Proofs.LibMemInv
/-!
C07 placement invariants carried through overcommit resolution by the preservation combinator
(`handleOvercommit_pres`): moves are monotone (every request's zone only grows), requests of
Reservation priority are never moved, every assigned zone keeps a node with normal memory.
Core Lean only.
-/
namespace Nri.LibMem

/-! ### bit-set facts -/

theorem msub_iff (a b : Mask) : msub a b = true ↔ ∀ i, a.testBit i = true → b.testBit i = true := by
  unfold msub
  simp only [beq_iff_eq]
  constructor
  · intro h i ha
    have := congrArg (fun x => x.testBit i) h
    simp only [Nat.testBit_and, ha, Bool.true_and] at this
    exact this
  · intro h
    apply Nat.eq_of_testBit_eq
    intro i
    simp only [Nat.testBit_and]
    cases ha : a.testBit i with
    | false => simp
    | true => simp [h i ha]

theorem msub_refl (a : Mask) : msub a a = true := (msub_iff a a).2 (fun _ h => h)
theorem msub_zero (a : Mask) : msub 0 a = true := (msub_iff 0 a).2 (fun i h => by simp at h)

theorem msub_or_right {a b : Mask} (c : Mask) (h : msub a b = true) : msub a (b ||| c) = true := by
  rw [msub_iff] at *
  intro i ha
  simp [Nat.testBit_or, h i ha]

theorem msub_or_self (a c : Mask) : msub a (a ||| c) = true := msub_or_right c (msub_refl a)

theorem and_ne_zero_of_msub {a b m : Mask} (h : msub a b = true) (ha : a &&& m ≠ 0) : b &&& m ≠ 0 := by
  intro hb
  apply ha
  have h1 : a &&& b = a := by simpa [msub] using h
  calc a &&& m = (a &&& b) &&& m := by rw [h1]
    _ = a &&& (b &&& m) := Nat.and_assoc _ _ _
    _ = 0 := by rw [hb]; simp

/-! ### nodes are static -/

theorem zoneAssign_nodes (s : St) (z : Mask) (id : String) : (s.zoneAssign z id).nodes = s.nodes := by
  simp [St.zoneAssign, St.setZone]

theorem zoneRemove_nodes (s : St) (z : Mask) (id : String) : (s.zoneRemove z id).nodes = s.nodes := by
  unfold St.zoneRemove
  split
  · split <;> simp [St.setZone]
  · rfl

theorem zoneMove_nodes (s : St) (z : Mask) (id : String) : (s.zoneMove z id).nodes = s.nodes := by
  unfold St.zoneMove
  split
  · split
    · split
      · rfl
      · rw [zoneAssign_nodes, zoneRemove_nodes]
    · exact zoneAssign_nodes _ _ _
  · rfl

theorem normalMask_of_nodes (s s' : St) (h : s'.nodes = s.nodes) : s'.normalMask = s.normalMask := by
  unfold St.normalMask; rw [h]

/-! ### the tracked invariant -/

/-- `s` is a state inside a transaction that started from `b`. -/
structure Track (b s : St) : Prop where
  mono : ∀ q ∈ s.reqs, msub (zoneIn b q.id) q.zone = true
  resv : ∀ q ∈ s.reqs, 32766 < q.prio → zoneIn b q.id ≠ 0 → q.zone = zoneIn b q.id
  normal : ∀ q ∈ s.reqs, q.zone ≠ 0 → q.zone &&& s.normalMask ≠ 0
  nodes : s.nodes = b.nodes

theorem track_ambig (b s : St) (x : Bool) (h : Track b s) : Track b { s with ambig := x } :=
  ⟨h.mono, h.resv, h.normal, h.nodes⟩

theorem track_move (b : St) (nodes0 : Mask) (s : St) (r : Req) (nodes : Mask) (h : Track b s)
    (hm : MoveOK s nodes0 r nodes) : Track b (s.zoneMove (r.zone ||| nodes) r.id) := by
  have hnm : (s.zoneMove (r.zone ||| nodes) r.id).normalMask = s.normalMask :=
    normalMask_of_nodes _ _ (zoneMove_nodes _ _ _)
  refine ⟨?_, ?_, ?_, ?_⟩
  · intro q' hq'
    rcases zoneMove_reqs_mem s hm.ids r hm.mem _ q' hq' with ⟨hq, _⟩ | e
    · exact h.mono q' hq
    · subst e; exact msub_or_right nodes (h.mono r hm.mem)
  · intro q' hq' hp hz
    rcases zoneMove_reqs_mem s hm.ids r hm.mem _ q' hq' with ⟨hq, _⟩ | e
    · exact h.resv q' hq hp hz
    · subst e
      have := hm.prio
      simp only at hp
      omega
  · intro q' hq' hz
    rw [hnm]
    rcases zoneMove_reqs_mem s hm.ids r hm.mem _ q' hq' with ⟨hq, _⟩ | e
    · exact h.normal q' hq hz
    · subst e
      exact and_ne_zero_of_msub (msub_or_self r.zone nodes) (h.normal r hm.mem hm.zone)
  · rw [zoneMove_nodes]; exact h.nodes

/-- overcommit resolution preserves the tracked invariant -/
theorem handleOvercommit_track (b s : St) (nodes0 : Mask) (hnd : IdsNodup s) (h : Track b s) :
    IdsNodup (s.handleOvercommit nodes0).1 ∧ Track b (s.handleOvercommit nodes0).1 :=
  handleOvercommit_pres nodes0 (Track b) (fun s x h => track_ambig b s x h)
    (fun s r nodes h hm => track_move b nodes0 s r nodes h hm) s hnd h

end Nri.LibMem
