import Nri.Model.LibMem
import Nri.Proofs.LibMem
import Nri.Proofs.LibMemInv
/-!
C07 placement invariants carried through overcommit resolution by the preservation combinator
(`handleOvercommit_pres`): moves are monotone (every request's zone only grows), requests of
Reservation priority are never moved, every assigned zone keeps a node with normal memory.
Core Lean only.
-/
namespace Nri.LibMem

/-! ### bit-set facts -/

theorem msub_iff (a b : Mask) : msub a b = true ↔ ∀ i, a.testBit i = true → b.testBit i = true := by
  unfold msub
  simp only [beq_iff_eq]
  constructor
  · intro h i ha
    have := congrArg (fun x => x.testBit i) h
    simp only [Nat.testBit_and, ha, Bool.true_and] at this
    exact this
  · intro h
    apply Nat.eq_of_testBit_eq
    intro i
    simp only [Nat.testBit_and]
    cases ha : a.testBit i with
    | false => simp
    | true => simp [h i ha]

theorem msub_refl (a : Mask) : msub a a = true := (msub_iff a a).2 (fun _ h => h)
theorem msub_zero (a : Mask) : msub 0 a = true := (msub_iff 0 a).2 (fun i h => by simp at h)

theorem msub_or_right {a b : Mask} (c : Mask) (h : msub a b = true) : msub a (b ||| c) = true := by
  rw [msub_iff] at *
  intro i ha
  simp [Nat.testBit_or, h i ha]

theorem msub_or_self (a c : Mask) : msub a (a ||| c) = true := msub_or_right c (msub_refl a)

theorem and_ne_zero_of_msub {a b m : Mask} (h : msub a b = true) (ha : a &&& m ≠ 0) : b &&& m ≠ 0 := by
  intro hb
  apply ha
  have h1 : a &&& b = a := by simpa [msub] using h
  calc a &&& m = (a &&& b) &&& m := by rw [h1]
    _ = a &&& (b &&& m) := Nat.and_assoc _ _ _
    _ = 0 := by rw [hb]; simp

/-! ### nodes are static -/

theorem zoneAssign_nodes (s : St) (z : Mask) (id : String) : (s.zoneAssign z id).nodes = s.nodes := by
  simp [St.zoneAssign, St.setZone]

theorem zoneRemove_nodes (s : St) (z : Mask) (id : String) : (s.zoneRemove z id).nodes = s.nodes := by
  unfold St.zoneRemove
  split
  · split <;> simp [St.setZone]
  · rfl

theorem zoneMove_nodes (s : St) (z : Mask) (id : String) : (s.zoneMove z id).nodes = s.nodes := by
  unfold St.zoneMove
  split
  · split
    · split
      · rfl
      · rw [zoneAssign_nodes, zoneRemove_nodes]
    · exact zoneAssign_nodes _ _ _
  · rfl

theorem normalMask_of_nodes (s s' : St) (h : s'.nodes = s.nodes) : s'.normalMask = s.normalMask := by
  unfold St.normalMask; rw [h]

/-! ### the tracked invariant -/

/-- `s` is a state inside a transaction that started from `b`; `ex` is the request the
transaction is about (the new request of an allocation, the re-allocated request). -/
structure Track (b : St) (ex : String) (s : St) : Prop where
  mono : ∀ q ∈ s.reqs, msub (zoneIn b q.id) q.zone = true
  resv : ∀ q ∈ s.reqs, 32766 < q.prio → q.id ≠ ex → q.zone = zoneIn b q.id
  normal : ∀ q ∈ s.reqs, q.zone &&& s.normalMask ≠ 0
  nodes : s.nodes = b.nodes

theorem track_ambig (b : St) (ex : String) (s : St) (x : Bool) (h : Track b ex s) : Track b ex { s with ambig := x } :=
  ⟨h.mono, h.resv, h.normal, h.nodes⟩

theorem track_move (b : St) (ex : String) (nodes0 : Mask) (s : St) (r : Req) (nodes : Mask) (h : Track b ex s)
    (hm : MoveOK s nodes0 r nodes) : Track b ex (s.zoneMove (r.zone ||| nodes) r.id) := by
  have hnm : (s.zoneMove (r.zone ||| nodes) r.id).normalMask = s.normalMask :=
    normalMask_of_nodes _ _ (zoneMove_nodes _ _ _)
  refine ⟨?_, ?_, ?_, ?_⟩
  · intro q' hq'
    rcases zoneMove_reqs_mem s hm.ids r hm.mem _ q' hq' with ⟨hq, _⟩ | e
    · exact h.mono q' hq
    · subst e; exact msub_or_right nodes (h.mono r hm.mem)
  · intro q' hq' hp hz
    rcases zoneMove_reqs_mem s hm.ids r hm.mem _ q' hq' with ⟨hq, _⟩ | e
    · exact h.resv q' hq hp hz
    · subst e
      have := hm.prio
      simp only at hp
      omega
  · intro q' hq'
    rw [hnm]
    rcases zoneMove_reqs_mem s hm.ids r hm.mem _ q' hq' with ⟨hq, _⟩ | e
    · exact h.normal q' hq
    · subst e
      exact and_ne_zero_of_msub (msub_or_self r.zone nodes) (h.normal r hm.mem)
  · rw [zoneMove_nodes]; exact h.nodes

/-- overcommit resolution preserves the tracked invariant -/
theorem handleOvercommit_track (b : St) (ex : String) (s : St) (nodes0 : Mask) (hnd : IdsNodup s) (h : Track b ex s) :
    IdsNodup (s.handleOvercommit nodes0).1 ∧ Track b ex (s.handleOvercommit nodes0).1 :=
  handleOvercommit_pres nodes0 (Track b ex) (fun s x h => track_ambig b ex s x h)
    (fun s r nodes h hm => track_move b ex nodes0 s r nodes h hm) s hnd h

/-! ### the shape of a successful internal `allocate` -/

theorem allocate_ok_eq (s : St) (r r' : Req) (h : (s.allocate r).2 = .ok r') :
    s.req? r'.id = none ∧ r'.zone &&& s.normalMask ≠ 0 ∧ r'.id = r.id ∧ r'.prio = r.prio ∧ r'.size = r.size ∧
    (s.allocate r).1 = (((withNew s r').startJournal.zoneMove r'.zone r'.id).handleOvercommit r'.zone).1 := by
  unfold St.allocate at h ⊢
  cases hv : s.validateRequest r with
  | error e => simp [hv] at h
  | ok t1 =>
    simp only [hv] at h ⊢
    cases hf : s.findInitialZone { r with types := t1 } with
    | error e => simp [hf] at h
    | ok z1 =>
      simp only [hf] at h ⊢
      cases hn : s.ensureNormalMemory { r with types := t1, zone := z1 } with
      | error e => simp [hn] at h
      | ok zt =>
        obtain ⟨z2, t2⟩ := zt
        simp only [hn] at h ⊢
        have hnone := validateRequest_spec s r t1 hv
        have hzn := ensureNormalMemory_zone s _ z2 t2 hn
        cases hh : (({ s.startJournal with reqs := s.startJournal.reqs ++ [{ ({ r with types := t2, zone := z2 } : Req) with zone := 0 }] } : St).zoneAssign z2 r.id).handleOvercommit z2 with
        | mk s2 oe =>
          simp only [hh] at h ⊢
          cases oe with
          | some e => simp only [] at h; cases h
          | none =>
            simp only [Except.ok.injEq] at h
            subst h
            simp only []
            refine ⟨hnone, hzn, trivial, trivial, trivial, ?_⟩
            have heq : ({ s.startJournal with reqs := s.startJournal.reqs ++ [{ ({ r with types := t2, zone := z2 } : Req) with zone := 0 }] } : St)
                = (withNew s { r with types := t2, zone := z2 }).startJournal := by
              simp [withNew, St.startJournal]
            have hreq : (withNew s { r with types := t2, zone := z2 }).startJournal.req? r.id = some { ({ r with types := t2, zone := z2 } : Req) with zone := 0 } := by
              unfold St.req? withNew St.startJournal
              simp only [List.find?_append]
              have : s.reqs.find? (·.id == r.id) = none := hnone
              simp [this]
            have hmove : (withNew s { r with types := t2, zone := z2 }).startJournal.zoneAssign z2 r.id
                = (withNew s { r with types := t2, zone := z2 }).startJournal.zoneMove z2 r.id := by
              unfold St.zoneMove
              simp [hreq]
            rw [← hmove, ← heq, hh]

/-- every request sits in a zone that has a node with normal memory (in particular it is assigned) -/
def Placed (s : St) : Prop := ∀ q ∈ s.reqs, q.zone &&& s.normalMask ≠ 0

theorem zoneIn_of_mem (s : St) (hnd : IdsNodup s) (q : Req) (hq : q ∈ s.reqs) : zoneIn s q.id = q.zone := by
  unfold zoneIn; rw [req?_of_mem_nodup s hnd q hq]; rfl

theorem zoneIn_none (s : St) (id : String) (h : s.req? id = none) : zoneIn s id = 0 := by
  unfold zoneIn; rw [h]; rfl

/-- a successful internal `allocate` ends in a tracked state relative to the state with the new
(still unassigned) request added. -/
theorem allocate_track (s : St) (hw : WF s) (hp : Placed s) (r r' : Req) (h : (s.allocate r).2 = .ok r') :
    IdsNodup (s.allocate r).1 ∧ Track (withNew s r') r'.id (s.allocate r).1 := by
  obtain ⟨hnone, hnorm, _, _, _, heq⟩ := allocate_ok_eq s r r' h
  rw [heq]
  have hbnd : IdsNodup (withNew s r') := withNew_ids_nodup s hw r' hnone
  have hb0 : IdsNodup (withNew s r').startJournal := hbnd
  have hmem0 : ({ r' with zone := 0 } : Req) ∈ (withNew s r').startJournal.reqs := by
    simp [withNew, St.startJournal]
  have hback : ({ ({ r' with zone := 0 } : Req) with zone := r'.zone } : Req) = r' := by cases r'; rfl
  have hnm : ((withNew s r').startJournal.zoneMove r'.zone r'.id).normalMask = s.normalMask :=
    normalMask_of_nodes _ _ (by rw [zoneMove_nodes]; rfl)
  apply handleOvercommit_track
  · unfold IdsNodup; rw [zoneMove_ids]; exact hbnd
  · have hcases : ∀ q' ∈ ((withNew s r').startJournal.zoneMove r'.zone r'.id).reqs,
        (q' ∈ (withNew s r').reqs ∧ q'.id ≠ r'.id) ∨ q' = r' := by
      intro q' hq'
      have := zoneMove_reqs_mem (withNew s r').startJournal hb0 { r' with zone := 0 } hmem0 r'.zone q' hq'
      rw [hback] at this
      exact this
    have hnewzone : zoneIn (withNew s r') r'.id = 0 := by
      have : zoneIn (withNew s r') ({ r' with zone := 0 } : Req).id = ({ r' with zone := 0 } : Req).zone :=
        zoneIn_of_mem (withNew s r') hbnd _ (by simp [withNew])
      exact this
    refine ⟨?_, ?_, ?_, ?_⟩
    · intro q' hq'
      rcases hcases q' hq' with ⟨hq, _⟩ | e
      · rw [zoneIn_of_mem _ hbnd q' hq]; exact msub_refl _
      · subst e; rw [hnewzone]; exact msub_zero _
    · intro q' hq' _ hne
      rcases hcases q' hq' with ⟨hq, _⟩ | e
      · exact (zoneIn_of_mem _ hbnd q' hq).symm
      · subst e; exact absurd rfl hne
    · intro q' hq'
      rw [hnm]
      rcases hcases q' hq' with ⟨hq, hid⟩ | e
      · simp only [withNew, List.mem_append, List.mem_singleton] at hq
        rcases hq with hq | hq
        · exact hp q' hq
        · subst hq; exact absurd rfl hid
      · subst e; exact hnorm
    · rw [zoneMove_nodes]; rfl

end Nri.LibMem
