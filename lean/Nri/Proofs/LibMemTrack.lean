import Nri.Model.LibMem
import Nri.Proofs.LibMem
import Nri.Proofs.LibMemInv
/-!
C07 placement invariants carried through overcommit resolution by the preservation combinator
(`handleOvercommit_pres`): moves are monotone (every request's zone only grows), requests of
Reservation priority are never moved, every assigned zone keeps a node with normal memory.
Core Lean only.
-/
namespace Nri.LibMem

/-! ### bit-set facts -/

theorem msub_iff (a b : Mask) : msub a b = true ↔ ∀ i, a.testBit i = true → b.testBit i = true := by
  unfold msub
  simp only [beq_iff_eq]
  constructor
  · intro h i ha
    have := congrArg (fun x => x.testBit i) h
    simp only [Nat.testBit_and, ha, Bool.true_and] at this
    exact this
  · intro h
    apply Nat.eq_of_testBit_eq
    intro i
    simp only [Nat.testBit_and]
    cases ha : a.testBit i with
    | false => simp
    | true => simp [h i ha]

theorem msub_refl (a : Mask) : msub a a = true := (msub_iff a a).2 (fun _ h => h)
theorem msub_zero (a : Mask) : msub 0 a = true := (msub_iff 0 a).2 (fun i h => by simp at h)

theorem msub_or_right {a b : Mask} (c : Mask) (h : msub a b = true) : msub a (b ||| c) = true := by
  rw [msub_iff] at *
  intro i ha
  simp [Nat.testBit_or, h i ha]

theorem msub_or_self (a c : Mask) : msub a (a ||| c) = true := msub_or_right c (msub_refl a)

theorem and_ne_zero_of_msub {a b m : Mask} (h : msub a b = true) (ha : a &&& m ≠ 0) : b &&& m ≠ 0 := by
  intro hb
  apply ha
  have h1 : a &&& b = a := by simpa [msub] using h
  calc a &&& m = (a &&& b) &&& m := by rw [h1]
    _ = a &&& (b &&& m) := Nat.and_assoc _ _ _
    _ = 0 := by rw [hb]; simp

/-! ### nodes are static -/

theorem zoneAssign_nodes (s : St) (z : Mask) (id : String) : (s.zoneAssign z id).nodes = s.nodes := by
  simp [St.zoneAssign, St.setZone]

theorem zoneRemove_nodes (s : St) (z : Mask) (id : String) : (s.zoneRemove z id).nodes = s.nodes := by
  unfold St.zoneRemove
  split
  · split <;> simp [St.setZone]
  · rfl

theorem zoneMove_nodes (s : St) (z : Mask) (id : String) : (s.zoneMove z id).nodes = s.nodes := by
  unfold St.zoneMove
  split
  · split
    · split
      · rfl
      · rw [zoneAssign_nodes, zoneRemove_nodes]
    · exact zoneAssign_nodes _ _ _
  · rfl

theorem normalMask_of_nodes (s s' : St) (h : s'.nodes = s.nodes) : s'.normalMask = s.normalMask := by
  unfold St.normalMask; rw [h]

/-! ### the tracked invariant -/

/-- `s` is a state inside a transaction that started from `b`; `ex` is the request the
transaction is about (the new request of an allocation, the re-allocated request). -/
structure Track (b : St) (ex : String) (s : St) : Prop where
  mono : ∀ q ∈ s.reqs, msub (zoneIn b q.id) q.zone = true
  resv : ∀ q ∈ s.reqs, 32766 < q.prio → q.id ≠ ex → q.zone = zoneIn b q.id
  normal : ∀ q ∈ s.reqs, q.zone &&& s.normalMask ≠ 0
  nodes : s.nodes = b.nodes

theorem track_ambig (b : St) (ex : String) (s : St) (x : Bool) (h : Track b ex s) : Track b ex { s with ambig := x } :=
  ⟨h.mono, h.resv, h.normal, h.nodes⟩

theorem track_move (b : St) (ex : String) (nodes0 : Mask) (s : St) (r : Req) (nodes : Mask) (h : Track b ex s)
    (hm : MoveOK s nodes0 r nodes) : Track b ex (s.zoneMove (r.zone ||| nodes) r.id) := by
  have hnm : (s.zoneMove (r.zone ||| nodes) r.id).normalMask = s.normalMask :=
    normalMask_of_nodes _ _ (zoneMove_nodes _ _ _)
  refine ⟨?_, ?_, ?_, ?_⟩
  · intro q' hq'
    rcases zoneMove_reqs_mem s hm.ids r hm.mem _ q' hq' with ⟨hq, _⟩ | e
    · exact h.mono q' hq
    · subst e; exact msub_or_right nodes (h.mono r hm.mem)
  · intro q' hq' hp hz
    rcases zoneMove_reqs_mem s hm.ids r hm.mem _ q' hq' with ⟨hq, _⟩ | e
    · exact h.resv q' hq hp hz
    · subst e
      have := hm.prio
      simp only at hp
      omega
  · intro q' hq'
    rw [hnm]
    rcases zoneMove_reqs_mem s hm.ids r hm.mem _ q' hq' with ⟨hq, _⟩ | e
    · exact h.normal q' hq
    · subst e
      exact and_ne_zero_of_msub (msub_or_self r.zone nodes) (h.normal r hm.mem)
  · rw [zoneMove_nodes]; exact h.nodes

/-- overcommit resolution preserves the tracked invariant -/
theorem handleOvercommit_track (b : St) (ex : String) (s : St) (nodes0 : Mask) (hnd : IdsNodup s) (h : Track b ex s) :
    IdsNodup (s.handleOvercommit nodes0).1 ∧ Track b ex (s.handleOvercommit nodes0).1 :=
  handleOvercommit_pres nodes0 (Track b ex) (fun s x h => track_ambig b ex s x h)
    (fun s r nodes h hm => track_move b ex nodes0 s r nodes h hm) s hnd h

/-! ### the shape of a successful internal `allocate` -/

theorem allocate_ok_eq (s : St) (r r' : Req) (h : (s.allocate r).2 = .ok r') :
    s.req? r'.id = none ∧ r'.zone &&& s.normalMask ≠ 0 ∧ r'.id = r.id ∧ r'.prio = r.prio ∧ r'.size = r.size ∧
    (s.allocate r).1 = (((withNew s r').startJournal.zoneMove r'.zone r'.id).handleOvercommit r'.zone).1 := by
  unfold St.allocate at h ⊢
  cases hv : s.validateRequest r with
  | error e => simp [hv] at h
  | ok t1 =>
    simp only [hv] at h ⊢
    cases hf : s.findInitialZone { r with types := t1 } with
    | error e => simp [hf] at h
    | ok z1 =>
      simp only [hf] at h ⊢
      cases hn : s.ensureNormalMemory { r with types := t1, zone := z1 } with
      | error e => simp [hn] at h
      | ok zt =>
        obtain ⟨z2, t2⟩ := zt
        simp only [hn] at h ⊢
        have hnone := validateRequest_spec s r t1 hv
        have hzn := ensureNormalMemory_zone s _ z2 t2 hn
        cases hh : (({ s.startJournal with reqs := s.startJournal.reqs ++ [{ ({ r with types := t2, zone := z2 } : Req) with zone := 0 }] } : St).zoneAssign z2 r.id).handleOvercommit z2 with
        | mk s2 oe =>
          simp only [hh] at h ⊢
          cases oe with
          | some e => simp only [] at h; cases h
          | none =>
            simp only [Except.ok.injEq] at h
            subst h
            simp only []
            refine ⟨hnone, hzn, trivial, trivial, trivial, ?_⟩
            have heq : ({ s.startJournal with reqs := s.startJournal.reqs ++ [{ ({ r with types := t2, zone := z2 } : Req) with zone := 0 }] } : St)
                = (withNew s { r with types := t2, zone := z2 }).startJournal := by
              simp [withNew, St.startJournal]
            have hreq : (withNew s { r with types := t2, zone := z2 }).startJournal.req? r.id = some { ({ r with types := t2, zone := z2 } : Req) with zone := 0 } := by
              unfold St.req? withNew St.startJournal
              simp only [List.find?_append]
              have : s.reqs.find? (·.id == r.id) = none := hnone
              simp [this]
            have hmove : (withNew s { r with types := t2, zone := z2 }).startJournal.zoneAssign z2 r.id
                = (withNew s { r with types := t2, zone := z2 }).startJournal.zoneMove z2 r.id := by
              unfold St.zoneMove
              simp [hreq]
            rw [← hmove, ← heq, hh]

/-- every request sits in a zone that has a node with normal memory (in particular it is assigned) -/
def Placed (s : St) : Prop := ∀ q ∈ s.reqs, q.zone &&& s.normalMask ≠ 0

theorem zoneIn_of_mem (s : St) (hnd : IdsNodup s) (q : Req) (hq : q ∈ s.reqs) : zoneIn s q.id = q.zone := by
  unfold zoneIn; rw [req?_of_mem_nodup s hnd q hq]; rfl

theorem zoneIn_none (s : St) (id : String) (h : s.req? id = none) : zoneIn s id = 0 := by
  unfold zoneIn; rw [h]; rfl

/-- a successful internal `allocate` ends in a tracked state relative to the state with the new
(still unassigned) request added. -/
theorem allocate_track (s : St) (hw : WF s) (hp : Placed s) (r r' : Req) (h : (s.allocate r).2 = .ok r') :
    IdsNodup (s.allocate r).1 ∧ Track (withNew s r') r'.id (s.allocate r).1 := by
  obtain ⟨hnone, hnorm, _, _, _, heq⟩ := allocate_ok_eq s r r' h
  rw [heq]
  have hbnd : IdsNodup (withNew s r') := withNew_ids_nodup s hw r' hnone
  have hb0 : IdsNodup (withNew s r').startJournal := hbnd
  have hmem0 : ({ r' with zone := 0 } : Req) ∈ (withNew s r').startJournal.reqs := by
    simp [withNew, St.startJournal]
  have hback : ({ ({ r' with zone := 0 } : Req) with zone := r'.zone } : Req) = r' := by cases r'; rfl
  have hnm : ((withNew s r').startJournal.zoneMove r'.zone r'.id).normalMask = s.normalMask :=
    normalMask_of_nodes _ _ (by rw [zoneMove_nodes]; rfl)
  apply handleOvercommit_track
  · unfold IdsNodup; rw [zoneMove_ids]; exact hbnd
  · have hcases : ∀ q' ∈ ((withNew s r').startJournal.zoneMove r'.zone r'.id).reqs,
        (q' ∈ (withNew s r').reqs ∧ q'.id ≠ r'.id) ∨ q' = r' := by
      intro q' hq'
      have := zoneMove_reqs_mem (withNew s r').startJournal hb0 { r' with zone := 0 } hmem0 r'.zone q' hq'
      rw [hback] at this
      exact this
    have hnewzone : zoneIn (withNew s r') r'.id = 0 := by
      have : zoneIn (withNew s r') ({ r' with zone := 0 } : Req).id = ({ r' with zone := 0 } : Req).zone :=
        zoneIn_of_mem (withNew s r') hbnd _ (by simp [withNew])
      exact this
    refine ⟨?_, ?_, ?_, ?_⟩
    · intro q' hq'
      rcases hcases q' hq' with ⟨hq, _⟩ | e
      · rw [zoneIn_of_mem _ hbnd q' hq]; exact msub_refl _
      · subst e; rw [hnewzone]; exact msub_zero _
    · intro q' hq' _ hne
      rcases hcases q' hq' with ⟨hq, _⟩ | e
      · exact (zoneIn_of_mem _ hbnd q' hq).symm
      · subst e; exact absurd rfl hne
    · intro q' hq'
      rw [hnm]
      rcases hcases q' hq' with ⟨hq, hid⟩ | e
      · simp only [withNew, List.mem_append, List.mem_singleton] at hq
        rcases hq with hq | hq
        · exact hp q' hq
        · subst hq; exact absurd rfl hid
      · subst e; exact hnorm
    · rw [zoneMove_nodes]; rfl

/-! ### public `Allocate` -/

theorem zoneIn_withNew (s : St) (r' : Req) (hnone : s.req? r'.id = none) (id : String) :
    zoneIn (withNew s r') id = zoneIn s id := by
  unfold zoneIn St.req? withNew
  simp only [List.find?_append]
  cases hf : s.reqs.find? (·.id == id) with
  | some x => simp
  | none =>
    simp only [Option.none_or, List.find?_cons, List.find?_nil]
    by_cases e : (r'.id == id) = true
    · simp [e]
    · simp [e]

theorem Allocate_ok_shape (s : St) (r : Req) (res : Result) (h : (s.Allocate r).2 = .ok res) :
    ∃ r', (s.allocate r).2 = .ok r' ∧ (s.Allocate r).1.reqs = (s.allocate r).1.reqs ∧
      (s.Allocate r).1.nodes = (s.allocate r).1.nodes := by
  unfold St.Allocate at h ⊢
  cases ha : s.allocate r with
  | mk s' res' =>
    cases res' with
    | error e => simp [ha] at h
    | ok r' =>
      refine ⟨r', rfl, ?_, ?_⟩
      · simp only [St.cleanupUnusedZones]
        exact commitJournal_reqs _ _
      · simp only [St.cleanupUnusedZones, St.commitJournal]
        split <;> rfl

/-- **C07 for `Allocate`**, relative to the state before: every request that existed keeps its
nodes (its zone can only grow), requests of Reservation priority keep exactly their zone, and
every request - the new one included - sits in a zone with normal memory. -/
theorem Allocate_placement (s : St) (hw : WF s) (hp : Placed s) (r : Req) (res : Result)
    (h : (s.Allocate r).2 = .ok res) :
    (∀ q ∈ (s.Allocate r).1.reqs, msub (zoneIn s q.id) q.zone = true) ∧
    (∀ q ∈ (s.Allocate r).1.reqs, 32766 < q.prio → q.id ≠ r.id → q.zone = zoneIn s q.id) ∧
    Placed (s.Allocate r).1 := by
  obtain ⟨r', ha, hreqs, hnodes⟩ := Allocate_ok_shape s r res h
  obtain ⟨hnone, _, hid, _, _, _⟩ := allocate_ok_eq s r r' ha
  obtain ⟨_, ht⟩ := allocate_track s hw hp r r' ha
  refine ⟨?_, ?_, ?_⟩
  · intro q hq
    rw [hreqs] at hq
    rw [← zoneIn_withNew s r' hnone]
    exact ht.mono q hq
  · intro q hq hpr hne
    rw [hreqs] at hq
    rw [← zoneIn_withNew s r' hnone]
    exact ht.resv q hq hpr (by rw [hid]; exact hne)
  · intro q hq
    rw [hreqs] at hq
    rw [normalMask_of_nodes _ _ hnodes]
    exact ht.normal q hq

/-! ### public `Realloc` -/

def addTypes (id : String) (t : Nat) (q : Req) : Req := if q.id == id then { q with types := q.types ||| t } else q

theorem addTypes_id (id : String) (t : Nat) (q : Req) : (addTypes id t q).id = q.id := by unfold addTypes; split <;> rfl
theorem addTypes_zone (id : String) (t : Nat) (q : Req) : (addTypes id t q).zone = q.zone := by unfold addTypes; split <;> rfl
theorem addTypes_prio (id : String) (t : Nat) (q : Req) : (addTypes id t q).prio = q.prio := by unfold addTypes; split <;> rfl

/-- the shape of a successful `Realloc`: a no-op, or one journaled move of the request to
`old zone ∪ requested ∪ expansion` followed by overcommit resolution. -/
theorem Realloc_ok_shape (s : St) (id : String) (nodes : Mask) (types : Nat) (res : Result)
    (h : (s.Realloc id nodes types).2 = .ok res) :
    (s.Realloc id nodes types).1 = s ∨
    ∃ (r : Req) (target : Mask) (t : Nat), s.req? id = some r ∧ msub r.zone target = true ∧
      (s.Realloc id nodes types).1.reqs =
        (((s.startJournal.zoneMove target id).handleOvercommit target).1).reqs.map (addTypes id t) ∧
      (s.Realloc id nodes types).1.nodes = (((s.startJournal.zoneMove target id).handleOvercommit target).1).nodes := by
  unfold St.Realloc at h ⊢
  cases hr : s.req? id with
  | none => simp [hr] at h
  | some r =>
    simp only [hr] at h ⊢
    cases hv : s.validateRealloc r nodes types with
    | error e' => simp [hv] at h
    | ok v =>
      obtain ⟨n1, t1, fl⟩ := v
      cases fl with
      | true => left; rfl
      | false =>
        right
        simp only [hv] at h ⊢
        cases hx : s.startJournal.expand (r.zone ||| n1) t1 with
        | mk newNodes newTypes =>
          simp only [hx] at h ⊢
          by_cases hz : (newNodes == 0) = true
          · simp [hz] at h
          · simp only [hz, Bool.false_eq_true, if_false] at h ⊢
            cases ho : (s.startJournal.zoneMove (r.zone ||| n1 ||| newNodes) id).handleOvercommit (r.zone ||| n1 ||| newNodes) with
            | mk s3 oe =>
              simp only [ho] at h ⊢
              cases oe with
              | some e' => simp at h
              | none =>
                simp only []
                refine ⟨r, r.zone ||| n1 ||| newNodes, newTypes, rfl, ?_, ?_, ?_⟩
                · exact msub_or_right newNodes (msub_or_self r.zone n1)
                · simp only [St.cleanupUnusedZones]
                  rw [commitJournal_reqs, ho]
                  rfl
                · simp only [St.cleanupUnusedZones, St.commitJournal]
                  rw [ho]
                  split <;> rfl

/-- **C07 for `Realloc`**: no request loses nodes - the re-allocated one included ("re-allocation
never removes nodes") -, Reservation-priority requests other than the re-allocated one keep
exactly their zone, every request stays in a zone with normal memory. -/
theorem Realloc_placement (s : St) (hw : WF s) (hp : Placed s) (id : String) (nodes : Mask) (types : Nat) (res : Result)
    (h : (s.Realloc id nodes types).2 = .ok res) :
    (∀ q ∈ (s.Realloc id nodes types).1.reqs, msub (zoneIn s q.id) q.zone = true) ∧
    (∀ q ∈ (s.Realloc id nodes types).1.reqs, 32766 < q.prio → q.id ≠ id → q.zone = zoneIn s q.id) ∧
    Placed (s.Realloc id nodes types).1 := by
  have hnd : IdsNodup s := hw.ids
  rcases Realloc_ok_shape s id nodes types res h with e | ⟨r, target, t, hr, hsub, hreqs, hnodes⟩
  · rw [e]
    refine ⟨?_, ?_, hp⟩
    · intro q hq; rw [zoneIn_of_mem s hnd q hq]; exact msub_refl _
    · intro q hq _ _; exact (zoneIn_of_mem s hnd q hq).symm
  · have hrm : r ∈ s.reqs := List.mem_of_find?_eq_some hr
    have hrid : r.id = id := by have := List.find?_some hr; simpa using this
    subst hrid
    have hb0 : IdsNodup s.startJournal := hnd
    -- the state after the first move is tracked
    have hcases : ∀ q' ∈ (s.startJournal.zoneMove target r.id).reqs,
        (q' ∈ s.reqs ∧ q'.id ≠ r.id) ∨ q' = { r with zone := target } := by
      intro q' hq'
      exact zoneMove_reqs_mem s.startJournal hb0 r hrm target q' hq'
    have hnm : (s.startJournal.zoneMove target r.id).normalMask = s.normalMask :=
      normalMask_of_nodes _ _ (by rw [zoneMove_nodes]; rfl)
    have ht0 : Track s r.id (s.startJournal.zoneMove target r.id) := by
      refine ⟨?_, ?_, ?_, ?_⟩
      · intro q' hq'
        rcases hcases q' hq' with ⟨hq, _⟩ | e
        · rw [zoneIn_of_mem s hnd q' hq]; exact msub_refl _
        · subst e
          show msub (zoneIn s r.id) target = true
          rw [zoneIn_of_mem s hnd r hrm]; exact hsub
      · intro q' hq' _ hne
        rcases hcases q' hq' with ⟨hq, _⟩ | e
        · exact (zoneIn_of_mem s hnd q' hq).symm
        · subst e; exact absurd rfl hne
      · intro q' hq'
        rw [hnm]
        rcases hcases q' hq' with ⟨hq, _⟩ | e
        · exact hp q' hq
        · subst e; exact and_ne_zero_of_msub hsub (hp r hrm)
      · rw [zoneMove_nodes]; rfl
    have hnd1 : IdsNodup (s.startJournal.zoneMove target r.id) := by
      unfold IdsNodup; rw [zoneMove_ids]; exact hnd
    obtain ⟨_, ht⟩ := handleOvercommit_track s r.id _ target hnd1 ht0
    refine ⟨?_, ?_, ?_⟩
    · intro q hq
      rw [hreqs] at hq
      obtain ⟨q0, hq0, e⟩ := List.mem_map.1 hq
      rw [← e, addTypes_id, addTypes_zone]
      exact ht.mono q0 hq0
    · intro q hq hpr hne
      rw [hreqs] at hq
      obtain ⟨q0, hq0, e⟩ := List.mem_map.1 hq
      rw [← e, addTypes_id, addTypes_zone]
      rw [← e, addTypes_prio] at hpr
      rw [← e, addTypes_id] at hne
      exact ht.resv q0 hq0 hpr hne
    · intro q hq
      rw [hreqs] at hq
      obtain ⟨q0, hq0, e⟩ := List.mem_map.1 hq
      rw [← e, addTypes_zone, normalMask_of_nodes _ _ hnodes]
      exact ht.normal q0 hq0

/-! ### the node list is static -/

theorem allocate_nodes (s : St) (hw : WF s) (r : Req) : (s.allocate r).1.nodes = s.nodes := by
  unfold St.allocate
  cases hv : s.validateRequest r with
  | error e => simp
  | ok t1 =>
    simp only []
    cases hf : s.findInitialZone { r with types := t1 } with
    | error e => simp
    | ok z1 =>
      simp only []
      cases hn : s.ensureNormalMemory { r with types := t1, zone := z1 } with
      | error e => simp
      | ok zt =>
        obtain ⟨z2, t2⟩ := zt
        simp only []
        have hnone := validateRequest_spec s r t1 hv
        have hzn := ensureNormalMemory_zone s _ z2 t2 hn
        have hz : z2 ≠ 0 := and_ne_zero_left hzn
        let r3 : Req := { r with types := t2, zone := z2 }
        have hnone3 : s.req? r3.id = none := hnone
        have hgood := allocate_body_good s hw r3 hnone3 z2 hz
        cases hh : (({ s.startJournal with reqs := s.startJournal.reqs ++ [{ r3 with zone := 0 }] } : St).zoneAssign z2 r3.id).handleOvercommit z2 with
        | mk s2 oe =>
          rw [hh] at hgood
          cases oe with
          | none => simp only []; exact hgood.nodes
          | some e =>
            simp only []
            have := revert_restores_drop (withNew s r3) s2 hgood (withNew_ids_nodup s hw r3 hnone3) r3.id
            exact this.2.2.2.2.1

theorem Allocate_nodes (s : St) (hw : WF s) (r : Req) : (s.Allocate r).1.nodes = s.nodes := by
  have := allocate_nodes s hw r
  unfold St.Allocate
  cases ha : s.allocate r with
  | mk s' res =>
    rw [ha] at this
    cases res with
    | error e => exact this
    | ok r' =>
      simp only [St.cleanupUnusedZones, St.commitJournal]
      split <;> exact this

theorem Release_nodes (s : St) (id : String) : (s.Release id).1.nodes = s.nodes := by
  unfold St.Release
  split
  · rfl
  · simp only []
    split
    · rfl
    · simp only [St.cleanupUnusedZones]
      exact zoneRemove_nodes _ _ _

theorem Realloc_nodes (s : St) (hw : WF s) (id : String) (nodes : Mask) (types : Nat) :
    (s.Realloc id nodes types).1.nodes = s.nodes := by
  unfold St.Realloc
  cases hr : s.req? id with
  | none => rfl
  | some r =>
    simp only []
    cases hv : s.validateRealloc r nodes types with
    | error e' => rfl
    | ok v =>
      obtain ⟨n1, t1, fl⟩ := v
      cases fl with
      | true => rfl
      | false =>
        simp only []
        have hg0 : Good s s.startJournal := good_start s hw.journal hw.ids
        cases hx : s.startJournal.expand (r.zone ||| n1) t1 with
        | mk newNodes newTypes =>
          simp only []
          by_cases hz : (newNodes == 0) = true
          · simp only [hz, if_true]
            exact (revert_restores s _ hg0 hw.ids).2.2.2.2
          · simp only [hz, Bool.false_eq_true, if_false]
            have hne : r.zone ||| n1 ||| newNodes ≠ 0 := by
              intro hh
              have := (Nat.or_eq_zero_iff.1 hh).2
              simp [this] at hz
            have hg1 := zoneMove_good s _ hg0 (r.zone ||| n1 ||| newNodes) hne id
            have hg2 := handleOvercommit_good s _ hg1 (r.zone ||| n1 ||| newNodes)
            cases ho : (s.startJournal.zoneMove (r.zone ||| n1 ||| newNodes) id).handleOvercommit (r.zone ||| n1 ||| newNodes) with
            | mk s3 oe =>
              rw [ho] at hg2
              cases oe with
              | some e' =>
                simp only []
                exact (revert_restores s s3 hg2 hw.ids).2.2.2.2
              | none =>
                simp only [St.cleanupUnusedZones, St.commitJournal]
                split <;> exact hg2.nodes

theorem GetOffer_nodes (s : St) (hw : WF s) (r : Req) : (s.GetOffer r).1.nodes = s.nodes := by
  have hn := allocate_nodes s hw r
  have hs := allocate_spec s hw r
  unfold St.GetOffer
  cases ha : s.allocate r with
  | mk s' res =>
    rw [ha] at hn hs
    cases res with
    | error e => exact hn
    | ok r' =>
      obtain ⟨hg, hnone, _⟩ := hs.2 r' rfl
      have := revert_restores_drop (withNew s r') s' hg (withNew_ids_nodup s hw r' hnone) r'.id
      simp only []
      cases hrv : s'.revertJournal (some r'.id) with
      | mk s'' rest =>
        obtain ⟨ups, oe⟩ := rest
        rw [hrv] at this
        cases oe with
        | some e => simp only [St.cleanupUnusedZones]; exact this.2.2.2.2.1
        | none => simp only [St.cleanupUnusedZones]; exact this.2.2.2.2.1

end Nri.LibMem
