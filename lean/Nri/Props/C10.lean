import Nri.Model.SaveFs
import Nri.Gen.SaveFacts
/-!
C10 — crash atomicity of Save, refusal of unsafe cache files/directories.

Proved for every previous file-system state (any snapshot file, ANY leftover temporary file),
every new snapshot and every crash point (system-call boundary and byte offset of the write):
the snapshot file is the previous one or the complete new one (`save_atomic`); a completed
save installs exactly the new snapshot and leaves no temporary file (`save_complete`); over
any history of completed and crashed saves the snapshot file is the data of the last completed
save, or the initial file if none completed (`history_last_completed`).  The O_TRUNC flag is
necessary: without it a longer leftover temporary file corrupts the next snapshot
(`no_trunc_refuted`).  `checkPerm` refuses symbolic links, wrong file types and group/other
writable entries (`perm_*`).

The round trip Restore(Snapshot(c)) = c goes through encoding/json and is checked by the
correspondence run on generated cache contents (every public getter), not proved.
-/
namespace Nri.SaveFs

/-- the regenerated facts about the code are the ones the model assumes -/
theorem gen_save_facts_ok :
    Nri.Gen.Save.saveCalls = ["cch.Snapshot()", "os.WriteFile(tmpPath, data, cacheFilePerm.prefer)", "os.Rename(tmpPath, cch.filePath)"] ∧
    Nri.Gen.Save.tmpPathDef = "cch.filePath + \".saving\"" ∧
    Nri.Gen.Save.otherFileWrites = [] ∧
    Nri.Gen.Save.checkPermSteps = ["os.Lstat(path)", "symlink", "isDir:!info.IsDir()", "file:info.Mode()&os.ModeType != 0", "existing&rejected != 0"] ∧
    Nri.Gen.Save.rejectMasks = [18, 18, 18, 18] ∧
    Nri.Gen.Save.newCacheChecks = ["checkPerm(cch.filePath,false,cacheFilePerm)", "mkdirAll(options.CacheDir,cacheDirPerm)", "mkdirAll(cch.dataDir,dataDirPerm)", "Load()"] := by
  decide

theorem run_saveProg (fs : Fs) (data : Bytes) : run fs (saveProg data) = { cache := some data, tmp := none } := by
  simp [run, saveProg, exec, overwrite]

/-- a completed save installs exactly the new snapshot, whatever was there before -/
theorem save_complete (fs : Fs) (data : Bytes) :
    (run fs (saveProg data)).cache = some data ∧ (run fs (saveProg data)).tmp = none := by
  rw [run_saveProg]; exact ⟨rfl, rfl⟩

/-- **Crash atomicity.** Whatever the previous snapshot file and whatever leftover temporary
file exist, and wherever the save is interrupted, the snapshot file is the previous one or the
complete new one. -/
theorem save_atomic (fs : Fs) (data : Bytes) (n k : Nat) :
    (crashed fs data n k).cache = fs.cache ∨ (crashed fs data n k).cache = some data := by
  match n with
  | 0 => left; rfl
  | 1 => left; simp [crashed, run, exec]
  | 2 => left; simp [crashed, run, exec]
  | 3 => left; simp [crashed, run, exec]
  | n+4 => right; simp only [crashed]; exact (save_complete fs data).1

/-- a crash before the rename leaves the snapshot file untouched; from the rename on it is the new one -/
theorem crash_cache (fs : Fs) (data : Bytes) (n k : Nat) :
    (crashed fs data n k).cache = if n ≥ 4 then some data else fs.cache := by
  match n with
  | 0 => rfl
  | 1 => simp [crashed, run, exec]
  | 2 => simp [crashed, run, exec]
  | 3 => simp [crashed, run, exec]
  | n+4 => simp only [crashed]; simp [run_saveProg]

theorem stepSave_cache (fs : Fs) (o : SaveOp) :
    (stepSave fs o).cache = if o.completed then some o.data else fs.cache := by
  unfold stepSave SaveOp.completed
  cases h : o.crash with
  | none => simp [run_saveProg]
  | some nk =>
    obtain ⟨n, k⟩ := nk
    simp only [crash_cache]
    by_cases hn : n ≥ 4 <;> simp [hn]

/-- the data of the last completed save of a history, if any -/
def lastCompleted (init : Option Bytes) : List SaveOp → Option Bytes
  | [] => init
  | o :: os => lastCompleted (if o.completed then some o.data else init) os

/-- **Histories.** After any sequence of completed and interrupted saves - each interrupted at an
arbitrary point, with arbitrary leftovers - the snapshot file holds exactly the data of the last
completed save (or is the initial file if none completed): always a complete snapshot. -/
theorem history_last_completed (ops : List SaveOp) : ∀ (fs : Fs),
    (ops.foldl stepSave fs).cache = lastCompleted fs.cache ops := by
  induction ops with
  | nil => intro fs; rfl
  | cons o os ih =>
    intro fs
    simp only [List.foldl_cons, lastCompleted]
    rw [ih, stepSave_cache]

/-- hence the file is always one of the complete snapshots ever handed to Save, or the initial file -/
theorem history_complete_snapshot (ops : List SaveOp) (fs : Fs) :
    (ops.foldl stepSave fs).cache = fs.cache ∨ ∃ o ∈ ops, (ops.foldl stepSave fs).cache = some o.data := by
  rw [history_last_completed]
  induction ops generalizing fs with
  | nil => left; rfl
  | cons o os ih =>
    simp only [lastCompleted]
    by_cases hc : o.completed = true
    · simp only [hc, if_true]
      rcases ih { fs with cache := some o.data } with h | ⟨o', ho', h⟩
      · right; exact ⟨o, List.mem_cons_self, h⟩
      · right; exact ⟨o', List.mem_cons_of_mem _ ho', h⟩
    · simp only [hc]
      rcases ih fs with h | ⟨o', ho', h⟩
      · left; exact h
      · right; exact ⟨o', List.mem_cons_of_mem _ ho', h⟩

/-- O_TRUNC matters: the same program without it lets a longer leftover temporary file leak its
tail into the snapshot (this is not the code's behaviour; the regenerated `saveCalls` pins
`os.WriteFile`, which truncates) -/
theorem no_trunc_refuted :
    ∃ (fs : Fs) (data : Bytes), (run fs [.openNoTrunc, .write data, .close, .rename]).cache ≠ some data :=
  ⟨⟨none, some [1, 2, 3, 4]⟩, [9], by decide⟩

/-! ### permissions -/

theorem perm_symlink_refused (isDir : Bool) (mode reject : Nat) : checkPerm isDir .symlink mode reject = .refuse := rfl

theorem perm_wrong_type_refused (mode reject : Nat) :
    checkPerm true .regular mode reject = .refuse ∧ checkPerm false .dir mode reject = .refuse ∧
    checkPerm true .other mode reject = .refuse ∧ checkPerm false .other mode reject = .refuse := ⟨rfl, rfl, rfl, rfl⟩

/-- an entry with any rejected permission bit is refused -/
theorem perm_rejected_bits_refused (isDir : Bool) (kind : Kind) (mode reject : Nat) (hk : kind ≠ .absent)
    (hb : mode &&& reject ≠ 0) : checkPerm isDir kind mode reject = .refuse := by
  cases kind <;> cases isDir <;> simp_all [checkPerm]

/-- acceptance means: right type, not a symlink, none of the rejected bits -/
theorem perm_accept_iff (isDir : Bool) (kind : Kind) (mode reject : Nat) :
    checkPerm isDir kind mode reject = .accept ↔
      (kind = (if isDir then .dir else .regular)) ∧ mode &&& reject = 0 := by
  cases kind <;> cases isDir <;> simp [checkPerm]

/-- with the code's reject mask 0o022 (regenerated), group- or other-writable is refused -/
theorem group_other_writable_refused (isDir : Bool) (kind : Kind) (mode : Nat) (hk : kind ≠ .absent)
    (hw : mode &&& 0o022 ≠ 0) : checkPerm isDir kind mode 18 = .refuse :=
  perm_rejected_bits_refused isDir kind mode 18 hk hw

-- non-vacuity
example : (crashed ⟨some [1], some [7, 7, 7]⟩ [2, 3] 1 1).cache = some [1] ∧ (crashed ⟨some [1], some [7, 7, 7]⟩ [2, 3] 1 1).tmp = some [2] := by decide
example : checkPerm false .regular 0o644 18 = .accept ∧ checkPerm false .regular 0o664 18 = .refuse := by decide

end Nri.SaveFs
