import Nri.Model.Pipeline
import Nri.Proofs.PipeLife
import Nri.Gen.PipeLifeFacts
import Nri.Gen.PipeFacts
/-!
C05 — every resource decision reaches the runtime: runtime view equals cache view.
For EVERY policy behaviour (any list of writes to any containers, including buggy policies).
-/
namespace Nri.Pipe

theorem gen_pipe_facts_ok :
    Nri.Gen.Pipe.settersMarkPending = true ∧
    Nri.Gen.Pipe.flushedOnSuccess = ["CreateContainer", "StopContainer", "Synchronize", "UpdateContainer", "updateContainers"] ∧
    Nri.Gen.Pipe.createSkipsSelfInUpdates = true := by decide

theorem applyWrite_inv (s : St) (w : Write) (h : Inv s) : Inv (applyWrite s w) := by
  intro c hc
  simp only [applyWrite, List.mem_map] at hc
  obtain ⟨c0, hc0, rfl⟩ := hc
  have h0 := h c0 hc0
  split
  · intro i
    simp only []
    by_cases hi : (i == w.field) = true
    · simp [hi]
    · simp only [hi]
      exact h0 i
  · exact h0

theorem applyWrites_inv (ws : List Write) : ∀ s, Inv s → Inv (applyWrites s ws) := by
  induction ws with
  | nil => intro s h; exact h
  | cons w ws ih => intro s h; exact ih _ (applyWrite_inv s w h)

theorem flushCtr_spec (c : Ctr) (h : CtrInv c) :
    (∀ i, (flushCtr c).told i = (flushCtr c).cache i) ∧ (∀ i, (flushCtr c).pend i = none) ∧ CtrInv (flushCtr c) := by
  have h1 : ∀ i, (flushCtr c).told i = (flushCtr c).cache i := by
    intro i
    simp only [flushCtr]
    cases hp : c.pend i with
    | none => exact (h i).1 hp
    | some v => exact ((h i).2 v hp).symm
  refine ⟨h1, fun _ => rfl, ?_⟩
  intro i
  exact ⟨fun _ => h1 i, fun v hv => by simp [flushCtr] at hv⟩

/-- **Views agree after every successful reply, nothing stays pending** - whatever the policy
wrote, to whichever containers. -/
theorem views_agree (s : St) (ws : List Write) (h : Inv s) :
    (∀ c ∈ handle s ws true, (∀ i, c.told i = c.cache i) ∧ (∀ i, c.pend i = none)) ∧ Inv (handle s ws true) := by
  have hi := applyWrites_inv ws s h
  simp only [handle, if_true, flushAll]
  constructor
  · intro c hc
    simp only [List.mem_map] at hc
    obtain ⟨c0, hc0, rfl⟩ := hc
    have := flushCtr_spec c0 (hi c0 hc0)
    exact ⟨this.1, this.2.1⟩
  · intro c hc
    simp only [List.mem_map] at hc
    obtain ⟨c0, hc0, rfl⟩ := hc
    exact (flushCtr_spec c0 (hi c0 hc0)).2.2

/-- the invariant also survives error replies (so the next successful reply delivers
everything) … -/
theorem inv_after_error (s : St) (ws : List Write) (h : Inv s) : Inv (handle s ws false) := by
  simp only [handle]
  exact applyWrites_inv ws s h

/-- … but an error reply can leave a change pending: the property's "no change stays pending
after the reply" is FALSE for error replies (known finding `C05:pending-after-error-reply`). -/
theorem pending_after_error_refuted :
    let c : Ctr := ⟨"c", true, fun _ => "a", fun _ => "a", fun _ => none⟩
    ∃ c' ∈ handle [c] [⟨"c", 0, "b"⟩] false, c'.pend 0 = some "b" ∧ c'.told 0 ≠ c'.cache 0 := by
  refine ⟨_, List.mem_cons_self, ?_, ?_⟩ <;> simp [applyWrite]

/-- re-writing the value the cache already records and delivering it changes nothing at the
runtime (re-applied unchanged configuration, C13) -/
theorem rewrite_same_idempotent (c : Ctr) (h : CtrInv c) (hp : ∀ i, c.pend i = none) (f : Nat) :
    let c' := flushCtr { c with cache := fun i => if i == f then c.cache f else c.cache i,
                                pend := fun i => if i == f then some (c.cache f) else c.pend i }
    ∀ i, c'.told i = c.told i := by
  intro c' i
  simp only [c', flushCtr]
  by_cases hi : (i == f) = true
  · have : i = f := by simpa using hi
    subst this
    simp only [beq_self_eq_true, if_true]
    exact ((h i).1 (hp i)).symm
  · simp only [hi]
    rw [hp i]
    simp

end Nri.Pipe

/-!
## Request-level model with the container life cycle (`Nri.PipeLife`)

`Model/PipeLife.lean` follows `nri.go` handler by handler: the kind of a pending request is fixed by
the container's state when it is first written (adjustment iff `creating`), `GetPendingUpdate` drops
a request of the wrong kind, `getPendingUpdates` skips the container named by the request and keeps
the mark of a container it got nothing from, CreateContainer/StopContainer change the state before
collecting.  The theorems hold for EVERY policy behaviour (arbitrary writes), every mixture of
successful and refused requests, every event order the runtime can produce (`WfEv`: it starts only
containers whose creation succeeded).
-/
namespace Nri.PipeLife

/-- every state reachable from the empty cache satisfies the pipeline invariant (ids unique; what the
runtime has plus what is pending is what the cache records; every pending request is marked; only a
container being created waits for an adjustment) -/
theorem life_invariant {s : St} (h : Reach s) : Inv s := reach_inv h

/-- **runtime view = cache view, nothing pending.** In every reachable state - whatever was left
pending by earlier refused requests - a successful CreateContainer, UpdateContainer, StopContainer
(of a known container), Synchronize or configuration push leaves every created/running container with
the runtime's view equal to the cache's and no pending change. -/
theorem life_views_agree {s : St} (h : Reach s) (e : Ev)
    (hf : match e with
      | .create _ _ _ _ ok => ok = true
      | .update _ ok => ok = true
      | .push _ ok => ok = true
      | .stop id _ ok => ok = true ∧ s.any (fun c => c.id = id) = true
      | _ => False) :
    ∀ c ∈ (step s e).1, isLive c.state = true → c.req = none ∧ ∀ i, c.told i = c.cache i :=
  flush_establishes_clean s e (reach_inv h) hf

/-- the requests that do not collect updates (StartContainer, RemoveContainer, StopContainer of an
unknown container) keep it that way -/
theorem life_views_stay_agreed {s : St} (h : Reach s) (e : Ev) (hw : WfEv s e)
    (hc : ∀ c ∈ s, isLive c.state = true → Clean c) (adj : Option Fields) (ups : List Msg)
    (hr : (step s e).2 = .ok adj ups) : ∀ c ∈ (step s e).1, isLive c.state = true → Clean c :=
  clean_step s e (reach_inv h) hw hc adj ups hr

/-- **at most one update per container** in every reply -/
theorem life_one_update_per_container {s : St} (h : Reach s) (e : Ev) (adj : Option Fields) (ups : List Msg)
    (hr : (step s e).2 = .ok adj ups) : (ups.map (·.id)).Nodup :=
  step_updates_nodup s e (reach_inv h) adj ups hr

/-- **the adjustment describes only the container being created**: whatever the policy wrote to other
containers travels as updates, and no update of the CreateContainer reply addresses the created one -/
theorem life_adjust_only_self (s : St) (id : String) (init : Nat → String) (old : Option String) (ws : List Write) (ok : Bool)
    (adj : Option Fields) (ups : List Msg) (hr : (step s (.create id init old ws ok)).2 = .ok adj ups) :
    ∀ m ∈ ups, m.id ≠ id := create_updates_skip_self s id init old ws ok adj ups hr

/-- with a policy that writes only to live containers (and not to the one being stopped) and no
refused request, every state keeps: invariant, all live containers clean, no stopped or failed
container with an update waiting -/
theorem life_good_history {s : St} (h : GoodReach s) : Inv s ∧ (∀ c ∈ s, isLive c.state = true → Clean c) ∧ DeadQuiet s :=
  good_reach h

/-- **no update addresses a container the runtime has stopped or removed** (same hypotheses): every
update of every reply names a container that is in the cache and created/running after the request -/
theorem life_no_update_to_dead {s : St} (h : GoodReach s) (e : Ev) (hw : WfEv s e) (hg : GoodEv s e)
    (adj : Option Fields) (ups : List Msg) (hr : (step s e).2 = .ok adj ups) :
    ∀ m ∈ ups, ∃ c ∈ (step s e).1, c.id = m.id ∧ isLive c.state = true :=
  (good_step s e (good_reach h).1 (good_reach h).2.1 (good_reach h).2.2 hw hg).2 adj ups hr

/-- the hypothesis is needed: a request refused after the policy wrote leaves the change pending, and if
the container stops meanwhile the next collecting request addresses the stopped container (the
consequence of known finding `C05:pending-after-error-reply`) -/
theorem life_update_to_dead_after_error :
    let s1 := (step [] (.create "a" (fun _ => "0") none [] true)).1
    let s2 := (step s1 (.update [⟨"a", 0, "1"⟩] false)).1        -- refused after the write
    let s3 := (step s2 (.stop "a" [] true)).1                      -- the container stops (skipped)
    (step s3 (.push [] true)).2.upIds = some ["a"] ∧ s3.map (fun c => isDead c.state) = [true] := by
  decide

/-- non-vacuity: a concrete good history (create a, start a, create b while the policy re-pins a) reaches a
state in which `a` got exactly one update and both containers are clean -/
example :
    let s1 := (step [] (.create "a" (fun _ => "0") none [⟨"a", 0, "0-3"⟩] true))
    let s2 := (step s1.1 (.start "a"))
    let s3 := (step s2.1 (.create "b" (fun _ => "0") none [⟨"b", 0, "2-3"⟩, ⟨"a", 0, "0-1"⟩] true))
    s3.2.adjField 0 = some "2-3" ∧ s3.2.upIds = some ["a"] ∧
    s3.1.map (fun c => (c.id, c.told 0, c.cache 0, c.req.isNone)) = [("b", "2-3", "2-3", true), ("a", "0-1", "0-1", true)] := by
  and_intros <;> rfl

end Nri.PipeLife

/-! ### the source shapes the life-cycle model was written against (regenerated facts must equal them) -/
namespace Nri.PipeLife.Expect
def getPendingRequest : List String := ["if c.request == nil", "> if c.GetState() == ContainerStateCreating", "> > c.request = &nri.ContainerAdjustment{}", "> else", "> > c.request = &nri.ContainerUpdate{ ContainerId: c.GetID(), }", "return c.request"]
def getPendingAdjustmentC : List String := ["if c.request == nil", "> return nil", "req, ok := c.request.(*nri.ContainerAdjustment)", "if !ok", "> req = nil", "c.request = nil", "return req"]
def getPendingUpdateC : List String := ["if c.request == nil", "> return nil", "req, ok := c.request.(*nri.ContainerUpdate)", "if !ok", "> req = nil", "c.request = nil", "return req"]
def markPending : List String := ["if c.pending == nil", "> c.pending = make(map[string]struct{})", "range controllers", "> c.pending[ctrl] = struct{}{}", "> c.cache.markPending(c)"]
def clearPending : List String := ["delete(c.pending, controller)", "if len(c.pending) == 0", "> c.cache.clearPending(c)"]
def getPendingContainers : List String := ["pending := make([]Container, 0, len(cch.pending))", "range cch.pending", "> c, ok := cch.LookupContainer(id)", "> if ok", "> > pending = append(pending, c)", "return pending"]
def setterTable : List String := ["SetCPUShares: *nri.ContainerAdjustment=SetLinuxCPUShares *nri.ContainerUpdate=SetLinuxCPUShares mark cache=Cpu.Shares", "SetCPUQuota: *nri.ContainerAdjustment=SetLinuxCPUQuota *nri.ContainerUpdate=SetLinuxCPUQuota mark cache=Cpu.Quota", "SetCPUPeriod: *nri.ContainerAdjustment=SetLinuxCPUPeriod *nri.ContainerUpdate=SetLinuxCPUPeriod mark cache=Cpu.Period", "SetCpusetCpus: *nri.ContainerAdjustment=SetLinuxCPUSetCPUs *nri.ContainerUpdate=SetLinuxCPUSetCPUs mark cache=Cpu.Cpus", "SetCpusetMems: *nri.ContainerAdjustment=SetLinuxCPUSetMems *nri.ContainerUpdate=SetLinuxCPUSetMems mark cache=Cpu.Mems", "SetMemoryLimit: *nri.ContainerAdjustment=SetLinuxMemoryLimit *nri.ContainerUpdate=SetLinuxMemoryLimit mark cache=Memory.Limit", "SetMemorySwap: *nri.ContainerAdjustment=SetLinuxMemorySwap *nri.ContainerUpdate=SetLinuxMemorySwap mark cache=Memory.Swap"]
def hCreateContainer : List String := ["c, err := m.cache.InsertContainer(container, cache.WithContainerState(cache.ContainerStateCreating))", "if err != nil", "> return nil, nil, fmt.Errorf(…)", "if old, ok := p.unmapName(c.PrettyName()); ok", "> if err := m.policy.ReleaseResources(old); err != nil", "> old.UpdateState(cache.ContainerStateExited)", "if err := m.policy.AllocateResources(c); err != nil", "> c.UpdateState(cache.ContainerStateStale)", "> return nil, nil, fmt.Errorf(…)", "c.UpdateState(cache.ContainerStateCreated)", "if err := p.runPostAllocateHooks(event, c); err != nil", "> return nil, nil, fmt.Errorf(…)", "adjust = p.getPendingAdjustment(container)", "updates = p.getPendingUpdates(container)", "return adjust, updates, nil"]
def hRemoveContainer : List String := ["m.cache.DeleteContainer(container.Id)", "return nil"]
def hStartContainer : List String := ["c, ok := m.cache.LookupContainer(container.Id)", "if !ok", "> return nil", "c.UpdateState(cache.ContainerStateRunning)", "return nil"]
def hStopContainer : List String := ["c, ok := m.cache.LookupContainer(container.Id)", "if !ok", "> return nil, nil", "if err := m.policy.ReleaseResources(c); err != nil", "> return nil, fmt.Errorf(…)", "c.UpdateState(cache.ContainerStateExited)", "return p.getPendingUpdates(container), nil"]
def hSynchronize : List String := ["allocated, released, err := p.syncWithNRI(pods, containers)", "if err != nil", "> return nil, err", "if err := m.policy.Sync(allocated, append(released, unmapped...)); err != nil", "> return nil, fmt.Errorf(…)", "return p.getPendingUpdates(nil), nil"]
def hUpdateContainer : List String := ["c, ok := m.cache.LookupContainer(container.Id)", "if !ok", "> return nil, nil", "if realUpdates := c.SetResourceUpdates(res); !realUpdates", "> if v := c.GetCPUShares(); v != 0", "> > c.SetCPUShares(v)", "> if v := c.GetCPUQuota(); v != 0", "> > c.SetCPUQuota(v)", "> if v := c.GetCPUPeriod(); v != 0", "> > c.SetCPUPeriod(v)", "> if v := c.GetCpusetCpus(); v != \"\"", "> > c.SetCpusetCpus(v)", "> if v := c.GetCpusetMems(); v != \"\"", "> > c.SetCpusetMems(v)", "> if v := c.GetMemoryLimit(); v != 0", "> > c.SetMemoryLimit(v)", "> if v := c.GetMemorySwap(); v != 0", "> > c.SetMemorySwap(v)", "else", "> if err := m.policy.UpdateResources(c); err != nil", "> > return nil, fmt.Errorf(…)", "return p.getPendingUpdates(nil), nil"]
def hgetPendingAdjustment : List String := ["if c, ok := p.resmgr.cache.LookupContainer(container.GetId()); ok", "> adjust := c.GetPendingAdjustment()", "> range c.GetPending()", "> > c.ClearPending(ctrl)", "> return adjust", "return nil"]
def hgetPendingUpdates : List String := ["range m.cache.GetPendingContainers()", "> if skip != nil && skip.GetId() == c.GetID()", "> > continue", "> if u := c.GetPendingUpdate(); u != nil", "> > updates = append(updates, u)", "> > range c.GetPending()", "> > > c.ClearPending(ctrl)", "return updates"]
def hupdateContainers : List String := ["updates := p.getPendingUpdates(nil)", "event := UpdateContainers", "_, err := p.stub.UpdateContainers(updates)", "if err != nil", "> return fmt.Errorf(…)", "return nil"]
end Nri.PipeLife.Expect

namespace Nri.PipeLife

/-- the regenerated statement skeletons of the pipeline code are the ones the model follows:
kind of a new request by state; hand-out drops the request in either case; `getPendingUpdates` skips the
named container and clears the mark only after an update came out; `getPendingAdjustment` clears it always;
per setter the same field in adjustment, update and cache; the order of state changes, policy calls and
collection in every handler -/
theorem gen_pipelife_facts_ok :
    Nri.Gen.PipeLife.getPendingRequest = Expect.getPendingRequest ∧
    Nri.Gen.PipeLife.getPendingAdjustmentC = Expect.getPendingAdjustmentC ∧
    Nri.Gen.PipeLife.getPendingUpdateC = Expect.getPendingUpdateC ∧
    Nri.Gen.PipeLife.markPending = Expect.markPending ∧
    Nri.Gen.PipeLife.clearPending = Expect.clearPending ∧
    Nri.Gen.PipeLife.getPendingContainers = Expect.getPendingContainers ∧
    Nri.Gen.PipeLife.setterTable = Expect.setterTable ∧
    Nri.Gen.PipeLife.hCreateContainer = Expect.hCreateContainer ∧
    Nri.Gen.PipeLife.hRemoveContainer = Expect.hRemoveContainer ∧
    Nri.Gen.PipeLife.hStartContainer = Expect.hStartContainer ∧
    Nri.Gen.PipeLife.hStopContainer = Expect.hStopContainer ∧
    Nri.Gen.PipeLife.hSynchronize = Expect.hSynchronize ∧
    Nri.Gen.PipeLife.hUpdateContainer = Expect.hUpdateContainer ∧
    Nri.Gen.PipeLife.hgetPendingAdjustment = Expect.hgetPendingAdjustment ∧
    Nri.Gen.PipeLife.hgetPendingUpdates = Expect.hgetPendingUpdates ∧
    Nri.Gen.PipeLife.hupdateContainers = Expect.hupdateContainers := by
  and_intros <;> rfl

end Nri.PipeLife
