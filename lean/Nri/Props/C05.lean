import Nri.Model.Pipeline
import Nri.Gen.PipeFacts
/-!
C05 — every resource decision reaches the runtime: runtime view equals cache view.
For EVERY policy behaviour (any list of writes to any containers, including buggy policies).
-/
namespace Nri.Pipe

theorem gen_pipe_facts_ok :
    Nri.Gen.Pipe.settersMarkPending = true ∧
    Nri.Gen.Pipe.flushedOnSuccess = ["CreateContainer", "StopContainer", "Synchronize", "UpdateContainer", "updateContainers"] ∧
    Nri.Gen.Pipe.createSkipsSelfInUpdates = true := by decide

theorem applyWrite_inv (s : St) (w : Write) (h : Inv s) : Inv (applyWrite s w) := by
  intro c hc
  simp only [applyWrite, List.mem_map] at hc
  obtain ⟨c0, hc0, rfl⟩ := hc
  have h0 := h c0 hc0
  split
  · intro i
    simp only []
    by_cases hi : (i == w.field) = true
    · simp [hi]
    · simp only [hi]
      exact h0 i
  · exact h0

theorem applyWrites_inv (ws : List Write) : ∀ s, Inv s → Inv (applyWrites s ws) := by
  induction ws with
  | nil => intro s h; exact h
  | cons w ws ih => intro s h; exact ih _ (applyWrite_inv s w h)

theorem flushCtr_spec (c : Ctr) (h : CtrInv c) :
    (∀ i, (flushCtr c).told i = (flushCtr c).cache i) ∧ (∀ i, (flushCtr c).pend i = none) ∧ CtrInv (flushCtr c) := by
  have h1 : ∀ i, (flushCtr c).told i = (flushCtr c).cache i := by
    intro i
    simp only [flushCtr]
    cases hp : c.pend i with
    | none => exact (h i).1 hp
    | some v => exact ((h i).2 v hp).symm
  refine ⟨h1, fun _ => rfl, ?_⟩
  intro i
  exact ⟨fun _ => h1 i, fun v hv => by simp [flushCtr] at hv⟩

/-- **Views agree after every successful reply, nothing stays pending** - whatever the policy
wrote, to whichever containers. -/
theorem views_agree (s : St) (ws : List Write) (h : Inv s) :
    (∀ c ∈ handle s ws true, (∀ i, c.told i = c.cache i) ∧ (∀ i, c.pend i = none)) ∧ Inv (handle s ws true) := by
  have hi := applyWrites_inv ws s h
  simp only [handle, if_true, flushAll]
  constructor
  · intro c hc
    simp only [List.mem_map] at hc
    obtain ⟨c0, hc0, rfl⟩ := hc
    have := flushCtr_spec c0 (hi c0 hc0)
    exact ⟨this.1, this.2.1⟩
  · intro c hc
    simp only [List.mem_map] at hc
    obtain ⟨c0, hc0, rfl⟩ := hc
    exact (flushCtr_spec c0 (hi c0 hc0)).2.2

/-- the invariant also survives error replies (so the next successful reply delivers
everything) … -/
theorem inv_after_error (s : St) (ws : List Write) (h : Inv s) : Inv (handle s ws false) := by
  simp only [handle]
  exact applyWrites_inv ws s h

/-- … but an error reply can leave a change pending: the property's "no change stays pending
after the reply" is FALSE for error replies (known finding `C05:pending-after-error-reply`). -/
theorem pending_after_error_refuted :
    let c : Ctr := ⟨"c", true, fun _ => "a", fun _ => "a", fun _ => none⟩
    ∃ c' ∈ handle [c] [⟨"c", 0, "b"⟩] false, c'.pend 0 = some "b" ∧ c'.told 0 ≠ c'.cache 0 := by
  refine ⟨_, List.mem_cons_self, ?_, ?_⟩ <;> simp [applyWrite]

/-- re-writing the value the cache already records and delivering it changes nothing at the
runtime (re-applied unchanged configuration, C13) -/
theorem rewrite_same_idempotent (c : Ctr) (h : CtrInv c) (hp : ∀ i, c.pend i = none) (f : Nat) :
    let c' := flushCtr { c with cache := fun i => if i == f then c.cache f else c.cache i,
                                pend := fun i => if i == f then some (c.cache f) else c.pend i }
    ∀ i, c'.told i = c.told i := by
  intro c' i
  simp only [c', flushCtr]
  by_cases hi : (i == f) = true
  · have : i = f := by simpa using hi
    subst this
    simp only [beq_self_eq_true, if_true]
    exact ((h i).1 (hp i)).symm
  · simp only [hi]
    rw [hp i]
    simp

end Nri.Pipe
