import Nri.Model.TopoAware
import Nri.Proofs.TopoAware
import Nri.Gen.TAFacts
/-!
C01 — topology-aware: exclusively granted CPUs are exclusive to one container.

`exclusive_always`: for every well-formed pool tree, every history of allocations and releases
and every choice of pool and CPUs (the heuristics are oracle arguments of `alloc`), the CPUs
granted exclusively are pairwise disjoint between grants and are in no pool's free isolated or
free sharable set (clauses (a) and (c) of the property; the shared set every non-exclusive
container is pinned to is a pool's free sharable set, which yields (b) for containers whose
pinning is up to date).  Clauses (d),(e) (inside the available CPUs; reserved CPUs only to
reserved-class containers) and the runtime-side reading of (b) are evaluated on every snapshot
and every delivered message of the correspondence run (partial: not proved in Lean).
-/
namespace Nri.TA

theorem gen_ta_facts_ok :
    Nri.Gen.TA.accountAllocateWalk = ["DepthFirst", "Parent"] ∧
    Nri.Gen.TA.accountSkipsOwnNode = true ∧
    Nri.Gen.TA.releaseRestoresToOwnPool = true ∧
    Nri.Gen.TA.cloneKeepsPortion = true ∧
    Nri.Gen.TA.reserveAccountsReservedPortion = true := by decide

inductive Op where
  | alloc (ctr : String) (pool full fraction : Nat) (isolate : Bool) (ct : CpuType) (excl : List Nat)
  | release (ctr : String)

/-- one request against the accounting model; a refused allocation leaves the state unchanged -/
def stepOp (t : TA) : Op → TA
  | .alloc ctr i full fraction isolate ct excl =>
    match alloc t ctr i full fraction isolate ct excl with
    | .ok (t', g) => addGrant t' g
    | .error _ => t
  | .release ctr =>
    match t.grants.find? (·.ctr == ctr) with
    | some g => dropGrant (release t g) g.ctr
    | none => t

structure Inv (tree : List PoolT) (t : TA) : Prop where
  treeEq : t.tree = tree
  excl : ExclInv t
  fw : FreeWithinTot t
  gw : GrantWithin t

theorem inv_init (tree : List PoolT) : Inv tree (initTA tree) := by
  refine ⟨rfl, ⟨?_, ?_⟩, ?_, ?_⟩
  · intro g hg; cases hg
  · exact List.Pairwise.nil
  · intro j pt hpt
    have hpt' : tree[j]? = some pt := hpt
    simp only [initTA]
    rw [hpt']
    exact ⟨fun x hx => hx, fun x hx => hx⟩
  · intro g hg; cases hg

theorem inv_step (tree : List PoolT) (hwf : TreeWF tree) (t : TA) (op : Op) (h : Inv tree t) : Inv tree (stepOp t op) := by
  obtain ⟨hte, hex, hfw, hgw⟩ := h
  cases op with
  | alloc ctr i full fraction isolate ct excl =>
    simp only [stepOp]
    cases ha : alloc t ctr i full fraction isolate ct excl with
    | error e => exact ⟨hte, hex, hfw, hgw⟩
    | ok r =>
      obtain ⟨t', g⟩ := r
      have hwf' : TreeWF t.tree := by rw [hte]; exact hwf
      obtain ⟨h1, h2⟩ := alloc_preserves_exclusive t t' ctr i full fraction isolate ct excl g hwf' hfw hex ha
      obtain ⟨h3, h4⟩ := alloc_grant_within t t' ctr i full fraction isolate ct excl g hwf' hfw hgw ha
      exact ⟨by rw [h4, hte], h1, h2, h3⟩
  | release ctr =>
    simp only [stepOp]
    cases hf : t.grants.find? (·.ctr == ctr) with
    | none => exact ⟨hte, hex, hfw, hgw⟩
    | some g =>
      have hg : g ∈ t.grants := List.mem_of_find?_eq_some hf
      obtain ⟨h1, h2, h3⟩ := release_preserves_exclusive t g hg hfw hgw hex
      refine ⟨?_, h1, h2, h3⟩
      simp only [dropGrant]
      rw [(release_spec t g (hgw g hg)).1, hte]

/-- **C01 (a),(c), always.** -/
theorem exclusive_always (tree : List PoolT) (hwf : TreeWF tree) (ops : List Op) :
    ExclInv (ops.foldl stepOp (initTA tree)) := by
  have : ∀ (ops : List Op) (t : TA), Inv tree t → Inv tree (ops.foldl stepOp t) := by
    intro ops
    induction ops with
    | nil => intro t h; exact h
    | cons op ops ih => intro t h; exact ih _ (inv_step tree hwf t op h)
  exact (this ops _ (inv_init tree)).excl

/-- a container that is not pinned exclusively is pinned to its pool's free sharable set, so
no exclusively granted CPU is in it (clause (b) for up-to-date pinning). -/
theorem shared_pinning_avoids_exclusive (tree : List PoolT) (hwf : TreeWF tree) (ops : List Op) :
    let t := ops.foldl stepOp (initTA tree)
    ∀ g ∈ t.grants, ∀ j, j < t.tree.length → ∀ x, x ∈ g.exclusive → x ∉ (t.pools j).sharable :=
  fun g hg j hj x hx => ((exclusive_always tree hwf ops).notFree g hg j hj x hx).2

-- non-vacuity: a 2-socket tree with a virtual root is well-formed and allocations succeed on it
def exTree : List PoolT :=
  [⟨some 2, [], [0, 1, 2, 3], []⟩, ⟨some 2, [], [4, 5, 6], [7]⟩, ⟨none, [], [0, 1, 2, 3, 4, 5, 6], [7]⟩]

example : (match alloc (initTA exTree) "c1" 0 2 0 false .normal [0, 1] with
    | .ok (t', g) => g.exclusive == [0, 1] && (t'.pools 2).sharable == [2, 3, 4, 5, 6] && (t'.pools 0).sharable == [2, 3]
    | .error _ => false) = true := by decide

end Nri.TA
