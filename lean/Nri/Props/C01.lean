import Nri.Model.TopoAware
import Nri.Gen.TAPinFacts
import Nri.Proofs.TopoAware
import Nri.Gen.TAFacts
/-!
C01 — topology-aware: exclusively granted CPUs are exclusive to one container.

`exclusive_always`: for every well-formed pool tree, every history of allocations and releases
and every choice of pool and CPUs (the heuristics are oracle arguments of `alloc`), the CPUs
granted exclusively are pairwise disjoint between grants and are in no pool's free isolated or
free sharable set (clauses (a) and (c) of the property; the shared set every non-exclusive
container is pinned to is a pool's free sharable set, which yields (b) for containers whose
pinning is up to date).  Clauses (d),(e) (inside the available CPUs; reserved CPUs only to
reserved-class containers) and the runtime-side reading of (b) are evaluated on every snapshot
and every delivered message of the correspondence run (partial: not proved in Lean).
-/
namespace Nri.TA

theorem gen_ta_facts_ok :
    Nri.Gen.TA.accountAllocateWalk = ["DepthFirst", "Parent"] ∧
    Nri.Gen.TA.accountSkipsOwnNode = true ∧
    Nri.Gen.TA.releaseRestoresToOwnPool = true ∧
    Nri.Gen.TA.cloneKeepsPortion = true ∧
    Nri.Gen.TA.reserveAccountsReservedPortion = true := by decide

inductive Op where
  | alloc (ctr : String) (pool full fraction : Nat) (isolate : Bool) (ct : CpuType) (excl : List Nat)
  | release (ctr : String)

/-- one request against the accounting model; a refused allocation leaves the state unchanged -/
def stepOp (t : TA) : Op → TA
  | .alloc ctr i full fraction isolate ct excl =>
    match alloc t ctr i full fraction isolate ct excl with
    | .ok (t', g) => addGrant t' g
    | .error _ => t
  | .release ctr =>
    match t.grants.find? (·.ctr == ctr) with
    | some g => dropGrant (release t g) g.ctr
    | none => t

structure Inv (tree : List PoolT) (t : TA) : Prop where
  treeEq : t.tree = tree
  excl : ExclInv t
  fw : FreeWithinTot t
  gw : GrantWithin t

theorem inv_init (tree : List PoolT) : Inv tree (initTA tree) := by
  refine ⟨rfl, ⟨?_, ?_⟩, ?_, ?_⟩
  · intro g hg; cases hg
  · exact List.Pairwise.nil
  · intro j pt hpt
    have hpt' : tree[j]? = some pt := hpt
    simp only [initTA]
    rw [hpt']
    exact ⟨fun x hx => hx, fun x hx => hx⟩
  · intro g hg; cases hg

theorem inv_step (tree : List PoolT) (hwf : TreeWF tree) (t : TA) (op : Op) (h : Inv tree t) : Inv tree (stepOp t op) := by
  obtain ⟨hte, hex, hfw, hgw⟩ := h
  cases op with
  | alloc ctr i full fraction isolate ct excl =>
    simp only [stepOp]
    cases ha : alloc t ctr i full fraction isolate ct excl with
    | error e => exact ⟨hte, hex, hfw, hgw⟩
    | ok r =>
      obtain ⟨t', g⟩ := r
      have hwf' : TreeWF t.tree := by rw [hte]; exact hwf
      obtain ⟨h1, h2⟩ := alloc_preserves_exclusive t t' ctr i full fraction isolate ct excl g hwf' hfw hex ha
      obtain ⟨h3, h4⟩ := alloc_grant_within t t' ctr i full fraction isolate ct excl g hwf' hfw hgw ha
      exact ⟨by rw [h4, hte], h1, h2, h3⟩
  | release ctr =>
    simp only [stepOp]
    cases hf : t.grants.find? (·.ctr == ctr) with
    | none => exact ⟨hte, hex, hfw, hgw⟩
    | some g =>
      have hg : g ∈ t.grants := List.mem_of_find?_eq_some hf
      obtain ⟨h1, h2, h3⟩ := release_preserves_exclusive t g hg hfw hgw hex
      refine ⟨?_, h1, h2, h3⟩
      simp only [dropGrant]
      rw [(release_spec t g (hgw g hg)).1, hte]

/-- **C01 (a),(c), always.** -/
theorem exclusive_always (tree : List PoolT) (hwf : TreeWF tree) (ops : List Op) :
    ExclInv (ops.foldl stepOp (initTA tree)) := by
  have : ∀ (ops : List Op) (t : TA), Inv tree t → Inv tree (ops.foldl stepOp t) := by
    intro ops
    induction ops with
    | nil => intro t h; exact h
    | cons op ops ih => intro t h; exact ih _ (inv_step tree hwf t op h)
  exact (this ops _ (inv_init tree)).excl

/-- a container that is not pinned exclusively is pinned to its pool's free sharable set, so
no exclusively granted CPU is in it (clause (b) for up-to-date pinning). -/
theorem shared_pinning_avoids_exclusive (tree : List PoolT) (hwf : TreeWF tree) (ops : List Op) :
    let t := ops.foldl stepOp (initTA tree)
    ∀ g ∈ t.grants, ∀ j, j < t.tree.length → ∀ x, x ∈ g.exclusive → x ∉ (t.pools j).sharable :=
  fun g hg j hj x hx => ((exclusive_always tree hwf ops).notFree g hg j hj x hx).2

-- non-vacuity: a 2-socket tree with a virtual root is well-formed and allocations succeed on it
def exTree : List PoolT :=
  [⟨some 2, [], [0, 1, 2, 3], []⟩, ⟨some 2, [], [4, 5, 6], [7]⟩, ⟨none, [], [0, 1, 2, 3, 4, 5, 6], [7]⟩]

example : (match alloc (initTA exTree) "c1" 0 2 0 false .normal [0, 1] with
    | .ok (t', g) => g.exclusive == [0, 1] && (t'.pools 2).sharable == [2, 3, 4, 5, 6] && (t'.pools 0).sharable == [2, 3]
    | .error _ => false) = true := by decide

end Nri.TA

/-! ### clause (b): the cpuset told for a container avoids every other container's exclusive CPUs -/
namespace Nri.TA

theorem pairwise_sym_forall {α : Type} (R : α → α → Prop) (hs : ∀ a b, R a b → R b a) (l : List α)
    (h : l.Pairwise R) : ∀ a ∈ l, ∀ b ∈ l, a ≠ b → R a b := by
  induction l with
  | nil => intro a ha; cases ha
  | cons x xs ih =>
    rw [List.pairwise_cons] at h
    intro a ha b hb hab
    rcases List.mem_cons.mp ha with rfl | ha' <;> rcases List.mem_cons.mp hb with rfl | hb'
    · exact absurd rfl hab
    · exact h.1 b hb'
    · exact hs _ _ (h.1 a ha')
    · exact ih h.2 a ha' b hb' hab

/-- **C01 (b), for every reachable accounting state**: the cpuset that `applyGrant` /
`updateSharedAllocations` compute for a normal-class grant (its pool's free sharable set, its own
exclusive CPUs, or both) contains no CPU that is exclusively granted to another container -/
theorem pin_avoids_exclusive (tree : List PoolT) (hwf : TreeWF tree) (ops : List Op) :
    let t := ops.foldl stepOp (initTA tree)
    ∀ g ∈ t.grants, g.cpuType = .normal → g.pool < t.tree.length → ∀ w, pinOf t g = some w →
    ∀ g' ∈ t.grants, g' ≠ g → ∀ x, x ∈ w → x ∉ g'.exclusive := by
  intro t g hg hn hp w hw g' hg' hne x hx hx'
  have hinv := exclusive_always tree hwf ops
  have hdis := pairwise_sym_forall (fun (a b : Grant) => ∀ x, x ∈ a.exclusive → x ∉ b.exclusive)
    (fun a b h x hb ha => h x ha hb) _ hinv.disjoint g' hg' g hg hne
  have hfree := (hinv.notFree g' hg' g.pool hp x hx').2
  simp only [pinOf, hn] at hw
  split at hw
  · simp only [Option.some.injEq] at hw; subst hw; exact hfree hx
  · split at hw
    · simp only [Option.some.injEq] at hw; subst hw
      rcases (mem_uni _ _ _).mp hx with h | h
      · exact hdis x hx' h
      · exact hfree h
    · simp only [Option.some.injEq] at hw; subst hw
      exact hdis x hx' hx

/-- the grants `updateSharedAllocations` skips are exactly those whose pin does not depend on the pools'
free sets (reserved-class: the pool's reserved CPUs; purely exclusive: its own CPUs; preserve: none), so
skipping them never leaves a stale cpuset behind -/
theorem skipped_pin_is_stable (t t' : TA) (g : Grant) (htree : t.tree = t'.tree) (hs : refreshed g = false) :
    pinOf t g = pinOf t' g := by
  unfold refreshed at hs
  unfold pinOf
  cases hct : g.cpuType with
  | reserved => simp only [htree]
  | preserve => rfl
  | normal =>
    simp only [hct, beq_self_eq_true, Bool.true_and, Bool.not_eq_false', Bool.and_eq_true, beq_iff_eq,
      Bool.not_eq_true'] at hs
    have he : g.exclusive.isEmpty = false := by simpa using hs.2
    have hp : ¬ g.portion > 0 := by omega
    simp only [he, Bool.false_eq_true, if_false, hp]

-- non-vacuity: after a shared grant at socket #0 and an exclusive one at the root, the shared container's
-- pin is the socket's remaining sharable set and avoids the exclusive CPUs
example :
    let t := [Op.alloc "a" 0 0 500 false .normal [], Op.alloc "b" 2 2 0 false .normal [0, 1]].foldl stepOp (initTA exTree)
    t.grants.map (fun g => (g.ctr, pinOf t g)) = [("a", some [2, 3]), ("b", some [0, 1])] := by decide

end Nri.TA

/-! ### source shapes the model was written against (TAPinFacts.lean; the regenerated facts must equal them) -/
namespace Nri.TA.Expectgen_ta_pin_facts_ok
def applyGrantCpus : List String := ["exclusive := grant.ExclusiveCPUs()", "reserved := grant.ReservedCPUs()", "shared := grant.SharedCPUs()", "cpuPortion := grant.SharedPortion()", "cpus := cpuset.New()", "switch cpuType", "> case cpuNormal", "> > if exclusive.IsEmpty()", "> > > cpus = shared", "> > else", "> > > if cpuPortion > 0", "> > > > cpus = exclusive.Union(shared)", "> > > else", "> > > > cpus = exclusive", "> case cpuReserved", "> > cpus = reserved", "> > cpuPortion = grant.ReservedPortion()", "> default", "> > return", "if opt.PinCPU", "> if cpuType == cpuPreserve", "> else", "> > if cpus.Size() > 0", "> > > p.setPreferredCpusetCpus(container, cpus, fmt.Sprintf(…)", "> > else", "> > > container.SetCpusetCpus(\"\")"]
def updateShared : List String := ["if grant != nil", "> if (*grant).CPUType() == cpuReserved", "> > return", "else", "range p.allocations.grants", "> if grant != nil", "> > if other.GetContainer().GetID() == (*grant).GetContainer().GetID()", "> > > continue", "> if other.CPUType() == cpuReserved", "> > continue", "> if other.CPUType() == cpuPreserve", "> > continue", "> if other.SharedPortion() == 0 && !other.ExclusiveCPUs().IsEmpty()", "> > continue", "> if opt.PinCPU", "> > shared := other.GetCPUNode().FreeSupply().SharableCPUs()", "> > exclusive := other.ExclusiveCPUs()", "> > if exclusive.IsEmpty()", "> > > p.setPreferredCpusetCpus(other.GetContainer(), shared, fmt.Sprintf(…)", "> > else", "> > > p.setPreferredCpusetCpus(other.GetContainer(), exclusive.Union(shared), fmt.Sprintf(…)"]
def setPreferred : List String := ["allow := allocated", "if ok && hideHyperthreadsPreference(pod, container)", "> allow = p.sys.SingleThreadForCPUs(allocated)", "> if allow.Size() != allocated.Size()", "> > hidingInfo = fmt.Sprintf(…)", "> else", "container.SetCpusetCpus(allow.String())"]
def grantSharedCPUs : List String := ["return cg.node.FreeSupply().SharableCPUs()"]
def grantReservedCPUs : List String := ["return cg.node.GetSupply().ReservedCPUs()"]
def grantExclusiveCPUs : List String := ["return cg.exclusive"]
def grantSharedPortion : List String := ["if cg.cpuType == cpuNormal", "> return cg.cpuPortion", "return 0"]
end Nri.TA.Expectgen_ta_pin_facts_ok

namespace Nri.TA

/-- the regenerated skeletons of applyGrant's cpuset computation (by grant class), of updateSharedAllocations' skip rules and re-pinning, of setPreferredCpusetCpus and of the grant accessors are the ones pinOf / refreshed follow -/
theorem gen_ta_pin_facts_ok :
    Nri.Gen.TAPin.applyGrantCpus = Expectgen_ta_pin_facts_ok.applyGrantCpus ∧
    Nri.Gen.TAPin.updateShared = Expectgen_ta_pin_facts_ok.updateShared ∧
    Nri.Gen.TAPin.setPreferred = Expectgen_ta_pin_facts_ok.setPreferred ∧
    Nri.Gen.TAPin.grantSharedCPUs = Expectgen_ta_pin_facts_ok.grantSharedCPUs ∧
    Nri.Gen.TAPin.grantReservedCPUs = Expectgen_ta_pin_facts_ok.grantReservedCPUs ∧
    Nri.Gen.TAPin.grantExclusiveCPUs = Expectgen_ta_pin_facts_ok.grantExclusiveCPUs ∧
    Nri.Gen.TAPin.grantSharedPortion = Expectgen_ta_pin_facts_ok.grantSharedPortion := by
  and_intros <;> rfl

end Nri.TA
