import Nri.Model.Expr
import Nri.Gen.Operators
/-!
C19 — match expressions and balloon-type selection follow their documented semantics.
Every theorem holds for every glob function, every `path.Clean` behaviour, every subject.
-/
namespace Nri.Expr

/-- regenerated facts: operator names, the keys accepted by `validateKey`, the keys the two
`EvalKey`s resolve, and whether pod.EvalKey converts the QoS class to `string`. -/
theorem gen_operators_ok :
    Nri.Gen.Expr.operators = ["AlwaysTrue", "Equals", "Exists", "In", "Matches", "MatchesAny", "MatchesNone", "MatchesNot", "NotEqual", "NotExist", "NotIn"] ∧
    Nri.Gen.Expr.validatedScalarKeys = ["id", "uid", "name", "namespace", "qosclass"] ∧
    Nri.Gen.Expr.containerKeys = ["pod", "name", "namespace", "qosclass", "labels", "tags", "id"] ∧
    Nri.Gen.Expr.podKeys = ["name", "namespace", "qosclass", "labels", "id", "uid"] ∧
    Nri.Gen.Expr.podQosIsString = true ∧
    Nri.Gen.Expr.userWeightCutoff = 1000 := by decide

variable (q : Bool) (glob : String → String → Bool) (clean : String → String)

/-! ### the four operator pairs are exact negations of each other -/

theorem in_notIn (k : String) (vs : List String) (c : Ctr) :
    evaluate q glob clean ⟨k, .notIn, vs⟩ c = !evaluate q glob clean ⟨k, .in_, vs⟩ c := by
  simp [evaluate]

theorem matches_matchesNot (k : String) (vs : List String) (c : Ctr) :
    evaluate q glob clean ⟨k, .matchesNot, vs⟩ c = !evaluate q glob clean ⟨k, .matches, vs⟩ c := by
  simp [evaluate]

theorem matchesAny_matchesNone (k : String) (vs : List String) (c : Ctr) :
    evaluate q glob clean ⟨k, .matchesNone, vs⟩ c = !evaluate q glob clean ⟨k, .matchesAny, vs⟩ c := by
  simp [evaluate]

theorem exists_notExist (k : String) (vs : List String) (c : Ctr) :
    evaluate q glob clean ⟨k, .notExist, vs⟩ c = !evaluate q glob clean ⟨k, .exists_, vs⟩ c := by
  simp [evaluate]

/-! ### joint keys -/

/-- a joint key evaluates to its sub-key values joined by the value separator; unresolved sub
keys contribute the empty string but keep their slot; it "exists" iff some sub key resolves. -/
theorem joint_key_value (c : Ctr) (key : String) (k1 k2 : String) (ks : List String) (vsep : String)
    (h : splitKeys key = (k1 :: k2 :: ks, vsep)) :
    keyValue q clean c key =
      (vsep.intercalate ((k1 :: k2 :: ks).map fun k => match resolve q c (clean k) with | .found v => v | _ => ""),
       (k1 :: k2 :: ks).any fun k => match resolve q c (clean k) with | .found _ => true | _ => false) := by
  unfold keyValue
  rw [h]
  simp only [List.map_map, List.any_map]
  apply Prod.ext
  · simp only []
    congr 1
    apply List.map_congr_left
    intro k _
    simp only [Function.comp]
    cases resolve q c (clean k) <;> rfl
  · simp only []
    congr 1
    funext k
    simp only [Function.comp]
    cases resolve q c (clean k) <;> rfl

/-! ### weights -/

/-- the weight of every user-supplied affinity ends up in [-1000, 1000], also for the int32
corner `MinInt32` whose negation wraps. -/
theorem weight_clamped (w dflt : Int) : -1000 ≤ userWeight w dflt ∧ userWeight w dflt ≤ 1000 := by
  unfold userWeight
  simp only []
  split <;> (try split) <;> omega

/-! ### validated expressions at evaluation -/

/-- well-typed key grammar (as `/`-separated segments): what the two `EvalKey`s can resolve. -/
def wellTypedSegs (k : List String) : Bool :=
  k ∈ [["name"], ["namespace"], ["qosclass"], ["id"], ["pod", "name"], ["pod", "namespace"], ["pod", "qosclass"],
       ["pod", "id"], ["pod", "uid"]]

/-- **Partial.** For the scalar keys both subjects implement, a container whose pod exists never
produces a resolution *error* (with the repaired QoS conversion). Map keys (`labels/…`,
`tags/…`, `pod/labels/…`) resolve to found/absent by construction (`loopSegs` on a map). -/
theorem validated_never_fails_partial (c : Ctr) (p : Pod) (hp : c.pod = some p) (k : List String)
    (hk : wellTypedSegs k = true) : resolveSegs true c k ≠ .err ∧ validateSegs k = true := by
  unfold wellTypedSegs at hk
  simp only [List.mem_cons, List.mem_nil_iff, or_false, decide_eq_true_eq] at hk
  rcases hk with h | h | h | h | h | h | h | h | h <;> subst h <;>
    simp [resolveSegs, restEmpty, Ctr.evalKey, hp, loopSegs, Pod.evalKey, validateSegs]

theorem loopSegs_map_ne_err (q : Bool) (m : SMap) (segs : List String) : loopSegs q (.map m) segs ≠ .err := by
  unfold loopSegs
  split <;> simp

theorem map_keys_never_fail (c : Ctr) (p : Pod) (hp : c.pod = some p) (k : String) (ks : List String)
    (hk : restEmpty (k :: ks) = false) :
    resolveSegs true c ("labels" :: k :: ks) ≠ .err ∧ resolveSegs true c ("tags" :: k :: ks) ≠ .err ∧
    resolveSegs true c ("pod" :: "labels" :: k :: ks) ≠ .err := by
  refine ⟨?_, ?_, ?_⟩
  · simp only [resolveSegs, hk, Ctr.evalKey]
    exact loopSegs_map_ne_err _ _ _
  · simp only [resolveSegs, hk, Ctr.evalKey]
    exact loopSegs_map_ne_err _ _ _
  · have h2 : restEmpty ("labels" :: k :: ks) = false := by simp [restEmpty]
    simp only [resolveSegs, h2, Ctr.evalKey, hp]
    unfold loopSegs
    simp only [hk, Pod.evalKey]
    exact loopSegs_map_ne_err _ _ _

/-- The full statement "validated ⇒ never fails" is FALSE (known finding): `uid`, `pod/pod/name`
and `pod/tags/x` pass validation but cannot be resolved for a container. -/
theorem validated_never_fails_refuted :
    let p : Pod := ⟨"p", "ns", "Burstable", "pid", "puid", []⟩
    let c : Ctr := ⟨"c", "ns", "Burstable", "cid", [], [], some p⟩
    (validateSegs ["uid"] = true ∧ resolveSegs true c ["uid"] = .err) ∧
    (validateSegs ["pod", "pod", "name"] = true ∧ resolveSegs true c ["pod", "pod", "name"] = .err) ∧
    (validateSegs ["pod", "tags", "x"] = true ∧ resolveSegs true c ["pod", "tags", "x"] = .err) := by
  simp [validateSegs, restEmpty, resolveSegs, loopSegs, Ctr.evalKey, Pod.evalKey]

/-- before the repair `pod/qosclass` validated but always failed to resolve; with the QoS class
converted to a string it resolves. -/
theorem pod_qosclass_resolves (c : Ctr) (p : Pod) (hp : c.pod = some p) :
    resolveSegs false c ["pod", "qosclass"] = .err ∧ resolveSegs true c ["pod", "qosclass"] = .found p.qosclass := by
  constructor <;> simp [resolveSegs, restEmpty, Ctr.evalKey, hp, loopSegs, Pod.evalKey]

/-! ### balloon type selection -/

theorem choose_annotation (defs : List BalloonDef) (dflt n : String) (c : Ctr) :
    chooseBalloonDef q glob clean defs dflt (some n) c =
      if defs.any (·.name == n) then .def_ n else .error := rfl

def defMatches (d : BalloonDef) (c : Ctr) : Bool :=
  d.exprs.any (fun e => evaluate q glob clean e c) || d.namespaces.any (fun p => glob p c.ns)

/-- without an annotation the first type in configured order that matches wins … -/
theorem choose_first_match (pre post : List BalloonDef) (d : BalloonDef) (dflt : String) (c : Ctr)
    (hpre : ∀ x ∈ pre, defMatches q glob clean x c = false) (hd : defMatches q glob clean d c = true) :
    chooseBalloonDef q glob clean (pre ++ d :: post) dflt none c = .def_ d.name := by
  unfold chooseBalloonDef
  have : (pre ++ d :: post).find? (fun d => d.exprs.any (fun e => evaluate q glob clean e c) || d.namespaces.any (fun p => glob p c.ns)) = some d := by
    rw [List.find?_append]
    have : pre.find? (fun d => d.exprs.any (fun e => evaluate q glob clean e c) || d.namespaces.any (fun p => glob p c.ns)) = none := by
      apply List.find?_eq_none.2
      intro x hx
      have := hpre x hx
      unfold defMatches at this
      simp [this]
    rw [this]
    unfold defMatches at hd
    simp [List.find?_cons, hd]
  simp only [this]

/-- … and the default type otherwise. -/
theorem choose_default (defs : List BalloonDef) (dflt : String) (c : Ctr)
    (h : ∀ x ∈ defs, defMatches q glob clean x c = false) :
    chooseBalloonDef q glob clean defs dflt none c = .def_ dflt := by
  unfold chooseBalloonDef
  have : defs.find? (fun d => d.exprs.any (fun e => evaluate q glob clean e c) || d.namespaces.any (fun p => glob p c.ns)) = none := by
    apply List.find?_eq_none.2
    intro x hx
    have := h x hx
    unfold defMatches at this
    simp [this]
  simp only [this]

/-- kube-system matches the implicit reserved type, which precedes every user type when the
user did not define "reserved" (any glob function for which the literal pattern matches itself). -/
theorem kube_system_reserved (userDefs : List BalloonDef) (reservedNs : List String) (dflt : String) (c : Ctr)
    (hno : userDefs.any (·.name == "reserved") = false) (hns : c.ns = "kube-system")
    (hglob : glob "kube-system" "kube-system" = true) :
    chooseBalloonDef q glob clean (fillBuiltin userDefs reservedNs) dflt none c = .def_ "reserved" := by
  unfold fillBuiltin
  simp only [hno, Bool.false_eq_true, if_false]
  have hfirst : ∀ (tail : List BalloonDef),
      chooseBalloonDef q glob clean
        ((({ name := "reserved", exprs := [], namespaces := [] } : BalloonDef) :: tail).map fun d =>
          if d.name == "reserved" then { d with namespaces := d.namespaces ++ ["kube-system"] ++ reservedNs } else d)
        dflt none c = .def_ "reserved" := by
    intro tail
    unfold chooseBalloonDef
    simp [List.find?_cons, hns, hglob]
  split
  · exact hfirst _
  · have : (({ name := "reserved", exprs := [], namespaces := [] } : BalloonDef) :: userDefs) ++ [⟨"default", [], []⟩]
        = ({ name := "reserved", exprs := [], namespaces := [] } : BalloonDef) :: (userDefs ++ [⟨"default", [], []⟩]) := rfl
    rw [this]
    exact hfirst _

example : validateSegs ["pod", "labels", "a"] = true := by simp [validateSegs, restEmpty]

end Nri.Expr
