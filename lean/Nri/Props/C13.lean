import Nri.Model.TopoAware
import Nri.Gen.ReconfigFacts
import Nri.Model.Pipeline
import Nri.Props.C05
import Nri.Props.C09
import Nri.Gen.TAFacts
/-!
C13 — a re-applied unchanged configuration is a no-op (topology-aware half).

Re-configuration rebuilds the pools and re-instates every saved grant (`grant.Clone`,
`supply.Reserve`) and re-applies it to its container.  Proved here:

* `ledger_*`: in every reachable accounting state each pool's granted counters are exactly the
  sums of the portions of the live grants assigned to it;
* `reinstate_counters` / `reapply_same_counters`: rebuilding the counters from the saved grants
  therefore reproduces the live counters exactly - for every pool tree and history.  (This is the
  statement the code violated before fix 26048ef: `Clone` dropped the portion of reserved grants,
  the regenerated facts `cloneKeepsPortion` / `reserveAccountsReservedPortion` pin the repaired code.)
* `rewrite_same_idempotent` (C05): re-writing a value the runtime already has changes nothing there.

Equality of the CPU sets, memory zones and every container's cgroup parameters before and after
a re-applied configuration is checked on every history of the correspondence run
(`C13:unchanged-config-changed-resources`), not proved.
-/
namespace Nri.TA

theorem gen_portion_facts_ok :
    Nri.Gen.TA.cloneKeepsPortion = true ∧ Nri.Gen.TA.reserveAccountsReservedPortion = true := by decide

theorem nbeq_comm (a b : Nat) : (a == b) = (b == a) := by
  rw [Bool.eq_iff_iff]; simp only [beq_iff_eq]; exact eq_comm

def sumSh : List Grant → Nat → Int
  | [], _ => 0
  | g :: gs, j => (if g.pool == j then sharedPortion g else 0) + sumSh gs j
def sumRs : List Grant → Nat → Int
  | [], _ => 0
  | g :: gs, j => (if g.pool == j then reservedPortion g else 0) + sumRs gs j

/-- the ledger: counters are the sums of the live grants' portions, one grant per container -/
def Ledger (t : TA) : Prop :=
  (t.grants.map (·.ctr)).Nodup ∧ ∀ j, (t.pools j).grantedShared = sumSh t.grants j ∧ (t.pools j).grantedReserved = sumRs t.grants j

theorem sumSh_append (a : List Grant) (g : Grant) (j : Nat) :
    sumSh (a ++ [g]) j = sumSh a j + (if g.pool == j then sharedPortion g else 0) := by
  induction a with
  | nil => simp [sumSh]
  | cons h t ih => simp only [List.cons_append, sumSh, ih]; omega
theorem sumRs_append (a : List Grant) (g : Grant) (j : Nat) :
    sumRs (a ++ [g]) j = sumRs a j + (if g.pool == j then reservedPortion g else 0) := by
  induction a with
  | nil => simp [sumRs]
  | cons h t ih => simp only [List.cons_append, sumRs, ih]; omega

theorem filter_absent (gs : List Grant) (c : String) (h : c ∉ gs.map (·.ctr)) :
    gs.filter (·.ctr != c) = gs := by
  induction gs with
  | nil => rfl
  | cons x xs ih =>
    simp only [List.map_cons, List.mem_cons, not_or] at h
    have hx : (x.ctr != c) = true := by simp; exact fun e => h.1 e.symm
    simp only [List.filter_cons, hx, if_true, ih h.2]

theorem sum_filter (gs : List Grant) (g : Grant) (hn : (gs.map (·.ctr)).Nodup) (hm : g ∈ gs) (j : Nat) :
    sumSh (gs.filter (·.ctr != g.ctr)) j = sumSh gs j - (if g.pool == j then sharedPortion g else 0) ∧
    sumRs (gs.filter (·.ctr != g.ctr)) j = sumRs gs j - (if g.pool == j then reservedPortion g else 0) := by
  induction gs with
  | nil => cases hm
  | cons x xs ih =>
    simp only [List.map_cons, List.nodup_cons] at hn
    by_cases hx : x.ctr = g.ctr
    · have hxg : x = g := by
        rcases List.mem_cons.mp hm with e | e
        · exact e.symm
        · exact absurd (List.mem_map.mpr ⟨g, e, hx.symm⟩) hn.1
      subst hxg
      have hf : (x.ctr != x.ctr) = false := by simp
      simp only [List.filter_cons, hf, Bool.false_eq_true, if_false, filter_absent xs x.ctr hn.1, sumSh, sumRs]
      constructor <;> omega
    · have hf : (x.ctr != g.ctr) = true := by simp [hx]
      have hm' : g ∈ xs := by
        rcases List.mem_cons.mp hm with e | e
        · exact absurd (by rw [e]) hx
        · exact e
      obtain ⟨i1, i2⟩ := ih hn.2 hm'
      simp only [List.filter_cons, hf, if_true, sumSh, sumRs, i1, i2]
      constructor <;> omega

theorem ledger_init (tree : List PoolT) : Ledger (initTA tree) := by
  refine ⟨by simp [initTA], fun j => ?_⟩
  simp only [initTA, sumSh, sumRs]
  split <;> exact ⟨rfl, rfl⟩

/-- allocation for a container that holds no grant keeps the ledger -/
theorem ledger_alloc (t t' : TA) (ctr : String) (i full fraction : Nat) (isolate : Bool)
    (ct : CpuType) (excl : List Nat) (g : Grant) (hl : Ledger t) (hfresh : ctr ∉ t.grants.map (·.ctr))
    (h : alloc t ctr i full fraction isolate ct excl = .ok (t', g)) : Ledger (addGrant t' g) := by
  obtain ⟨hgp, hgc, _, _, hgr, hcnt⟩ := alloc_counters t t' ctr i full fraction isolate ct excl g h
  refine ⟨?_, fun j => ?_⟩
  · simp only [addGrant, hgr, List.map_append, List.map_cons, List.map_nil]
    rw [List.nodup_append]
    refine ⟨hl.1, by simp, ?_⟩
    intro a ha b hb
    simp only [List.mem_singleton] at hb
    subst hb
    intro e; subst e
    rw [hgc] at ha; exact hfresh ha
  · simp only [addGrant, hgr, sumSh_append, sumRs_append, hgp]
    obtain ⟨c1, c2⟩ := hcnt j
    rw [c1, c2, (hl.2 j).1, (hl.2 j).2]
    have : (i == j) = (j == i) := nbeq_comm i j
    rw [this]
    exact ⟨rfl, rfl⟩

/-- releasing a live grant keeps the ledger -/
theorem ledger_release (t : TA) (g : Grant) (hl : Ledger t) (hm : g ∈ t.grants) (hp : g.pool < t.tree.length) :
    Ledger (dropGrant (release t g) g.ctr) := by
  have hpt : t.tree[g.pool]? = some t.tree[g.pool] := by simp [hp]
  have hgr : (release t g).grants = t.grants := by
    unfold release; rw [hpt]; rfl
  refine ⟨?_, fun j => ?_⟩
  · simp only [dropGrant, hgr]
    exact (List.Sublist.map _ List.filter_sublist).nodup hl.1
  · obtain ⟨r1, r2⟩ := release_counters t g _ hpt j
    obtain ⟨s1, s2⟩ := sum_filter t.grants g hl.1 hm j
    simp only [dropGrant, hgr]
    show ((release t g).pools j).grantedShared = _ ∧ ((release t g).pools j).grantedReserved = _
    rw [r1, r2, s1, s2, (hl.2 j).1, (hl.2 j).2]
    have : (g.pool == j) = (j == g.pool) := nbeq_comm g.pool j
    rw [this]
    exact ⟨rfl, rfl⟩

/-- re-instating saved grants on freshly built pools (`reinstateGrants`: Clone + Reserve), counters only -/
def reinstateFrom (t0 : TA) (gs : List Grant) : TA :=
  gs.foldl (fun t g => addGrant (setPool t g.pool fun q =>
    { q with grantedShared := q.grantedShared + sharedPortion g, grantedReserved := q.grantedReserved + reservedPortion g }) g) t0

def reinstate (tree : List PoolT) (gs : List Grant) : TA := reinstateFrom (initTA tree) gs

theorem reinstateFrom_counters (gs : List Grant) : ∀ (t0 : TA) (j : Nat),
    ((reinstateFrom t0 gs).pools j).grantedShared = (t0.pools j).grantedShared + sumSh gs j ∧
    ((reinstateFrom t0 gs).pools j).grantedReserved = (t0.pools j).grantedReserved + sumRs gs j := by
  induction gs with
  | nil => intro t0 j; simp [reinstateFrom, sumSh, sumRs]
  | cons g gs ih =>
    intro t0 j
    have := ih (addGrant (setPool t0 g.pool fun q =>
      { q with grantedShared := q.grantedShared + sharedPortion g, grantedReserved := q.grantedReserved + reservedPortion g }) g) j
    simp only [reinstateFrom, List.foldl_cons] at this ⊢
    rw [this.1, this.2]
    simp only [addGrant, setPool, sumSh, sumRs]
    by_cases hj : (j == g.pool) = true
    · have hj' : (g.pool == j) = true := by simp at hj ⊢; exact hj.symm
      simp only [hj, hj', if_true]; constructor <;> omega
    · have hj' : (g.pool == j) = false := by simp at hj ⊢; exact fun e => hj e.symm
      simp only [hj, hj', Bool.false_eq_true, if_false]; constructor <;> omega

/-- the counters rebuilt from the saved grants are the sums of their portions -/
theorem reinstate_counters (tree : List PoolT) (gs : List Grant) (j : Nat) :
    ((reinstate tree gs).pools j).grantedShared = sumSh gs j ∧ ((reinstate tree gs).pools j).grantedReserved = sumRs gs j := by
  obtain ⟨a, b⟩ := reinstateFrom_counters gs (initTA tree) j
  have z : ((initTA tree).pools j).grantedShared = 0 ∧ ((initTA tree).pools j).grantedReserved = 0 := by
    simp only [initTA]; split <;> exact ⟨rfl, rfl⟩
  simp only [reinstate]
  rw [a, b, z.1, z.2]; constructor <;> omega

/-- **Idempotence of re-configuration at the ledger.** In every state satisfying the ledger
(every reachable state, by `ledger_init/alloc/release`), rebuilding the pools and re-instating
the live grants reproduces every pool's counters exactly. -/
theorem reapply_same_counters (t : TA) (hl : Ledger t) : SameCounters (reinstate t.tree t.grants) t := by
  intro j
  obtain ⟨a, b⟩ := reinstate_counters t.tree t.grants j
  rw [a, b, (hl.2 j).1, (hl.2 j).2]
  exact ⟨rfl, rfl⟩

/-- the pre-26048ef behaviour, as a model variant: a clone that forgets the reserved portion
does NOT reproduce the counters (witness: one reserved grant of 500 mCPU) -/
theorem lossy_clone_refuted :
    let g : Grant := ⟨"c", 0, .reserved, [], 500⟩
    let lossy : Grant := { g with portion := 0 }
    ((reinstate [⟨none, [], [0,1], [0]⟩] [lossy]).pools 0).grantedReserved ≠
    ((reinstate [⟨none, [], [0,1], [0]⟩] [g]).pools 0).grantedReserved := by decide

-- non-vacuity: a reachable state with a reserved and a shared grant satisfies the ledger
example : Ledger (reinstate [⟨none, [], [0,1], [0]⟩] [⟨"a", 0, .reserved, [], 500⟩, ⟨"b", 0, .normal, [], 250⟩]) := by
  refine ⟨by decide, fun j => ?_⟩
  obtain ⟨a, b⟩ := reinstate_counters [⟨none, [], [0,1], [0]⟩] [⟨"a", 0, .reserved, [], 500⟩, ⟨"b", 0, .normal, [], 250⟩] j
  rw [a, b]
  have : (reinstate [⟨none, [], [0,1], [0]⟩] [⟨"a", 0, .reserved, [], 500⟩, ⟨"b", 0, .normal, [], 250⟩]).grants
      = [⟨"a", 0, .reserved, [], 500⟩, ⟨"b", 0, .normal, [], 250⟩] := rfl
  rw [this]; exact ⟨rfl, rfl⟩

end Nri.TA

/-! ### source shapes the model was written against (ReconfigFacts.lean; the regenerated facts must equal them) -/
namespace Nri.TA.Expectgen_reconfig_facts_ok
def resmgrReconfigure : List String := ["apply := func", "> if err := instrumentation.Reconfigure(&mCfg.Instrumentation); err != nil", "> > return err", "> err := m.policy.Reconfigure(cfg.PolicyConfig())", "> if err != nil", "> > return err", "> err = m.nri.updateContainers()", "> return nil", "m.Lock()", "err := apply(cfg)", "if err == nil", "> m.cfg = cfg", "> return nil", "revertErr := apply(m.cfg)", "if revertErr != nil", "return err"]
def taReconfigure : List String := ["if !ok", "> return policyError(…)", "savedPolicy := *p", "allocations := savedPolicy.allocations.clone()", "opt = cfg", "p.cfg = cfg", "defaultPrio = cfg.DefaultCPUPriority.Value()", "if err := p.initialize(); err != nil", "> *p = savedPolicy", "> return policyError(…)", "if err := p.registerImplicitAffinities(); err != nil", "> return policyError(…)", "range allocations.grants", "> if err := grant.RefetchNodes(); err != nil", "> > *p = savedPolicy", "> > opt = p.cfg", "> > defaultPrio = p.cfg.DefaultCPUPriority.Value()", "> > return policyError(…)", "if err := p.restoreAllocations(&allocations); err != nil", "> *p = savedPolicy", "> opt = p.cfg", "> return policyError(…)", "return nil"]
def balloonsReconfigure : List String := ["if !ok", "> return balloonsError(…)", "if !changesBalloons(p.cfgoptions, newBalloonsOptions)", "> if !changesCpuClasses(p.cfgoptions, newBalloonsOptions)", "> else", "> > p.bpoptions.IdleCpuClass = newBalloonsOptions.IdleCpuClass", "> > if err := p.resetCpuClass(); err != nil", "> > range p.balloons", "> return nil", "if err := p.setConfig(newBalloonsOptions); err != nil", "> return err", "range p.cch.GetContainers()", "if err := p.Sync(live, p.cch.GetContainers()); err != nil", "return nil"]
end Nri.TA.Expectgen_reconfig_facts_ok

namespace Nri.TA

/-- the regenerated skeletons of the re-configuration paths are the ones the analysis of C13 was made against: the resource manager applies the new configuration, keeps it on success and otherwise RE-APPLIES the configuration in force (apply(m.cfg)) - so a policy's Reconfigure must be able to undo a half-applied update when called with the old configuration; the topology-aware Reconfigure sets the package-level options BEFORE validating and restores *p (and, on the later paths, opt) on failure; the balloons Reconfigure returns early only when neither balloons nor CPU classes change and otherwise goes through the transactional setConfig -/
theorem gen_reconfig_facts_ok :
    Nri.Gen.Reconfig.resmgrReconfigure = Expectgen_reconfig_facts_ok.resmgrReconfigure ∧
    Nri.Gen.Reconfig.taReconfigure = Expectgen_reconfig_facts_ok.taReconfigure ∧
    Nri.Gen.Reconfig.balloonsReconfigure = Expectgen_reconfig_facts_ok.balloonsReconfigure := by
  and_intros <;> rfl

end Nri.TA
