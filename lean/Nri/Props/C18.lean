import Nri.Model.Annot
import Nri.Gen.AnnotKeys
import Nri.Proofs.Annot
/-!
C18 — effective annotations: container-specific beats pod-wide beats bare key, independent of
the order in which annotations are stored.
-/
namespace Nri.Annot

/-- regenerated facts: the key forms and their order in the cache and sgx-epc, the suffixes and
`associate` override flags of memory-qos and memtierd. -/
theorem gen_annot_keys_ok :
    Nri.Gen.Annot.cacheForms = ["+/container.+C", "+/pod", ""] ∧
    Nri.Gen.Annot.sgxForms = ["+/container.+C", "+/pod", ""] ∧
    Nri.Gen.Annot.memoryQos = (".memory-qos.nri.io", [true, false]) ∧
    Nri.Gen.Annot.memtierd = (".memtierd.nri.io", [true, false]) := by decide

/-! ### three-form lookup -/

theorem effective_container (ann : AMap) (key ctr v : String) (h : aget ann (ctrKey key ctr) = some v) :
    effective ann key ctr = some v := by simp [effective, h]

theorem effective_pod (ann : AMap) (key ctr v : String) (h1 : aget ann (ctrKey key ctr) = none)
    (h2 : aget ann (podKey key) = some v) : effective ann key ctr = some v := by simp [effective, h1, h2]

theorem effective_bare (ann : AMap) (key ctr : String) (h1 : aget ann (ctrKey key ctr) = none)
    (h2 : aget ann (podKey key) = none) : effective ann key ctr = aget ann key := by simp [effective, h1, h2]

/-- the result depends on the three looked-up keys only: two annotation maps that agree on them
(whatever else they contain, e.g. annotations addressed to other containers, in whatever order)
give the same answer. -/
theorem effective_congr (a b : AMap) (key ctr : String)
    (h1 : aget a (ctrKey key ctr) = aget b (ctrKey key ctr)) (h2 : aget a (podKey key) = aget b (podKey key))
    (h3 : aget a key = aget b key) : effective a key ctr = effective b key ctr := by
  simp [effective, h1, h2, h3]

/-- lookup in a map with unique keys does not depend on storage order. -/
theorem aget_perm (a b : AMap) (hp : a.Perm b) (hn : (a.map (·.1)).Nodup) (k : String) : aget a k = aget b k := by
  have key : ∀ (m : AMap), (m.map (·.1)).Nodup → ∀ v, aget m k = some v ↔ (k, v) ∈ m := by
    intro m
    induction m with
    | nil => intro _ v; simp [aget]
    | cons p ps ih =>
      intro hn v
      simp only [List.map_cons, List.nodup_cons] at hn
      unfold aget
      simp only [List.find?_cons]
      by_cases e : p.1 = k
      · have : (p.1 == k) = true := by simp [e]
        simp only [this, Option.map_some, Option.some.injEq, List.mem_cons]
        constructor
        · intro h; left; rw [← h, ← e]
        · intro h
          rcases h with h | h
          · rw [← h]
          · exfalso; apply hn.1; rw [e]; exact List.mem_map_of_mem (f := (·.1)) h
      · have : (p.1 == k) = false := by simp [e]
        simp only [this, List.mem_cons]
        have := ih hn.2 v
        unfold aget at this
        rw [this]
        constructor
        · intro h; right; exact h
        · intro h
          rcases h with h | h
          · exfalso; apply e; rw [← h]
          · exact h
  have hnb : (b.map (·.1)).Nodup := (hp.map (·.1)).nodup_iff.1 hn
  cases ha : aget a k with
  | none =>
    cases hb : aget b k with
    | none => rfl
    | some v =>
      have := (key b hnb v).1 hb
      have := (key a hn v).2 (hp.mem_iff.2 this)
      rw [ha] at this; cases this
  | some v =>
    have := (key a hn v).1 ha
    exact ((key b hnb v).2 (hp.mem_iff.1 this)).symm

/-- **Order independence of the three-form lookup.** -/
theorem effective_perm (a b : AMap) (hp : a.Perm b) (hn : (a.map (·.1)).Nodup) (key ctr : String) :
    effective a key ctr = effective b key ctr :=
  effective_congr a b key ctr (aget_perm a b hp hn _) (aget_perm a b hp hn _) (aget_perm a b hp hn _)

/-! ### suffix-classified fold (memory-qos, memtierd) -/

theorem uniqCls_perm (l l' : List (Cls × String)) (hp : l.Perm l') : UniqCls l ↔ UniqCls l' := by
  unfold UniqCls
  apply List.Perm.pairwise_iff _ hp
  intro a b h
  rcases h with h | h | h
  · exact Or.inr (Or.inl h)
  · exact Or.inl h
  · exact Or.inr (Or.inr (Ne.symm h))

/-- **Order independence of `effectiveAnnotations`.** Whatever order Go's map iteration
produces, the resulting effective-annotation map is the same. -/
theorem effFold_perm (l l' : List (Cls × String)) (hp : l.Perm l') (hu : UniqCls l) (p : String) :
    aget (effFold l) p = aget (effFold l') p := by
  have hu' := (uniqCls_perm l l' hp).1 hu
  have hspec : ∀ v, Spec l p v ↔ Spec l' p v := by
    intro v; unfold Spec
    constructor
    · intro h
      rcases h with h | h
      · exact Or.inl (hp.mem_iff.1 h)
      · exact Or.inr ⟨fun w hw => h.1 w (hp.mem_iff.2 hw), hp.mem_iff.1 h.2⟩
    · intro h
      rcases h with h | h
      · exact Or.inl (hp.mem_iff.2 h)
      · exact Or.inr ⟨fun w hw => h.1 w (hp.mem_iff.1 hw), hp.mem_iff.2 h.2⟩
  cases h : aget (effFold l) p with
  | none =>
    cases h' : aget (effFold l') p with
    | none => rfl
    | some v =>
      have := (effFold_spec l hu p v).2 ((hspec v).2 ((effFold_spec l' hu' p v).1 h'))
      rw [h] at this; cases this
  | some v =>
    exact ((effFold_spec l' hu' p v).2 ((hspec v).1 ((effFold_spec l hu p v).1 h))).symm

theorem effectiveAnnotations_perm (suffix ctr : String) (a b : AMap) (hp : a.Perm b)
    (hu : UniqCls (a.map fun kv => (classify suffix ctr kv.1, kv.2))) (p : String) :
    aget (effectiveAnnotations suffix ctr a) p = aget (effectiveAnnotations suffix ctr b) p :=
  effFold_perm _ _ (hp.map _) hu p

/-- container-specific beats pod-wide … -/
theorem fold_container_wins (l : List (Cls × String)) (hu : UniqCls l) (p v : String)
    (h : (Cls.ctr p, v) ∈ l) : aget (effFold l) p = some v :=
  (effFold_spec l hu p v).2 (Or.inl h)

/-- … and the pod-wide form applies exactly when there is no container-specific one. -/
theorem fold_pod_applies (l : List (Cls × String)) (hu : UniqCls l) (p v : String)
    (hno : ∀ w, (Cls.ctr p, w) ∉ l) (h : (Cls.pod p, v) ∈ l) : aget (effFold l) p = some v :=
  (effFold_spec l hu p v).2 (Or.inr ⟨hno, h⟩)

/-- annotations that are not addressed to this container (class `other`: other containers'
keys, other plugins' keys) have no effect: dropping them changes nothing. -/
theorem fold_others_irrelevant (l : List (Cls × String)) (hu : UniqCls l) (p : String) :
    aget (effFold (l.filter (fun e => e.1 != Cls.other))) p = aget (effFold l) p := by
  have hu' : UniqCls (l.filter (fun e => e.1 != Cls.other)) := List.Pairwise.filter _ hu
  have hspec : ∀ v, Spec (l.filter (fun e => e.1 != Cls.other)) p v ↔ Spec l p v := by
    intro v; unfold Spec
    simp [List.mem_filter]
  cases h : aget (effFold l) p with
  | none =>
    cases h' : aget (effFold (l.filter (fun e => e.1 != Cls.other))) p with
    | none => rfl
    | some v =>
      have := (effFold_spec l hu p v).2 ((hspec v).1 ((effFold_spec _ hu' p v).1 h'))
      rw [h] at this; cases this
  | some v =>
    exact (effFold_spec _ hu' p v).2 ((hspec v).2 ((effFold_spec l hu p v).1 h))

/-! ### an explicitly annotated cgroup parameter always overrides the class-derived value -/

def qosStep (classOf : String → Option ClassParams) (allowed : List String) (acc : Option AMap) (e : String × String) : Option AMap :=
  match acc with
  | none => none
  | some unified =>
    if e.1 == "class" then
      match classOf e.2 with
      | none => none
      | some cp => some (cp.params.foldl (fun u kv => associate u kv.1 kv.2 false) unified)
    else if allowed.contains e.1 then some (aset unified e.1 e.2)
    else none

theorem qosFold_eq (classOf : String → Option ClassParams) (allowed : List String) (eff : AMap) :
    qosFold classOf allowed eff = eff.foldl (qosStep classOf allowed) (some []) := rfl

theorem qos_none (classOf : String → Option ClassParams) (allowed : List String) (l : AMap) :
    l.foldl (qosStep classOf allowed) none = none := by
  induction l with
  | nil => rfl
  | cons e es ih => simpa [List.foldl_cons, qosStep] using ih

theorem class_params_keep (params : AMap) (k v : String) :
    ∀ (u : AMap), aget u k = some v → aget (params.foldl (fun u kv => associate u kv.1 kv.2 false) u) k = some v := by
  induction params with
  | nil => intro u h; exact h
  | cons kv kvs ih =>
    intro u h
    simp only [List.foldl_cons]
    apply ih
    rw [aget_associate]
    simp only [Bool.false_or]
    split
    · rename_i hn
      by_cases e : k = kv.1
      · subst e; rw [h] at hn; simp at hn
      · simp [e, h]
    · exact h

theorem qos_keeps (classOf : String → Option ClassParams) (allowed : List String) (k v : String) :
    ∀ (rest : AMap) (acc u : AMap), rest.foldl (qosStep classOf allowed) (some acc) = some u →
      (∀ e ∈ rest, e.1 ≠ k) → aget acc k = some v → aget u k = some v := by
  intro rest
  induction rest with
  | nil => intro acc u h _ ha; simp only [List.foldl_nil, Option.some.injEq] at h; rw [← h]; exact ha
  | cons e es ih =>
    intro acc u h hne ha
    simp only [List.foldl_cons] at h
    have hek : e.1 ≠ k := hne e List.mem_cons_self
    cases hs : qosStep classOf allowed (some acc) e with
    | none => rw [hs, qos_none] at h; cases h
    | some acc' =>
      rw [hs] at h
      apply ih acc' u h (fun x hx => hne x (List.mem_cons_of_mem _ hx))
      unfold qosStep at hs
      simp only [] at hs
      split at hs
      · split at hs
        · cases hs
        · simp only [Option.some.injEq] at hs
          rw [← hs]; exact class_params_keep _ k v acc ha
      · split at hs
        · simp only [Option.some.injEq] at hs
          rw [← hs, aget_aset]
          simp [Ne.symm hek, ha]
        · cases hs

/-- **Explicit beats class, in every iteration order.** If the effective annotations contain an
explicit cgroup parameter `k = v` (besides a class annotation or not), then whenever
`CreateContainer` succeeds the unified parameter `k` is `v`. -/
theorem explicit_overrides_class (classOf : String → Option ClassParams) (allowed : List String)
    (eff u : AMap) (k v : String) (hk : k ≠ "class") (hnd : (eff.map (·.1)).Nodup)
    (hmem : (k, v) ∈ eff) (hok : qosFold classOf allowed eff = some u) : aget u k = some v := by
  rw [qosFold_eq] at hok
  have main : ∀ (rest : AMap) (acc u : AMap), rest.foldl (qosStep classOf allowed) (some acc) = some u →
      (k, v) ∈ rest → (rest.map (·.1)).Nodup → aget u k = some v := by
    intro rest
    induction rest with
    | nil => intro acc u _ hm; cases hm
    | cons e es ih =>
      intro acc u h hm hn
      simp only [List.map_cons, List.nodup_cons] at hn
      simp only [List.foldl_cons] at h
      cases hs : qosStep classOf allowed (some acc) e with
      | none => rw [hs, qos_none] at h; cases h
      | some acc' =>
        rw [hs] at h
        rcases List.mem_cons.1 hm with he | he
        · -- this entry is the explicit parameter
          subst he
          have hacc' : aget acc' k = some v := by
            unfold qosStep at hs
            simp only [] at hs
            have : (k == "class") = false := by simp [hk]
            simp only [this, Bool.false_eq_true, if_false] at hs
            split at hs
            · simp only [Option.some.injEq] at hs
              rw [← hs, aget_aset]; simp
            · cases hs
          apply qos_keeps classOf allowed k v es acc' u h _ hacc'
          intro x hx hxk
          apply hn.1
          rw [← hxk]; exact List.mem_map_of_mem (f := (·.1)) hx
        · exact ih acc' u h he hn.2
  exact main eff [] u hok hmem hnd

end Nri.Annot
