import Nri.Model.Topo
import Nri.Gen.TopoFacts
/-!
C16 — discovery fidelity and pool-tree well-formedness.

Proved here, for every machine / CPU set / configuration the statements quantify over:
* `expand_compress` — the kernel list format (as maximal ranges) loses nothing;
* `supply_*` — `getCpuSupply` splits a pool's CPUs disjointly into isolated / reserved / sharable,
  exactly covering the pool's available CPUs, provided reserved and isolated CPUs are disjoint
  (the excluded "reserved cpuset is itself isolated" configuration is the only way they are not);
* `supply_mono`, `supply_disjoint` — pools built from nested CPU sets are nested, pools built from
  disjoint CPU sets are disjoint;
* `pkg_disjoint`, `die_subset_pkg`, `die_disjoint`, `pkg_subset_all` — sockets/dies of any machine
  with unique CPU ids are nested and disjoint as the tree needs;
* `root_holds_allowed` — the root's supply is exactly the available CPUs.
Tree shape (single root, level omission rules, memory attachment) is compared pool by pool with
the executable model and checked by `poolsWF` on every generated machine (sampled; partial).
-/
namespace Nri.Topo

theorem gen_topo_facts_ok :
    Nri.Gen.Topo.supplyOrder = ["allowed", "isolated", "reserved", "sharable"] ∧
    Nri.Gen.Topo.reservedFromExcludesIsolated = true ∧
    Nri.Gen.Topo.virtualRootIfMultiSocket = true := by decide

/-! ### list format -/

def StrictlyIncreasing : List Nat → Prop
  | [] => True
  | [_] => True
  | x :: y :: rest => x < y ∧ StrictlyIncreasing (y :: rest)

theorem rangeList_cons (lo hi : Nat) (h : lo ≤ hi) : rangeList lo hi = lo :: rangeList (lo + 1) hi := by
  unfold rangeList
  have : hi + 1 - lo = (hi + 1 - (lo + 1)) + 1 := by omega
  rw [this, List.range'_succ]

theorem rangeList_self (x : Nat) : rangeList x x = [x] := by
  unfold rangeList
  have : x + 1 - x = 1 := by omega
  rw [this]; rfl

theorem expand_cons (r : Nat × Nat) (rs : List (Nat × Nat)) : expand (r :: rs) = rangeList r.1 r.2 ++ expand rs := by
  simp [expand]

theorem compress_spec : ∀ (s : List Nat), StrictlyIncreasing s →
    expand (compress s) = s ∧
    (∀ lo hi rest, compress s = (lo, hi) :: rest → lo ≤ hi ∧ s.head? = some lo) := by
  intro s
  induction s with
  | nil => intro _; exact ⟨rfl, by intro lo hi rest h; simp [compress] at h⟩
  | cons x xs ih =>
    intro hs
    have hxs : StrictlyIncreasing xs := by
      cases xs with
      | nil => trivial
      | cons y ys => exact hs.2
    obtain ⟨ihe, ihh⟩ := ih hxs
    cases hc : compress xs with
    | nil =>
      have hxs0 : xs = [] := by rw [← ihe, hc]; rfl
      subst hxs0
      refine ⟨?_, ?_⟩
      · simp [compress, expand_cons, rangeList_self, expand]
      · intro lo hi rest h
        simp only [compress, List.cons.injEq, Prod.mk.injEq] at h
        refine ⟨by omega, ?_⟩
        simp [h.1.1]
    | cons r rest =>
      obtain ⟨lo, hi⟩ := r
      obtain ⟨hle, hhead⟩ := ihh lo hi rest hc
      -- xs starts with lo, and x < lo
      obtain ⟨ys, hys⟩ : ∃ ys, xs = lo :: ys := by
        cases xs with
        | nil => simp at hhead
        | cons y ys => simp only [List.head?_cons, Option.some.injEq] at hhead; exact ⟨ys, by rw [hhead]⟩
      have hlt : x < lo := by rw [hys] at hs; exact hs.1
      by_cases h1 : x + 1 = lo
      · have hcx : compress (x :: xs) = (x, hi) :: rest := by
          simp only [compress, hc, h1, if_true]
        refine ⟨?_, ?_⟩
        · rw [hcx, expand_cons]
          simp only []
          rw [rangeList_cons x hi (by omega), h1]
          have : rangeList lo hi ++ expand rest = xs := by rw [← expand_cons (lo, hi) rest, ← hc]; exact ihe
          simp [this]
        · intro lo' hi' rest' h
          rw [hcx] at h
          simp only [List.cons.injEq, Prod.mk.injEq] at h
          refine ⟨by omega, ?_⟩
          simp [h.1.1]
      · have hcx : compress (x :: xs) = (x, x) :: (lo, hi) :: rest := by
          simp only [compress, hc, h1, if_false]
        refine ⟨?_, ?_⟩
        · rw [hcx, expand_cons]
          simp only [rangeList_self]
          rw [← hc, ihe]; rfl
        · intro lo' hi' rest' h
          rw [hcx] at h
          simp only [List.cons.injEq, Prod.mk.injEq] at h
          refine ⟨by omega, ?_⟩
          simp [h.1.1]

/-- **List format round trip.** Rendering a strictly increasing id list as maximal ranges and
expanding the ranges again gives the list back. -/
theorem expand_compress (s : List Nat) (h : StrictlyIncreasing s) : expand (compress s) = s :=
  (compress_spec s h).1

/-! ### per-pool CPU split -/

theorem mem_sinter (a b : List Nat) (x : Nat) : x ∈ sinter a b ↔ x ∈ a ∧ x ∈ b := by
  simp [sinter, List.mem_filter]

theorem mem_sdiff (a b : List Nat) (x : Nat) : x ∈ sdiff a b ↔ x ∈ a ∧ x ∉ b := by
  simp [sdiff, List.mem_filter]

/-- isolated / reserved / sharable are pairwise disjoint when no reserved CPU is isolated. -/
theorem supply_disjoint_parts (cpus allowed isolated reserved : List Nat)
    (hri : ∀ x, x ∈ reserved → x ∉ isolated) :
    let s := cpuSupply cpus allowed isolated reserved
    (∀ x, x ∈ s.1 → x ∉ s.2.1) ∧ (∀ x, x ∈ s.1 → x ∉ s.2.2) ∧ (∀ x, x ∈ s.2.1 → x ∉ s.2.2) := by
  simp only [cpuSupply]
  refine ⟨?_, ?_, ?_⟩
  · intro x h1 h2
    rw [mem_sinter] at h1 h2
    exact hri x h2.2 h1.2
  · intro x h1 h2
    rw [mem_sdiff, mem_sdiff] at h2
    exact h2.1.2 h1
  · intro x h1 h2
    rw [mem_sdiff] at h2
    exact h2.2 h1

/-- … and together they are exactly the pool's CPUs that are available. -/
theorem supply_cover (cpus allowed isolated reserved : List Nat) (x : Nat) :
    let s := cpuSupply cpus allowed isolated reserved
    (x ∈ s.1 ∨ x ∈ s.2.1 ∨ x ∈ s.2.2) ↔ (x ∈ cpus ∧ x ∈ allowed) := by
  simp only [cpuSupply]
  rw [mem_sinter, mem_sinter, mem_sdiff, mem_sdiff, mem_sinter, mem_sinter, mem_sinter]
  constructor
  · intro h
    rcases h with h | h | h
    · exact h.1
    · exact h.1
    · exact h.1.1
  · intro h
    by_cases hi : x ∈ isolated
    · exact Or.inl ⟨h, hi⟩
    · by_cases hr : x ∈ reserved
      · exact Or.inr (Or.inl ⟨h, hr⟩)
      · refine Or.inr (Or.inr ⟨⟨h, ?_⟩, ?_⟩)
        · intro hh; exact hi hh.2
        · intro hh; exact hr hh.2

/-- a pool built from a subset of its parent's CPUs is contained in the parent. -/
theorem supply_mono (c1 c2 allowed isolated reserved : List Nat) (h : ∀ x, x ∈ c1 → x ∈ c2) (x : Nat) :
    let s1 := cpuSupply c1 allowed isolated reserved
    let s2 := cpuSupply c2 allowed isolated reserved
    (x ∈ s1.1 ∨ x ∈ s1.2.1 ∨ x ∈ s1.2.2) → (x ∈ s2.1 ∨ x ∈ s2.2.1 ∨ x ∈ s2.2.2) := by
  intro s1 s2 h1
  have := (supply_cover c1 allowed isolated reserved x).1 h1
  exact (supply_cover c2 allowed isolated reserved x).2 ⟨h x this.1, this.2⟩

/-- pools built from disjoint CPU sets (siblings) have disjoint supplies. -/
theorem supply_disjoint (c1 c2 allowed isolated reserved : List Nat) (h : ∀ x, x ∈ c1 → x ∉ c2) (x : Nat) :
    let s1 := cpuSupply c1 allowed isolated reserved
    let s2 := cpuSupply c2 allowed isolated reserved
    (x ∈ s1.1 ∨ x ∈ s1.2.1 ∨ x ∈ s1.2.2) → ¬ (x ∈ s2.1 ∨ x ∈ s2.2.1 ∨ x ∈ s2.2.2) := by
  intro s1 s2 h1 h2
  have a := (supply_cover c1 allowed isolated reserved x).1 h1
  have b := (supply_cover c2 allowed isolated reserved x).1 h2
  exact h x a.1 b.1

/-- the root pool (built from all CPUs, or from the only socket) holds exactly the available
CPUs, provided every available CPU is one of the CPUs the root is built from. -/
theorem root_holds_allowed (rootCpus allowed isolated reserved : List Nat)
    (h : ∀ x, x ∈ allowed → x ∈ rootCpus) (x : Nat) :
    let s := cpuSupply rootCpus allowed isolated reserved
    (x ∈ s.1 ∨ x ∈ s.2.1 ∨ x ∈ s.2.2) ↔ x ∈ allowed := by
  intro s
  have hc := supply_cover rootCpus allowed isolated reserved x
  exact ⟨fun hh => (hc.1 hh).2, fun hh => hc.2 ⟨h x hh, hh⟩⟩

/-! ### sockets and dies of any machine -/

theorem mem_pkgCpus (m : Machine) (s x : Nat) :
    x ∈ m.pkgCpus s ↔ ∃ c ∈ m.cpus, c.id = x ∧ c.online = true ∧ c.pkg = s := by
  simp [Machine.pkgCpus, List.mem_map, List.mem_filter]
  constructor
  · rintro ⟨c, ⟨hc, h1, h2⟩, rfl⟩; exact ⟨c, hc, rfl, h1, h2⟩
  · rintro ⟨c, hc, rfl, h1, h2⟩; exact ⟨c, ⟨hc, h1, h2⟩, rfl⟩

theorem mem_dieCpus (m : Machine) (s d x : Nat) :
    x ∈ m.dieCpus s d ↔ ∃ c ∈ m.cpus, c.id = x ∧ c.online = true ∧ c.pkg = s ∧ c.die = d := by
  simp [Machine.dieCpus, List.mem_map, List.mem_filter]
  constructor
  · rintro ⟨c, ⟨hc, ⟨h1, h2⟩, h3⟩, rfl⟩; exact ⟨c, hc, rfl, h1, h2, h3⟩
  · rintro ⟨c, hc, rfl, h1, h2, h3⟩; exact ⟨c, ⟨hc, ⟨h1, h2⟩, h3⟩, rfl⟩

/-- CPU ids are unique -/
def Machine.UniqueIds (m : Machine) : Prop := ∀ c ∈ m.cpus, ∀ c' ∈ m.cpus, c.id = c'.id → c = c'

theorem pkg_subset_all (m : Machine) (s x : Nat) (h : x ∈ m.pkgCpus s) : x ∈ m.allCpus := by
  rw [mem_pkgCpus] at h
  obtain ⟨c, hc, rfl, _, _⟩ := h
  exact List.mem_map_of_mem hc

theorem pkg_disjoint (m : Machine) (hu : m.UniqueIds) (s s' x : Nat) (hne : s ≠ s')
    (h : x ∈ m.pkgCpus s) : x ∉ m.pkgCpus s' := by
  intro h'
  rw [mem_pkgCpus] at h h'
  obtain ⟨c, hc, rfl, _, hp⟩ := h
  obtain ⟨c', hc', hid, _, hp'⟩ := h'
  have := hu c' hc' c hc hid
  subst this
  exact hne (hp.symm.trans hp')

theorem die_subset_pkg (m : Machine) (s d x : Nat) (h : x ∈ m.dieCpus s d) : x ∈ m.pkgCpus s := by
  rw [mem_dieCpus] at h
  rw [mem_pkgCpus]
  obtain ⟨c, hc, hid, ho, hp, _⟩ := h
  exact ⟨c, hc, hid, ho, hp⟩

theorem die_disjoint (m : Machine) (hu : m.UniqueIds) (s d d' x : Nat) (hne : d ≠ d')
    (h : x ∈ m.dieCpus s d) : x ∉ m.dieCpus s d' := by
  intro h'
  rw [mem_dieCpus] at h h'
  obtain ⟨c, hc, rfl, _, _, hd⟩ := h
  obtain ⟨c', hc', hid, _, _, hd'⟩ := h'
  have := hu c' hc' c hc hid
  subst this
  exact hne (hd.symm.trans hd')

/-- NUMA-node pools: if the machine is consistent (every CPU listed by node `n` is an online
CPU of socket `s`), the node pool's CPUs are inside the socket's. -/
theorem node_subset_pkg (m : Machine) (s n : Nat)
    (hcons : ∀ x ∈ m.nodeCpus n, ∃ c ∈ m.cpus, c.id = x ∧ c.online = true ∧ c.pkg = s)
    (x : Nat) (h : x ∈ m.nodeCpus n) : x ∈ m.pkgCpus s := by
  rw [mem_pkgCpus]; exact hcons x h

-- non-vacuity
example : compress [0,1,2,3,8,10,11] = [(0,3),(8,8),(10,11)] := by decide
example : expand [(0,3),(8,8),(10,11)] = [0,1,2,3,8,10,11] := by decide
example : StrictlyIncreasing [0,1,2,3,8,10,11] := by simp [StrictlyIncreasing]

end Nri.Topo
