import Nri.Model.AgentCfg
import Nri.Gen.AgentFsm
/-!
C17 — configuration precedence: node-specific over group/default, always.
All theorems are for every event list (induction), every configuration object.
-/
namespace Nri.AgentCfg

/-- regenerated facts: in `updateGroupConfig` the group config is recorded *before* the early
return for an existing node config; in `updateConfig` validation precedes notification. -/
theorem gen_agent_fsm_ok :
    Nri.Gen.Agent.groupAssignBeforeNodeCheck = true ∧
    Nri.Gen.Agent.nodeAssignBeforeUpdate = true ∧
    Nri.Gen.Agent.validateBeforeNotify = true ∧
    Nri.Gen.Agent.gen0NeverSame = true := by decide

/-- Invariant: the agent's current config is the effective one, and if the effective config is
valid it is the most recently delivered one. -/
def Inv (s : St) : Prop :=
  (∀ c, effective s = some c → s.currentCfg = some c) ∧
  (∀ c, effective s = some c → c.valid = true → s.delivered.getLast? = some c) ∧
  (∀ c ∈ s.delivered, c.valid = true)

theorem inv_init : Inv {} := by
  refine ⟨?_, ?_, ?_⟩ <;> simp [effective]

theorem effective_updateConfig (s : St) (t : Option Cfg) : effective (updateConfig s t) = effective s := by
  cases t with
  | none => rfl
  | some c => simp only [updateConfig]; split <;> rfl

/-- delivering (or trying to deliver) exactly the effective configuration establishes `Inv`. -/
theorem inv_updateConfig (s : St) (t : Option Cfg) (ht : effective s = t)
    (h3 : ∀ c ∈ s.delivered, c.valid = true) : Inv (updateConfig s t) := by
  unfold Inv
  rw [effective_updateConfig, ht]
  cases t with
  | none =>
    refine ⟨?_, ?_, h3⟩ <;> (intro c hc; cases hc)
  | some x =>
    unfold updateConfig
    by_cases hv : x.valid = true
    · simp only [hv, if_true]
      refine ⟨?_, ?_, ?_⟩
      · intro c hc; simp only [Option.some.injEq] at hc; simp [hc]
      · intro c hc _; simp only [Option.some.injEq] at hc; simp [hc]
      · intro c hc
        simp only [List.mem_append, List.mem_singleton] at hc
        rcases hc with hc | hc
        · exact h3 c hc
        · rw [hc]; exact hv
    · simp only [hv, Bool.false_eq_true, if_false]
      refine ⟨?_, ?_, h3⟩
      · intro c hc; simp only [Option.some.injEq] at hc; simp [hc]
      · intro c hc hcv; simp only [Option.some.injEq] at hc; rw [← hc] at hcv; exact absurd hcv hv

theorem inv_step (s : St) (e : Ev) (h : Inv s) : Inv (step s e) := by
  obtain ⟨h1, h2, h3⟩ := h
  cases e with
  | node c =>
    unfold step
    by_cases hsv : sameVersion c s.nodeCfg = true
    · simp only [hsv, if_true]; exact ⟨h1, h2, h3⟩
    · simp only [hsv, Bool.false_eq_true, if_false]
      apply inv_updateConfig
      · cases c <;> rfl
      · exact h3
  | group c =>
    unfold step
    by_cases hsv : sameVersion c s.groupCfg = true
    · simp only [hsv, if_true]; exact ⟨h1, h2, h3⟩
    · simp only [hsv, Bool.false_eq_true, if_false]
      cases hn : s.nodeCfg with
      | some n =>
        simp only [Option.isSome_some, if_true]
        have he : effective s = some n := by simp [effective, hn]
        refine ⟨?_, ?_, h3⟩
        · intro c' hc
          have hc' : some n = some c' := hc
          exact h1 c' (by rw [he]; exact hc')
        · intro c' hc hv
          have hc' : some n = some c' := hc
          exact h2 c' (by rw [he]; exact hc') hv
      | none =>
        simp only [Option.isSome_none, Bool.false_eq_true, if_false]
        apply inv_updateConfig
        · simp [effective, hn]
        · exact h3

theorem inv_run_from (evs : List Ev) : ∀ s, Inv s → Inv (evs.foldl step s) := by
  induction evs with
  | nil => intro s h; exact h
  | cons e es ih => intro s h; exact ih _ (inv_step s e h)

/-- **Precedence, always.** After every event history: if a node-specific configuration
currently exists and is valid it is the one most recently delivered to the plugin; otherwise
the current group/default one is (if valid). -/
theorem delivered_is_effective (evs : List Ev) (c : Cfg)
    (h : effective (run evs) = some c) (hv : c.valid = true) :
    (run evs).delivered.getLast? = some c :=
  (inv_run_from evs {} inv_init).2.1 c h hv

/-- a configuration failing validation is never handed to the plugin. -/
theorem invalid_never_delivered (evs : List Ev) : ∀ c ∈ (run evs).delivered, c.valid = true :=
  (inv_run_from evs {} inv_init).2.2

/-- a group/default update never replaces (or re-delivers over) an existing node-specific
configuration: nothing is delivered and the current config stays. -/
theorem group_never_overrides_node (s : St) (n : Cfg) (hn : s.nodeCfg = some n) (g : Option Cfg) :
    (step s (.group g)).delivered = s.delivered ∧ (step s (.group g)).currentCfg = s.currentCfg ∧
    (step s (.group g)).nodeCfg = some n := by
  simp only [step]
  by_cases hsv : sameVersion g s.groupCfg = true
  · simp [hsv, hn]
  · simp [hsv, hn]

/-- … but it is remembered: deleting the node-specific configuration falls back to the
*current* group configuration. -/
theorem delete_falls_back (s : St) (n g : Cfg) (hn : s.nodeCfg = some n) (hg : s.groupCfg = some g)
    (hv : g.valid = true) :
    (step s (.node none)).delivered = s.delivered ++ [g] ∧ (step s (.node none)).currentCfg = some g := by
  unfold step
  simp [sameVersion, hn, hg, updateConfig, hv]

theorem group_update_remembered (s : St) (n : Cfg) (hn : s.nodeCfg = some n) (g : Cfg)
    (hd : sameVersion (some g) s.groupCfg = false) :
    (step s (.group (some g))).groupCfg = some g := by
  unfold step
  simp [hd, hn]

/-- re-delivery of an already applied resource version causes no re-configuration. -/
theorem dup_no_redelivery (s : St) :
    (∀ c, sameVersion c s.nodeCfg = true → step s (.node c) = s) ∧
    (∀ c, sameVersion c s.groupCfg = true → step s (.group c) = s) := by
  constructor <;> (intro c h; unfold step; simp [h])

/-- a valid, non-duplicate node-specific update is delivered in that very step. -/
theorem node_update_delivered (s : St) (c : Cfg) (hv : c.valid = true)
    (hd : sameVersion (some c) s.nodeCfg = false) :
    (step s (.node (some c))).delivered = s.delivered ++ [c] := by
  unfold step
  simp [hd, updateConfig, hv]

-- non-vacuity: a history with both kinds, a deletion and an invalid object
example :
    let n1 : Cfg := ⟨1, 1, true⟩; let g1 : Cfg := ⟨2, 1, true⟩; let g2 : Cfg := ⟨2, 2, true⟩
    (run [.group (some g1), .node (some n1), .group (some g2), .node none]).delivered = [g1, n1, g2] := by
  decide

end Nri.AgentCfg
