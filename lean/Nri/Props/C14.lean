import Nri.Model.Guard
import Nri.Gen.HandlerGuards
import Nri.Gen.OptDerefs
/-!
C14 — no request can crash a plugin (resource-manager handlers: lookup discipline).

Proved: a handler that satisfies the static guard discipline never dereferences a failed
lookup, whatever the cache contains (`safe_never_panics`); every NRI handler of
pkg/resmgr/nri.go, as regenerated from the current source, satisfies it (`handlers_safe`),
hence none of them can panic on an id the plugin has never seen or has already forgotten
(`handlers_never_panic`).  The pre-fix shape of StopPodSandbox/RemovePodSandbox (use without a
guard) is refuted by `unguarded_use_panics`.

Totality of everything behind the lookups (annotation parsers, policies, side plugins) is
checked by the chaos correspondence runs, not proved.
-/
namespace Nri.Guard

theorem safe_never_panics (found : String → Bool) :
    ∀ (p : Prog) (g : List String), safe p g = true → (∀ v ∈ g, found v = true) → exec found p ≠ .panic := by
  intro p
  induction p with
  | done => intro g _ _; simp [exec]
  | lookup v k ih =>
    intro g hs hg
    simp only [safe] at hs
    simp only [exec]
    exact ih _ hs (fun x hx => hg x (List.mem_filter.mp hx).1)
  | guardRet v k ih =>
    intro g hs hg
    simp only [safe] at hs
    simp only [exec]
    by_cases hf : found v = true
    · simp only [hf, if_true]
      exact ih _ hs (fun x hx => by
        rcases List.mem_cons.mp hx with e | e
        · rw [e]; exact hf
        · exact hg x e)
    · simp [hf]
  | use v k ih =>
    intro g hs hg
    simp only [safe, Bool.and_eq_true] at hs
    simp only [exec]
    have hf : found v = true := hg v (by simpa using hs.1)
    simp only [hf, if_true]
    exact ih _ hs.2 hg
  | ifFound v body k ihb ihk =>
    intro g hs hg
    simp only [safe, Bool.and_eq_true] at hs
    simp only [exec]
    by_cases hf : found v = true
    · simp only [hf, if_true]
      have hb := ihb (v :: g) hs.1 (fun x hx => by
        rcases List.mem_cons.mp hx with e | e
        · rw [e]; exact hf
        · exact hg x e)
      cases hbo : exec found body with
      | next => simp only []; exact ihk _ hs.2 hg
      | returned => simp
      | panic => exact absurd hbo hb
    · simp only [hf]
      exact ihk _ hs.2 hg

/-- every handler regenerated from nri.go obeys the discipline -/
theorem handlers_safe : Nri.Gen.Guards.handlers.all (fun h => safe h.2 []) = true := by decide

/-- the handlers that must be there are there (a renamed or dropped handler breaks the tie) -/
theorem handlers_present :
    (Nri.Gen.Guards.handlers.map (·.1)) = ["Synchronize", "RunPodSandbox", "StopPodSandbox", "RemovePodSandbox", "CreateContainer", "StartContainer",
      "UpdateContainer", "StopContainer", "RemoveContainer", "updateContainers", "getPendingAdjustment", "getPendingUpdates"] := by decide

/-- **No handler dereferences a failed lookup**, whatever ids the request names and whatever the
cache holds. -/
theorem handlers_never_panic (found : String → Bool) :
    ∀ h ∈ Nri.Gen.Guards.handlers, exec found h.2 ≠ .panic := by
  intro h hm
  have := List.all_eq_true.mp handlers_safe h hm
  exact safe_never_panics found h.2 [] this (fun _ hv => by cases hv)

/-- the topology-aware allocation path evaluates the pod only behind a check (regenerated facts) -/
theorem ta_pod_use_guarded :
    Nri.Gen.Guards.newRequestCallers = ["allocatePool"] ∧ Nri.Gen.Guards.allocatePoolChecksPodFirst = true := by decide

/-- the side plugins and the NRI handlers read optional sub-messages of NRI messages only through the nil-safe
accessors: no plain field-selector chain through `Linux`, `Resources`, `Memory`, `Cpu`, … is left (regenerated) -/
theorem no_direct_optional_derefs : Nri.Gen.OptDerefs.directDerefs = [] := by decide

/-- an unguarded use does panic for an unknown id (the shape StopPodSandbox/RemovePodSandbox had) -/
theorem unguarded_use_panics : exec (fun _ => false) (.lookup "pod" (.use "pod" .done)) = .panic := by decide

-- non-vacuity: a guarded handler on an unknown id returns, on a known id goes on
example : exec (fun _ => false) (.lookup "c" (.guardRet "c" (.use "c" .done))) = .returned ∧
          exec (fun _ => true) (.lookup "c" (.guardRet "c" (.use "c" .done))) = .next := by decide

end Nri.Guard
