import Nri.Model.ApplyGrant
import Nri.Gen.PipeFacts
/-!
C12 — opt-outs are honoured (topology-aware half): what the policy writes to a container.
-/
namespace Nri.TA

/-- regenerated fact: the Set* calls of `applyGrant` with the conditions guarding them -/
theorem gen_applygrant_ok : Nri.Gen.Pipe.applyGrantWrites =
    ["setPreferredCpusetCpus: opt.PinCPU & !(cpuType == cpuPreserve) & cpus.Size() > 0",
     "SetCpusetCpus: opt.PinCPU & !(cpuType == cpuPreserve) & !(cpus.Size() > 0)",
     "SetCPUShares: opt.PinCPU",
     "SetCpusetMems: !(grant.MemoryType() == memoryPreserve)"] := by decide

/-- a container opted out of CPU pinning (cpu.preserve ⇒ CPU class `preserve`) is never told a
CPU set, under any configuration … -/
theorem preserved_cpu_never_written (pinCPU memPreserve : Bool) (sp : Nat) :
    Field.cpus ∉ applyGrantWrites pinCPU .preserve memPreserve ∧ Field.cpus ∉ updateSharedWrites pinCPU .preserve sp := by
  constructor
  · simp only [applyGrantWrites]
    cases pinCPU <;> cases memPreserve <;> decide
  · simp [updateSharedWrites]

/-- … nor is anybody when CPU pinning is disabled in the configuration -/
theorem unpinned_cpu_never_written (ct : CpuType) (memPreserve : Bool) (sp : Nat) :
    Field.cpus ∉ applyGrantWrites false ct memPreserve ∧ Field.cpus ∉ updateSharedWrites false ct sp := by
  constructor
  · simp only [applyGrantWrites]
    cases memPreserve <;> simp
  · simp only [updateSharedWrites]
    repeat' split
    all_goals simp_all

/-- a container opted out of memory pinning is never told memory nodes -/
theorem preserved_mem_never_written (pinCPU : Bool) (ct : CpuType) :
    Field.mems ∉ applyGrantWrites pinCPU ct true := by
  simp only [applyGrantWrites]
  cases pinCPU <;> cases ct <;> decide

/-- with memory pinning disabled the value written is the empty mask ("do not pin"), whatever
the zone -/
theorem unpinned_mem_value (zone : Nat) (zs : Nat → String) : memsValue false zone zs = zs 0 := rfl

end Nri.TA
