import Nri.Model.ApplyGrant
import Nri.Gen.BalloonPinFacts
import Nri.Gen.PipeFacts
/-!
C12 — opt-outs are honoured (topology-aware half): what the policy writes to a container.
-/
namespace Nri.TA

/-- regenerated fact: the Set* calls of `applyGrant` with the conditions guarding them -/
theorem gen_applygrant_ok : Nri.Gen.Pipe.applyGrantWrites =
    ["setPreferredCpusetCpus: opt.PinCPU & !(cpuType == cpuPreserve) & cpus.Size() > 0",
     "SetCpusetCpus: opt.PinCPU & !(cpuType == cpuPreserve) & !(cpus.Size() > 0)",
     "SetCPUShares: opt.PinCPU",
     "SetCpusetMems: !(grant.MemoryType() == memoryPreserve)"] := by decide

/-- a container opted out of CPU pinning (cpu.preserve ⇒ CPU class `preserve`) is never told a
CPU set, under any configuration … -/
theorem preserved_cpu_never_written (pinCPU memPreserve : Bool) (sp : Nat) :
    Field.cpus ∉ applyGrantWrites pinCPU .preserve memPreserve ∧ Field.cpus ∉ updateSharedWrites pinCPU .preserve sp := by
  constructor
  · simp only [applyGrantWrites]
    cases pinCPU <;> cases memPreserve <;> decide
  · simp [updateSharedWrites]

/-- … nor is anybody when CPU pinning is disabled in the configuration -/
theorem unpinned_cpu_never_written (ct : CpuType) (memPreserve : Bool) (sp : Nat) :
    Field.cpus ∉ applyGrantWrites false ct memPreserve ∧ Field.cpus ∉ updateSharedWrites false ct sp := by
  constructor
  · simp only [applyGrantWrites]
    cases memPreserve <;> simp
  · simp only [updateSharedWrites]
    repeat' split
    all_goals simp_all

/-- a container opted out of memory pinning is never told memory nodes -/
theorem preserved_mem_never_written (pinCPU : Bool) (ct : CpuType) :
    Field.mems ∉ applyGrantWrites pinCPU ct true := by
  simp only [applyGrantWrites]
  cases pinCPU <;> cases ct <;> decide

/-- with memory pinning disabled the value written is the empty mask ("do not pin"), whatever
the zone -/
theorem unpinned_mem_value (zone : Nat) (zs : Nat → String) : memsValue false zone zs = zs 0 := rfl

end Nri.TA

/-! ### balloons half -/
namespace Nri.BalloonsPin
open Nri.TA (Field)

/-- a container opted out of CPU pinning - by annotation or by a matching preserve rule - is written nothing at all -/
theorem balloons_cpu_optout_written_nothing (rule ann pinCPU pm : Bool) (pt : Option Bool) (mp : Bool) (h : ann = true ∨ rule = true) :
    allocateWrites ann rule pinCPU pm pt mp = [] := by
  rcases h with h | h <;> simp [allocateWrites, h]

/-- with CPU pinning disabled nobody is told a CPU set -/
theorem balloons_unpinned_cpu_never_written (ann rule pm : Bool) (pt : Option Bool) (mp : Bool) :
    Field.cpus ∉ allocateWrites ann rule false pm pt mp := by
  unfold allocateWrites
  cases ann <;> cases rule <;> cases mp <;> cases h : pt.getD pm <;> simp [h]

/-- a container opted out of memory pinning (memory.preserve) is never told memory nodes - neither when it is
admitted nor when another container's allocation widens its zone (the defect repaired by fix aca789f was
exactly that both writes existed) -/
theorem balloons_preserved_mem_never_written (ann rule pinCPU pm : Bool) (pt : Option Bool) :
    Field.mems ∉ allocateWrites ann rule pinCPU pm pt true ∧ Field.mems ∉ updateWrites true := by
  constructor
  · unfold allocateWrites
    cases ann <;> cases rule <;> cases pinCPU <;> cases h : pt.getD pm <;> simp [h]
  · simp [updateWrites]

/-- memory pinning disabled for the balloon type (or globally, with no type-level override): no memory nodes are told -/
theorem balloons_unpinned_mem_never_written (ann rule pinCPU pm mp : Bool) (pt : Option Bool) (h : pt.getD pm = false) :
    Field.mems ∉ allocateWrites ann rule pinCPU pm pt mp := by
  unfold allocateWrites
  cases ann <;> cases rule <;> cases pinCPU <;> simp [h]

end Nri.BalloonsPin

/-! ### source shapes the model was written against (BalloonPinFacts.lean; the regenerated facts must equal them) -/
namespace Nri.BalloonsPin.Expectgen_balloon_pin_facts_ok
def pinCpuMem : List String := ["if p.bpoptions.PinCPU == nil || *p.bpoptions.PinCPU", "> c.SetCpusetCpus(cpus.String())", "> if reqCpu, ok := c.GetResourceRequirements().Requests[corev1.ResourceCPU]; ok", "> > c.SetCPUShares(int64(cache.MilliCPUToShares(int64(mCpu))))", "pinMemory := p.bpoptions.PinMemory == nil || *p.bpoptions.PinMemory", "if blnDefPinMemory != nil", "> pinMemory = *blnDefPinMemory", "if pinMemory", "> if c.PreserveMemoryResources()", "> > if err != nil", "> > else", "> > > zone := p.allocMem(c, preserveMems, 0, true)", "> else", "> > zone := p.allocMem(c, mems, effMemTypeMask, false)", "> > c.SetCpusetMems(zone.MemsetString())"]
def allocMem : List String := ["if _, ok := p.memAllocator.AssignedZone(c.GetID()); !ok", "> if preserve", "> > req = libmem.PreservedContainer( c.GetID(), c.PrettyName(), amount, nodes, )", "> else", "> > req = libmem.ContainerWithTypes( c.GetID(), c.PrettyName(), string(c.GetQOSClass()), amount, nodes, types, )", "> zone, updates, err = p.memAllocator.Allocate(req)", "else", "> zone, updates, err = p.memAllocator.Realloc(c.GetID(), nodes, types)", "if err != nil", "> return nodes", "range updates", "> if oc, ok := p.cch.LookupContainer(oID); ok", "> > if oc.PreserveMemoryResources()", "> > > continue", "> > oc.SetCpusetMems(oz.MemsetString())", "return zone"]
def updatePinning : List String := ["range blns", "> var allowedCpus cpuset.CPUSet", "> range bln.ContainerIDs()", "> > if c, ok := p.cch.LookupContainer(cID); ok", "> > > if runWithoutHyperthreads(c, bln)", "> > > > allowedCpus = cpusNoHt", "> > > else", "> > > > allowedCpus = pinnableCpus", "> > > p.pinCpuMem(c, allowedCpus, bln.Mems, bln.memTypeMask, bln.Def.PinMemory)"]
end Nri.BalloonsPin.Expectgen_balloon_pin_facts_ok

namespace Nri.BalloonsPin

/-- the regenerated statement skeletons of the balloons policy's writes are the ones allocateWrites / updateWrites follow: pinCpuMem writes cpuset and shares under PinCPU, decides memory pinning from the policy-level setting overridden by the balloon type's, accounts the memory of a preserving container WITHOUT writing its cpuset.mems and writes the zone otherwise; allocMem's loop over the allocator's updates skips containers that preserve their memory resources; updatePinning re-pins the members of the given balloons through pinCpuMem (the cpu.preserve / preserve-rule early returns of AllocateResources are pinned by C02's gen_balloon_req_facts_ok) -/
theorem gen_balloon_pin_facts_ok :
    Nri.Gen.BalloonPin.pinCpuMem = Expectgen_balloon_pin_facts_ok.pinCpuMem ∧
    Nri.Gen.BalloonPin.allocMem = Expectgen_balloon_pin_facts_ok.allocMem ∧
    Nri.Gen.BalloonPin.updatePinning = Expectgen_balloon_pin_facts_ok.updatePinning := by
  and_intros <;> rfl

end Nri.BalloonsPin
