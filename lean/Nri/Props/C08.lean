import Nri.Model.CpuAlloc
import Nri.Gen.CpuAllocLoops
import Nri.Gen.CpuAllocFacts
/-!
C08 — CPU allocator contract: exact count, subset, set bookkeeping.
Theorems hold for every candidate order/comparator, every topology, set and count.
-/
namespace Nri.CpuAlloc

/-- regenerated facts: the dispatcher's stage order and guards, the front-end's three cases, and
that the only `range` over a map in the package is the known order-insensitive one. -/
theorem gen_cpualloc_facts_ok :
    Nri.Gen.CpuAlloc.dispatch = ["takeIdlePackages", "takeIdleClusters", "takeCacheGroups", "takeCacheGroups", "takeIdleCores", "takeIdleThreads", "takeAny"] ∧
    Nri.Gen.CpuAlloc.frontEndCases = ["from.Size() < cnt", "from.Size() == cnt", "default"] ∧
    Nri.Gen.CpuAlloc.mapRanges = Nri.Gen.CpuAlloc.expectedMapRanges := by decide

theorem perm_take (l c : List Nat) (hl : l.Nodup) (hc : c.Nodup) (hsub : ∀ x ∈ c, x ∈ l) :
    List.Perm l (c ++ l.filter (fun x => !c.contains x)) := by
  have h1 : List.Perm (l.filter (fun x => c.contains x) ++ l.filter (fun x => !c.contains x)) l :=
    List.filter_append_perm _ l
  have h2 : List.Perm (l.filter (fun x => c.contains x)) c := by
    rw [List.perm_ext_iff_of_nodup (hl.filter _) hc]
    intro a
    simp only [List.mem_filter, List.contains_iff_mem]
    constructor
    · intro h; exact h.2
    · intro h; exact ⟨hsub a h, h⟩
  exact h1.symm.trans (h2.append_right _)

/-- **taking one admissible set preserves the partition and the count.** -/
theorem take_inv (from0 : List Nat) (n : Nat) (h0 : from0.Nodup) (s : State) (c : List Nat)
    (hinv : Inv from0 n s) (hc : c.Nodup) (hsub : ∀ x ∈ c, x ∈ s.from_) (hlen : c.length ≤ s.cnt) :
    Inv from0 n (take s c) := by
  obtain ⟨hp, hcnt⟩ := hinv
  have hnd : (s.result ++ s.from_).Nodup := hp.nodup_iff.1 h0
  have hfrom : s.from_.Nodup := (List.nodup_append.1 hnd).2.1
  constructor
  · -- from0 ~ result ++ from ~ result ++ (c ++ from \ c) = (result ++ c) ++ from \ c
    have := perm_take s.from_ c hfrom hc hsub
    have h2 : List.Perm (s.result ++ s.from_) (s.result ++ (c ++ s.from_.filter (fun x => !c.contains x))) :=
      this.append_left _
    simp only [take]
    rw [List.append_assoc]
    exact hp.trans h2
  · simp only [take, List.length_append]; omega

theorem admissible_inv (from0 : List Nat) (n : Nat) (h0 : from0.Nodup) (T : List (List Nat)) :
    ∀ s, Inv from0 n s → admissible s T = true → Inv from0 n (takeAll s T) := by
  induction T with
  | nil => intro s h _; exact h
  | cons c cs ih =>
    intro s h ha
    simp only [admissible, Bool.and_eq_true, decide_eq_true_eq, List.all_eq_true, List.contains_iff_mem] at ha
    obtain ⟨⟨⟨hc, hsub⟩, hlen⟩, hrest⟩ := ha
    simp only [takeAll, List.foldl_cons]
    exact ih _ (take_inv from0 n h0 s c h (by simpa using hc) hsub hlen) hrest

/-- every stage that takes an admissible selection of candidate sets (idle packages, idle
cores, in any preference order) satisfies the stage contract. -/
theorem stage_sets_ok (from0 : List Nat) (n : Nat) (h0 : from0.Nodup) (s : State) (T : List (List Nat))
    (ha : admissible s T = true) : StageOK from0 n s (takeAll s T) :=
  fun h => admissible_inv from0 n h0 T s h ha

theorem inv_from_nodup (from0 : List Nat) (n : Nat) (h0 : from0.Nodup) (s : State) (h : Inv from0 n s) :
    s.from_.Nodup ∧ s.result.Nodup ∧ s.from_.length + s.result.length = from0.length := by
  have hnd : (s.result ++ s.from_).Nodup := h.1.nodup_iff.1 h0
  refine ⟨(List.nodup_append.1 hnd).2.1, (List.nodup_append.1 hnd).1, ?_⟩
  have := h.1.length_eq
  simp only [List.length_append] at this
  omega

/-- the thread stage preserves the invariant for every candidate order inside `from`, and
exhausts the count whenever enough candidates are on offer. -/
theorem threads_ok (from0 : List Nat) (n : Nat) (h0 : from0.Nodup) (s : State) (order : List Nat)
    (hord : order.Nodup) (hsub : ∀ x ∈ order, x ∈ s.from_) (h : Inv from0 n s) :
    Inv from0 n (takeThreads s order) ∧ (s.cnt ≤ order.length → (takeThreads s order).cnt = 0) := by
  constructor
  · apply take_inv from0 n h0 s _ h
    · exact List.Nodup.sublist (List.take_sublist _ _) hord
    · intro x hx; exact hsub x (List.mem_of_mem_take hx)
    · simp only [List.length_take]; omega
  · intro hle
    simp only [takeThreads, take, List.length_take]
    omega

/-- **Allocation contract.** Let the helper's run be ANY sequence of contract-abiding stages
followed by the thread stage over all CPUs still in `from` (all online).  Then for `n < |set|`:
exactly `n` distinct CPUs are returned, all taken from the set, and the set that is written
back is the original minus exactly those. -/
theorem allocate_contract (from0 : List Nat) (n : Nat) (h0 : from0.Nodup) (hn : n ≤ from0.length)
    (mid : State) (hmid : Inv from0 n mid) (order : List Nat) (hperm : List.Perm order mid.from_) :
    let post := takeThreads mid order
    finish post = post.result ∧ post.result.length = n ∧ post.result.Nodup ∧
    (∀ x ∈ post.result, x ∈ from0) ∧ (∀ x, x ∈ post.from_ ↔ x ∈ from0 ∧ x ∉ post.result) := by
  intro post
  obtain ⟨hfn, hrn, hlen⟩ := inv_from_nodup from0 n h0 mid hmid
  have hord : order.Nodup := hperm.nodup_iff.2 hfn
  have hsub : ∀ x ∈ order, x ∈ mid.from_ := fun x hx => hperm.mem_iff.1 hx
  obtain ⟨hinv, hzero⟩ := threads_ok from0 n h0 mid order hord hsub hmid
  have hcnt : mid.cnt ≤ order.length := by
    rw [hperm.length_eq]
    have := hmid.2
    omega
  have hz : post.cnt = 0 := hzero hcnt
  obtain ⟨hfn', hrn', _⟩ := inv_from_nodup from0 n h0 post hinv
  refine ⟨by simp [finish, hz], ?_, hrn', ?_, ?_⟩
  · have h2 := hinv.2
    have hz' : (takeThreads mid order).cnt = 0 := hz
    show (takeThreads mid order).result.length = n
    omega
  · intro x hx
    exact hinv.1.mem_iff.2 (List.mem_append_left _ hx)
  · intro x
    have hnd : (post.result ++ post.from_).Nodup := hinv.1.nodup_iff.1 h0
    have hdisj := (List.nodup_append.1 hnd).2.2
    constructor
    · intro hx
      exact ⟨hinv.1.mem_iff.2 (List.mem_append_right _ hx), fun hr => hdisj x hr x hx rfl⟩
    · intro ⟨hx, hnr⟩
      rcases List.mem_append.1 (hinv.1.mem_iff.1 hx) with h | h
      · exact absurd h hnr
      · exact h

/-- the initial state satisfies the invariant. -/
theorem inv_init (from0 : List Nat) (n : Nat) : Inv from0 n { from_ := from0, result := [], cnt := n } := by
  constructor
  · simp
  · simp

/-- front end: a request for more CPUs than the set holds fails and leaves the set unchanged;
a request for exactly the set returns it and empties the set. -/
theorem too_many_fails_unchanged (alloc : State → State) (from0 : List Nat) (n : Nat) (h : from0.length < n) :
    allocateCpus alloc from0 n = (none, from0) := by
  simp [allocateCpus, h]

theorem exact_takes_all (alloc : State → State) (from0 : List Nat) :
    allocateCpus alloc from0 from0.length = (some from0, []) := by
  simp [allocateCpus]

/-- **Release contract.** Releasing `n ≤ |set|` CPUs (with a contract-abiding helper) splits the
set into `|set| - n` returned CPUs and `n` CPUs left in the set, without losing or inventing any. -/
theorem release_contract (from0 : List Nat) (n : Nat) (h0 : from0.Nodup) (hn : n ≤ from0.length) (hpos : 0 < n)
    (alloc : State → State)
    (halloc : ∀ s, Inv from0 (from0.length - n) s → ∃ mid order, Inv from0 (from0.length - n) mid ∧
        List.Perm order mid.from_ ∧ alloc s = takeThreads mid order) :
    ∃ kept left, releaseCpus alloc from0 n = (some kept, left) ∧ kept.length = from0.length - n ∧
      left.length = n ∧ List.Perm from0 (kept ++ left) := by
  unfold releaseCpus allocateCpus
  have h1 : ¬ from0.length < from0.length - n := by omega
  have h2 : ¬ from0.length = from0.length - n := by omega
  simp only [h1, h2, if_false]
  obtain ⟨mid, order, hmid, hperm, heq⟩ := halloc _ (inv_init from0 (from0.length - n))
  have hc := allocate_contract from0 (from0.length - n) h0 (by omega) mid hmid order hperm
  simp only [] at hc
  obtain ⟨hfin, hlen, _, _, _⟩ := hc
  rw [heq]
  obtain ⟨hfn, hrn, hlen2⟩ := inv_from_nodup from0 _ h0 mid hmid
  have hord : order.Nodup := hperm.nodup_iff.2 hfn
  have hinv := (threads_ok from0 _ h0 mid order hord (fun x hx => hperm.mem_iff.1 hx) hmid).1
  refine ⟨(takeThreads mid order).result, (takeThreads mid order).from_, ?_, hlen, ?_, hinv.1⟩
  · rw [hfin]
  · have := hinv.1.length_eq
    simp only [List.length_append] at this
    omega

-- non-vacuity: a concrete run
example : admissible ⟨[0,1,2,3,4,5], [], 4⟩ [[0,1],[4,5]] = true := by decide
example : takeAll ⟨[0,1,2,3,4,5], [], 4⟩ [[0,1],[4,5]] = ⟨[2,3], [0,1,4,5], 0⟩ := by decide


/-! ### the stage bodies as they are written (loops over the sorted candidates), for EVERY candidate order -/

/-- candidate sets that are duplicate-free, inside `from`, and pairwise disjoint - what the idle-package /
idle-core filters produce on a well-formed topology (packages, and cores, partition the CPUs) -/
def Candidates (s : State) (cands : List (List Nat)) : Prop :=
  (∀ c ∈ cands, c.Nodup ∧ ∀ x ∈ c, x ∈ s.from_) ∧ cands.Pairwise (fun a b => ∀ x, x ∈ a → x ∉ b)

theorem candidates_after_take (s : State) (c : List Nat) (cs : List (List Nat)) (h : Candidates s (c :: cs)) :
    Candidates (take s c) cs := by
  obtain ⟨hmem, hpw⟩ := h
  rw [List.pairwise_cons] at hpw
  refine ⟨?_, hpw.2⟩
  intro d hd
  refine ⟨(hmem d (List.mem_cons_of_mem _ hd)).1, ?_⟩
  intro x hx
  simp only [take, List.mem_filter, Bool.not_eq_true', List.contains_eq_mem, decide_eq_false_iff_not]
  refine ⟨(hmem d (List.mem_cons_of_mem _ hd)).2 x hx, ?_⟩
  intro hxc
  exact hpw.1 d hd x hxc hx

/-- **takeIdlePackages / takeIdleCores as written satisfy the stage contract for every sort order**: the
loop body (take the candidate iff it fits, stop when the count is exhausted) preserves "result ⊎ from =
original set" and "count + |result| = n" whatever order the comparator put the candidates in -/
theorem foldStage_inv (from0 : List Nat) (n : Nat) (h0 : from0.Nodup) (cands : List (List Nat)) :
    ∀ s, Inv from0 n s → Candidates s cands → Inv from0 n (foldStage cands s) := by
  induction cands with
  | nil => intro s h _; exact h
  | cons c cs ih =>
    intro s h hc
    simp only [foldStage]
    split
    · rename_i hfit
      have hinv' := take_inv from0 n h0 s c h (hc.1 c List.mem_cons_self).1 (hc.1 c List.mem_cons_self).2 hfit
      split
      · exact hinv'
      · exact ih _ hinv' (candidates_after_take s c cs hc)
    · refine ih s h ⟨fun d hd => hc.1 d (List.mem_cons_of_mem _ hd), ?_⟩
      have := hc.2
      rw [List.pairwise_cons] at this
      exact this.2

theorem foldStage_ok (from0 : List Nat) (n : Nat) (h0 : from0.Nodup) (s : State) (cands : List (List Nat))
    (hc : Candidates s cands) : StageOK from0 n s (foldStage cands s) :=
  fun h => foldStage_inv from0 n h0 cands s h hc

/-- **takeIdleThreads as written**: with `cnt > 0` (the guard in `allocate()`), distinct candidate CPUs taken from
`from`, the loop preserves the invariant and ends with `cnt = 0` whenever there are at least `cnt` candidates -/
theorem threadStage_inv (from0 : List Nat) (n : Nat) (h0 : from0.Nodup) (order : List Nat) :
    ∀ s, Inv from0 n s → 0 < s.cnt → order.Nodup → (∀ x ∈ order, x ∈ s.from_) →
      Inv from0 n (threadStage order s) ∧ (s.cnt ≤ order.length → (threadStage order s).cnt = 0) := by
  induction order with
  | nil => intro s h hpos _ _; exact ⟨h, fun hle => by simp at hle; omega⟩
  | cons x xs ih =>
    intro s h hpos hnd hsub
    rw [List.nodup_cons] at hnd
    have hinv' := take_inv from0 n h0 s [x] h (by simp) (by intro y hy; simp at hy; subst hy; exact hsub _ List.mem_cons_self) (by simp; omega)
    simp only [threadStage]
    split
    · rename_i hz
      exact ⟨hinv', fun _ => hz⟩
    · rename_i hnz
      have hcnt : (take s [x]).cnt = s.cnt - 1 := by simp [take]
      have hsub' : ∀ y ∈ xs, y ∈ (take s [x]).from_ := by
        intro y hy
        simp only [take, List.mem_filter, Bool.not_eq_true', List.contains_eq_mem, decide_eq_false_iff_not, List.mem_singleton]
        exact ⟨hsub y (List.mem_cons_of_mem _ hy), fun e => hnd.1 (e ▸ hy)⟩
      have := ih (take s [x]) hinv' (by omega) hnd.2 hsub'
      refine ⟨this.1, ?_⟩
      intro hle
      apply this.2
      simp only [List.length_cons] at hle
      omega

-- the loops on a concrete machine: two idle 2-thread cores and a busy one, 3 CPUs wanted, the comparator
-- put the cores in the order [[4,5],[0,1]]: core {4,5} is taken, core {0,1} no longer fits, the thread
-- stage takes one more CPU
example : foldStage [[4, 5], [0, 1]] ⟨[0, 1, 2, 4, 5], [], 3⟩ = ⟨[0, 1, 2], [4, 5], 1⟩ := by decide
example : threadStage [2, 0, 1] ⟨[0, 1, 2], [4, 5], 1⟩ = ⟨[0, 1], [4, 5, 2], 0⟩ := by decide

end Nri.CpuAlloc

/-! ### source shapes the model was written against (CpuAllocLoops.lean; the regenerated facts must equal them) -/
namespace Nri.CpuAlloc.Expectgen_cpualloc_loops_ok
def takeIdlePackages : List String := ["offline := a.sys.Offlined()", "pkgs := pickIds(a.sys.PackageIDs(), func(id idset.ID) bool { cset := a.topology.pkg[id].Difference(offline) if a.prefer < NumCPUPriorities { cset = cset.Intersection(a.topology.cpuPriorities[a.prefer]) } return cset.Intersection(a.from).Equals(cset) })", "range pkgs", "> cset := a.topology.pkg[id].Difference(offline)", "> if a.prefer < NumCPUPriorities", "> > cset = cset.Intersection(a.topology.cpuPriorities[a.prefer])", "> if a.cnt >= cset.Size()", "> > a.result = a.result.Union(cset)", "> > a.from = a.from.Difference(cset)", "> > a.cnt -= cset.Size()", "> > if a.cnt == 0", "> > > break"]
def takeIdleCores : List String := ["offline := a.sys.Offlined()", "cores := pickIds(a.sys.CPUIDs(), func(id idset.ID) bool { cset := a.topology.core[id].Difference(offline) if cset.IsEmpty() { return false } return cset.Intersection(a.from).Equals(cset) && cset.List()[0] == int(id) })", "range cores", "> cset := a.topology.core[id].Difference(offline)", "> if a.cnt >= cset.Size()", "> > a.result = a.result.Union(cset)", "> > a.from = a.from.Difference(cset)", "> > a.cnt -= cset.Size()", "> > if a.cnt == 0", "> > > break"]
def takeIdleThreads : List String := ["offline := a.sys.Offlined()", "cores := pickIds(a.sys.CPUIDs(), func(id idset.ID) bool { return a.from.Difference(offline).Contains(int(id)) })", "range cores", "> cset := a.topology.core[id].Difference(offline)", "> cset = cpuset.New(int(id))", "> a.result = a.result.Union(cset)", "> a.from = a.from.Difference(cset)", "> a.cnt -= cset.Size()", "> if a.cnt == 0", "> > break"]
def takeAny : List String := ["cpus := a.from.List()", "if len(cpus) >= a.cnt", "> cset := cpuset.New(cpus[0:a.cnt]...)", "> a.result = a.result.Union(cset)", "> a.from = a.from.Difference(cset)", "> a.cnt = 0"]
def allocate : List String := ["if a.sys != nil", "> if (a.flags & AllocIdlePackages) != 0", "> > a.takeIdlePackages()", "> if len(a.topology.kind) > 1", "> > if a.cnt > 0 && (a.flags&AllocIdleClusters) != 0", "> > > a.takeIdleClusters()", "> > if a.cnt > 0 && (a.flags&AllocCacheGroups) != 0", "> > > a.takeCacheGroups()", "> else", "> > if a.cnt > 0 && (a.flags&AllocCacheGroups) != 0", "> > > a.takeCacheGroups()", "> if a.cnt > 0 && (a.flags&AllocIdleCores) != 0", "> > a.takeIdleCores()", "> if a.cnt > 0", "> > a.takeIdleThreads()", "else", "> a.takeAny()", "if a.cnt == 0", "> return a.result", "return cpuset.New()"]
def allocateCpus : List String := ["var result cpuset.CPUSet", "switch", "> case from.Size() < cnt", "> > result, err = cpuset.New(), fmt.Errorf(…)", "> case from.Size() == cnt", "> > result, err, *from = from.Clone(), nil, cpuset.New()", "> default", "> > a := newAllocatorHelper(ca.sys, ca.topologyCache)", "> > range options", "> > > if err := o(a); err != nil", "> > > > return cpuset.New(), err", "> > a.from = from.Clone()", "> > a.cnt = cnt", "> > result, err, *from = a.allocate(), nil, a.from.Clone()", "return result, err"]
def releaseCpus : List String := ["oset := from.Clone()", "result, err := ca.allocateCpus(from, from.Size()-cnt, options...)", "return result, err"]
end Nri.CpuAlloc.Expectgen_cpualloc_loops_ok

namespace Nri.CpuAlloc

/-- the regenerated statement skeletons of the stage bodies are the ones the loop models follow: takeIdlePackages / takeIdleCores build their candidates by filter (set restricted to online CPUs - and to the preferred priority class for packages - entirely inside from; a core is represented by its first thread), then take a candidate iff it still fits and break once the count is exhausted (foldStage); takeIdleThreads takes single CPUs of from until the count is exhausted (threadStage); takeAny; the dispatcher allocate() with its cnt > 0 guards and 'result iff cnt == 0'; the front ends allocateCpus (<, ==, default with write-back of the remaining set) and ReleaseCpus (= allocateCpus(from, size - cnt)) -/
theorem gen_cpualloc_loops_ok :
    Nri.Gen.CpuAllocLoops.takeIdlePackages = Expectgen_cpualloc_loops_ok.takeIdlePackages ∧
    Nri.Gen.CpuAllocLoops.takeIdleCores = Expectgen_cpualloc_loops_ok.takeIdleCores ∧
    Nri.Gen.CpuAllocLoops.takeIdleThreads = Expectgen_cpualloc_loops_ok.takeIdleThreads ∧
    Nri.Gen.CpuAllocLoops.takeAny = Expectgen_cpualloc_loops_ok.takeAny ∧
    Nri.Gen.CpuAllocLoops.allocate = Expectgen_cpualloc_loops_ok.allocate ∧
    Nri.Gen.CpuAllocLoops.allocateCpus = Expectgen_cpualloc_loops_ok.allocateCpus ∧
    Nri.Gen.CpuAllocLoops.releaseCpus = Expectgen_cpualloc_loops_ok.releaseCpus := by
  and_intros <;> rfl

end Nri.CpuAlloc
