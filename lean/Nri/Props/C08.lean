import Nri.Model.CpuAlloc
import Nri.Gen.CpuAllocFacts
/-!
C08 — CPU allocator contract: exact count, subset, set bookkeeping.
Theorems hold for every candidate order/comparator, every topology, set and count.
-/
namespace Nri.CpuAlloc

/-- regenerated facts: the dispatcher's stage order and guards, the front-end's three cases, and
that the only `range` over a map in the package is the known order-insensitive one. -/
theorem gen_cpualloc_facts_ok :
    Nri.Gen.CpuAlloc.dispatch = ["takeIdlePackages", "takeIdleClusters", "takeCacheGroups", "takeCacheGroups", "takeIdleCores", "takeIdleThreads", "takeAny"] ∧
    Nri.Gen.CpuAlloc.frontEndCases = ["from.Size() < cnt", "from.Size() == cnt", "default"] ∧
    Nri.Gen.CpuAlloc.mapRanges = Nri.Gen.CpuAlloc.expectedMapRanges := by decide

theorem perm_take (l c : List Nat) (hl : l.Nodup) (hc : c.Nodup) (hsub : ∀ x ∈ c, x ∈ l) :
    List.Perm l (c ++ l.filter (fun x => !c.contains x)) := by
  have h1 : List.Perm (l.filter (fun x => c.contains x) ++ l.filter (fun x => !c.contains x)) l :=
    List.filter_append_perm _ l
  have h2 : List.Perm (l.filter (fun x => c.contains x)) c := by
    rw [List.perm_ext_iff_of_nodup (hl.filter _) hc]
    intro a
    simp only [List.mem_filter, List.contains_iff_mem]
    constructor
    · intro h; exact h.2
    · intro h; exact ⟨hsub a h, h⟩
  exact h1.symm.trans (h2.append_right _)

/-- **taking one admissible set preserves the partition and the count.** -/
theorem take_inv (from0 : List Nat) (n : Nat) (h0 : from0.Nodup) (s : State) (c : List Nat)
    (hinv : Inv from0 n s) (hc : c.Nodup) (hsub : ∀ x ∈ c, x ∈ s.from_) (hlen : c.length ≤ s.cnt) :
    Inv from0 n (take s c) := by
  obtain ⟨hp, hcnt⟩ := hinv
  have hnd : (s.result ++ s.from_).Nodup := hp.nodup_iff.1 h0
  have hfrom : s.from_.Nodup := (List.nodup_append.1 hnd).2.1
  constructor
  · -- from0 ~ result ++ from ~ result ++ (c ++ from \ c) = (result ++ c) ++ from \ c
    have := perm_take s.from_ c hfrom hc hsub
    have h2 : List.Perm (s.result ++ s.from_) (s.result ++ (c ++ s.from_.filter (fun x => !c.contains x))) :=
      this.append_left _
    simp only [take]
    rw [List.append_assoc]
    exact hp.trans h2
  · simp only [take, List.length_append]; omega

theorem admissible_inv (from0 : List Nat) (n : Nat) (h0 : from0.Nodup) (T : List (List Nat)) :
    ∀ s, Inv from0 n s → admissible s T = true → Inv from0 n (takeAll s T) := by
  induction T with
  | nil => intro s h _; exact h
  | cons c cs ih =>
    intro s h ha
    simp only [admissible, Bool.and_eq_true, decide_eq_true_eq, List.all_eq_true, List.contains_iff_mem] at ha
    obtain ⟨⟨⟨hc, hsub⟩, hlen⟩, hrest⟩ := ha
    simp only [takeAll, List.foldl_cons]
    exact ih _ (take_inv from0 n h0 s c h (by simpa using hc) hsub hlen) hrest

/-- every stage that takes an admissible selection of candidate sets (idle packages, idle
cores, in any preference order) satisfies the stage contract. -/
theorem stage_sets_ok (from0 : List Nat) (n : Nat) (h0 : from0.Nodup) (s : State) (T : List (List Nat))
    (ha : admissible s T = true) : StageOK from0 n s (takeAll s T) :=
  fun h => admissible_inv from0 n h0 T s h ha

theorem inv_from_nodup (from0 : List Nat) (n : Nat) (h0 : from0.Nodup) (s : State) (h : Inv from0 n s) :
    s.from_.Nodup ∧ s.result.Nodup ∧ s.from_.length + s.result.length = from0.length := by
  have hnd : (s.result ++ s.from_).Nodup := h.1.nodup_iff.1 h0
  refine ⟨(List.nodup_append.1 hnd).2.1, (List.nodup_append.1 hnd).1, ?_⟩
  have := h.1.length_eq
  simp only [List.length_append] at this
  omega

/-- the thread stage preserves the invariant for every candidate order inside `from`, and
exhausts the count whenever enough candidates are on offer. -/
theorem threads_ok (from0 : List Nat) (n : Nat) (h0 : from0.Nodup) (s : State) (order : List Nat)
    (hord : order.Nodup) (hsub : ∀ x ∈ order, x ∈ s.from_) (h : Inv from0 n s) :
    Inv from0 n (takeThreads s order) ∧ (s.cnt ≤ order.length → (takeThreads s order).cnt = 0) := by
  constructor
  · apply take_inv from0 n h0 s _ h
    · exact List.Nodup.sublist (List.take_sublist _ _) hord
    · intro x hx; exact hsub x (List.mem_of_mem_take hx)
    · simp only [List.length_take]; omega
  · intro hle
    simp only [takeThreads, take, List.length_take]
    omega

/-- **Allocation contract.** Let the helper's run be ANY sequence of contract-abiding stages
followed by the thread stage over all CPUs still in `from` (all online).  Then for `n < |set|`:
exactly `n` distinct CPUs are returned, all taken from the set, and the set that is written
back is the original minus exactly those. -/
theorem allocate_contract (from0 : List Nat) (n : Nat) (h0 : from0.Nodup) (hn : n ≤ from0.length)
    (mid : State) (hmid : Inv from0 n mid) (order : List Nat) (hperm : List.Perm order mid.from_) :
    let post := takeThreads mid order
    finish post = post.result ∧ post.result.length = n ∧ post.result.Nodup ∧
    (∀ x ∈ post.result, x ∈ from0) ∧ (∀ x, x ∈ post.from_ ↔ x ∈ from0 ∧ x ∉ post.result) := by
  intro post
  obtain ⟨hfn, hrn, hlen⟩ := inv_from_nodup from0 n h0 mid hmid
  have hord : order.Nodup := hperm.nodup_iff.2 hfn
  have hsub : ∀ x ∈ order, x ∈ mid.from_ := fun x hx => hperm.mem_iff.1 hx
  obtain ⟨hinv, hzero⟩ := threads_ok from0 n h0 mid order hord hsub hmid
  have hcnt : mid.cnt ≤ order.length := by
    rw [hperm.length_eq]
    have := hmid.2
    omega
  have hz : post.cnt = 0 := hzero hcnt
  obtain ⟨hfn', hrn', _⟩ := inv_from_nodup from0 n h0 post hinv
  refine ⟨by simp [finish, hz], ?_, hrn', ?_, ?_⟩
  · have h2 := hinv.2
    have hz' : (takeThreads mid order).cnt = 0 := hz
    show (takeThreads mid order).result.length = n
    omega
  · intro x hx
    exact hinv.1.mem_iff.2 (List.mem_append_left _ hx)
  · intro x
    have hnd : (post.result ++ post.from_).Nodup := hinv.1.nodup_iff.1 h0
    have hdisj := (List.nodup_append.1 hnd).2.2
    constructor
    · intro hx
      exact ⟨hinv.1.mem_iff.2 (List.mem_append_right _ hx), fun hr => hdisj x hr x hx rfl⟩
    · intro ⟨hx, hnr⟩
      rcases List.mem_append.1 (hinv.1.mem_iff.1 hx) with h | h
      · exact absurd h hnr
      · exact h

/-- the initial state satisfies the invariant. -/
theorem inv_init (from0 : List Nat) (n : Nat) : Inv from0 n { from_ := from0, result := [], cnt := n } := by
  constructor
  · simp
  · simp

/-- front end: a request for more CPUs than the set holds fails and leaves the set unchanged;
a request for exactly the set returns it and empties the set. -/
theorem too_many_fails_unchanged (alloc : State → State) (from0 : List Nat) (n : Nat) (h : from0.length < n) :
    allocateCpus alloc from0 n = (none, from0) := by
  simp [allocateCpus, h]

theorem exact_takes_all (alloc : State → State) (from0 : List Nat) :
    allocateCpus alloc from0 from0.length = (some from0, []) := by
  simp [allocateCpus]

/-- **Release contract.** Releasing `n ≤ |set|` CPUs (with a contract-abiding helper) splits the
set into `|set| - n` returned CPUs and `n` CPUs left in the set, without losing or inventing any. -/
theorem release_contract (from0 : List Nat) (n : Nat) (h0 : from0.Nodup) (hn : n ≤ from0.length) (hpos : 0 < n)
    (alloc : State → State)
    (halloc : ∀ s, Inv from0 (from0.length - n) s → ∃ mid order, Inv from0 (from0.length - n) mid ∧
        List.Perm order mid.from_ ∧ alloc s = takeThreads mid order) :
    ∃ kept left, releaseCpus alloc from0 n = (some kept, left) ∧ kept.length = from0.length - n ∧
      left.length = n ∧ List.Perm from0 (kept ++ left) := by
  unfold releaseCpus allocateCpus
  have h1 : ¬ from0.length < from0.length - n := by omega
  have h2 : ¬ from0.length = from0.length - n := by omega
  simp only [h1, h2, if_false]
  obtain ⟨mid, order, hmid, hperm, heq⟩ := halloc _ (inv_init from0 (from0.length - n))
  have hc := allocate_contract from0 (from0.length - n) h0 (by omega) mid hmid order hperm
  simp only [] at hc
  obtain ⟨hfin, hlen, _, _, _⟩ := hc
  rw [heq]
  obtain ⟨hfn, hrn, hlen2⟩ := inv_from_nodup from0 _ h0 mid hmid
  have hord : order.Nodup := hperm.nodup_iff.2 hfn
  have hinv := (threads_ok from0 _ h0 mid order hord (fun x hx => hperm.mem_iff.1 hx) hmid).1
  refine ⟨(takeThreads mid order).result, (takeThreads mid order).from_, ?_, hlen, ?_, hinv.1⟩
  · rw [hfin]
  · have := hinv.1.length_eq
    simp only [List.length_append] at this
    omega

-- non-vacuity: a concrete run
example : admissible ⟨[0,1,2,3,4,5], [], 4⟩ [[0,1],[4,5]] = true := by decide
example : takeAll ⟨[0,1,2,3,4,5], [], 4⟩ [[0,1],[4,5]] = ⟨[2,3], [0,1,4,5], 0⟩ := by decide

end Nri.CpuAlloc
