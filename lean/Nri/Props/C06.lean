import Nri.Model.LibMem
import Nri.Gen.LibmemSkel
import Nri.Proofs.LibMem
import Nri.Proofs.LibMemInv
import Nri.Proofs.LibMemCommit
import Nri.Proofs.LibMemReplay
import Nri.Proofs.LibMemLate
import Nri.Gen.LibmemFacts
/-!
C06 — memory allocator operations are transactional; stale offers are rejected.

`WF s` = no journal open between operations and request ids unique (what `validateState`
asserts in the Go code).  "Assignments and usage unchanged" is stated as equality of the
request list `reqs` (ids, sizes, zones, types …): `zoneUsage`/`zoneFree` of every node set is a
function of `reqs` and the static node list only (`usage_of_reqs`).
-/
namespace Nri.LibMem

/-- regenerated facts: the offer-invalidating entry points really bump the version, and the
four public entry points clean up unused zones (extracted from allocator.go). -/
theorem gen_libmem_facts_ok :
    Nri.Gen.LibMem.invalidatesOffers = ["Allocate", "Commit", "realloc", "release", "reset"] ∧
    Nri.Gen.LibMem.cleansUnusedZones = ["Allocate", "Commit", "GetOffer", "Realloc", "Release"] ∧
    Nri.Gen.LibMem.allowedPrios = allowedPrios ∧ Nri.Gen.LibMem.expandTypes = expandTypes := by decide

theorem usage_of_reqs (s s' : St) (h : s'.reqs = s.reqs) (hn : s'.nodes = s.nodes) (z : Mask) :
    s'.zoneUsage z = s.zoneUsage z ∧ s'.zoneFree z = s.zoneFree z := by
  unfold St.zoneFree St.zoneUsage St.zoneCapacity
  rw [h, hn]; exact ⟨rfl, rfl⟩

/-! ### failed operations leave everything as it was -/

theorem allocate_fail_unchanged (s : St) (hw : WF s) (r : Req) (e : Err)
    (h : (s.Allocate r).2 = .error e) :
    (s.Allocate r).1.reqs = s.reqs ∧ (s.Allocate r).1.version = s.version ∧ (s.Allocate r).1.journal = none := by
  have hs := allocate_spec s hw r
  unfold St.Allocate at h ⊢
  cases ha : s.allocate r with
  | mk s' res =>
    rw [ha] at hs h
    cases res with
    | error e' =>
      simp only [] at h ⊢
      have := hs.1 e' rfl
      exact ⟨this.1, this.2.1, this.2.2⟩
    | ok r' => simp only [] at h; cases h

/-- a successful `Allocate` invalidates every outstanding offer. -/
theorem allocate_ok_version (s : St) (hw : WF s) (r : Req) (res : Result)
    (h : (s.Allocate r).2 = .ok res) : (s.Allocate r).1.version = s.version + 1 := by
  have hs := allocate_spec s hw r
  unfold St.Allocate at h ⊢
  cases ha : s.allocate r with
  | mk s' res' =>
    rw [ha] at hs h
    cases res' with
    | error e' => simp only [] at h; cases h
    | ok r' =>
      have hg := (hs.2 r' rfl).1
      have hv : s'.version = s.version := hg.version
      simp only [St.commitJournal]
      cases hj : s'.journal <;> simp [St.cleanupUnusedZones, hv]

/-- requesting an offer never changes assignments, usage or the version - whether it
succeeds or fails. -/
theorem getOffer_pure (s : St) (hw : WF s) (r : Req) :
    (s.GetOffer r).1.reqs = s.reqs ∧ (s.GetOffer r).1.version = s.version ∧ (s.GetOffer r).1.journal = none := by
  have hs := allocate_spec s hw r
  unfold St.GetOffer
  cases ha : s.allocate r with
  | mk s' res =>
    rw [ha] at hs
    cases res with
    | error e' =>
      have := hs.1 e' rfl
      exact ⟨this.1, this.2.1, this.2.2⟩
    | ok r' =>
      obtain ⟨hg, hnone, _⟩ := hs.2 r' rfl
      have hb_nd : ((withNew s r').reqs.map (·.id)).Nodup := by
        simp only [withNew, List.map_append, List.map_cons, List.map_nil]
        rw [List.nodup_append]
        refine ⟨hw.ids, by simp, ?_⟩
        intro a ha' b' hb'
        simp at hb'; subst hb'
        intro e; subst e
        exact req?_none_not_mem s _ hnone ha'
      obtain ⟨a1, a2, a3, a4, _, _⟩ := revert_restores_drop (withNew s r') s' hg hb_nd r'.id
      simp only []
      cases hrv : s'.revertJournal (some r'.id) with
      | mk s'' rest =>
        obtain ⟨ups, oe⟩ := rest
        rw [hrv] at a1 a2 a3 a4
        simp only [] at a1 a2 a3 a4
        subst a1
        simp only [cleanup_reqs, cleanup_version, St.cleanupUnusedZones]
        refine ⟨?_, ?_, a3⟩
        · rw [a2]; exact filter_append_new s.reqs { r' with zone := 0 } (req?_none_not_mem s _ hnone)
        · rw [a4]; rfl

/-- the offer records the version it was computed at. -/
theorem getOffer_version (s : St) (hw : WF s) (r : Req) (o : Offer) (h : (s.GetOffer r).2 = .ok o) :
    o.version = s.version := by
  have hp := getOffer_pure s hw r
  unfold St.GetOffer at h hp
  cases ha : s.allocate r with
  | mk s' res =>
    rw [ha] at h hp
    cases res with
    | error e' => simp only [] at h; cases h
    | ok r' =>
      simp only [] at h hp
      cases hrv : s'.revertJournal (some r'.id) with
      | mk s'' rest =>
        obtain ⟨ups, oe⟩ := rest
        rw [hrv] at h hp
        cases oe with
        | some e => simp only [] at h; cases h
        | none =>
          simp only [Except.ok.injEq] at h
          rw [← h]
          simpa [St.cleanupUnusedZones] using hp.2.1

/-! ### stale offers -/

/-- an offer whose version is not the allocator's current one is refused, and refusing it
changes nothing. -/
theorem stale_offer_refused (s : St) (o : Offer) (h : o.version ≠ s.version) :
    s.Commit o = (s, .error .expiredOffer) := by
  unfold St.Commit; simp [h]

theorem zoneAssign_version (s : St) (z : Mask) (id : String) : (s.zoneAssign z id).version = s.version := by
  simp [St.zoneAssign, St.setZone]

theorem zoneRemove_version (s : St) (z : Mask) (id : String) : (s.zoneRemove z id).version = s.version := by
  unfold St.zoneRemove
  split
  · split <;> simp [St.setZone]
  · rfl

theorem zoneMove_version (s : St) (z : Mask) (id : String) : (s.zoneMove z id).version = s.version := by
  unfold St.zoneMove
  split
  · split
    · split
      · rfl
      · rw [zoneAssign_version, zoneRemove_version]
    · exact zoneAssign_version _ _ _
  · rfl

/-- a successful `Commit` invalidates every other outstanding offer (and itself). -/
theorem commit_ok_version (s : St) (o : Offer) (res : Result) (h : (s.Commit o).2 = .ok res) :
    (s.Commit o).1.version = s.version + 1 := by
  unfold St.Commit at h ⊢
  by_cases hne : o.version ≠ s.version
  · simp [hne] at h
  · simp only [hne, if_false, St.cleanupUnusedZones]
    have hstep : ∀ (s0 : St) (p : String × Mask),
        (if p.1 == o.req.id then
            let s := if (s0.req? p.1).isSome then s0 else { s0 with reqs := s0.reqs ++ [{ o.req with zone := 0 }] }
            s.zoneAssign p.2 p.1
          else if (s0.req? p.1).isSome then s0.zoneMove p.2 p.1 else s0).version = s0.version := by
      intro s0 p
      by_cases h1 : (p.1 == o.req.id) = true
      · simp only [h1, if_true]
        rw [zoneAssign_version]
        split <;> rfl
      · simp only [h1, Bool.false_eq_true, if_false]
        split
        · exact zoneMove_version _ _ _
        · rfl
    have : ∀ (l : List (String × Mask)) (s0 : St),
        (l.foldl (fun (s : St) (p : String × Mask) =>
          if p.1 == o.req.id then
            let s := if (s.req? p.1).isSome then s else { s with reqs := s.reqs ++ [{ o.req with zone := 0 }] }
            s.zoneAssign p.2 p.1
          else if (s.req? p.1).isSome then s.zoneMove p.2 p.1 else s) s0).version = s0.version := by
      intro l
      induction l with
      | nil => intro s0; rfl
      | cons p ps ih =>
        intro s0
        simp only [List.foldl_cons]
        rw [ih]
        exact hstep s0 p
    exact congrArg (· + 1) (this _ _)

theorem filter_setZone (reqs : List Req) (id : String) (z : Mask) :
    (reqs.map (fun r => if r.id == id then { r with zone := z } else r)).filter (·.id != id)
      = reqs.filter (·.id != id) := by
  induction reqs with
  | nil => rfl
  | cons x xs ih =>
    simp only [List.map_cons, List.filter_cons]
    by_cases e : x.id = id
    · have h1 : (x.id == id) = true := by simp [e]
      have h2 : (x.id != id) = false := by simp [e]
      simp only [h1, if_true, h2, Bool.false_eq_true, if_false]
      exact ih
    · have h1 : (x.id == id) = false := by simp [e]
      simp only [h1, Bool.false_eq_true, if_false]
      have h2 : (x.id != id) = true := by simp [e]
      simp only [h2, if_true, ih]

theorem release_ok (s : St) (id : String) (h : (s.Release id).2 = .ok ()) :
    (s.Release id).1.reqs = s.reqs.filter (·.id != id) ∧ (s.Release id).1.version = s.version + 1 := by
  unfold St.Release at h ⊢
  cases hr : s.req? id with
  | none => simp [hr] at h
  | some r =>
    simp only [hr] at h ⊢
    by_cases hz : (r.zone == 0) = true
    · simp [hz] at h
    · simp only [hz, Bool.false_eq_true, if_false, St.cleanupUnusedZones]
      refine ⟨?_, ?_⟩
      · -- removing the zone of `id` and then dropping `id` only drops `id`
        unfold St.zoneRemove
        simp only [hr]
        split
        · exact filter_setZone s.reqs id 0
        · rfl
      · simp [zoneRemove_version]

/-- releasing an unknown allocation is refused and changes nothing. -/
theorem release_unknown (s : St) (id : String) (h : s.req? id = none) :
    s.Release id = (s, .error .unknownRequest) := by
  unfold St.Release; simp [h]

/-! ### re-allocation is transactional; well-formedness is kept by every operation -/

/-- a failed `Realloc` (unknown request, invalid nodes/types, no nodes to expand to, overcommit
that cannot be resolved) leaves every assignment, the version and the journal as they were. -/
theorem realloc_fail_unchanged (s : St) (hw : WF s) (id : String) (nodes : Mask) (types : Nat) (e : Err)
    (h : (s.Realloc id nodes types).2 = .error e) :
    (s.Realloc id nodes types).1.reqs = s.reqs ∧ (s.Realloc id nodes types).1.version = s.version ∧
    (s.Realloc id nodes types).1.journal = none :=
  realloc_spec s hw id nodes types e h

/-- `WF` (no transaction left open, unique request ids) - the hypothesis of every theorem in this
file - is re-established by every public operation, whatever its outcome and whatever offer
object `Commit` is handed; so the theorems compose over arbitrary interleavings. -/
theorem every_operation_keeps_wf (s : St) (hw : WF s) :
    (∀ r, WF (s.Allocate r).1) ∧ (∀ r, WF (s.GetOffer r).1) ∧ (∀ o, WF (s.Commit o).1) ∧
    (∀ id nodes types, WF (s.Realloc id nodes types).1) ∧ (∀ id, WF (s.Release id).1) := by
  refine ⟨allocate_wf s hw, ?_, commit_wf s hw, realloc_wf s hw, release_wf s hw⟩
  intro r
  obtain ⟨h1, _, h3⟩ := getOffer_pure s hw r
  exact ⟨h3, by rw [h1]; exact hw.ids⟩

/-! ### committing a fresh offer = allocating directly -/

/-- **Commit of a fresh offer = `Allocate`.** In every well-formed state whose requests are all
placed (the history invariant of `Props/C07`), for every request: if `GetOffer r` succeeds,
committing the offer right away (a) returns exactly the result - zone and update map - that
`Allocate r` returns in that state, and (b) leaves exactly the request list - ids, sizes, types,
zones, hence the usage and free memory of every node set - that `Allocate r` leaves.
(Proof: the offer carries the journal's update map of the same internal `allocate`; that map has
unique keys and is exact, so `Commit`'s replay reproduces every zone: `Proofs/LibMemUpd`,
`LibMemCommit`, `LibMemReplay`.)  Not covered: the ORDER of entries in the zone table. -/
theorem commit_fresh_eq_allocate (s : St) (hw : WF s) (hp : Placed s) (r : Req) (o : Offer)
    (h : (s.GetOffer r).2 = .ok o) :
    ((s.GetOffer r).1.Commit o).2 = (s.Allocate r).2 ∧
    ((s.GetOffer r).1.Commit o).1.reqs = (s.Allocate r).1.reqs :=
  ⟨commit_fresh_result_eq_allocate s hw hp r o h, commit_fresh_reqs_eq_allocate s hw hp r o h⟩

-- non-vacuity: an offer that displaces another request, committed, reports what Allocate reports
example :
    let s0 : St := ((({ nodes := [{ id := 0, typ := 0, cap := 100, normal := true, dist := [10, 21] },
                                  { id := 1, typ := 0, cap := 100, normal := true, dist := [21, 10] }] } : St).Allocate
      { id := "b", size := 70, aff := 1, types := 0, strict := false, prio := 1024, created := 1 }).1)
    let r : Req := { id := "g", size := 60, aff := 1, types := 0, strict := false, prio := 16384, created := 2 }
    (match (s0.GetOffer r).2 with
     | .ok o => (((s0.GetOffer r).1.Commit o).2, (s0.Allocate r).2)
     | .error _ => (.error .other, .error .internal))
      = (.ok ⟨1, [("b", 3)]⟩, .ok ⟨1, [("b", 3)]⟩) := by rfl

/-! ### offers committed arbitrarily late -/

/-- **Offers committed arbitrarily late.** Take an offer in any well-formed, placed state `s`, let
ANY sequence of Allocate / GetOffer / Realloc / Release operations (successful or failing) follow,
and commit the offer then.  Either its version is no longer the allocator's and the commit is
refused without any change - this is the case as soon as one assignment has changed, because the
version never decreases and stays the same only if the request list stays the same
(`run_version`) - or nothing has changed since the offer was computed, and the commit returns the
zone and the updates and leaves the assignments that a direct `Allocate` in `s` would have. -/
theorem late_commit_refused_or_as_fresh (s : St) (hw : WF s) (hp : Placed s) (r : Req) (o : Offer)
    (h : (s.GetOffer r).2 = .ok o) (ops : List Op) :
    (o.version ≠ ((s.GetOffer r).1.run ops).version →
        ((s.GetOffer r).1.run ops).Commit o = (((s.GetOffer r).1.run ops), .error .expiredOffer)) ∧
    (o.version = ((s.GetOffer r).1.run ops).version →
        ((s.GetOffer r).1.run ops).reqs = s.reqs ∧
        (((s.GetOffer r).1.run ops).Commit o).2 = (s.Allocate r).2 ∧
        (((s.GetOffer r).1.run ops).Commit o).1.reqs = (s.Allocate r).1.reqs) :=
  late_commit s hw hp r o h ops

/-- the version is a faithful change counter over every history: it never decreases, and two
states of a history with the same version have the same assignments. -/
theorem version_counts_changes (s : St) (hw : WF s) (ops : List Op) :
    s.version ≤ (s.run ops).version ∧ ((s.run ops).version = s.version → (s.run ops).reqs = s.reqs) :=
  (run_version ops s hw).2

-- non-vacuity: a concrete 2-node allocator is well-formed and the theorems' hypotheses are met
def exampleSt : St :=
  { nodes := [{ id := 0, typ := 0, cap := 100, normal := true, dist := [10, 21] },
              { id := 1, typ := 0, cap := 100, normal := true, dist := [21, 10] }] }
def exampleReq (id : String) (size : Int) : Req :=
  { id := id, size := size, aff := 1, types := 0, strict := false, prio := 1024, created := 1 }

example : WF exampleSt := ⟨rfl, by decide⟩
example : (exampleSt.Allocate (exampleReq "a" 60)).2 = .ok ⟨1, []⟩ := by rfl
example : ((exampleSt.Allocate (exampleReq "a" 300)).2) = .error .noMem := by rfl

end Nri.LibMem

/-! ### source shapes the model was written against (LibmemSkel.lean; the regenerated facts must equal them) -/
namespace Nri.LibMem.Expectgen_libmem_skeletons_ok
def getOffer : List String := ["err := a.allocate(req)", "if err != nil", "> return nil, err", "updates, err := a.revertJournal(req)", "if err != nil", "> return nil, err", "return a.newOffer(req, updates), nil"]
def getOfferDefers : List String := ["defer a.validateState(\"GetOffer\")", "defer a.cleanupUnusedZones()"]
def allocatePub : List String := ["err := a.allocate(req)", "if err != nil", "> return 0, nil, err", "a.invalidateOffers()", "return req.zone, a.commitJournal(req), nil"]
def allocatePubDefers : List String := ["defer a.validateState(\"Allocate\")", "defer a.cleanupUnusedZones()"]
def reallocPub : List String := ["req, ok := a.requests[id]", "if !ok", "> return 0, nil, fmt.Errorf(…)", "return a.realloc(req, affinity, types)"]
def reallocPubDefers : List String := ["defer a.validateState(\"Realloc\")", "defer a.cleanupUnusedZones()"]
def releasePub : List String := ["req, ok := a.requests[id]", "if !ok", "> return fmt.Errorf(…)", "return a.release(req)"]
def releasePubDefers : List String := ["defer a.validateState(\"Release\")", "defer a.cleanupUnusedZones()"]
def allocate : List String := ["if err := a.validateRequest(req); err != nil", "> return err", "if err := a.findInitialZone(req); err != nil", "> return err", "if err := a.ensureNormalMemory(req); err != nil", "> return err", "if err := a.startJournal(); err != nil", "> return err", "a.requests[req.ID()] = req", "a.zoneAssign(req.zone, req)", "return a.handleOvercommit(req.zone)"]
def allocateDefers : List String := ["defer func", "> if retErr != nil", "> > _, err := a.revertJournal(req)", "> > if err != nil"]
def realloc : List String := ["if nodes, types, done, err = a.validateRealloc(req, nodes, types); err != nil", "> return 0, nil, err", "if done", "> return req.Zone(), nil, nil", "if err = a.startJournal(); err != nil", "> return 0, nil, err", "newNodes, newTypes := a.expand(req.zone|nodes, types)", "if newNodes == 0", "> return 0, nil, fmt.Errorf(…)", "a.zoneMove(req.zone|nodes|newNodes, req)", "if err := a.handleOvercommit(req.zone | nodes | newNodes); err != nil", "> req.zone = a.users[req.ID()]", "> return 0, nil, fmt.Errorf(…)", "req.zone |= nodes | newNodes", "req.types |= newTypes", "a.invalidateOffers()", "return req.zone, a.commitJournal(req), nil"]
def reallocDefers : List String := ["defer func", "> if retErr != nil", "> > _, err := a.revertJournal(nil)", "> > if err != nil"]
def release : List String := ["zone, ok := a.users[req.ID()]", "if !ok", "> return fmt.Errorf(…)", "a.zoneRemove(zone, req.ID())", "delete(a.requests, req.ID())", "a.invalidateOffers()", "return nil"]
def startJournal : List String := ["if a.journal != nil", "> return fmt.Errorf(…)", "a.journal = &journal{ updates: make(map[string]NodeMask), reverts: make(map[string]NodeMask), }", "return nil"]
def commitJournal : List String := ["j := a.journal", "a.journal = nil", "delete(j.updates, req.ID())", "if len(j.updates) == 0", "> j.updates = nil", "return j.updates"]
def revertJournal : List String := ["if a.journal == nil", "> return nil, nil", "j := a.journal", "a.journal = nil", "range j.reverts", "> r, ok := a.requests[id]", "> if !ok", "> > if req == nil || req.ID() != id", "> > > return nil, fmt.Errorf(…)", "> current, ok := a.users[id]", "> if !ok", "> > return nil, fmt.Errorf(…)", "> a.zoneRemove(current, id)", "> if zone != 0", "> > a.zoneAssign(zone, r)", "if req != nil", "> delete(a.requests, req.ID())", "return j.updates, nil"]
def journalAssign : List String := ["if j == nil", "> return", "j.updates[id] = zone", "if _, ok := j.reverts[id]; ok", "> return", "j.reverts[id] = 0"]
def journalDelete : List String := ["if j == nil", "> return", "if _, ok := j.reverts[id]; ok", "> return", "j.reverts[id] = zone"]
def offerCommit : List String := ["if !o.IsValid()", "> return 0, nil, fmt.Errorf(…)", "o.a.validateState(\"pre-Commit\")", "range o.updates", "> if id == o.req.ID()", "> > o.a.zoneAssign(zone, o.req)", "> > o.a.requests[o.req.ID()] = o.req", "> else", "> > req, ok := o.a.requests[id]", "> > if ok", "> > > o.a.zoneMove(zone, req)", "> > > req.zone = zone", "o.a.invalidateOffers()", "return o.NodeMask(), o.Updates(), nil"]
def offerCommitDefers : List String := ["defer o.a.validateState(\"post-Commit\")", "defer o.a.DumpState()", "defer o.a.cleanupUnusedZones()"]
def handleOvercommit : List String := ["oc, spill := a.checkOvercommit(nodes)", "if len(oc) == 0", "> return nil", "if a.custom.HandleOvercommit != nil", "> return a.custom.HandleOvercommit(spill, &customAllocator{a})", "else", "> return a.defaultHandleOvercommit(nodes, oc, spill)"]
def resolveOvercommit : List String := ["for", "> a.dumpOvercommit(\"- resolving overcommit for zones:\", oc, spill)", "> moved := int64(0)", "> range allowedPrios", "> > types := TypeMask(0)", "> > range expandTypes", "> > > if extra != 0", "> > > > extra &= a.masks.types", "> > > > if extra == 0", "> > > > > continue", "> > > > types |= extra", "> > > range oc", "> > > > if !ok", "> > > > > continue", "> > > > m := a.zoneShrinkUsage(z, amount, prio, types)", "> > > > moved += m", "> > > if oc, spill = a.checkOvercommit(nodes); len(oc) == 0", "> > > > return nil", "> if moved == 0", "> > break", "range spill", "return fmt.Errorf(…)"]
def cleanup : List String := ["range a.zones", "> if len(zone.users) == 0", "> > delete(a.zones, z)"]
def zoneAssign : List String := ["z, ok := a.zones[zone]", "if !ok", "> z = &Zone{ nodes: zone, types: a.zoneType(zone), capacity: a.zoneCapacity(zone), users: map[string]*Request{}, }", "> a.zones[zone] = z", "z.users[req.ID()] = req", "a.users[req.ID()] = zone", "req.zone = zone", "a.journal.assign(zone, req.ID())"]
def zoneRemove : List String := ["z, ok := a.zones[zone]", "if !ok", "> return", "req, ok := z.users[id]", "if !ok", "> return", "delete(z.users, req.ID())", "delete(a.users, req.ID())", "a.journal.delete(zone, id)", "req.zone = 0"]
def zoneMove : List String := ["if from, ok := a.users[req.ID()]; ok", "> if from == zone", "> > return", "> a.zoneRemove(from, req.ID())", "a.zoneAssign(zone, req)"]
def zoneShrinkUsage : List String := ["if !ok || len(z.users) == 0", "> return 0", "nodes, types := a.expand(zone, z.types|extra)", "if nodes == 0", "> return 0", "moved := int64(0)", "range SortRequests(z.users, RequestsWithMaxPriority(limit), RequestsByPriority, RequestsBySize, RequestsByAge, )", "> if !req.IsStrict() || req.Types() == z.types|types", "> > a.zoneMove(zone|nodes, req)", "> > moved += req.Size()", "> > if moved >= amount", "> > > break", "return moved"]
end Nri.LibMem.Expectgen_libmem_skeletons_ok

namespace Nri.LibMem

/-- regenerated statement skeletons of libmem's transactional core (GetOffer/Allocate/Realloc/Release, allocate/realloc/release with their deferred revert and clean-up calls, journal start/commit/revert, journal.assign/delete, Offer.Commit, overcommit handling and zoneShrinkUsage, zoneAssign/Remove/Move) equal the shapes the functional port in Model/LibMem.lean was written against; a rewrite of any of them - harmless or not - breaks this obligation and sends the check to the correspondence run for a failing input -/
theorem gen_libmem_skeletons_ok :
    Nri.Gen.LibmemSkel.getOffer = Expectgen_libmem_skeletons_ok.getOffer ∧
    Nri.Gen.LibmemSkel.getOfferDefers = Expectgen_libmem_skeletons_ok.getOfferDefers ∧
    Nri.Gen.LibmemSkel.allocatePub = Expectgen_libmem_skeletons_ok.allocatePub ∧
    Nri.Gen.LibmemSkel.allocatePubDefers = Expectgen_libmem_skeletons_ok.allocatePubDefers ∧
    Nri.Gen.LibmemSkel.reallocPub = Expectgen_libmem_skeletons_ok.reallocPub ∧
    Nri.Gen.LibmemSkel.reallocPubDefers = Expectgen_libmem_skeletons_ok.reallocPubDefers ∧
    Nri.Gen.LibmemSkel.releasePub = Expectgen_libmem_skeletons_ok.releasePub ∧
    Nri.Gen.LibmemSkel.releasePubDefers = Expectgen_libmem_skeletons_ok.releasePubDefers ∧
    Nri.Gen.LibmemSkel.allocate = Expectgen_libmem_skeletons_ok.allocate ∧
    Nri.Gen.LibmemSkel.allocateDefers = Expectgen_libmem_skeletons_ok.allocateDefers ∧
    Nri.Gen.LibmemSkel.realloc = Expectgen_libmem_skeletons_ok.realloc ∧
    Nri.Gen.LibmemSkel.reallocDefers = Expectgen_libmem_skeletons_ok.reallocDefers ∧
    Nri.Gen.LibmemSkel.release = Expectgen_libmem_skeletons_ok.release ∧
    Nri.Gen.LibmemSkel.startJournal = Expectgen_libmem_skeletons_ok.startJournal ∧
    Nri.Gen.LibmemSkel.commitJournal = Expectgen_libmem_skeletons_ok.commitJournal ∧
    Nri.Gen.LibmemSkel.revertJournal = Expectgen_libmem_skeletons_ok.revertJournal ∧
    Nri.Gen.LibmemSkel.journalAssign = Expectgen_libmem_skeletons_ok.journalAssign ∧
    Nri.Gen.LibmemSkel.journalDelete = Expectgen_libmem_skeletons_ok.journalDelete ∧
    Nri.Gen.LibmemSkel.offerCommit = Expectgen_libmem_skeletons_ok.offerCommit ∧
    Nri.Gen.LibmemSkel.offerCommitDefers = Expectgen_libmem_skeletons_ok.offerCommitDefers ∧
    Nri.Gen.LibmemSkel.handleOvercommit = Expectgen_libmem_skeletons_ok.handleOvercommit ∧
    Nri.Gen.LibmemSkel.resolveOvercommit = Expectgen_libmem_skeletons_ok.resolveOvercommit ∧
    Nri.Gen.LibmemSkel.cleanup = Expectgen_libmem_skeletons_ok.cleanup ∧
    Nri.Gen.LibmemSkel.zoneAssign = Expectgen_libmem_skeletons_ok.zoneAssign ∧
    Nri.Gen.LibmemSkel.zoneRemove = Expectgen_libmem_skeletons_ok.zoneRemove ∧
    Nri.Gen.LibmemSkel.zoneMove = Expectgen_libmem_skeletons_ok.zoneMove ∧
    Nri.Gen.LibmemSkel.zoneShrinkUsage = Expectgen_libmem_skeletons_ok.zoneShrinkUsage := by
  and_intros <;> rfl

end Nri.LibMem
