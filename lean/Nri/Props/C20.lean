import Nri.Model.K8sRes
import Nri.Gen.K8sConsts
import Nri.Proofs.OomTable
/-!
C20 — resource requirements reconstructed from cgroup parameters are faithful.
Property theorems only; helper lemmas for the OOM table are in this file's first
section because they are specific to it.
-/
namespace Nri.K8s

/-- Obligation over the regenerated constants: the code's constants are the ones every
theorem below is stated for. -/
theorem gen_consts_ok : Nri.Gen.K8s.consts = modelConsts := by decide

/-- Round trip within 1 mCPU on the whole range above the floor … -/
theorem milliCPUToShares_cases (m : Nat) :
    (m * 1024 / 1000 < 2 ∧ milliCPUToShares m = 2) ∨
    (262144 < m * 1024 / 1000 ∧ milliCPUToShares m = 262144) ∨
    (2 ≤ m * 1024 / 1000 ∧ m * 1024 / 1000 ≤ 262144 ∧ milliCPUToShares m = m * 1024 / 1000) := by
  unfold milliCPUToShares
  repeat' split
  all_goals omega

theorem shares_roundtrip_1 (m : Nat) (h : m ≤ 256000) (hfloor : milliCPUToShares m ≠ 2) :
    sharesToMilliCPU (milliCPUToShares m) ≤ m + 1 ∧ m ≤ sharesToMilliCPU (milliCPUToShares m) + 1 := by
  rcases milliCPUToShares_cases m with ⟨_, e⟩ | ⟨_, e⟩ | ⟨_, _, e⟩
  · exact absurd e hfloor
  · omega
  · rw [e] at hfloor ⊢
    unfold sharesToMilliCPU
    split
    · omega
    · omega

/-- … and within 2 mCPU at the minimum-shares floor. -/
theorem shares_roundtrip_floor (m : Nat) (h : m ≤ 256000) (hfloor : milliCPUToShares m = 2) :
    sharesToMilliCPU (milliCPUToShares m) = 0 ∧ m ≤ 2 := by
  rcases milliCPUToShares_cases m with ⟨_, e⟩ | ⟨_, e⟩ | ⟨_, _, e⟩
  · rw [e]; unfold sharesToMilliCPU; simp; omega
  · omega
  · rw [e] at hfloor; rw [e, hfloor]; unfold sharesToMilliCPU; simp; omega

/-- Exact for every multiple of 125 mCPU (hence all whole-CPU requests) up to 256 CPUs. -/
theorem shares_exact_125 (k : Nat) (h : 125 * k ≤ 256000) :
    sharesToMilliCPU (milliCPUToShares (125 * k)) = 125 * k := by
  unfold milliCPUToShares sharesToMilliCPU
  repeat' split
  all_goals omega

theorem shares_exact_whole_cpu (n : Nat) (h : n ≤ 256) :
    sharesToMilliCPU (milliCPUToShares (1000 * n)) = 1000 * n := by
  have := shares_exact_125 (8 * n) (by omega)
  have e : 125 * (8 * n) = 1000 * n := by omega
  rwa [e] at this

/-- CPU limits are exact from 10 mCPU upwards (no upper bound needed). -/
theorem quota_exact_from_10 (m : Nat) (h : 10 ≤ m) :
    quotaToMilliCPU (milliCPUToQuota m).1 (milliCPUToQuota m).2 = m := by
  unfold milliCPUToQuota quotaToMilliCPU
  repeat' split
  all_goals simp_all
  all_goals omega

/-- Below 10 mCPU the quota floor makes the limit read back as 10 (the excluded range,
stated so the boundary is visible). -/
theorem quota_below_10 (m : Nat) (h0 : 0 < m) (h : m < 10) :
    quotaToMilliCPU (milliCPUToQuota m).1 (milliCPUToQuota m).2 = 10 := by
  unfold milliCPUToQuota quotaToMilliCPU
  repeat' split
  all_goals simp_all
  all_goals omega

/-- Reconstruction from shares is monotone on the cgroup range (shares ≥ 2). -/
theorem shares_to_milli_monotone (s t : Nat) (hs : 2 ≤ s) (h : s ≤ t) :
    sharesToMilliCPU s ≤ sharesToMilliCPU t := by
  unfold sharesToMilliCPU
  repeat' split
  all_goals omega

/-- End to end: a larger request never reads back smaller. -/
theorem shares_roundtrip_monotone (m n : Nat) (h : m ≤ n) :
    sharesToMilliCPU (milliCPUToShares m) ≤ sharesToMilliCPU (milliCPUToShares n) := by
  unfold milliCPUToShares sharesToMilliCPU
  repeat' split
  all_goals omega

/-- Reconstruction from quota is monotone in the quota for a fixed period. -/
theorem quota_to_milli_monotone (q r p : Nat) (h : q ≤ r) :
    quotaToMilliCPU q p ≤ quotaToMilliCPU r p := by
  unfold quotaToMilliCPU
  repeat' split
  · exact Nat.le_refl _
  · exact Nat.zero_le _
  · omega
  · exact Nat.div_le_div_right (by omega)

theorem quota_roundtrip_monotone (m n : Nat) (h : m ≤ n) :
    quotaToMilliCPU (milliCPUToQuota m).1 (milliCPUToQuota m).2 ≤
    quotaToMilliCPU (milliCPUToQuota n).1 (milliCPUToQuota n).2 := by
  unfold milliCPUToQuota quotaToMilliCPU
  repeat' split
  all_goals simp_all
  all_goals omega

/-! ### OOM-score-adjustment table -/

/-- An estimate oracle is within tolerance if it is at most 2 away from the exact
round-half-up value of `prevReq + cap/1000` (the float expression's error is far below
that for capacities < 2^53; see DESIGN.md). -/
def EstOk (cap : Nat) (est : Nat → Nat → Nat) : Prop :=
  ∀ i prev, exactEst cap prev ≤ est i prev + 2 ∧ est i prev ≤ exactEst cap prev + 2

theorem buildFrom_ok (cap : Nat) (hc : 2 ^ 20 ≤ cap) (est : Nat → Nat → Nat) (hest : EstOk cap est) :
    ∀ n j, buildFrom cap (cap / 1000) est (j + 1) (smallestReq cap j) n
      = some ((List.range' (j + 1) n).map (smallestReq cap)) := by
  intro n
  induction n with
  | zero => intro j; simp [buildFrom]
  | succ n ih =>
    intro j
    have e1 : (j + 1) * cap = j * cap + cap := Nat.succ_mul j cap
    have e2 : (j + 2) * cap = j * cap + cap + cap := by
      rw [show j + 2 = (j + 1) + 1 from rfl, Nat.succ_mul, e1]
    have ⟨h1, h2⟩ := hest (j + 1) (smallestReq cap j)
    have hc' : 1048576 ≤ cap := by simpa using hc
    have step := oomStep_found cap j (est (j + 1) (smallestReq cap j)) (cap / 1000) (by omega)
      (by unfold exactEst smallestReq at *; omega)
      (by unfold exactEst smallestReq at *; rw [e2]; omega)
      (by unfold exactEst smallestReq at *; rw [e1]; omega)
      (by unfold exactEst smallestReq at *; rw [e1]; omega)
    simp only [buildFrom, step, ih (j + 1)]
    simp [List.range'_succ]

/-- For every node memory capacity of at least 1 MiB, and every behaviour of the float
estimate within tolerance, the table construction neither panics nor leaves a hole, and
entry `i` is the smallest request whose adjustment is `1000 - i`. -/
theorem oom_table_total (cap : Nat) (hc : 2 ^ 20 ≤ cap) (est : Nat → Nat → Nat) (hest : EstOk cap est) :
    buildFrom cap (cap / 1000) est 1 0 999 = some ((List.range' 1 999).map (smallestReq cap)) := by
  have := buildFrom_ok cap hc est hest 999 0
  simpa [smallestReq] using this

/-- For every Burstable OOM score adjustment the estimated request maps back to it. -/
theorem oom_roundtrip (cap : Nat) (hc : 2 ^ 20 ≤ cap) (adj : Nat) (h3 : 3 ≤ adj) (h999 : adj ≤ 999) :
    memReqToOomAdj cap (tableEntry cap adj) = adj := by
  have hc' : 1048576 ≤ cap := by simpa using hc
  unfold tableEntry
  rw [adj_smallestReq cap (1000 - adj) (by omega)]
  omega

/-- … also through the accessor the cache uses (no memory limit, or a limit above the estimate). -/
theorem oom_accessor_roundtrip (cap : Nat) (hc : 2 ^ 20 ≤ cap) (adj : Nat) (h3 : 3 ≤ adj) (h999 : adj ≤ 999)
    (lim : Nat) (hl : lim = 0 ∨ tableEntry cap adj < lim) :
    ∃ r, oomAdjToMemReq cap adj lim = some r ∧ memReqToOomAdj cap r = adj := by
  refine ⟨tableEntry cap adj, ?_, oom_roundtrip cap hc adj h3 h999⟩
  unfold oomAdjToMemReq
  have : ¬ (((adj : Nat) : Int) < 3 ∨ ((adj : Nat) : Int) > 999) := by omega
  simp only [this, if_false, Int.toNat_natCast]
  rcases hl with h | h
  · simp [h]
  · simp [h]

-- non-vacuity: the exact estimate is an admissible oracle
example (cap : Nat) : EstOk cap (fun _ prev => exactEst cap prev) := fun _ _ => ⟨Nat.le_add_right _ _, Nat.le_add_right _ _⟩

-- non-vacuity: the hypotheses are met by ordinary requests
example : milliCPUToShares 1500 ≠ 2 ∧ sharesToMilliCPU (milliCPUToShares 1500) = 1500 := by decide
example : milliCPUToShares 1 = 2 ∧ sharesToMilliCPU (milliCPUToShares 333) = 332 := by decide

end Nri.K8s
