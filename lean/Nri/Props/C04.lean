import Nri.Model.ApplyGrant
import Nri.Model.LibMem
import Nri.Props.C07
import Nri.Gen.PipeFacts
/-!
C04 — memory pinning follows the allocator and never oversubscribes a zone (topology-aware half;
the capacity clause is C07's, the delivery clause is C05's).
-/
namespace Nri.TA

/-- regenerated fact: every loop over the allocator's `updates` in the policy sets the grant's
zone and (under PinMemory) the container's cpuset.mems -/
theorem gen_update_loops_ok : Nri.Gen.Pipe.updateLoops =
    ["ReallocMemory: SetMemoryZone+SetCpusetMems", "allocatePool: SetMemoryZone+SetCpusetMems", "reinstateGrants: SetMemoryZone+SetCpusetMems"] := by decide

/-- the memory nodes told for a pinned, non-preserved container are exactly the zone of its grant -/
theorem mems_follow_zone (zone : Nat) (zs : Nat → String) (pinCPU : Bool) (ct : CpuType) :
    Field.mems ∈ applyGrantWrites pinCPU ct false ∧ memsValue true zone zs = zs zone := by
  constructor
  · simp only [applyGrantWrites]
    cases pinCPU <;> cases ct <;> decide
  · rfl

/-- when admitting one container widens other containers' zones, every container named in the
allocator's updates gets exactly the new zone, and nobody else changes -/
theorem updates_all_applied (grants updates : List (String × Nat)) :
    (∀ u ∈ updates, ∀ g ∈ grants, g.1 = u.1 → (updates.find? (·.1 == g.1)).isSome) ∧
    (∀ g ∈ grants, (updates.find? (·.1 == g.1)) = none → g ∈ applyZoneUpdates grants updates) ∧
    (∀ g ∈ applyZoneUpdates grants updates, ∀ u, updates.find? (·.1 == g.1) = some u → g.2 = u.2) := by
  refine ⟨?_, ?_, ?_⟩
  · intro u hu g _ hgu
    cases h : updates.find? (·.1 == g.1) with
    | some _ => rfl
    | none =>
      have := List.find?_eq_none.1 h u hu
      simp [hgu] at this
  · intro g hg hnone
    simp only [applyZoneUpdates, List.mem_map]
    exact ⟨g, hg, by simp [hnone]⟩
  · intro g hg u hu
    simp only [applyZoneUpdates, List.mem_map] at hg
    obtain ⟨g0, _, rfl⟩ := hg
    cases h0 : updates.find? (·.1 == g0.1) with
    | none => simp only [h0] at hu; cases hu
    | some u0 =>
      simp only [h0] at hu ⊢
      cases hu
      rfl

/-- capacity: the allocator-level facts are C07's (`handleOvercommit_ok_fits`,
`move_to_superset_usage_le`); restated here so that C04's cone depends on them -/
theorem zones_fit_after_handling (s : Nri.LibMem.St) (nodes : Nri.LibMem.Mask) (h : (s.handleOvercommit nodes).2 = none) :
    ∀ z ∈ (s.handleOvercommit nodes).1.entries, (nodes = 0 ∨ z &&& nodes ≠ 0) → 0 ≤ (s.handleOvercommit nodes).1.zoneFree z :=
  Nri.LibMem.handleOvercommit_ok_fits s nodes h

/-- capacity over whole histories (the clause "after every successful request, for every set of
nodes that has allocations confined to it ..." for the sets that ARE assignments): whatever
sequence of allocator operations the policies issue, every assigned zone - hence every memory set
a container is pinned to - holds no more than its capacity afterwards. (C07 `run_fits`; the literal
clause over all node sets is the known finding C07:union-overcommit.) -/
theorem assigned_zones_fit_over_histories (nodes : List Nri.LibMem.Node) (ops : List Nri.LibMem.Op)
    (hops : ∀ op ∈ ops, op.sizeOk) :
    ∀ q ∈ (Nri.LibMem.St.run { nodes := nodes } ops).reqs,
      0 ≤ (Nri.LibMem.St.run { nodes := nodes } ops).zoneFree q.zone := by
  intro q hq
  have h := Nri.LibMem.run_fits nodes ops hops
  exact h.fit q hq (Nri.LibMem.and_ne_zero_left (h.inv.placed q hq))

/-- ... and the memory set a pinned container is told is never empty: every assignment contains
a node with normal memory (C07 `run_placement`). -/
theorem assigned_zone_nonempty_over_histories (nodes : List Nri.LibMem.Node) (ops : List Nri.LibMem.Op) :
    ∀ q ∈ (Nri.LibMem.St.run { nodes := nodes } ops).reqs, q.zone ≠ 0 := by
  intro q hq
  exact Nri.LibMem.and_ne_zero_left ((Nri.LibMem.run_placement nodes ops).placed q hq)

end Nri.TA
