import Nri.Model.Sync
import Nri.Gen.SyncFacts
/-!
C11 — restart + Synchronize converges to the runtime's truth.

Proved for EVERY saved cache (any pods, any containers in any - also intermediate - states) and
every runtime report: only containers the runtime lists as created or running are allocated
(`allocated_sound`), every such container whose pod is listed is allocated (`allocated_complete`),
nothing the runtime does not list stays in the cache (`cache_subset_runtime`), everything purged
and every stopped container is released (`purged_released`, `stopped_released`), pods are exactly
the runtime's (`pods_exact`).  With the pre-fix RefreshContainers (saved state kept) the first
two are false (`stale_state_refuted`).  The policy side (what an allocation is, C01-C04 after the
re-allocation, the updates sent) is checked on restart histories of the real resource manager.
-/
namespace Nri.Sync

theorem gen_sync_facts_ok :
    Nri.Gen.Sync.refreshUpdatesKnownState = true ∧
    Nri.Gen.Sync.classifyCases = ["cache.ContainerStateRunning, cache.ContainerStateCreated: allocated+released", "cache.ContainerStateExited: released", "default: -"] ∧
    Nri.Gen.Sync.refreshOrder = ["RefreshPods", "RefreshContainers"] := by decide

/-- **Soundness.** Whatever was saved, only containers the runtime reports as created or running get resources. -/
theorem allocated_sound (c : Cache) (pods : List String) (rt : List Ctr) (k : Ctr)
    (h : k ∈ (sync c pods rt).allocated) : ∃ r ∈ rt, r.id = k.id ∧ live r.state = true := by
  simp only [sync, refreshPods, refreshCtrs, List.mem_filter, List.mem_append, List.mem_filterMap] at h
  obtain ⟨hm, hl⟩ := h
  rcases hm with ⟨k0, _, hk0⟩ | ⟨hr, _⟩
  · cases hf : rt.find? (fun r => r.id == k0.id) with
    | none => rw [hf] at hk0; cases hk0
    | some r =>
      rw [hf] at hk0
      simp only [Option.map_some, Option.some.injEq] at hk0
      subst hk0
      have hmem := List.mem_of_find?_eq_some hf
      have hid := List.find?_some hf
      exact ⟨r, hmem, by simpa using hid, hl⟩
  · exact ⟨k, hr, rfl, hl⟩

/-- **Completeness.** Every container the runtime reports as created or running, whose pod it lists (and whose
saved copy, if any, belongs to a listed pod), gets resources - whatever state was saved for it. -/
theorem allocated_complete (c : Cache) (pods : List String) (rt : List Ctr) (r : Ctr)
    (hf : rt.find? (fun x => x.id == r.id) = some r) (hl : live r.state = true) (hp : pods.contains r.pod = true)
    (hc : ∀ k ∈ c.ctrs, k.id = r.id → pods.contains k.pod = true) :
    ∃ k ∈ (sync c pods rt).allocated, k.id = r.id := by
  simp only [sync, refreshPods, refreshCtrs]
  by_cases hk : ∃ k ∈ c.ctrs, k.id = r.id
  · obtain ⟨k, hkm, hkid⟩ := hk
    refine ⟨{ k with state := r.state }, ?_, hkid⟩
    simp only [List.mem_filter, List.mem_append, List.mem_filterMap]
    refine ⟨Or.inl ⟨k, ⟨hkm, hc k hkm hkid⟩, ?_⟩, hl⟩
    rw [hkid, hf]; rfl
  · refine ⟨r, ?_, rfl⟩
    simp only [List.mem_filter, List.mem_append]
    refine ⟨Or.inr ⟨List.mem_of_find?_eq_some hf, ?_⟩, hl⟩
    simp only [Bool.and_eq_true, Bool.not_eq_true', hp, and_true]
    rw [List.any_eq_false]
    intro x hx
    simp only [List.mem_filter] at hx
    intro he
    exact hk ⟨x, hx.1, by simpa using he⟩

/-- nothing the runtime does not list survives in the cache -/
theorem cache_subset_runtime (c : Cache) (pods : List String) (rt : List Ctr) (k : Ctr)
    (h : k ∈ (sync c pods rt).cache.ctrs) : ∃ r ∈ rt, r.id = k.id := by
  simp only [sync, refreshPods, refreshCtrs, List.mem_append, List.mem_filterMap, List.mem_filter] at h
  rcases h with ⟨k0, _, hk0⟩ | ⟨hr, _⟩
  · cases hf : rt.find? (fun r => r.id == k0.id) with
    | none => rw [hf] at hk0; cases hk0
    | some r =>
      rw [hf] at hk0
      simp only [Option.map_some, Option.some.injEq] at hk0
      subst hk0
      exact ⟨r, List.mem_of_find?_eq_some hf, by simpa using List.find?_some hf⟩
  · exact ⟨k, hr, rfl⟩

/-- the cached pods are exactly the runtime's -/
theorem pods_exact (c : Cache) (pods : List String) (rt : List Ctr) : (sync c pods rt).cache.pods = pods := rfl

/-- every saved container of an unlisted pod, and every saved container the runtime does not list, is released -/
theorem purged_released (c : Cache) (pods : List String) (rt : List Ctr) (k : Ctr) (hk : k ∈ c.ctrs)
    (h : pods.contains k.pod = false ∨ rt.any (fun r => r.id == k.id) = false) : k ∈ (sync c pods rt).released := by
  simp only [sync, refreshPods, refreshCtrs, List.mem_append, List.mem_filter]
  by_cases hp : pods.contains k.pod = true
  · rcases h with h | h
    · rw [hp] at h; cases h
    · exact Or.inl (Or.inr ⟨⟨hk, hp⟩, by simp [h]⟩)
  · exact Or.inl (Or.inl ⟨hk, by simpa using hp⟩)

/-- containers the runtime reports as stopped are released, never allocated -/
theorem stopped_released (c : Cache) (pods : List String) (rt : List Ctr) (k : Ctr)
    (h : k ∈ (sync c pods rt).cache.ctrs) (hs : k.state = .stopped) :
    k ∈ (sync c pods rt).released ∧ k ∉ (sync c pods rt).allocated := by
  constructor
  · simp only [sync, List.mem_append, List.mem_filter]
    exact Or.inr ⟨h, by simp [hs]⟩
  · simp only [sync, List.mem_filter, not_and]
    intro _
    simp [hs, live]

/-- the pre-fix behaviour (saved state kept for known containers): a container saved as running
that has exited is allocated, and one saved in the intermediate `creating` state that the runtime
reports as created is not -/
theorem stale_state_refuted :
    (∃ k ∈ (syncStale ⟨["p"], [⟨"c", "p", .running⟩]⟩ ["p"] [⟨"c", "p", .stopped⟩]).allocated, k.id = "c") ∧
    (syncStale ⟨["p"], [⟨"c", "p", .creating⟩]⟩ ["p"] [⟨"c", "p", .created⟩]).allocated = [] := by
  constructor
  · exact ⟨⟨"c", "p", .running⟩, by decide, rfl⟩
  · decide

-- non-vacuity: the same two situations with the code's behaviour
example : (sync ⟨["p"], [⟨"c", "p", .running⟩]⟩ ["p"] [⟨"c", "p", .stopped⟩]).allocated = [] ∧
          (sync ⟨["p"], [⟨"c", "p", .creating⟩]⟩ ["p"] [⟨"c", "p", .created⟩]).allocated = [⟨"c", "p", .created⟩] := by decide

end Nri.Sync
