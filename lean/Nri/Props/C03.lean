import Nri.Model.TopoAware
import Nri.Proofs.TopoAware
import Nri.Gen.TAFacts
/-!
C03 — pool CPU capacity is never oversubscribed; grants match requests.

Proved: the eligibility rules (`cpuPrefs` = `cpuAllocationPreferences`) give exclusive CPUs to
nobody but Guaranteed containers with at least one whole CPU that do not prefer shared CPUs,
and then exactly the whole-CPU part of the request; a successful allocation grants exactly the
requested number of exclusive CPUs, isolated ones only if all of them are isolated; the
fractional part is admitted only within the capacity of the pool and of every ancestor
(`portion_within_capacity`).  The capacity invariant for *descendants* of a pool at which
exclusive CPUs are sliced off is FALSE of model and code (known finding
`C03:descendant-starved-by-ancestor-slicing`, witness `descendant_capacity_refuted`).
-/
namespace Nri.TA

theorem gen_eligibility_ok : Nri.Gen.TA.eligibilityCases =
    ["container.PreserveCpuResources()", "preferReserved", "checkReservedPoolNamespaces(namespace) && !explicitReservation",
     "qosClass == corev1.PodQOSBurstable", "qosClass == corev1.PodQOSBestEffort", "cores == 0", "cores < 2", "default"] := by decide

/-! ### eligibility -/

theorem besteffort_no_exclusive (milli : Nat) (rns pc : Bool) (ra sa ia cs ci : Option Bool) :
    (cpuPrefs 2 milli rns pc ra sa ia cs ci).full = 0 := by
  unfold cpuPrefs
  repeat' split
  all_goals first | rfl | simp_all

theorem burstable_no_exclusive (milli : Nat) (rns pc : Bool) (ra sa ia cs ci : Option Bool) :
    (cpuPrefs 1 milli rns pc ra sa ia cs ci).full = 0 := by
  unfold cpuPrefs
  repeat' split
  all_goals first | rfl | simp_all

theorem subcore_no_exclusive (qos milli : Nat) (rns pc : Bool) (ra sa ia cs ci : Option Bool) (h : milli < 1000) :
    (cpuPrefs qos milli rns pc ra sa ia cs ci).full = 0 := by
  unfold cpuPrefs
  have : milli / 1000 = 0 := by omega
  simp only [this]
  repeat' split
  all_goals first | rfl | simp_all

theorem reserved_class_no_exclusive (qos milli : Nat) (pc : Bool) (sa ia cs ci : Option Bool) :
    (cpuPrefs qos milli true pc none sa ia cs ci).full = 0 ∧ (cpuPrefs qos milli false pc (some true) sa ia cs ci).full = 0 := by
  constructor <;> (unfold cpuPrefs; repeat' split; all_goals first | rfl | simp_all)

theorem shared_preferring_no_exclusive (qos milli : Nat) (rns pc : Bool) (ra ia cs ci : Option Bool) :
    (cpuPrefs qos milli rns pc ra (some true) ia cs ci).full = 0 := by
  unfold cpuPrefs
  simp only []
  repeat' split
  all_goals first | rfl | simp_all | (simp_all; repeat' split; all_goals rfl)

/-- a Guaranteed container with an integral request of at least one CPU, no opt-outs and no
shared preference gets exactly its whole-CPU request exclusively and no shared portion -/
theorem guaranteed_whole_cpus (n : Nat) (ia : Option Bool) :
    (cpuPrefs 0 (1000 * n) false false none none ia none none).full = n ∧
    (cpuPrefs 0 (1000 * n) false false none none ia none none).fraction = 0 := by
  unfold cpuPrefs
  have h1 : 1000 * n / 1000 = n := by omega
  have h2 : 1000 * n % 1000 = 0 := by omega
  simp only [h1, h2]
  repeat' split
  all_goals first | (constructor <;> rfl) | (simp_all) | (simp_all; omega)

/-- mixed allocation: 1 ≤ request < 2 CPUs keeps the whole CPU exclusive and the rest shared -/
theorem guaranteed_mixed (f : Nat) (hf : f < 1000) (ia : Option Bool) :
    (cpuPrefs 0 (1000 + f) false false none none ia none none).full = 1 ∧
    (cpuPrefs 0 (1000 + f) false false none none ia none none).fraction = f := by
  unfold cpuPrefs
  have h1 : (1000 + f) / 1000 = 1 := by omega
  have h2 : (1000 + f) % 1000 = f := by omega
  simp only [h1, h2]
  repeat' split
  all_goals first | (constructor <;> rfl) | (simp_all) | (simp_all; omega)

/-! ### a successful allocation grants what was asked -/

theorem takeExclusive_count (t t1 : TA) (i full : Nat) (isolate : Bool) (excl : List Nat)
    (h : takeExclusive t i full isolate excl = .ok t1) : excl.length = full ∧ excl.Nodup := by
  unfold takeExclusive at h
  simp only [] at h
  split at h
  · split at h
    · rename_i hc
      simp only [Bool.and_eq_true, beq_iff_eq, decide_eq_true_eq] at hc
      exact ⟨hc.1.1, hc.1.2⟩
    · cases h
  · split at h
    · split at h
      · rename_i hc
        simp only [Bool.and_eq_true, beq_iff_eq, decide_eq_true_eq] at hc
        exact ⟨hc.1.1, hc.1.2⟩
      · cases h
    · split at h
      · cases h
      · split at h
        · rename_i hnf he
          have : excl = [] := by simpa using he
          subst this
          refine ⟨?_, List.nodup_nil⟩
          simp only [List.length_nil]
          have : ¬ full > 0 := by simpa using hnf
          omega
        · cases h

/-- exactly as many exclusive CPUs as the (normalised) request asks for, all distinct; and
isolated CPUs only if ALL exclusive CPUs are isolated (they are picked from one set) -/
theorem alloc_grants_request (t t' : TA) (ctr : String) (i full fraction : Nat) (isolate : Bool)
    (ct : CpuType) (excl : List Nat) (g : Grant)
    (h : alloc t ctr i full fraction isolate ct excl = .ok (t', g)) :
    g.exclusive.length = (normReq t i full fraction ct).1 ∧ g.exclusive.Nodup ∧
    ((∀ x, x ∈ g.exclusive → x ∈ (t.pools i).isolated) ∨ (∀ x, x ∈ g.exclusive → x ∈ (t.pools i).sharable) ∨ g.exclusive = []) := by
  unfold alloc at h
  split at h
  · cases h
  · simp only [] at h
    cases hte : takeExclusive t i (normReq t i full fraction ct).1 isolate excl with
    | error e => rw [hte] at h; cases h
    | ok t1 =>
      rw [hte] at h
      simp only [] at h
      obtain ⟨_, _, hge, _, _⟩ := addPortion_sameFree _ t' ctr i _ _ excl g h
      obtain ⟨h1, h2⟩ := takeExclusive_count t t1 i _ isolate excl hte
      rw [hge]
      refine ⟨h1, h2, ?_⟩
      unfold takeExclusive at hte
      simp only [] at hte
      split at hte
      · split at hte
        · rename_i hc
          simp only [Bool.and_eq_true, List.all_eq_true, List.contains_iff_mem] at hc
          exact Or.inl (fun x hx => hc.2 x hx)
        · cases hte
      · split at hte
        · split at hte
          · rename_i hc
            simp only [Bool.and_eq_true, List.all_eq_true, List.contains_iff_mem] at hc
            exact Or.inr (Or.inl (fun x hx => hc.2 x hx))
          · cases hte
        · split at hte
          · cases hte
          · split at hte
            · rename_i he
              exact Or.inr (Or.inr (by simpa using he))
            · cases hte

/-- the shared portion is admitted only within the remaining capacity of the pool and of all its
ancestors (what `AllocatableSharedCPU` checks) -/
theorem portion_within_capacity (t2 t' : TA) (ctr : String) (i fraction : Nat) (excl : List Nat) (g : Grant)
    (hf : 0 < fraction) (h : addPortion t2 ctr i fraction .normal excl = .ok (t', g)) :
    (fraction : Int) ≤ allocatableShared t2 i ∧ g.portion = fraction := by
  unfold addPortion at h
  have h1 : (decide (fraction > 0) && (CpuType.normal == CpuType.normal)) = true := by simp [hf]
  simp only [h1, if_true] at h
  split at h
  · cases h
  · rename_i hlt
    simp only [Except.ok.injEq, Prod.mk.injEq] at h
    refine ⟨by omega, ?_⟩
    rw [← h.2]

/-! ### the descendant clause is false (known finding) -/

/-- a socket with two NUMA-node children; a Burstable container holds 1500m at node #0, then a
Guaranteed container gets both CPUs of node #0 exclusively at the socket: the model (like the
code, which checks only the pool and its ancestors) admits it and node #0 is left with 1500m
granted on zero shared CPUs. -/
def starveTree : List PoolT :=
  [⟨some 2, [], [0, 1], []⟩, ⟨some 2, [], [2, 3], []⟩, ⟨none, [], [0, 1, 2, 3], []⟩]

theorem descendant_capacity_refuted :
    (match alloc (initTA starveTree) "burstable" 0 0 1500 false .normal [] with
     | .ok (t1, g1) =>
       (match alloc (addGrant t1 g1) "guaranteed" 2 2 0 false .normal [0, 1] with
        | .ok (t2, _) => (t2.pools 0).sharable == [] && (t2.pools 0).grantedShared == 1500
        | .error _ => false)
     | .error _ => false) = true := by decide

end Nri.TA

namespace Nri.TA

/-- capacity of pool `j` that is still unpromised: 1000 mCPU per CPU of its free shared set minus everything granted in its subtree -/
def ownShared (t : TA) (j : Nat) : Int := 1000 * ((t.pools j).sharable.length : Int) - subtreeShared t j

theorem foldl_min_le (own : Nat → Int) (l : List Nat) : ∀ (m0 : Int),
    l.foldl (fun m a => if own a < m then own a else m) m0 ≤ m0 ∧
    ∀ a ∈ l, l.foldl (fun m a => if own a < m then own a else m) m0 ≤ own a := by
  induction l with
  | nil => intro m0; exact ⟨Int.le_refl _, fun _ h => by cases h⟩
  | cons x xs ih =>
    intro m0
    simp only [List.foldl_cons]
    obtain ⟨h1, h2⟩ := ih (if own x < m0 then own x else m0)
    constructor
    · by_cases hx : own x < m0
      · simp only [hx, if_true] at h1 ⊢; omega
      · simp only [hx, if_false] at h1 ⊢; exact h1
    · intro a ha
      rcases List.mem_cons.mp ha with e | e
      · subst e
        by_cases hx : own a < m0
        · simp only [hx, if_true] at h1 ⊢; exact h1
        · simp only [hx, if_false] at h1 ⊢; omega
      · exact h2 a e

/-- `AllocatableSharedCPU` of a pool never exceeds the unpromised capacity of the pool itself nor of any of its ancestors -/
theorem allocatable_le_own (t : TA) (i : Nat) :
    allocatableShared t i ≤ ownShared t i ∧ ∀ a ∈ ancestors t.tree t.tree.length i, allocatableShared t i ≤ ownShared t a := by
  unfold allocatableShared ownShared
  exact foldl_min_le (fun j => 1000 * ((t.pools j).sharable.length : Int) - subtreeShared t j) _ _

/-- **Capacity at grant time, up the whole chain.** A shared portion is admitted only if it fits the unpromised
capacity of the granting pool and of EVERY ancestor up to the root - whatever the tree, state and request. -/
theorem portion_within_every_ancestor (t2 t' : TA) (ctr : String) (i fraction : Nat) (excl : List Nat) (g : Grant)
    (hf : 0 < fraction) (h : addPortion t2 ctr i fraction .normal excl = .ok (t', g)) :
    (fraction : Int) ≤ ownShared t2 i ∧ ∀ a ∈ ancestors t2.tree t2.tree.length i, (fraction : Int) ≤ ownShared t2 a := by
  obtain ⟨hle, _⟩ := portion_within_capacity t2 t' ctr i fraction excl g hf h
  obtain ⟨h1, h2⟩ := allocatable_le_own t2 i
  exact ⟨by omega, fun a ha => by have := h2 a ha; omega⟩

end Nri.TA
