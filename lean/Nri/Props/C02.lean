import Nri.Model.Balloons
import Nri.Gen.BalloonFacts
import Nri.Gen.BalloonReqFacts
/-!
C02 — balloons partition the CPUs and confine their containers.

Proved, for every allowed set, every history of inflate/deflate/delete steps and EVERY choice
the CPU allocator makes within its contract: balloons' CPU sets stay pairwise disjoint subsets
of the allowed CPUs, disjoint from the free set, and together with it cover the allowed CPUs
(`Inv`, `inv_inflate/deflate/delete`, `inv_run`); shared idle CPUs are idle, not isolated and
in no balloon (`shared_spec_sound`); a container's pinning (own CPUs + shared idle CPUs) lies
inside the allowed CPUs and contains no CPU of another balloon (`pinned_confined`).
Membership, limits, hidden hyperthreads, completeness of idle sharing and CPU classes are
evaluated on the implementation's state after every request of the correspondence run.
-/
namespace Nri.Balloons

theorem gen_balloon_facts_ok :
    Nri.Gen.Balloon.inflateMoves = ["p.freeCpus = p.freeCpus.Difference(newCpus)", "bln.Cpus = bln.Cpus.Union(newCpus)"] ∧
    Nri.Gen.Balloon.deflateMoves = ["p.freeCpus = p.freeCpus.Union(removeFromCpus)", "bln.Cpus = bln.Cpus.Difference(removeFromCpus)"] ∧
    Nri.Gen.Balloon.inflateSource = "bln.cpuTreeAlloc.ResizeCpus(bln.Cpus, p.freeCpus, cpuCountDelta)" ∧
    Nri.Gen.Balloon.shareSkipsIsolated = true ∧
    Nri.Gen.Balloon.pinUnion = "bln.Cpus.Union(bln.SharedIdleCpus)" := by decide

theorem inv_init (allowed : List Nat) : Inv (initB allowed) :=
  ⟨fun _ _ h => (by cases h), fun _ _ h => (by cases h), fun _ _ _ _ h => (by cases h), fun _ h => h, fun _ h => Or.inl h⟩

theorem inv_inflate (s s' : BState) (i : Nat) (add : List Nat) (h : Inv s) (hs : inflate s i add = some s') : Inv s' := by
  unfold inflate at hs
  split at hs
  · rename_i hall
    simp only [Option.some.injEq] at hs
    subst hs
    have haddfree : ∀ c ∈ add, c ∈ s.free := by
      intro c hc
      have := List.all_eq_true.mp hall c hc
      simpa using this
    refine ⟨?_, ?_, ?_, ?_, ?_⟩
    · intro j c hc
      simp only [setCpus] at hc
      by_cases hj : j = i
      · simp only [hj, if_true, List.mem_append, List.mem_filter] at hc
        rcases hc with hc | ⟨hc, _⟩
        · exact h.owned_allowed i c hc
        · exact h.free_allowed c (haddfree c hc)
      · simp only [hj, if_false] at hc; exact h.owned_allowed j c hc
    · intro j c hc
      simp only [setCpus] at hc
      simp only [List.mem_filter, not_and, Bool.not_eq_true', Bool.not_eq_eq_eq_not, Bool.not_false]
      by_cases hj : j = i
      · simp only [hj, if_true, List.mem_append, List.mem_filter] at hc
        rcases hc with hc | ⟨hc, _⟩
        · intro hf; exact absurd hf (h.owned_not_free i c hc)
        · intro _; simpa using hc
      · simp only [hj, if_false] at hc
        intro hf; exact absurd hf (h.owned_not_free j c hc)
    · intro j k c hjk hcj hck
      simp only [setCpus] at hcj hck
      by_cases hj : j = i
      · have hk : ¬ k = i := fun e => hjk (hj.trans e.symm)
        simp only [hj, if_true, List.mem_append, List.mem_filter] at hcj
        simp only [hk, if_false] at hck
        rcases hcj with hcj | ⟨hcj, _⟩
        · exact h.disjoint i k c (fun e => hk e.symm) hcj hck
        · exact h.owned_not_free k c hck (haddfree c hcj)
      · simp only [hj, if_false] at hcj
        by_cases hk : k = i
        · simp only [hk, if_true, List.mem_append, List.mem_filter] at hck
          rcases hck with hck | ⟨hck, _⟩
          · exact h.disjoint j i c hj hcj hck
          · exact h.owned_not_free j c hcj (haddfree c hck)
        · simp only [hk, if_false] at hck
          exact h.disjoint j k c hjk hcj hck
    · intro c hc
      simp only [List.mem_filter] at hc
      exact h.free_allowed c hc.1
    · intro c hc
      rcases h.cover c hc with hf | ⟨j, hj⟩
      · by_cases ha : c ∈ add
        · right
          refine ⟨i, ?_⟩
          simp only [setCpus, if_true, List.mem_append, List.mem_filter]
          by_cases hci : c ∈ s.cpus i
          · exact Or.inl hci
          · exact Or.inr ⟨ha, by simpa using hci⟩
        · left
          simp only [List.mem_filter]
          exact ⟨hf, by simpa using ha⟩
      · right
        refine ⟨j, ?_⟩
        simp only [setCpus]
        by_cases hji : j = i
        · simp only [hji, if_true, List.mem_append]; exact Or.inl (hji ▸ hj)
        · simp only [hji, if_false]; exact hj
  · cases hs

theorem inv_deflate (s s' : BState) (i : Nat) (rem : List Nat) (h : Inv s) (hs : deflate s i rem = some s') : Inv s' := by
  unfold deflate at hs
  split at hs
  · rename_i hall
    simp only [Option.some.injEq] at hs
    subst hs
    have hremown : ∀ c ∈ rem, c ∈ s.cpus i := by
      intro c hc
      have := List.all_eq_true.mp hall c hc
      simpa using this
    refine ⟨?_, ?_, ?_, ?_, ?_⟩
    · intro j c hc
      simp only [setCpus] at hc
      by_cases hj : j = i
      · simp only [hj, if_true, List.mem_filter] at hc; exact h.owned_allowed i c hc.1
      · simp only [hj, if_false] at hc; exact h.owned_allowed j c hc
    · intro j c hc
      simp only [setCpus] at hc
      simp only [List.mem_append, List.mem_filter, not_or, not_and]
      by_cases hj : j = i
      · simp only [hj, if_true, List.mem_filter] at hc
        exact ⟨h.owned_not_free i c hc.1, fun hr => absurd hr (by simpa using hc.2)⟩
      · simp only [hj, if_false] at hc
        exact ⟨h.owned_not_free j c hc, fun hr => absurd (hremown c hr) (h.disjoint j i c hj hc)⟩
    · intro j k c hjk hcj hck
      simp only [setCpus] at hcj hck
      have e1 : c ∈ s.cpus j := by
        by_cases hj : j = i
        · simp only [hj, if_true, List.mem_filter] at hcj; exact hj ▸ hcj.1
        · simp only [hj, if_false] at hcj; exact hcj
      have e2 : c ∈ s.cpus k := by
        by_cases hk : k = i
        · simp only [hk, if_true, List.mem_filter] at hck; exact hk ▸ hck.1
        · simp only [hk, if_false] at hck; exact hck
      exact h.disjoint j k c hjk e1 e2
    · intro c hc
      simp only [List.mem_append, List.mem_filter] at hc
      rcases hc with hc | ⟨hc, _⟩
      · exact h.free_allowed c hc
      · exact h.owned_allowed i c (hremown c hc)
    · intro c hc
      rcases h.cover c hc with hf | ⟨j, hj⟩
      · left; simp only [List.mem_append]; exact Or.inl hf
      · by_cases hji : j = i
        · by_cases hr : c ∈ rem
          · left
            simp only [List.mem_append, List.mem_filter]
            by_cases hfr : c ∈ s.free
            · exact Or.inl hfr
            · exact Or.inr ⟨hr, by simpa using hfr⟩
          · right
            refine ⟨i, ?_⟩
            simp only [setCpus, if_true, List.mem_filter]
            exact ⟨hji ▸ hj, by simpa using hr⟩
        · right
          refine ⟨j, ?_⟩
          simp only [setCpus, hji, if_false]; exact hj
  · cases hs

theorem deleteBalloon_eq_deflate (s : BState) (i : Nat) : deflate s i (s.cpus i) = some (deleteBalloon s i) := by
  unfold deflate deleteBalloon
  have : (s.cpus i).all (fun x => (s.cpus i).contains x) = true := by
    rw [List.all_eq_true]; intro x hx; simpa using hx
  simp only [this, if_true, Option.some.injEq]
  congr 1
  funext j
  simp only [setCpus]
  by_cases hj : j = i
  · simp only [hj, if_true]
    rw [List.filter_eq_nil_iff]
    intro a ha; simpa using ha
  · simp [hj]

theorem inv_delete (s : BState) (i : Nat) (h : Inv s) : Inv (deleteBalloon s i) :=
  inv_deflate s _ i _ h (deleteBalloon_eq_deflate s i)

/-- a step of a history; the CPU sets are the allocator's (arbitrary) picks -/
inductive Op where
  | inflate (i : Nat) (add : List Nat)
  | deflate (i : Nat) (rem : List Nat)
  | delete (i : Nat)

def stepOp (s : BState) : Op → BState
  | .inflate i add => (inflate s i add).getD s     -- a pick outside the allocator's contract is refused
  | .deflate i rem => (deflate s i rem).getD s
  | .delete i => deleteBalloon s i

theorem inv_step (s : BState) (o : Op) (h : Inv s) : Inv (stepOp s o) := by
  cases o with
  | inflate i add =>
    simp only [stepOp]
    cases hs : inflate s i add with
    | none => simpa using h
    | some s' => simpa using inv_inflate s s' i add h hs
  | deflate i rem =>
    simp only [stepOp]
    cases hs : deflate s i rem with
    | none => simpa using h
    | some s' => simpa using inv_deflate s s' i rem h hs
  | delete i => exact inv_delete s i h

/-- **Partition, always.** After every history of resize/create/delete steps, with every possible
choice of CPUs, the balloons partition the allowed CPUs together with the free set. -/
theorem inv_run (allowed : List Nat) (ops : List Op) : Inv (ops.foldl stepOp (initB allowed)) := by
  have : ∀ s, Inv s → Inv (ops.foldl stepOp s) := by
    induction ops with
    | nil => intro s h; exact h
    | cons o os ih => intro s h; exact ih _ (inv_step s o h)
  exact this _ (inv_init allowed)

/-- shared idle CPUs are idle, never isolated, and belong to no balloon -/
theorem shared_spec_sound (s : BState) (h : Inv s) (isolated scope : List Nat) (c : Nat)
    (hc : c ∈ sharedSpec s isolated scope) : c ∈ s.free ∧ c ∉ isolated ∧ ∀ i, c ∉ s.cpus i := by
  simp only [sharedSpec, List.mem_filter, Bool.and_eq_true, Bool.not_eq_true'] at hc
  refine ⟨hc.1, by simpa using hc.2.2, fun i hi => h.owned_not_free i c hi hc.1⟩

/-- … and contain every idle non-isolated CPU of the scope -/
theorem shared_spec_complete (s : BState) (isolated scope : List Nat) (c : Nat)
    (hf : c ∈ s.free) (hs : c ∈ scope) (hi : c ∉ isolated) : c ∈ sharedSpec s isolated scope := by
  simp only [sharedSpec, List.mem_filter, Bool.and_eq_true, Bool.not_eq_true']
  exact ⟨hf, by simpa using hs, by simpa using hi⟩

/-- **Confinement.** What a container of balloon `i` may run on lies inside the allowed CPUs and
contains no CPU of any other balloon. -/
theorem pinned_confined (s : BState) (h : Inv s) (i : Nat) (isolated scope : List Nat) (c : Nat)
    (hc : c ∈ pinned s i isolated scope) : c ∈ s.allowed ∧ ∀ j, j ≠ i → c ∉ s.cpus j := by
  simp only [pinned, List.mem_append] at hc
  rcases hc with hc | hc
  · exact ⟨h.owned_allowed i c hc, fun j hj hcj => h.disjoint i j c (fun e => hj e.symm) hc hcj⟩
  · obtain ⟨hf, _, hn⟩ := shared_spec_sound s h isolated scope c hc
    exact ⟨h.free_allowed c hf, fun j _ => hn j⟩

-- non-vacuity: a concrete history ends in a non-trivial state satisfying the invariant
example : (([Op.inflate 0 [1, 2], Op.inflate 1 [3], Op.deflate 0 [2]]).foldl stepOp (initB [0, 1, 2, 3])).free = [0, 2] := by decide


/-! ## Request level: sizes, limits, membership (every allocator pick, every history) -/

def DefWF (d : Def) : Prop := d.maxC > 0 → d.minC ≤ d.maxC

theorem targetCount_bounds (d : Def) (h : DefWF d) (m : Nat) :
    d.minC ≤ targetCount d m ∧ (d.maxC > 0 → targetCount d m ≤ d.maxC) := by
  unfold DefWF at h
  unfold targetCount
  simp only []
  repeat' split
  all_goals omega

theorem targetCount_mono (d : Def) (a b : Nat) (hab : a ≤ b) : targetCount d a ≤ targetCount d b := by
  unfold targetCount
  simp only []
  repeat' split
  all_goals omega

/-- a target computed for a demand that fits under the type's maximum holds the demand -/
theorem targetCount_fits (d : Def) (m : Nat) (hcap : d.maxC > 0 → m ≤ d.maxC * 1000) : m ≤ 1000 * targetCount d m := by
  unfold targetCount
  simp only []
  repeat' split
  all_goals omega

/-- a balloon that already has the room keeps its size when re-targeted (`AllocateResources`
skips the resize when `AvailMilliCpus() >= max(1, req)`) -/
theorem targetCount_stable (d : Def) (h : DefWF d) (a b n : Nat) (hab : a ≤ b) (hn : n = targetCount d a) (hroom : b ≤ n * 1000) :
    targetCount d b = n := by
  unfold DefWF at h
  subst hn
  unfold targetCount at *
  simp only [] at *
  repeat' split at hroom
  all_goals (repeat' split)
  all_goals omega


theorem setCpus_other (s : BState) (i j : Nat) (v : List Nat) (h : j ≠ i) : setCpus s i v j = s.cpus j := by
  simp [setCpus, h]

theorem inflate_other (s s' : BState) (i j : Nat) (add : List Nat) (hs : inflate s i add = some s') (h : j ≠ i) :
    s'.cpus j = s.cpus j := by
  unfold inflate at hs
  split at hs
  · simp only [Option.some.injEq] at hs; subst hs; exact setCpus_other s i j _ h
  · cases hs

theorem deflate_other (s s' : BState) (i j : Nat) (rem : List Nat) (hs : deflate s i rem = some s') (h : j ≠ i) :
    s'.cpus j = s.cpus j := by
  unfold deflate at hs
  split at hs
  · simp only [Option.some.injEq] at hs; subst hs; exact setCpus_other s i j _ h
  · cases hs

/-- what a successful `resizeBalloon` guarantees, whatever the allocator picked -/
theorem resize_spec (r r' : RState) (i milli : Nat) (pick : List Nat) (h : Inv r.core) (hr : resize r i milli pick = some r') :
    Inv r'.core ∧ (r'.core.cpus i).length = targetCount (r.defs (r.defOf i)) milli ∧
    (∀ j, j ≠ i → r'.core.cpus j = r.core.cpus j) ∧
    r'.defs = r.defs ∧ r'.defOf = r.defOf ∧ r'.members = r.members ∧ r'.live = r.live := by
  unfold resize at hr
  simp only [] at hr
  split at hr
  · rename_i heq
    simp only [Option.some.injEq] at hr; subst hr
    exact ⟨h, heq.symm, fun _ _ => rfl, rfl, rfl, rfl, rfl⟩
  · split at hr
    · split at hr
      · rename_i c hc
        split at hr
        · rename_i hlen
          simp only [Option.some.injEq] at hr; subst hr
          exact ⟨inv_inflate _ _ _ _ h hc, hlen, fun j hj => inflate_other _ _ _ _ _ hc hj, rfl, rfl, rfl, rfl⟩
        · cases hr
      · cases hr
    · split at hr
      · rename_i c hc
        split at hr
        · rename_i hlen
          simp only [Option.some.injEq] at hr; subst hr
          exact ⟨inv_deflate _ _ _ _ h hc, hlen, fun j hj => deflate_other _ _ _ _ _ hc hj, rfl, rfl, rfl, rfl⟩
        · cases hr
      · cases hr

/-- the request-level invariant: the property's size, limit and membership clauses -/
structure RInv (r : RState) : Prop where
  core : Inv r.core
  wf : ∀ k, DefWF (r.defs k)
  /-- every balloon has exactly the size its type and its members' requests demand -/
  size : ∀ i ∈ r.live, (r.core.cpus i).length = sizeSpec (r.defs (r.defOf i)) (r.members i)
  /-- the members' requests fit under the type's MaxCpus -/
  cap : ∀ i ∈ r.live, (r.defs (r.defOf i)).maxC > 0 → requested (r.members i) ≤ (r.defs (r.defOf i)).maxC * 1000
  /-- a container is a member of at most one balloon, once -/
  uniq : ∀ i ∈ r.live, ∀ j ∈ r.live, ∀ c, c ∈ (r.members i).map (·.1) → c ∈ (r.members j).map (·.1) → i = j
  once : ∀ i ∈ r.live, ((r.members i).map (·.1)).Nodup

theorem requested_append (ms : List (String × Nat)) (c : String) (m : Nat) : requested (ms ++ [(c, m)]) = requested ms + m := by
  simp [requested, List.foldl_append]

theorem mem_allMembers (r : RState) (c : String) : c ∈ allMembers r ↔ ∃ i ∈ r.live, c ∈ (r.members i).map (·.1) := by
  simp [allMembers, List.mem_flatMap]

/-- **limits** - in every state satisfying the invariant each balloon respects MinCpus/MaxCpus -/
theorem limits_hold (r : RState) (h : RInv r) (i : Nat) (hi : i ∈ r.live) :
    (r.defs (r.defOf i)).minC ≤ (r.core.cpus i).length ∧
    ((r.defs (r.defOf i)).maxC > 0 → (r.core.cpus i).length ≤ (r.defs (r.defOf i)).maxC) := by
  rw [h.size i hi]
  unfold sizeSpec
  split <;> exact targetCount_bounds _ (h.wf _) _

/-- **a non-empty balloon has at least one CPU and at least as many CPUs as its containers request** -/
theorem nonempty_fits (r : RState) (h : RInv r) (i : Nat) (hi : i ∈ r.live) (hne : r.members i ≠ []) :
    1 ≤ (r.core.cpus i).length ∧ requested (r.members i) ≤ 1000 * (r.core.cpus i).length := by
  rw [h.size i hi]
  unfold sizeSpec
  have : (r.members i).isEmpty = false := by cases hm : r.members i <;> simp_all
  simp only [this, Bool.false_eq_true, if_false]
  have hcap := h.cap i hi
  have hfit := targetCount_fits (r.defs (r.defOf i)) (max 1 (requested (r.members i))) (by
    intro hm
    have := hcap hm
    omega)
  have h1 : 1 ≤ max 1 (requested (r.members i)) := Nat.le_max_left _ _
  have h2 : requested (r.members i) ≤ max 1 (requested (r.members i)) := Nat.le_max_right _ _
  generalize targetCount (r.defs (r.defOf i)) (max 1 (requested (r.members i))) = t at hfit ⊢
  generalize max 1 (requested (r.members i)) = mx at hfit h1 h2
  omega


theorem updM_same (f : Nat → List (String × Nat)) (i : Nat) (v : List (String × Nat)) : updM f i v i = v := by simp [updM]
theorem updM_other (f : Nat → List (String × Nat)) (i j : Nat) (v : List (String × Nat)) (h : j ≠ i) : updM f i v j = f j := by simp [updM, h]

theorem requested_filter_le (ms : List (String × Nat)) (p : String × Nat → Bool) : requested (ms.filter p) ≤ requested ms := by
  have gen : ∀ (l : List (String × Nat)) (a b : Nat), a ≤ b →
      ((l.filter p).map (·.2)).foldl (· + ·) a ≤ (l.map (·.2)).foldl (· + ·) b := by
    intro l
    induction l with
    | nil => intro a b h; simpa using h
    | cons x xs ih =>
      intro a b h
      simp only [List.filter_cons]
      split
      · simp only [List.map_cons, List.foldl_cons]; exact ih _ _ (by omega)
      · simp only [List.map_cons, List.foldl_cons]; exact ih _ _ (by omega)
  exact gen ms 0 0 (Nat.le_refl 0)

theorem targetCount_min (d : Def) (h : DefWF d) : targetCount d (d.minC * 1000) = targetCount d 0 := by
  unfold DefWF at h
  unfold targetCount
  simp only []
  repeat' split
  all_goals omega

/-- **AllocateResources preserves the invariant**, for the balloon the fill chain chose and every
allocator pick -/
theorem assign_inv (r r' : RState) (i : Nat) (ctr : String) (milli : Nat) (pick : List Nat)
    (h : RInv r) (ha : assign r i ctr milli pick = some r') : RInv r' := by
  unfold assign at ha
  simp only [] at ha
  split at ha; · cases ha
  rename_i hlive
  split at ha; · cases ha
  rename_i hfresh
  split at ha; · cases ha
  rename_i hguard
  have hi : i ∈ r.live := by simpa using hlive
  have hnew : ∀ j ∈ r.live, ctr ∉ (r.members j).map (·.1) := by
    intro j hj hc
    have : ctr ∈ allMembers r := (mem_allMembers r ctr).mpr ⟨j, hj, hc⟩
    simp [this] at hfresh
  -- the state before the member is appended
  have key : ∀ r1 : RState, Inv r1.core → r1.defs = r.defs → r1.defOf = r.defOf → r1.members = r.members → r1.live = r.live →
      (∀ j, j ≠ i → r1.core.cpus j = r.core.cpus j) →
      (r1.core.cpus i).length = targetCount (r.defs (r.defOf i)) (max 1 (requested (r.members i) + milli)) →
      RInv { r1 with members := updM r1.members i (r1.members i ++ [(ctr, milli)]) } := by
    intro r1 hc hd hdo hm hl hoth hlen
    refine ⟨hc, ?_, ?_, ?_, ?_, ?_⟩
    · intro k; simp only [hd]; exact h.wf k
    · intro j hj
      simp only [hl] at hj
      simp only [hd, hdo, hm]
      by_cases hji : j = i
      · subst hji
        rw [updM_same, hlen]
        unfold sizeSpec
        simp [requested_append]
      · rw [updM_other _ _ _ _ hji, hoth j hji]
        exact h.size j hj
    · intro j hj hmax
      simp only [hl] at hj
      simp only [hd, hdo, hm] at hmax ⊢
      by_cases hji : j = i
      · subst hji
        rw [updM_same, requested_append]
        have : ¬ maxAvail (r.defs (r.defOf j)) (r.core.cpus j).length r.core.free.length < requested (r.members j) + milli := hguard
        unfold maxAvail at this
        have hne : ¬ (r.defs (r.defOf j)).maxC = 0 := by omega
        simp only [hne, if_false] at this
        omega
      · rw [updM_other _ _ _ _ hji]
        exact h.cap j hj hmax
    · intro j hj k hk c hcj hck
      simp only [hl] at hj hk
      simp only [hm] at hcj hck
      by_cases hji : j = i <;> by_cases hki : k = i
      · rw [hji, hki]
      · subst hji
        rw [updM_same] at hcj
        rw [updM_other _ _ _ _ hki] at hck
        simp only [List.map_append, List.map_cons, List.map_nil, List.mem_append, List.mem_singleton] at hcj
        rcases hcj with hcj | rfl
        · exact h.uniq j hj k hk c hcj hck
        · exact absurd hck (hnew k hk)
      · subst hki
        rw [updM_same] at hck
        rw [updM_other _ _ _ _ hji] at hcj
        simp only [List.map_append, List.map_cons, List.map_nil, List.mem_append, List.mem_singleton] at hck
        rcases hck with hck | rfl
        · exact h.uniq j hj k hk c hcj hck
        · exact absurd hcj (hnew j hj)
      · rw [updM_other _ _ _ _ hji] at hcj
        rw [updM_other _ _ _ _ hki] at hck
        exact h.uniq j hj k hk c hcj hck
    · intro j hj
      simp only [hl] at hj
      simp only [hm]
      by_cases hji : j = i
      · subst hji
        rw [updM_same]
        simp only [List.map_append, List.map_cons, List.map_nil]
        refine List.nodup_append.mpr ⟨h.once j hj, by simp, ?_⟩
        intro a hamem b hb
        simp only [List.mem_singleton] at hb
        subst hb
        intro e; subst e
        exact hnew j hj hamem
      · rw [updM_other _ _ _ _ hji]; exact h.once j hj
  split at ha
  · -- the balloon is resized
    rename_i hsmall
    cases hrs : resize r i (max 1 (requested (r.members i) + milli)) pick with
    | none => rw [hrs] at ha; cases ha
    | some r1 =>
      rw [hrs] at ha
      simp only [Option.map_some, Option.some.injEq] at ha
      subst ha
      obtain ⟨hc, hlen, hoth, hd, hdo, hm, hl⟩ := resize_spec r r1 i _ pick h.core hrs
      exact key r1 hc hd hdo hm hl hoth hlen
  · -- it already has the room: its size must already be the new target
    rename_i hroom
    simp only [Option.map_some, Option.some.injEq] at ha
    subst ha
    refine key r h.core rfl rfl rfl rfl (fun _ _ => rfl) ?_
    have hsz := h.size i hi
    have hroom' : max 1 (requested (r.members i) + milli) ≤ (r.core.cpus i).length * 1000 := by omega
    unfold sizeSpec at hsz
    split at hsz
    · exact (targetCount_stable _ (h.wf _) 0 _ _ (Nat.zero_le _) hsz hroom').symm
    · refine (targetCount_stable _ (h.wf _) (max 1 (requested (r.members i))) _ _ ?_ hsz hroom').symm
      omega


theorem filter_ids_sub (ms : List (String × Nat)) (p : String × Nat → Bool) (c : String)
    (h : c ∈ (ms.filter p).map (·.1)) : c ∈ ms.map (·.1) := by
  obtain ⟨m, hm, rfl⟩ := List.mem_map.mp h
  exact List.mem_map.mpr ⟨m, (List.mem_filter.mp hm).1, rfl⟩

/-- **ReleaseResources preserves the invariant** (the emptied balloon is deflated to its minimum, a
still populated one is re-sized to its remaining members' requests) -/
theorem dismiss_inv (r r' : RState) (i : Nat) (ctr : String) (pick : List Nat)
    (h : RInv r) (hd : dismiss r i ctr pick = some r') : RInv r' := by
  unfold dismiss at hd
  simp only [] at hd
  split at hd; · cases hd
  rename_i hlive
  split at hd; · cases hd
  have hi : i ∈ r.live := by simpa using hlive
  -- common tail: a resize of the state with the member removed, to the size the spec demands
  have key : ∀ milli, resize { r with members := updM r.members i ((r.members i).filter (fun m => m.1 != ctr)) } i milli pick = some r' →
      targetCount (r.defs (r.defOf i)) milli = sizeSpec (r.defs (r.defOf i)) ((r.members i).filter (fun m => m.1 != ctr)) → RInv r' := by
    intro milli hrs hspec
    obtain ⟨hc, hlen, hoth, hdf, hdo, hm, hl⟩ := resize_spec { r with members := updM r.members i ((r.members i).filter (fun m => m.1 != ctr)) } r' i milli pick h.core hrs
    simp only [] at hlen hoth hdf hdo hm hl
    refine ⟨hc, ?_, ?_, ?_, ?_, ?_⟩
    · intro k; rw [hdf]; exact h.wf k
    · intro j hj
      rw [hl] at hj
      rw [hdf, hdo, hm]
      by_cases hji : j = i
      · subst hji; rw [updM_same, hlen, hspec]
      · rw [updM_other _ _ _ _ hji, hoth j hji]; exact h.size j hj
    · intro j hj hmax
      rw [hl] at hj
      rw [hdf, hdo] at hmax
      rw [hdf, hdo, hm]
      by_cases hji : j = i
      · subst hji
        rw [updM_same]
        exact Nat.le_trans (requested_filter_le _ _) (h.cap j hj hmax)
      · rw [updM_other _ _ _ _ hji]; exact h.cap j hj hmax
    · intro j hj k hk c hcj hck
      rw [hl] at hj hk
      rw [hm] at hcj hck
      have hcj' : c ∈ (r.members j).map (·.1) := by
        by_cases hji : j = i
        · subst hji; rw [updM_same] at hcj; exact filter_ids_sub _ _ _ hcj
        · rw [updM_other _ _ _ _ hji] at hcj; exact hcj
      have hck' : c ∈ (r.members k).map (·.1) := by
        by_cases hki : k = i
        · subst hki; rw [updM_same] at hck; exact filter_ids_sub _ _ _ hck
        · rw [updM_other _ _ _ _ hki] at hck; exact hck
      exact h.uniq j hj k hk c hcj' hck'
    · intro j hj
      rw [hl] at hj
      rw [hm]
      by_cases hji : j = i
      · subst hji
        rw [updM_same]
        exact (List.Sublist.map _ List.filter_sublist).nodup (h.once j hj)
      · rw [updM_other _ _ _ _ hji]; exact h.once j hj
  split at hd
  · rename_i hempty
    refine key 0 hd ?_
    unfold sizeSpec; simp [hempty]
  · rename_i hne
    refine key _ hd ?_
    unfold sizeSpec
    have : ((r.members i).filter (fun m => m.1 != ctr)).isEmpty = false := by simpa using hne
    simp [this]

theorem countOf_unused : True := trivial

/-- **newBalloon preserves the invariant**: the new instance has exactly its type's minimum size -/
theorem create_inv (r r' : RState) (i k : Nat) (pick : List Nat) (h : RInv r) (hc : create r i k pick = some r') : RInv r' := by
  unfold create at hc
  simp only [] at hc
  split at hc; · cases hc
  rename_i hnl
  split at hc; · cases hc
  rename_i hemp
  split at hc; · cases hc
  have hni : i ∉ r.live := by simpa using hnl
  have hme : r.members i = [] := by
    cases hm : r.members i with
    | nil => rfl
    | cons x xs => simp [hm] at hemp
  obtain ⟨hcore, hlen, hoth, hdf, hdo, hm, hl⟩ := resize_spec { r with defOf := fun j => if j = i then k else r.defOf j, live := i :: r.live } r' i _ pick h.core hc
  simp only [if_true] at hlen hoth hdf hdo hm hl
  have hmem : ∀ j, j ∈ r'.live → j = i ∨ (j ∈ r.live ∧ j ≠ i) := by
    intro j hj
    rw [hl] at hj
    rcases List.mem_cons.mp hj with e | hj
    · exact Or.inl e
    · exact Or.inr ⟨hj, fun e => hni (e ▸ hj)⟩
  refine ⟨hcore, ?_, ?_, ?_, ?_, ?_⟩
  · intro k'; rw [hdf]; exact h.wf k'
  · intro j hj
    rw [hdf, hdo, hm]
    rcases hmem j hj with rfl | ⟨hjl, hji⟩
    · simp only [if_true]
      rw [hlen, hme, targetCount_min _ (h.wf k)]
      simp [sizeSpec]
    · simp only [hji, if_false]
      rw [hoth j hji]; exact h.size j hjl
  · intro j hj hmax
    rw [hdf, hdo] at hmax
    rw [hdf, hdo, hm]
    rcases hmem j hj with rfl | ⟨hjl, hji⟩
    · rw [hme]; simp [requested]
    · simp only [hji, if_false] at hmax ⊢
      exact h.cap j hjl hmax
  · intro j hj k' hk c hcj hck
    rw [hm] at hcj hck
    rcases hmem j hj with rfl | ⟨hjl, _⟩
    · rw [hme] at hcj; cases hcj
    · rcases hmem k' hk with rfl | ⟨hkl, _⟩
      · rw [hme] at hck; cases hck
      · exact h.uniq j hjl k' hkl c hcj hck
  · intro j hj
    rw [hm]
    rcases hmem j hj with rfl | ⟨hjl, _⟩
    · rw [hme]; exact List.nodup_nil
    · exact h.once j hjl

/-- **freeBalloon/deleteBalloon preserves the invariant** -/
theorem delete_inv (r r' : RState) (i : Nat) (h : RInv r) (hd : delete r i = some r') : RInv r' := by
  unfold delete at hd
  split at hd; · cases hd
  split at hd; · cases hd
  split at hd; · cases hd
  simp only [Option.some.injEq] at hd
  subst hd
  have hsub : ∀ j, j ∈ r.live.filter (· != i) → j ∈ r.live ∧ j ≠ i := by
    intro j hj
    have := List.mem_filter.mp hj
    exact ⟨this.1, by simpa using this.2⟩
  refine ⟨inv_delete r.core i h.core, h.wf, ?_, ?_, ?_, ?_⟩
  · intro j hj
    obtain ⟨hjl, hji⟩ := hsub j hj
    simp only [deleteBalloon, setCpus, hji, if_false]
    exact h.size j hjl
  · intro j hj; exact h.cap j (hsub j hj).1
  · intro j hj k hk; exact h.uniq j (hsub j hj).1 k (hsub k hk).1
  · intro j hj; exact h.once j (hsub j hj).1

/-- the requests the balloons policy serves, with the fill chain's choice and the allocator's picks
as arbitrary oracle arguments; a refused step leaves the state as it was -/
inductive ROp where
  | assign (i : Nat) (ctr : String) (milli : Nat) (pick : List Nat)
  | dismiss (i : Nat) (ctr : String) (pick : List Nat)
  | create (i k : Nat) (pick : List Nat)
  | delete (i : Nat)

def stepR (r : RState) : ROp → RState
  | .assign i c m p => (assign r i c m p).getD r
  | .dismiss i c p => (dismiss r i c p).getD r
  | .create i k p => (create r i k p).getD r
  | .delete i => (delete r i).getD r

theorem rinv_step (r : RState) (o : ROp) (h : RInv r) : RInv (stepR r o) := by
  cases o with
  | assign i c m p =>
    simp only [stepR]
    cases hs : assign r i c m p with
    | none => exact h
    | some r' => exact assign_inv r r' i c m p h hs
  | dismiss i c p =>
    simp only [stepR]
    cases hs : dismiss r i c p with
    | none => exact h
    | some r' => exact dismiss_inv r r' i c p h hs
  | create i k p =>
    simp only [stepR]
    cases hs : create r i k p with
    | none => exact h
    | some r' => exact create_inv r r' i k p h hs
  | delete i =>
    simp only [stepR]
    cases hs : delete r i with
    | none => exact h
    | some r' => exact delete_inv r r' i h hs

/-- the configured policy before any balloon exists -/
def initR (allowed : List Nat) (defs : Nat → Def) : RState := ⟨initB allowed, defs, fun _ => 0, fun _ => [], []⟩

theorem rinv_init (allowed : List Nat) (defs : Nat → Def) (hwf : ∀ k, DefWF (defs k)) : RInv (initR allowed defs) :=
  ⟨inv_init allowed, hwf, fun _ h => (by cases h), fun _ h => (by cases h), fun _ h => (by cases h), fun _ h => (by cases h)⟩

/-- **every history**: for all available CPU sets, all well-formed balloon types, all sequences of
balloon creations/deletions and container assignments/releases, all fill-chain choices and all
allocator picks: the balloons partition the available CPUs, every balloon has exactly the size its
type and its members' requests demand (hence MinCpus ≤ size ≤ MaxCpus, a non-empty balloon has at least one
CPU and at least as many CPUs as its containers request), and no container is a member twice -/
theorem rinv_run (allowed : List Nat) (defs : Nat → Def) (hwf : ∀ k, DefWF (defs k)) (ops : List ROp) :
    RInv (ops.foldl stepR (initR allowed defs)) := by
  have : ∀ r, RInv r → RInv (ops.foldl stepR r) := by
    induction ops with
    | nil => intro r h; exact h
    | cons o os ih => intro r h; exact ih _ (rinv_step r o h)
  exact this _ (rinv_init allowed defs hwf)

/-- non-vacuity: a type with 1..4 CPUs; create an instance (1 CPU), assign 1500m (grows to 2), assign
300m (fits, no resize), release the first (shrinks to 1) -/
example :
    let d : Def := ⟨1, 4, 0, 0⟩
    let r := [ROp.create 0 0 [0], .assign 0 "a" 1500 [1], .assign 0 "b" 300 [], .dismiss 0 "a" [1]].foldl stepR (initR [0, 1, 2, 3] (fun _ => d))
    r.core.cpus 0 = [0] ∧ r.core.free = [2, 3, 1] ∧ r.members 0 = [("b", 300)] ∧ r.live = [0] := by
  decide

end Nri.Balloons

/-! ### instance limits (MinBalloons / MaxBalloons) -/
namespace Nri.Balloons

/-- every balloon type has at most MaxBalloons and at least MinBalloons instances; instances are distinct -/
structure InstInv (r : RState) : Prop where
  nodup : r.live.Nodup
  max : ∀ k, (r.defs k).maxB > 0 → countOf r k ≤ (r.defs k).maxB
  min : ∀ k, (r.defs k).minB ≤ countOf r k

theorem countOf_congr (r r' : RState) (hl : r'.live = r.live) (hd : r'.defOf = r.defOf) (k : Nat) : countOf r' k = countOf r k := by
  simp [countOf, hl, hd]

theorem assign_shape (r r' : RState) (i : Nat) (ctr : String) (milli : Nat) (pick : List Nat) (h : RInv r)
    (ha : assign r i ctr milli pick = some r') : r'.live = r.live ∧ r'.defOf = r.defOf ∧ r'.defs = r.defs := by
  unfold assign at ha
  simp only [] at ha
  split at ha; · cases ha
  split at ha; · cases ha
  split at ha; · cases ha
  split at ha
  · cases hrs : resize r i (max 1 (requested (r.members i) + milli)) pick with
    | none => rw [hrs] at ha; cases ha
    | some r1 =>
      rw [hrs] at ha
      simp only [Option.map_some, Option.some.injEq] at ha
      subst ha
      obtain ⟨_, _, _, hd, hdo, _, hl⟩ := resize_spec r r1 i _ pick h.core hrs
      exact ⟨hl, hdo, hd⟩
  · simp only [Option.map_some, Option.some.injEq] at ha
    subst ha
    exact ⟨rfl, rfl, rfl⟩

theorem dismiss_shape (r r' : RState) (i : Nat) (ctr : String) (pick : List Nat) (h : RInv r)
    (hd : dismiss r i ctr pick = some r') : r'.live = r.live ∧ r'.defOf = r.defOf ∧ r'.defs = r.defs := by
  unfold dismiss at hd
  simp only [] at hd
  split at hd; · cases hd
  split at hd; · cases hd
  split at hd
  · obtain ⟨_, _, _, hdf, hdo, _, hl⟩ := resize_spec { r with members := updM r.members i ((r.members i).filter (fun m => m.1 != ctr)) } r' i _ pick h.core hd
    exact ⟨hl, hdo, hdf⟩
  · obtain ⟨_, _, _, hdf, hdo, _, hl⟩ := resize_spec { r with members := updM r.members i ((r.members i).filter (fun m => m.1 != ctr)) } r' i _ pick h.core hd
    exact ⟨hl, hdo, hdf⟩

theorem inst_of_shape (r r' : RState) (h : InstInv r) (hs : r'.live = r.live ∧ r'.defOf = r.defOf ∧ r'.defs = r.defs) : InstInv r' := by
  obtain ⟨hl, hd, hdf⟩ := hs
  refine ⟨by rw [hl]; exact h.nodup, ?_, ?_⟩
  · intro k hk; rw [countOf_congr r r' hl hd, hdf]; rw [hdf] at hk; exact h.max k hk
  · intro k; rw [countOf_congr r r' hl hd, hdf]; exact h.min k

/-- **newBalloon respects MaxBalloons** (and keeps MinBalloons) -/
theorem create_inst (r r' : RState) (i k : Nat) (pick : List Nat) (hr : RInv r) (h : InstInv r) (hc : create r i k pick = some r') : InstInv r' := by
  unfold create at hc
  simp only [] at hc
  split at hc; · cases hc
  rename_i hnl
  split at hc; · cases hc
  split at hc; · cases hc
  rename_i hguard
  have hni : i ∉ r.live := by simpa using hnl
  obtain ⟨_, _, _, hdf, hdo, _, hl⟩ := resize_spec { r with defOf := fun j => if j = i then k else r.defOf j, live := i :: r.live } r' i _ pick hr.core hc
  simp only [] at hdf hdo hl
  have hcount : ∀ k', countOf r' k' = (if k = k' then 1 else 0) + countOf r k' := by
    intro k'
    simp only [countOf, hl, hdo, List.filter_cons, if_true]
    have hrest : (r.live.filter (fun j => (if j = i then k else r.defOf j) == k')) = r.live.filter (fun j => r.defOf j == k') := by
      apply List.filter_congr
      intro j hj
      have : j ≠ i := fun e => hni (e ▸ hj)
      simp [this]
    by_cases hk : k = k'
    · subst hk; simp [hrest]; omega
    · have : (k == k') = false := by simpa using hk
      simp [this, hk, hrest]
  refine ⟨by rw [hl]; exact List.nodup_cons.mpr ⟨hni, h.nodup⟩, ?_, ?_⟩
  · intro k' hk'
    rw [hcount k', hdf]
    rw [hdf] at hk'
    by_cases hk : k = k'
    · subst hk
      simp only [if_true]
      have := h.max k hk'
      have hg : ¬ ((r.defs k).maxB > 0 ∧ (r.defs k).maxB ≤ countOf r k) := hguard
      omega
    · simp only [hk, if_false]; have := h.max k' hk'; omega
  · intro k'
    rw [hcount k', hdf]
    have := h.min k'
    omega

theorem filter_length_erase (l : List Nat) (i : Nat) (p : Nat → Bool) (hnd : l.Nodup) (hi : i ∈ l) :
    ((l.filter (fun a => a != i)).filter p).length + (if p i then 1 else 0) = (l.filter p).length := by
  induction l with
  | nil => cases hi
  | cons x xs ih =>
    rw [List.nodup_cons] at hnd
    by_cases hx : x = i
    · subst hx
      have hxs : xs.filter (fun a => a != x) = xs := by
        apply List.filter_eq_self.mpr
        intro a ha
        have : a ≠ x := fun e => hnd.1 (e ▸ ha)
        simpa using this
      have h1 : (x :: xs).filter (fun a => a != x) = xs := by
        rw [List.filter_cons]
        simp only [bne_self_eq_false, Bool.false_eq_true, if_false]
        exact hxs
      rw [h1, List.filter_cons]
      by_cases hp : p x = true
      · simp only [hp, if_true, List.length_cons]
      · simp only [hp, Bool.false_eq_true, if_false]; omega
    · have hi' : i ∈ xs := by
        rcases List.mem_cons.mp hi with e | h
        · exact absurd e.symm hx
        · exact h
      have ih' := ih hnd.2 hi'
      have hne : (x != i) = true := by simpa using hx
      have h1 : (x :: xs).filter (fun a => a != i) = x :: xs.filter (fun a => a != i) := by
        rw [List.filter_cons]; simp only [hne, if_true]
      rw [h1, List.filter_cons, List.filter_cons]
      by_cases hp : p x = true
      · simp only [hp, if_true, List.length_cons]; omega
      · simp only [hp, Bool.false_eq_true, if_false]; exact ih'

/-- **freeBalloon/deleteBalloon respects MinBalloons** (and keeps MaxBalloons) -/
theorem delete_inst (r r' : RState) (i : Nat) (h : InstInv r) (hd : delete r i = some r') : InstInv r' := by
  unfold delete at hd
  split at hd; · cases hd
  rename_i hlive
  split at hd; · cases hd
  split at hd; · cases hd
  rename_i hguard
  simp only [Option.some.injEq] at hd
  subst hd
  have hi : i ∈ r.live := by simpa using hlive
  have hcnt : ∀ k, countOf { r with core := deleteBalloon r.core i, live := r.live.filter (· != i) } k + (if r.defOf i == k then 1 else 0) = countOf r k := by
    intro k
    exact filter_length_erase r.live i (fun j => r.defOf j == k) h.nodup hi
  refine ⟨h.nodup.filter _, ?_, ?_⟩
  · intro k hk
    have h1 := hcnt k
    have h2 := h.max k hk
    show countOf { r with core := deleteBalloon r.core i, live := r.live.filter (· != i) } k ≤ (r.defs k).maxB
    generalize countOf { r with core := deleteBalloon r.core i, live := r.live.filter (· != i) } k = n at h1
    split at h1 <;> omega
  · intro k
    have h1 := hcnt k
    have h2 := h.min k
    show (r.defs k).minB ≤ countOf { r with core := deleteBalloon r.core i, live := r.live.filter (· != i) } k
    generalize countOf { r with core := deleteBalloon r.core i, live := r.live.filter (· != i) } k = n at h1
    by_cases hk : r.defOf i = k
    · subst hk
      simp only [beq_self_eq_true, if_true] at h1
      have : ¬ countOf r (r.defOf i) ≤ (r.defs (r.defOf i)).minB := hguard
      omega
    · have : (r.defOf i == k) = false := by simpa using hk
      simp only [this, Bool.false_eq_true, if_false] at h1
      omega

/-- every request preserves the instance limits -/
theorem inst_step (r : RState) (o : ROp) (hr : RInv r) (h : InstInv r) : InstInv (stepR r o) := by
  cases o with
  | assign i c m p =>
    simp only [stepR]
    cases hs : assign r i c m p with
    | none => exact h
    | some r' => exact inst_of_shape r r' h (assign_shape r r' i c m p hr hs)
  | dismiss i c p =>
    simp only [stepR]
    cases hs : dismiss r i c p with
    | none => exact h
    | some r' => exact inst_of_shape r r' h (dismiss_shape r r' i c p hr hs)
  | create i k p =>
    simp only [stepR]
    cases hs : create r i k p with
    | none => exact h
    | some r' => exact create_inst r r' i k p hr h hs
  | delete i =>
    simp only [stepR]
    cases hs : delete r i with
    | none => exact h
    | some r' => exact delete_inst r r' i h hs

/-- **instance limits over every history**: from any state that satisfies them (the state right after the configured
MinBalloons instances were created), all requests keep every type within MinBalloons..MaxBalloons -/
theorem inst_run (r0 : RState) (hr : RInv r0) (h : InstInv r0) (ops : List ROp) :
    InstInv (ops.foldl stepR r0) ∧ RInv (ops.foldl stepR r0) := by
  induction ops generalizing r0 with
  | nil => exact ⟨h, hr⟩
  | cons o os ih => exact ih _ (rinv_step r0 o hr) (inst_step r0 o hr h)

end Nri.Balloons

/-! ### the source shapes the request-level model was written against (regenerated facts must equal them) -/
namespace Nri.Balloons.Expect
def resizeCount : List String := ["oldCpuCount := bln.Cpus.Size()", "newCpuCount := (newMilliCpus + 999) / 1000", "if bln.Def.MaxCpus > NoLimit && newCpuCount > bln.Def.MaxCpus", "> newCpuCount = bln.Def.MaxCpus", "if bln.Def.MinCpus > 0 && newCpuCount < bln.Def.MinCpus", "> newCpuCount = bln.Def.MinCpus", "if oldCpuCount == newCpuCount", "cpuCountDelta := newCpuCount - oldCpuCount", "if cpuCountDelta > 0", "> newCpus, err := p.cpuAllocator.AllocateCpus(&addFromCpus, newCpuCount-oldCpuCount, bln.Def.AllocatorPriority.Value().Option())", "else"]
def allocate : List String := ["if c.PreserveCpuResources()", "> return nil", "if p.bpoptions.Preserve != nil", "> rule, err := p.bpoptions.Preserve.MatchContainer(c)", "> if err != nil", "> else", "> > if rule != \"\"", "> > > return nil", "bln, err := p.allocateBalloon(c)", "if err != nil", "> return balloonsError(…)", "if bln == nil", "> return balloonsError(…)", "reqMilliCpus := p.containerRequestedMilliCpus(c.GetID()) + p.requestedMilliCpus(bln)", "if bln.AvailMilliCpus() < max(1, reqMilliCpus)", "> if err := p.resizeBalloon(bln, max(1, reqMilliCpus)); err != nil", "> > if bln.ContainerCount() == 0", "> > > p.freeBalloon(bln)", "> > return balloonsError(…)", "p.assignContainer(c, bln)", "return nil"]
def release : List String := ["if bln := p.balloonByContainer(c); bln != nil", "> p.dismissContainer(c, bln)", "> if bln.ContainerCount() == 0", "> > if err := p.resizeBalloon(bln, 0); err != nil", "> > p.freeBalloon(bln)", "> else", "> > if err := p.resizeBalloon(bln, max(1, p.requestedMilliCpus(bln))); err != nil", "> > > return balloonsError(…)", "else", "return nil"]
def maxAvail : List String := ["if bln.Def.MaxCpus == NoLimit", "> return (bln.Cpus.Size() + freeCpus.Size()) * 1000", "return bln.Def.MaxCpus * 1000"]
def avail : List String := ["return bln.Cpus.Size() * 1000"]
def maxFree : List String := ["return bln.MaxAvailMilliCpus(p.freeCpus) - p.requestedMilliCpus(bln)"]
def free : List String := ["return bln.AvailMilliCpus() - p.requestedMilliCpus(bln)"]
def requestedSum : List String := ["cpuRequested := 0", "range bln.ContainerIDs()", "> cpuRequested += p.containerRequestedMilliCpus(cID)", "return cpuRequested"]
def freeBalloon : List String := ["bln.PodIDs = make(map[string][]string)", "if len(blnsSameDef) > bln.Def.MinBalloons", "> p.deleteBalloon(bln)"]
def assign : List String := ["bln.PodIDs[podID] = append(bln.PodIDs[podID], c.GetID())", "p.updatePinning(bln)"]
def dismissC : List String := ["if err := p.memAllocator.Release(c.GetID()); err != nil", "bln.PodIDs[podID] = removeString(bln.PodIDs[podID], c.GetID())", "if len(bln.PodIDs[podID]) == 0", "> delete(bln.PodIDs, podID)"]
def newBalloon : List String := ["if blnDef.MaxBalloons > NoLimit && blnDef.MaxBalloons <= len(blnsOfDef)", "> return nil, balloonsError(…)", "if err := p.resizeBalloon(bln, blnDef.MinCpus*1000); err != nil"]
def fillTests : List String := ["reqMilliCpus := p.containerRequestedMilliCpus(c.GetID())", "case FillNewBalloon, FillNewBalloonMust", "if len(bln.PodIDs) == 0 && p.maxFreeMilliCpus(bln) >= reqMilliCpus", "if newBln.MaxAvailMilliCpus(p.freeCpus) < reqMilliCpus", "case FillSameGroup", "return balloonsByFunc(p.balloons, func(bln *Balloon) bool { return bln.Groups[group] > 0 && bln.Def == blnDef && p.maxFreeMilliCpus(bln) >= reqMilliCpus }), nil", "case FillSameNamespace", "return balloonsByFunc(p.balloonsByNamespace(c.GetNamespace()), func(bln *Balloon) bool { return bln.Def == blnDef && p.maxFreeMilliCpus(bln) >= reqMilliCpus }), nil", "case FillSamePod", "return balloonsByFunc(p.balloonsByPod(pod), func(bln *Balloon) bool { return bln.Def == blnDef && p.maxFreeMilliCpus(bln) >= reqMilliCpus }), nil", "case FillBalanced", "return balloonsByFunc(balloons, func(bln *Balloon) bool { return p.freeMilliCpus(bln) >= reqMilliCpus }), nil", "case FillBalancedInflate", "return balloonsByFunc(balloons, func(bln *Balloon) bool { return p.maxFreeMilliCpus(bln) >= reqMilliCpus }), nil"]
end Nri.Balloons.Expect

namespace Nri.Balloons

/-- the regenerated statement skeletons of the sizing code are the ones the request-level model follows: the
new CPU count `(milli+999)/1000` capped by MaxCpus then raised to MinCpus; AllocateResources resizes to
`max(1, request + requested)` only when `AvailMilliCpus` is smaller, and rolls an empty balloon back on failure;
ReleaseResources deflates an emptied balloon to 0 and frees it, else re-sizes to `max(1, requested)`;
`MaxAvailMilliCpus`, the room tests of every fill method; MaxBalloons / MinBalloons tests -/
theorem gen_balloon_req_facts_ok :
    Nri.Gen.BalloonReq.resizeCount = Expect.resizeCount ∧
    Nri.Gen.BalloonReq.allocate = Expect.allocate ∧
    Nri.Gen.BalloonReq.release = Expect.release ∧
    Nri.Gen.BalloonReq.maxAvail = Expect.maxAvail ∧
    Nri.Gen.BalloonReq.avail = Expect.avail ∧
    Nri.Gen.BalloonReq.maxFree = Expect.maxFree ∧
    Nri.Gen.BalloonReq.free = Expect.free ∧
    Nri.Gen.BalloonReq.requestedSum = Expect.requestedSum ∧
    Nri.Gen.BalloonReq.freeBalloon = Expect.freeBalloon ∧
    Nri.Gen.BalloonReq.assign = Expect.assign ∧
    Nri.Gen.BalloonReq.dismissC = Expect.dismissC ∧
    Nri.Gen.BalloonReq.newBalloon = Expect.newBalloon ∧
    Nri.Gen.BalloonReq.fillTests = Expect.fillTests := by
  and_intros <;> rfl

end Nri.Balloons
