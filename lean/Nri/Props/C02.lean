import Nri.Model.Balloons
import Nri.Gen.BalloonFacts
/-!
C02 — balloons partition the CPUs and confine their containers.

Proved, for every allowed set, every history of inflate/deflate/delete steps and EVERY choice
the CPU allocator makes within its contract: balloons' CPU sets stay pairwise disjoint subsets
of the allowed CPUs, disjoint from the free set, and together with it cover the allowed CPUs
(`Inv`, `inv_inflate/deflate/delete`, `inv_run`); shared idle CPUs are idle, not isolated and
in no balloon (`shared_spec_sound`); a container's pinning (own CPUs + shared idle CPUs) lies
inside the allowed CPUs and contains no CPU of another balloon (`pinned_confined`).
Membership, limits, hidden hyperthreads, completeness of idle sharing and CPU classes are
evaluated on the implementation's state after every request of the correspondence run.
-/
namespace Nri.Balloons

theorem gen_balloon_facts_ok :
    Nri.Gen.Balloon.inflateMoves = ["p.freeCpus = p.freeCpus.Difference(newCpus)", "bln.Cpus = bln.Cpus.Union(newCpus)"] ∧
    Nri.Gen.Balloon.deflateMoves = ["p.freeCpus = p.freeCpus.Union(removeFromCpus)", "bln.Cpus = bln.Cpus.Difference(removeFromCpus)"] ∧
    Nri.Gen.Balloon.inflateSource = "bln.cpuTreeAlloc.ResizeCpus(bln.Cpus, p.freeCpus, cpuCountDelta)" ∧
    Nri.Gen.Balloon.shareSkipsIsolated = true ∧
    Nri.Gen.Balloon.pinUnion = "bln.Cpus.Union(bln.SharedIdleCpus)" := by decide

theorem inv_init (allowed : List Nat) : Inv (initB allowed) :=
  ⟨fun _ _ h => (by cases h), fun _ _ h => (by cases h), fun _ _ _ _ h => (by cases h), fun _ h => h, fun _ h => Or.inl h⟩

theorem inv_inflate (s s' : BState) (i : Nat) (add : List Nat) (h : Inv s) (hs : inflate s i add = some s') : Inv s' := by
  unfold inflate at hs
  split at hs
  · rename_i hall
    simp only [Option.some.injEq] at hs
    subst hs
    have haddfree : ∀ c ∈ add, c ∈ s.free := by
      intro c hc
      have := List.all_eq_true.mp hall c hc
      simpa using this
    refine ⟨?_, ?_, ?_, ?_, ?_⟩
    · intro j c hc
      simp only [setCpus] at hc
      by_cases hj : j = i
      · simp only [hj, if_true, List.mem_append, List.mem_filter] at hc
        rcases hc with hc | ⟨hc, _⟩
        · exact h.owned_allowed i c hc
        · exact h.free_allowed c (haddfree c hc)
      · simp only [hj, if_false] at hc; exact h.owned_allowed j c hc
    · intro j c hc
      simp only [setCpus] at hc
      simp only [List.mem_filter, not_and, Bool.not_eq_true', Bool.not_eq_eq_eq_not, Bool.not_false]
      by_cases hj : j = i
      · simp only [hj, if_true, List.mem_append, List.mem_filter] at hc
        rcases hc with hc | ⟨hc, _⟩
        · intro hf; exact absurd hf (h.owned_not_free i c hc)
        · intro _; simpa using hc
      · simp only [hj, if_false] at hc
        intro hf; exact absurd hf (h.owned_not_free j c hc)
    · intro j k c hjk hcj hck
      simp only [setCpus] at hcj hck
      by_cases hj : j = i
      · have hk : ¬ k = i := fun e => hjk (hj.trans e.symm)
        simp only [hj, if_true, List.mem_append, List.mem_filter] at hcj
        simp only [hk, if_false] at hck
        rcases hcj with hcj | ⟨hcj, _⟩
        · exact h.disjoint i k c (fun e => hk e.symm) hcj hck
        · exact h.owned_not_free k c hck (haddfree c hcj)
      · simp only [hj, if_false] at hcj
        by_cases hk : k = i
        · simp only [hk, if_true, List.mem_append, List.mem_filter] at hck
          rcases hck with hck | ⟨hck, _⟩
          · exact h.disjoint j i c hj hcj hck
          · exact h.owned_not_free j c hcj (haddfree c hck)
        · simp only [hk, if_false] at hck
          exact h.disjoint j k c hjk hcj hck
    · intro c hc
      simp only [List.mem_filter] at hc
      exact h.free_allowed c hc.1
    · intro c hc
      rcases h.cover c hc with hf | ⟨j, hj⟩
      · by_cases ha : c ∈ add
        · right
          refine ⟨i, ?_⟩
          simp only [setCpus, if_true, List.mem_append, List.mem_filter]
          by_cases hci : c ∈ s.cpus i
          · exact Or.inl hci
          · exact Or.inr ⟨ha, by simpa using hci⟩
        · left
          simp only [List.mem_filter]
          exact ⟨hf, by simpa using ha⟩
      · right
        refine ⟨j, ?_⟩
        simp only [setCpus]
        by_cases hji : j = i
        · simp only [hji, if_true, List.mem_append]; exact Or.inl (hji ▸ hj)
        · simp only [hji, if_false]; exact hj
  · cases hs

theorem inv_deflate (s s' : BState) (i : Nat) (rem : List Nat) (h : Inv s) (hs : deflate s i rem = some s') : Inv s' := by
  unfold deflate at hs
  split at hs
  · rename_i hall
    simp only [Option.some.injEq] at hs
    subst hs
    have hremown : ∀ c ∈ rem, c ∈ s.cpus i := by
      intro c hc
      have := List.all_eq_true.mp hall c hc
      simpa using this
    refine ⟨?_, ?_, ?_, ?_, ?_⟩
    · intro j c hc
      simp only [setCpus] at hc
      by_cases hj : j = i
      · simp only [hj, if_true, List.mem_filter] at hc; exact h.owned_allowed i c hc.1
      · simp only [hj, if_false] at hc; exact h.owned_allowed j c hc
    · intro j c hc
      simp only [setCpus] at hc
      simp only [List.mem_append, List.mem_filter, not_or, not_and]
      by_cases hj : j = i
      · simp only [hj, if_true, List.mem_filter] at hc
        exact ⟨h.owned_not_free i c hc.1, fun hr => absurd hr (by simpa using hc.2)⟩
      · simp only [hj, if_false] at hc
        exact ⟨h.owned_not_free j c hc, fun hr => absurd (hremown c hr) (h.disjoint j i c hj hc)⟩
    · intro j k c hjk hcj hck
      simp only [setCpus] at hcj hck
      have e1 : c ∈ s.cpus j := by
        by_cases hj : j = i
        · simp only [hj, if_true, List.mem_filter] at hcj; exact hj ▸ hcj.1
        · simp only [hj, if_false] at hcj; exact hcj
      have e2 : c ∈ s.cpus k := by
        by_cases hk : k = i
        · simp only [hk, if_true, List.mem_filter] at hck; exact hk ▸ hck.1
        · simp only [hk, if_false] at hck; exact hck
      exact h.disjoint j k c hjk e1 e2
    · intro c hc
      simp only [List.mem_append, List.mem_filter] at hc
      rcases hc with hc | ⟨hc, _⟩
      · exact h.free_allowed c hc
      · exact h.owned_allowed i c (hremown c hc)
    · intro c hc
      rcases h.cover c hc with hf | ⟨j, hj⟩
      · left; simp only [List.mem_append]; exact Or.inl hf
      · by_cases hji : j = i
        · by_cases hr : c ∈ rem
          · left
            simp only [List.mem_append, List.mem_filter]
            by_cases hfr : c ∈ s.free
            · exact Or.inl hfr
            · exact Or.inr ⟨hr, by simpa using hfr⟩
          · right
            refine ⟨i, ?_⟩
            simp only [setCpus, if_true, List.mem_filter]
            exact ⟨hji ▸ hj, by simpa using hr⟩
        · right
          refine ⟨j, ?_⟩
          simp only [setCpus, hji, if_false]; exact hj
  · cases hs

theorem deleteBalloon_eq_deflate (s : BState) (i : Nat) : deflate s i (s.cpus i) = some (deleteBalloon s i) := by
  unfold deflate deleteBalloon
  have : (s.cpus i).all (fun x => (s.cpus i).contains x) = true := by
    rw [List.all_eq_true]; intro x hx; simpa using hx
  simp only [this, if_true, Option.some.injEq]
  congr 1
  funext j
  simp only [setCpus]
  by_cases hj : j = i
  · simp only [hj, if_true]
    rw [List.filter_eq_nil_iff]
    intro a ha; simpa using ha
  · simp [hj]

theorem inv_delete (s : BState) (i : Nat) (h : Inv s) : Inv (deleteBalloon s i) :=
  inv_deflate s _ i _ h (deleteBalloon_eq_deflate s i)

/-- a step of a history; the CPU sets are the allocator's (arbitrary) picks -/
inductive Op where
  | inflate (i : Nat) (add : List Nat)
  | deflate (i : Nat) (rem : List Nat)
  | delete (i : Nat)

def stepOp (s : BState) : Op → BState
  | .inflate i add => (inflate s i add).getD s     -- a pick outside the allocator's contract is refused
  | .deflate i rem => (deflate s i rem).getD s
  | .delete i => deleteBalloon s i

theorem inv_step (s : BState) (o : Op) (h : Inv s) : Inv (stepOp s o) := by
  cases o with
  | inflate i add =>
    simp only [stepOp]
    cases hs : inflate s i add with
    | none => simpa using h
    | some s' => simpa using inv_inflate s s' i add h hs
  | deflate i rem =>
    simp only [stepOp]
    cases hs : deflate s i rem with
    | none => simpa using h
    | some s' => simpa using inv_deflate s s' i rem h hs
  | delete i => exact inv_delete s i h

/-- **Partition, always.** After every history of resize/create/delete steps, with every possible
choice of CPUs, the balloons partition the allowed CPUs together with the free set. -/
theorem inv_run (allowed : List Nat) (ops : List Op) : Inv (ops.foldl stepOp (initB allowed)) := by
  have : ∀ s, Inv s → Inv (ops.foldl stepOp s) := by
    induction ops with
    | nil => intro s h; exact h
    | cons o os ih => intro s h; exact ih _ (inv_step s o h)
  exact this _ (inv_init allowed)

/-- shared idle CPUs are idle, never isolated, and belong to no balloon -/
theorem shared_spec_sound (s : BState) (h : Inv s) (isolated scope : List Nat) (c : Nat)
    (hc : c ∈ sharedSpec s isolated scope) : c ∈ s.free ∧ c ∉ isolated ∧ ∀ i, c ∉ s.cpus i := by
  simp only [sharedSpec, List.mem_filter, Bool.and_eq_true, Bool.not_eq_true'] at hc
  refine ⟨hc.1, by simpa using hc.2.2, fun i hi => h.owned_not_free i c hi hc.1⟩

/-- … and contain every idle non-isolated CPU of the scope -/
theorem shared_spec_complete (s : BState) (isolated scope : List Nat) (c : Nat)
    (hf : c ∈ s.free) (hs : c ∈ scope) (hi : c ∉ isolated) : c ∈ sharedSpec s isolated scope := by
  simp only [sharedSpec, List.mem_filter, Bool.and_eq_true, Bool.not_eq_true']
  exact ⟨hf, by simpa using hs, by simpa using hi⟩

/-- **Confinement.** What a container of balloon `i` may run on lies inside the allowed CPUs and
contains no CPU of any other balloon. -/
theorem pinned_confined (s : BState) (h : Inv s) (i : Nat) (isolated scope : List Nat) (c : Nat)
    (hc : c ∈ pinned s i isolated scope) : c ∈ s.allowed ∧ ∀ j, j ≠ i → c ∉ s.cpus j := by
  simp only [pinned, List.mem_append] at hc
  rcases hc with hc | hc
  · exact ⟨h.owned_allowed i c hc, fun j hj hcj => h.disjoint i j c (fun e => hj e.symm) hc hcj⟩
  · obtain ⟨hf, _, hn⟩ := shared_spec_sound s h isolated scope c hc
    exact ⟨h.free_allowed c hf, fun j _ => hn j⟩

-- non-vacuity: a concrete history ends in a non-trivial state satisfying the invariant
example : (([Op.inflate 0 [1, 2], Op.inflate 1 [3], Op.deflate 0 [2]]).foldl stepOp (initB [0, 1, 2, 3])).free = [0, 2] := by decide

end Nri.Balloons
