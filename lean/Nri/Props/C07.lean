import Nri.Model.LibMem
import Nri.Proofs.LibMem
import Nri.Proofs.LibMemInv
import Nri.Proofs.LibMemTrack
import Nri.Proofs.LibMemUpd
import Nri.Props.C06
import Nri.Gen.LibmemFacts
/-!
C07 — placement rules.  What is proved here (for every node set, request list and history
prefix the statements quantify over):

* `move_to_superset_usage_le` — the key monotonicity fact behind "fit": moving a request to a
  superset of its nodes never increases the usage of any node set;
* `handleOvercommit_ok_fits` — when overcommit handling reports success, every zone of the
  allocator's zone table that intersects the handled nodes holds no more than its capacity;
* `every_set_fits_refuted` — the property's capacity clause read literally ("every node set
  with allocations confined to it") is false of the model (and of the code): a 3-node witness
  (recorded as a known finding, class `C07:union-overcommit`);
* `reservations_not_eligible` — the priority filter of overcommit resolution can never select a
  memory reservation (obligation over the regenerated priority list).

Not proved (sampled through the correspondence run, labelled partial in DESIGN.md): the lift
of `handleOvercommit_ok_fits` to *all* assigned zones over whole histories, strict-type
confinement, and exactness of the reported updates.
-/
namespace Nri.LibMem

theorem msub_trans {a b c : Mask} (h1 : msub a b = true) (h2 : msub b c = true) : msub a c = true := by
  unfold msub at *
  simp only [beq_iff_eq] at *
  calc a &&& c = (a &&& b) &&& c := by rw [h1]
    _ = a &&& (b &&& c) := Nat.and_assoc _ _ _
    _ = a &&& b := by rw [h2]
    _ = a := h1

/-- usage as a sum over the list (the model's `foldl` with a shifted accumulator). -/
theorem usage_foldl_shift (reqs : List Req) (S : Mask) (a : Int) :
    reqs.foldl (fun u r => if r.zone ≠ 0 ∧ msub r.zone S then u + r.size else u) a
      = a + reqs.foldl (fun u r => if r.zone ≠ 0 ∧ msub r.zone S then u + r.size else u) 0 := by
  induction reqs generalizing a with
  | nil => simp
  | cons r rs ih =>
    simp only [List.foldl_cons]
    rw [ih, ih (if r.zone ≠ 0 ∧ msub r.zone S = true then 0 + r.size else 0)]
    split <;> omega

theorem usage_move_le_list (id : String) (z' S : Mask) :
    ∀ (reqs : List Req), (∀ r ∈ reqs, 0 ≤ r.size) →
      (∀ r ∈ reqs, r.id = id → r.zone ≠ 0 ∧ msub r.zone z' = true) →
      (reqs.map (fun r => if r.id == id then { r with zone := z' } else r)).foldl
          (fun u r => if r.zone ≠ 0 ∧ msub r.zone S then u + r.size else u) 0
        ≤ reqs.foldl (fun u r => if r.zone ≠ 0 ∧ msub r.zone S then u + r.size else u) 0 := by
  intro reqs
  induction reqs with
  | nil => intro _ _; simp
  | cons r rs ih =>
    intro hsize hsup
    simp only [List.map_cons, List.foldl_cons]
    have ih' := ih (fun x hx => hsize x (List.mem_cons_of_mem _ hx)) (fun x hx => hsup x (List.mem_cons_of_mem _ hx))
    rw [usage_foldl_shift, usage_foldl_shift rs]
    have hr := hsize r List.mem_cons_self
    by_cases e : r.id = id
    · obtain ⟨hnz, hsub⟩ := hsup r List.mem_cons_self e
      have hb : (r.id == id) = true := by simp [e]
      simp only [hb, if_true]
      by_cases c1 : z' ≠ 0 ∧ msub z' S = true
      · have c2 : r.zone ≠ 0 ∧ msub r.zone S = true := ⟨hnz, msub_trans hsub c1.2⟩
        rw [if_pos c1, if_pos c2]; omega
      · rw [if_neg c1]
        split <;> omega
    · have hb : (r.id == id) = false := by simp [e]
      simp only [hb, Bool.false_eq_true, if_false]
      split <;> omega

/-- Moving a request to a superset of its current (non-empty) nodes never increases the usage
of any node set, provided sizes are non-negative. -/
theorem move_to_superset_usage_le (s : St) (id : String) (z' : Mask)
    (hsize : ∀ r ∈ s.reqs, 0 ≤ r.size)
    (hsup : ∀ r ∈ s.reqs, r.id = id → r.zone ≠ 0 ∧ msub r.zone z' = true) (S : Mask) :
    (s.setZone id z').zoneUsage S ≤ s.zoneUsage S := by
  unfold St.zoneUsage St.setZone
  exact usage_move_le_list id z' S s.reqs hsize hsup

/-- … hence free memory of every node set can only grow when an existing allocation is moved
to a superset zone. -/
theorem move_to_superset_free_ge (s : St) (id : String) (z' : Mask)
    (hsize : ∀ r ∈ s.reqs, 0 ≤ r.size)
    (hsup : ∀ r ∈ s.reqs, r.id = id → r.zone ≠ 0 ∧ msub r.zone z' = true) (S : Mask) :
    s.zoneFree S ≤ (s.setZone id z').zoneFree S := by
  have := move_to_superset_usage_le s id z' hsize hsup S
  unfold St.zoneFree
  have hc : (s.setZone id z').zoneCapacity S = s.zoneCapacity S := rfl
  rw [hc]; omega

/-! ### success of overcommit handling means the handled zones fit -/

theorem sortBy_nil_iff {α} (lt : α → α → Bool) (l : List α) : sortBy lt l = [] ↔ l = [] := by
  constructor
  · intro h
    cases l with
    | nil => rfl
    | cons x xs =>
      exfalso
      have hlen : ∀ (l : List α) (acc : List α), (l.foldl (fun acc x => insertBy lt x acc) acc).length = acc.length + l.length := by
        intro l
        induction l with
        | nil => intro acc; simp
        | cons y ys ih =>
          intro acc
          simp only [List.foldl_cons, List.length_cons]
          rw [ih]
          have : (insertBy lt y acc).length = acc.length + 1 := by
            induction acc with
            | nil => simp [insertBy]
            | cons a as iha => simp only [insertBy]; split <;> simp [iha]
          omega
      have := hlen (x :: xs) []
      unfold sortBy at h
      rw [h] at this
      simp at this
  · intro h; subst h; rfl

/-- `checkOvercommit nodes = []` means: no zone of the zone table that intersects `nodes`
(or any zone, if `nodes = 0`) is over its capacity. -/
theorem checkOvercommit_nil (s : St) (nodes : Mask) (h : s.checkOvercommit nodes = []) :
    ∀ z ∈ s.entries, (nodes = 0 ∨ z &&& nodes ≠ 0) → 0 ≤ s.zoneFree z := by
  intro z hz hn
  unfold St.checkOvercommit at h
  simp only [List.map_eq_nil_iff] at h
  rw [sortBy_nil_iff, sortBy_nil_iff] at h
  have := List.filter_eq_nil_iff.1 h z hz
  simp only [Bool.and_eq_true, Bool.or_eq_true, beq_iff_eq, bne_iff_ne, ne_eq, decide_eq_true_eq, not_and, Int.not_lt] at this
  apply this
  rcases hn with hn | hn
  · exact Or.inl hn
  · exact Or.inr hn

theorem checkOvercommit_ambig (s : St) (nodes : Mask) (x : Bool) :
    ({ s with ambig := x } : St).checkOvercommit nodes = s.checkOvercommit nodes := rfl

theorem ocStep_done (nodes : Mask) (acc : St × List (Mask × Int) × Int × Bool × Nat) (c : Int × Nat)
    (h : acc.2.2.2.1 = true → acc.1.checkOvercommit nodes = []) :
    (St.ocStep nodes acc c).2.2.2.1 = true → (St.ocStep nodes acc c).1.checkOvercommit nodes = [] := by
  unfold St.ocStep
  split
  · exact h
  · rename_i hnd
    simp only []
    split
    · intro hd; exact absurd hd hnd
    · intro hd
      rw [checkOvercommit_ambig]
      simpa using hd

theorem ocPass_done (s : St) (nodes : Mask) (oc : List (Mask × Int)) :
    (s.ocPass nodes oc).2.2.2 = true → (s.ocPass nodes oc).1.checkOvercommit nodes = [] := by
  unfold St.ocPass
  simp only []
  have key : ∀ (cells : List (Int × Nat)) (acc : St × List (Mask × Int) × Int × Bool × Nat),
      (acc.2.2.2.1 = true → acc.1.checkOvercommit nodes = []) →
      ((cells.foldl (St.ocStep nodes) acc).2.2.2.1 = true →
        (cells.foldl (St.ocStep nodes) acc).1.checkOvercommit nodes = []) := by
    intro cells
    induction cells with
    | nil => intro acc h; exact h
    | cons c cs ih =>
      intro acc h
      simp only [List.foldl_cons]
      exact ih _ (ocStep_done nodes acc c h)
  exact key _ (s, oc, 0, false, 0) (by intro h; cases h)

theorem resolveOvercommit_ok (nodes : Mask) :
    ∀ (fuel : Nat) (s : St) (oc : List (Mask × Int)),
      (s.resolveOvercommit nodes fuel oc).2 = none → (s.resolveOvercommit nodes fuel oc).1.checkOvercommit nodes = [] := by
  intro fuel
  induction fuel with
  | zero => intro s oc h; simp [St.resolveOvercommit] at h
  | succ n ih =>
    intro s oc h
    unfold St.resolveOvercommit at h ⊢
    simp only [] at h ⊢
    split
    · rename_i hd
      exact ocPass_done s nodes oc hd
    · rename_i hd
      simp only [hd] at h
      split
      · rename_i hm; simp [hm] at h
      · rename_i hm
        simp only [hm] at h
        exact ih _ _ h

/-- **Fit of the handled zones.** When overcommit handling for `nodes` succeeds, every zone in
the allocator's zone table that intersects `nodes` holds no more than its capacity. -/
theorem handleOvercommit_ok_fits (s : St) (nodes : Mask) (h : (s.handleOvercommit nodes).2 = none) :
    ∀ z ∈ (s.handleOvercommit nodes).1.entries, (nodes = 0 ∨ z &&& nodes ≠ 0) →
      0 ≤ (s.handleOvercommit nodes).1.zoneFree z := by
  apply checkOvercommit_nil
  unfold St.handleOvercommit at h ⊢
  simp only [] at h ⊢
  split
  · rename_i he
    rw [checkOvercommit_ambig]
    simpa using he
  · rename_i he
    simp only [he] at h
    exact resolveOvercommit_ok nodes _ _ _ h

/-! ### the literal capacity clause is false (known finding) -/

def witnessNodes : List Node :=
  [{ id := 0, typ := 0, cap := 100, normal := true, dist := [10, 21, 21] },
   { id := 1, typ := 0, cap := 100, normal := true, dist := [21, 10, 21] },
   { id := 2, typ := 0, cap := 100, normal := true, dist := [21, 21, 10] }]
def witnessA : Req := { id := "A", size := 200, aff := 3, types := 0, strict := false, prio := 1024, created := 1 }
def witnessB : Req := { id := "B", size := 200, aff := 6, types := 0, strict := false, prio := 1024, created := 2 }
def witnessFinal : St := (({ nodes := witnessNodes } : St).Allocate witnessA).1.Allocate witnessB |>.1

/-- Both allocations are admitted, each confined to a 2-node set at that set's full capacity;
the 3-node set they are confined to together is oversubscribed by 100. -/
theorem every_set_fits_refuted :
    (({ nodes := witnessNodes } : St).Allocate witnessA).2 = .ok ⟨3, []⟩ ∧
    ((({ nodes := witnessNodes } : St).Allocate witnessA).1.Allocate witnessB).2 = .ok ⟨6, []⟩ ∧
    witnessFinal.zoneFree 7 = -100 ∧
    (∀ r ∈ witnessFinal.reqs, msub r.zone 7 = true) := by
  refine ⟨by rfl, by rfl, by rfl, by decide⟩

/-- every priority the overcommit handler may move is strictly below `Reservation` (32767). -/
theorem reservations_not_eligible : ∀ p ∈ Nri.Gen.LibMem.allowedPrios, p < 32767 := by decide


/-! ### histories: monotone moves, immovable reservations, normal memory, re-allocation keeps nodes

The per-operation facts above are lifted to arbitrary histories of `Allocate`, `GetOffer`,
`Realloc` and `Release` (every interleaving, successful or failing).  `Commit` is covered
through `commit_fresh_eq_allocate`-style correspondence only (an offer object is caller-held
data; the model's `Commit` replays whatever it is given), see the level note. -/

inductive Op where
  | allocate (r : Req)
  | getOffer (r : Req)
  | realloc (id : String) (nodes : Mask) (types : Nat)
  | release (id : String)

def St.step (s : St) : Op → St
  | .allocate r => (s.Allocate r).1
  | .getOffer r => (s.GetOffer r).1
  | .realloc id nodes types => (s.Realloc id nodes types).1
  | .release id => (s.Release id).1

def St.run (s : St) (ops : List Op) : St := ops.foldl St.step s

/-- the history invariant: no transaction open, unique ids, every request placed on a zone
that contains a node with normal (non-movable) memory. -/
structure HInv (s : St) : Prop where
  wf : WF s
  placed : Placed s

theorem hinv_init (nodes : List Node) : HInv { nodes := nodes } :=
  ⟨⟨rfl, by simp⟩, by intro q hq; cases hq⟩

theorem placed_of_reqs_eq (s s' : St) (hp : Placed s) (hr : s'.reqs = s.reqs) (hn : s'.nodes = s.nodes) : Placed s' := by
  intro q hq
  rw [hr] at hq
  rw [normalMask_of_nodes _ _ hn]
  exact hp q hq

/-- one operation, whatever its outcome: the invariant is kept, every request that is still
there has all the nodes it had (**existing allocations are only ever moved to supersets**;
for the re-allocated request: **re-allocation never removes nodes**), and a request of
Reservation priority other than the one being re-allocated keeps exactly its zone
(**reservations are never moved**). -/
theorem step_placement (s : St) (h : HInv s) (op : Op) :
    HInv (s.step op) ∧
    (∀ q ∈ (s.step op).reqs, msub (zoneIn s q.id) q.zone = true) ∧
    (∀ q ∈ (s.step op).reqs, 32766 < q.prio → (∀ id n t, op = .realloc id n t → q.id ≠ id) →
        (s.req? q.id).isSome → q.zone = zoneIn s q.id) := by
  have hnd : IdsNodup s := h.wf.ids
  have same : ∀ s' : St, s'.reqs = s.reqs →
      (∀ q ∈ s'.reqs, msub (zoneIn s q.id) q.zone = true) ∧
      (∀ q ∈ s'.reqs, 32766 < q.prio → (∀ id n t, op = .realloc id n t → q.id ≠ id) →
        (s.req? q.id).isSome → q.zone = zoneIn s q.id) := by
    intro s' hr
    refine ⟨?_, ?_⟩
    · intro q hq; rw [hr] at hq; rw [zoneIn_of_mem s hnd q hq]; exact msub_refl _
    · intro q hq _ _ _; rw [hr] at hq; exact (zoneIn_of_mem s hnd q hq).symm
  cases op with
  | allocate r =>
    show HInv (s.Allocate r).1 ∧ _
    cases hres : (s.Allocate r).2 with
    | error e =>
      obtain ⟨h1, _, _⟩ := allocate_fail_unchanged s h.wf r e hres
      exact ⟨⟨allocate_wf s h.wf r, placed_of_reqs_eq s _ h.placed h1 (Allocate_nodes s h.wf r)⟩, same _ h1⟩
    | ok res =>
      obtain ⟨a, b, c⟩ := Allocate_placement s h.wf h.placed r res hres
      refine ⟨⟨allocate_wf s h.wf r, c⟩, a, ?_⟩
      intro q hq hp _ hsome
      apply b q hq hp
      -- the new request was unknown before
      intro e
      obtain ⟨r', ha, _, _⟩ := Allocate_ok_shape s r res hres
      obtain ⟨hnone, _, hid, _⟩ := allocate_ok_eq s r r' ha
      rw [e, ← hid, hnone] at hsome
      cases hsome
  | getOffer r =>
    show HInv (s.GetOffer r).1 ∧ _
    obtain ⟨h1, _, h3⟩ := getOffer_pure s h.wf r
    exact ⟨⟨⟨h3, by rw [h1]; exact h.wf.ids⟩, placed_of_reqs_eq s _ h.placed h1 (GetOffer_nodes s h.wf r)⟩, same _ h1⟩
  | realloc id nodes types =>
    show HInv (s.Realloc id nodes types).1 ∧ _
    cases hres : (s.Realloc id nodes types).2 with
    | error e =>
      obtain ⟨h1, _, _⟩ := realloc_spec s h.wf id nodes types e hres
      exact ⟨⟨realloc_wf s h.wf id nodes types, placed_of_reqs_eq s _ h.placed h1 (Realloc_nodes s h.wf id nodes types)⟩, same _ h1⟩
    | ok res =>
      obtain ⟨a, b, c⟩ := Realloc_placement s h.wf h.placed id nodes types res hres
      refine ⟨⟨realloc_wf s h.wf id nodes types, c⟩, a, ?_⟩
      intro q hq hp hne _
      exact b q hq hp (hne id nodes types rfl)
  | release id =>
    show HInv (s.Release id).1 ∧ _
    cases hres : (s.Release id).2 with
    | error e =>
      have hsame : (s.Release id).1 = s := by
        unfold St.Release at hres ⊢
        cases hr : s.req? id with
        | none => rfl
        | some r =>
          simp only [hr] at hres ⊢
          split
          · rfl
          · rename_i hz; simp [hz] at hres
      exact ⟨by rw [hsame]; exact h, same _ (by show (s.Release id).1.reqs = s.reqs; rw [hsame])⟩
    | ok u =>
      obtain ⟨h1, _⟩ := release_ok s id hres
      have hsub : ∀ q ∈ (s.Release id).1.reqs, q ∈ s.reqs := by
        intro q hq; rw [h1] at hq; exact (List.mem_filter.1 hq).1
      refine ⟨⟨release_wf s h.wf id, ?_⟩, ?_, ?_⟩
      · intro q hq
        rw [normalMask_of_nodes _ _ (Release_nodes s id)]
        exact h.placed q (hsub q hq)
      · intro q hq; rw [zoneIn_of_mem s hnd q (hsub q hq)]; exact msub_refl _
      · intro q hq _ _ _; exact (zoneIn_of_mem s hnd q (hsub q hq)).symm

/-- **every history**: the invariant holds after any sequence of operations from the empty
allocator - in particular every assigned zone always contains a node with normal memory. -/
theorem run_placement (nodes : List Node) (ops : List Op) : HInv (St.run { nodes := nodes } ops) := by
  unfold St.run
  exact foldl_inv HInv St.step (fun a x h => (step_placement a h x).1) ops _ (hinv_init nodes)

-- non-vacuity: a 2-node allocator, a reservation and a burstable request; the second allocation
-- moves the burstable one to the wider zone, the reservation stays
example : (St.run { nodes := exampleSt.nodes }
    [.allocate { id := "res", size := 60, aff := 1, types := 0, strict := false, prio := 32767, created := 1 },
     .allocate { id := "b", size := 30, aff := 1, types := 0, strict := false, prio := 1024, created := 2 },
     .allocate { id := "g", size := 30, aff := 1, types := 0, strict := false, prio := 16384, created := 3 }]).reqs.map (fun q => (q.id, q.zone))
    = [("res", 1), ("b", 3), ("g", 1)] := by rfl

/-- **re-allocation never removes nodes**: after a successful `Realloc` the re-allocated request
holds every node it held before. -/
theorem realloc_never_shrinks (s : St) (h : HInv s) (id : String) (nodes : Mask) (types : Nat) (res : Result)
    (hok : (s.Realloc id nodes types).2 = .ok res) :
    ∀ q ∈ (s.Realloc id nodes types).1.reqs, q.id = id → msub (zoneIn s id) q.zone = true := by
  intro q hq e
  have := (Realloc_placement s h.wf h.placed id nodes types res hok).1 q hq
  rw [e] at this; exact this

/-- **exact updates**: the update map a successful `Allocate` returns maps `id` to `z` exactly when
`id` is another request whose zone is now `z` and was something else before. -/
theorem allocate_updates_exact (s : St) (h : HInv s) (r : Req) (res : Result)
    (hok : (s.Allocate r).2 = .ok res) (id : String) (z : Mask) :
    alGet res.updates id = some z ↔
      (id ≠ r.id ∧ ∃ q ∈ (s.Allocate r).1.reqs, q.id = id ∧ q.zone = z ∧ z ≠ zoneIn s id) :=
  Allocate_updates_exact s h.wf h.placed r res hok id z

end Nri.LibMem
