import Nri.Model.LibMem
import Nri.Model.LibMemHist
import Nri.Proofs.LibMem
import Nri.Proofs.LibMemChk
import Nri.Proofs.LibMemInv
import Nri.Proofs.LibMemTrack
import Nri.Proofs.LibMemUpd
import Nri.Proofs.LibMemFit
import Nri.Proofs.LibMemCommit
import Nri.Proofs.LibMemStrict
import Nri.Proofs.LibMemStrictG
import Nri.Props.C06
import Nri.Gen.LibmemFacts
/-!
C07 — placement rules.  What is proved here (for every node set, request list and history
prefix the statements quantify over):

* `move_to_superset_usage_le` — the key monotonicity fact behind "fit": moving a request to a
  superset of its nodes never increases the usage of any node set;
* `handleOvercommit_ok_fits` — when overcommit handling reports success, every zone of the
  allocator's zone table that intersects the handled nodes holds no more than its capacity;
* `every_set_fits_refuted` — the property's capacity clause read literally ("every node set
  with allocations confined to it") is false of the model (and of the code): a 3-node witness
  (recorded as a known finding, class `C07:union-overcommit`);
* `reservations_not_eligible` — the priority filter of overcommit resolution can never select a
  memory reservation (obligation over the regenerated priority list).

Not proved (sampled through the correspondence run, labelled partial in DESIGN.md): the lift
of `handleOvercommit_ok_fits` to *all* assigned zones over whole histories, strict-type
confinement, and exactness of the reported updates.
-/
namespace Nri.LibMem

theorem msub_trans {a b c : Mask} (h1 : msub a b = true) (h2 : msub b c = true) : msub a c = true := by
  unfold msub at *
  simp only [beq_iff_eq] at *
  calc a &&& c = (a &&& b) &&& c := by rw [h1]
    _ = a &&& (b &&& c) := Nat.and_assoc _ _ _
    _ = a &&& b := by rw [h2]
    _ = a := h1

/-- usage as a sum over the list (the model's `foldl` with a shifted accumulator). -/
theorem usage_foldl_shift (reqs : List Req) (S : Mask) (a : Int) :
    reqs.foldl (fun u r => if r.zone ≠ 0 ∧ msub r.zone S then u + r.size else u) a
      = a + reqs.foldl (fun u r => if r.zone ≠ 0 ∧ msub r.zone S then u + r.size else u) 0 := by
  induction reqs generalizing a with
  | nil => simp
  | cons r rs ih =>
    simp only [List.foldl_cons]
    rw [ih, ih (if r.zone ≠ 0 ∧ msub r.zone S = true then 0 + r.size else 0)]
    split <;> omega

theorem usage_move_le_list (id : String) (z' S : Mask) :
    ∀ (reqs : List Req), (∀ r ∈ reqs, 0 ≤ r.size) →
      (∀ r ∈ reqs, r.id = id → r.zone ≠ 0 ∧ msub r.zone z' = true) →
      (reqs.map (fun r => if r.id == id then { r with zone := z' } else r)).foldl
          (fun u r => if r.zone ≠ 0 ∧ msub r.zone S then u + r.size else u) 0
        ≤ reqs.foldl (fun u r => if r.zone ≠ 0 ∧ msub r.zone S then u + r.size else u) 0 := by
  intro reqs
  induction reqs with
  | nil => intro _ _; simp
  | cons r rs ih =>
    intro hsize hsup
    simp only [List.map_cons, List.foldl_cons]
    have ih' := ih (fun x hx => hsize x (List.mem_cons_of_mem _ hx)) (fun x hx => hsup x (List.mem_cons_of_mem _ hx))
    rw [usage_foldl_shift, usage_foldl_shift rs]
    have hr := hsize r List.mem_cons_self
    by_cases e : r.id = id
    · obtain ⟨hnz, hsub⟩ := hsup r List.mem_cons_self e
      have hb : (r.id == id) = true := by simp [e]
      simp only [hb, if_true]
      by_cases c1 : z' ≠ 0 ∧ msub z' S = true
      · have c2 : r.zone ≠ 0 ∧ msub r.zone S = true := ⟨hnz, msub_trans hsub c1.2⟩
        rw [if_pos c1, if_pos c2]; omega
      · rw [if_neg c1]
        split <;> omega
    · have hb : (r.id == id) = false := by simp [e]
      simp only [hb, Bool.false_eq_true, if_false]
      split <;> omega

/-- Moving a request to a superset of its current (non-empty) nodes never increases the usage
of any node set, provided sizes are non-negative. -/
theorem move_to_superset_usage_le (s : St) (id : String) (z' : Mask)
    (hsize : ∀ r ∈ s.reqs, 0 ≤ r.size)
    (hsup : ∀ r ∈ s.reqs, r.id = id → r.zone ≠ 0 ∧ msub r.zone z' = true) (S : Mask) :
    (s.setZone id z').zoneUsage S ≤ s.zoneUsage S := by
  unfold St.zoneUsage St.setZone
  exact usage_move_le_list id z' S s.reqs hsize hsup

/-- … hence free memory of every node set can only grow when an existing allocation is moved
to a superset zone. -/
theorem move_to_superset_free_ge (s : St) (id : String) (z' : Mask)
    (hsize : ∀ r ∈ s.reqs, 0 ≤ r.size)
    (hsup : ∀ r ∈ s.reqs, r.id = id → r.zone ≠ 0 ∧ msub r.zone z' = true) (S : Mask) :
    s.zoneFree S ≤ (s.setZone id z').zoneFree S := by
  have := move_to_superset_usage_le s id z' hsize hsup S
  unfold St.zoneFree
  have hc : (s.setZone id z').zoneCapacity S = s.zoneCapacity S := rfl
  rw [hc]; omega

/-! ### success of overcommit handling means the handled zones fit -/

/-- **Fit of the handled zones.** When overcommit handling for `nodes` succeeds, every zone in
the allocator's zone table that intersects `nodes` holds no more than its capacity (proof:
`Proofs/LibMemChk.lean`, through every loop of the resolution). -/
theorem handled_zones_fit (s : St) (nodes : Mask) (h : (s.handleOvercommit nodes).2 = none) :
    ∀ z ∈ (s.handleOvercommit nodes).1.entries, (nodes = 0 ∨ z &&& nodes ≠ 0) →
      0 ≤ (s.handleOvercommit nodes).1.zoneFree z :=
  handleOvercommit_ok_fits s nodes h

/-! ### the literal capacity clause is false (known finding) -/

def witnessNodes : List Node :=
  [{ id := 0, typ := 0, cap := 100, normal := true, dist := [10, 21, 21] },
   { id := 1, typ := 0, cap := 100, normal := true, dist := [21, 10, 21] },
   { id := 2, typ := 0, cap := 100, normal := true, dist := [21, 21, 10] }]
def witnessA : Req := { id := "A", size := 200, aff := 3, types := 0, strict := false, prio := 1024, created := 1 }
def witnessB : Req := { id := "B", size := 200, aff := 6, types := 0, strict := false, prio := 1024, created := 2 }
def witnessFinal : St := (({ nodes := witnessNodes } : St).Allocate witnessA).1.Allocate witnessB |>.1

/-- Both allocations are admitted, each confined to a 2-node set at that set's full capacity;
the 3-node set they are confined to together is oversubscribed by 100. -/
theorem every_set_fits_refuted :
    (({ nodes := witnessNodes } : St).Allocate witnessA).2 = .ok ⟨3, []⟩ ∧
    ((({ nodes := witnessNodes } : St).Allocate witnessA).1.Allocate witnessB).2 = .ok ⟨6, []⟩ ∧
    witnessFinal.zoneFree 7 = -100 ∧
    (∀ r ∈ witnessFinal.reqs, msub r.zone 7 = true) := by
  refine ⟨by rfl, by rfl, by rfl, by decide⟩

/-- every priority the overcommit handler may move is strictly below `Reservation` (32767). -/
theorem reservations_not_eligible : ∀ p ∈ Nri.Gen.LibMem.allowedPrios, p < 32767 := by decide


/-! ### histories: monotone moves, immovable reservations, normal memory, re-allocation keeps nodes

The per-operation facts above are lifted to arbitrary histories of `Allocate`, `GetOffer`,
`Realloc` and `Release` (every interleaving, successful or failing).  `Commit` is covered
through `commit_fresh_eq_allocate`-style correspondence only (an offer object is caller-held
data; the model's `Commit` replays whatever it is given), see the level note. -/

/-- the history invariant: no transaction open, unique ids, every request placed on a zone
that contains a node with normal (non-movable) memory. -/
structure HInv (s : St) : Prop where
  wf : WF s
  placed : Placed s

theorem hinv_init (nodes : List Node) : HInv { nodes := nodes } :=
  ⟨⟨rfl, by simp⟩, by intro q hq; cases hq⟩

theorem placed_of_reqs_eq (s s' : St) (hp : Placed s) (hr : s'.reqs = s.reqs) (hn : s'.nodes = s.nodes) : Placed s' := by
  intro q hq
  rw [hr] at hq
  rw [normalMask_of_nodes _ _ hn]
  exact hp q hq

/-- one operation, whatever its outcome: the invariant is kept, every request that is still
there has all the nodes it had (**existing allocations are only ever moved to supersets**;
for the re-allocated request: **re-allocation never removes nodes**), and a request of
Reservation priority other than the one being re-allocated keeps exactly its zone
(**reservations are never moved**). -/
theorem step_placement (s : St) (h : HInv s) (op : Op) :
    HInv (s.step op) ∧
    (∀ q ∈ (s.step op).reqs, msub (zoneIn s q.id) q.zone = true) ∧
    (∀ q ∈ (s.step op).reqs, 32766 < q.prio → (∀ id n t, op = .realloc id n t → q.id ≠ id) →
        (s.req? q.id).isSome → q.zone = zoneIn s q.id) := by
  have hnd : IdsNodup s := h.wf.ids
  have same : ∀ s' : St, s'.reqs = s.reqs →
      (∀ q ∈ s'.reqs, msub (zoneIn s q.id) q.zone = true) ∧
      (∀ q ∈ s'.reqs, 32766 < q.prio → (∀ id n t, op = .realloc id n t → q.id ≠ id) →
        (s.req? q.id).isSome → q.zone = zoneIn s q.id) := by
    intro s' hr
    refine ⟨?_, ?_⟩
    · intro q hq; rw [hr] at hq; rw [zoneIn_of_mem s hnd q hq]; exact msub_refl _
    · intro q hq _ _ _; rw [hr] at hq; exact (zoneIn_of_mem s hnd q hq).symm
  cases op with
  | allocate r =>
    show HInv (s.Allocate r).1 ∧ _
    cases hres : (s.Allocate r).2 with
    | error e =>
      obtain ⟨h1, _, _⟩ := allocate_fail_unchanged s h.wf r e hres
      exact ⟨⟨allocate_wf s h.wf r, placed_of_reqs_eq s _ h.placed h1 (Allocate_nodes s h.wf r)⟩, same _ h1⟩
    | ok res =>
      obtain ⟨a, b, c⟩ := Allocate_placement s h.wf h.placed r res hres
      refine ⟨⟨allocate_wf s h.wf r, c⟩, a, ?_⟩
      intro q hq hp _ hsome
      apply b q hq hp
      -- the new request was unknown before
      intro e
      obtain ⟨r', ha, _, _⟩ := Allocate_ok_shape s r res hres
      obtain ⟨hnone, _, hid, _⟩ := allocate_ok_eq s r r' ha
      rw [e, ← hid, hnone] at hsome
      cases hsome
  | getOffer r =>
    show HInv (s.GetOffer r).1 ∧ _
    obtain ⟨h1, _, h3⟩ := getOffer_pure s h.wf r
    exact ⟨⟨⟨h3, by rw [h1]; exact h.wf.ids⟩, placed_of_reqs_eq s _ h.placed h1 (GetOffer_nodes s h.wf r)⟩, same _ h1⟩
  | realloc id nodes types =>
    show HInv (s.Realloc id nodes types).1 ∧ _
    cases hres : (s.Realloc id nodes types).2 with
    | error e =>
      obtain ⟨h1, _, _⟩ := realloc_spec s h.wf id nodes types e hres
      exact ⟨⟨realloc_wf s h.wf id nodes types, placed_of_reqs_eq s _ h.placed h1 (Realloc_nodes s h.wf id nodes types)⟩, same _ h1⟩
    | ok res =>
      obtain ⟨a, b, c⟩ := Realloc_placement s h.wf h.placed id nodes types res hres
      refine ⟨⟨realloc_wf s h.wf id nodes types, c⟩, a, ?_⟩
      intro q hq hp hne _
      exact b q hq hp (hne id nodes types rfl)
  | release id =>
    show HInv (s.Release id).1 ∧ _
    cases hres : (s.Release id).2 with
    | error e =>
      have hsame : (s.Release id).1 = s := by
        unfold St.Release at hres ⊢
        cases hr : s.req? id with
        | none => rfl
        | some r =>
          simp only [hr] at hres ⊢
          split
          · rfl
          · rename_i hz; simp [hz] at hres
      exact ⟨by rw [hsame]; exact h, same _ (by show (s.Release id).1.reqs = s.reqs; rw [hsame])⟩
    | ok u =>
      obtain ⟨h1, _⟩ := release_ok s id hres
      have hsub : ∀ q ∈ (s.Release id).1.reqs, q ∈ s.reqs := by
        intro q hq; rw [h1] at hq; exact (List.mem_filter.1 hq).1
      refine ⟨⟨release_wf s h.wf id, ?_⟩, ?_, ?_⟩
      · intro q hq
        rw [normalMask_of_nodes _ _ (Release_nodes s id)]
        exact h.placed q (hsub q hq)
      · intro q hq; rw [zoneIn_of_mem s hnd q (hsub q hq)]; exact msub_refl _
      · intro q hq _ _ _; exact (zoneIn_of_mem s hnd q (hsub q hq)).symm

/-- **every history**: the invariant holds after any sequence of operations from the empty
allocator - in particular every assigned zone always contains a node with normal memory. -/
theorem run_placement (nodes : List Node) (ops : List Op) : HInv (St.run { nodes := nodes } ops) := by
  unfold St.run
  exact foldl_inv HInv St.step (fun a x h => (step_placement a h x).1) ops _ (hinv_init nodes)

-- non-vacuity: a 2-node allocator, a reservation and a burstable request; the second allocation
-- moves the burstable one to the wider zone, the reservation stays
example : (St.run { nodes := exampleSt.nodes }
    [.allocate { id := "res", size := 60, aff := 1, types := 0, strict := false, prio := 32767, created := 1 },
     .allocate { id := "b", size := 30, aff := 1, types := 0, strict := false, prio := 1024, created := 2 },
     .allocate { id := "g", size := 30, aff := 1, types := 0, strict := false, prio := 16384, created := 3 }]).reqs.map (fun q => (q.id, q.zone))
    = [("res", 1), ("b", 3), ("g", 1)] := by rfl

/-- **re-allocation never removes nodes**: after a successful `Realloc` the re-allocated request
holds every node it held before. -/
theorem realloc_never_shrinks (s : St) (h : HInv s) (id : String) (nodes : Mask) (types : Nat) (res : Result)
    (hok : (s.Realloc id nodes types).2 = .ok res) :
    ∀ q ∈ (s.Realloc id nodes types).1.reqs, q.id = id → msub (zoneIn s id) q.zone = true := by
  intro q hq e
  have := (Realloc_placement s h.wf h.placed id nodes types res hok).1 q hq
  rw [e] at this; exact this

/-- **exact updates**: the update map a successful `Allocate` returns maps `id` to `z` exactly when
`id` is another request whose zone is now `z` and was something else before. -/
theorem allocate_updates_exact (s : St) (h : HInv s) (r : Req) (res : Result)
    (hok : (s.Allocate r).2 = .ok res) (id : String) (z : Mask) :
    alGet res.updates id = some z ↔
      (id ≠ r.id ∧ ∃ q ∈ (s.Allocate r).1.reqs, q.id = id ∧ q.zone = z ∧ z ≠ zoneIn s id) :=
  Allocate_updates_exact s h.wf h.placed r res hok id z

/-- **exact updates (Realloc)**: likewise for a successful `Realloc` (a no-op re-allocation reports
nothing). -/
theorem realloc_updates_exact (s : St) (h : HInv s) (id : String) (nodes : Mask) (types : Nat) (res : Result)
    (hok : (s.Realloc id nodes types).2 = .ok res) (id' : String) (z : Mask) :
    alGet res.updates id' = some z ↔
      (id' ≠ id ∧ ∃ q ∈ (s.Realloc id nodes types).1.reqs, q.id = id' ∧ q.zone = z ∧ z ≠ zoneIn s id') :=
  Realloc_updates_exact s h.wf h.placed id nodes types res hok id' z

/-! ### histories: every assigned zone fits, after every operation

The capacity clause for the zones that ARE assignments (the literal clause over all node sets is
the known finding `every_set_fits_refuted`): by induction over arbitrary histories, not only
for the zones handled in the last operation. -/

/-- the request sizes of an operation are non-negative (the Go API takes them as limits ≥ 0) -/
def Op.sizeOk : Op → Prop
  | .allocate r => 0 ≤ r.size
  | _ => True

structure HFit (s : St) : Prop where
  inv : HInv s
  sizes : Sizes s
  ent : Ent s          -- the zone table contains every assigned zone
  fit : FitInv s       -- every assigned zone holds no more than its capacity

theorem hfit_init (nodes : List Node) : HFit { nodes := nodes } :=
  ⟨hinv_init nodes, (by intro q hq; cases hq), (by intro q hq; cases hq), (by intro q hq; cases hq)⟩

theorem fit_of_reqs_eq (s s' : St) (h : FitInv s) (hr : s'.reqs = s.reqs) (hn : s'.nodes = s.nodes) : FitInv s' := by
  intro q hq hz
  rw [zoneFree_of_reqs s s' hr hn]
  rw [hr] at hq
  exact h q hq hz

theorem step_fits (s : St) (h : HFit s) (op : Op) (hop : op.sizeOk) : HFit (s.step op) := by
  have hinv' := (step_placement s h.inv op).1
  cases op with
  | allocate r =>
    show HFit (s.Allocate r).1
    cases hres : (s.Allocate r).2 with
    | error e =>
      obtain ⟨h1, _, _⟩ := allocate_fail_unchanged s h.inv.wf r e hres
      exact ⟨hinv', (by intro q hq; rw [h1] at hq; exact h.sizes q hq), Allocate_fail_ent s h.inv.wf h.ent r e hres,
        fit_of_reqs_eq s _ h.fit h1 (Allocate_nodes s h.inv.wf r)⟩
    | ok res =>
      obtain ⟨a, b, c⟩ := Allocate_fit s h.inv.wf h.inv.placed h.sizes h.ent h.fit r hop res hres
      exact ⟨hinv', a, b, c⟩
  | getOffer r =>
    show HFit (s.GetOffer r).1
    obtain ⟨h1, _, _⟩ := getOffer_pure s h.inv.wf r
    exact ⟨hinv', (by intro q hq; rw [h1] at hq; exact h.sizes q hq), GetOffer_ent s h.inv.wf h.ent r,
      fit_of_reqs_eq s _ h.fit h1 (GetOffer_nodes s h.inv.wf r)⟩
  | realloc id nodes types =>
    show HFit (s.Realloc id nodes types).1
    cases hres : (s.Realloc id nodes types).2 with
    | error e =>
      obtain ⟨h1, _, _⟩ := realloc_spec s h.inv.wf id nodes types e hres
      exact ⟨hinv', (by intro q hq; rw [h1] at hq; exact h.sizes q hq), Realloc_fail_ent s h.inv.wf h.ent id nodes types e hres,
        fit_of_reqs_eq s _ h.fit h1 (Realloc_nodes s h.inv.wf id nodes types)⟩
    | ok res =>
      obtain ⟨a, b, c⟩ := Realloc_fit s h.inv.wf h.inv.placed h.sizes h.ent h.fit id nodes types res hres
      exact ⟨hinv', a, b, c⟩
  | release id =>
    show HFit (s.Release id).1
    cases hres : (s.Release id).2 with
    | error e =>
      have hsame : (s.Release id).1 = s := by
        unfold St.Release at hres ⊢
        cases hr : s.req? id with
        | none => rfl
        | some r =>
          simp only [hr] at hres ⊢
          split
          · rfl
          · rename_i hz; simp [hz] at hres
      rw [hsame]; exact h
    | ok u =>
      obtain ⟨h1, _⟩ := release_ok s id hres
      obtain ⟨a, c⟩ := Release_inv s h.sizes h.ent h.fit id h1 (Release_nodes s id)
      exact ⟨hinv', a, Release_ent s h.ent id, c⟩

/-- **every history** of Allocate / GetOffer / Realloc / Release with non-negative sizes, on every
node set and distance matrix: after every operation every assigned zone holds no more than its
capacity (and the placement invariant of `run_placement` holds). -/
theorem run_fits (nodes : List Node) (ops : List Op) (hops : ∀ op ∈ ops, op.sizeOk) :
    HFit (St.run { nodes := nodes } ops) := by
  unfold St.run
  exact foldl_inv_mem HFit St.step ops _ (fun a x hx h => step_fits a h x (hops x hx)) (hfit_init nodes)

-- non-vacuity: the 3-allocation history above satisfies the hypotheses; zone {0} is full afterwards
example : (St.run { nodes := exampleSt.nodes }
    [.allocate { id := "res", size := 60, aff := 1, types := 0, strict := false, prio := 32767, created := 1 },
     .allocate { id := "b", size := 30, aff := 1, types := 0, strict := false, prio := 1024, created := 2 },
     .allocate { id := "g", size := 30, aff := 1, types := 0, strict := false, prio := 16384, created := 3 }]).zoneFree 1 = 10 := by rfl

theorem step_keeps_wf (s : St) (hw : WF s) (op : Op) : WF (s.step op) := by
  cases op with
  | allocate r => exact allocate_wf s hw r
  | getOffer r => exact (every_operation_keeps_wf s hw).2.1 r
  | realloc id nodes types => exact realloc_wf s hw id nodes types
  | release id => exact release_wf s hw id

/-! ### histories: strict type preference

"A request with strict type preference is assigned only nodes of the requested types": as an
invariant over histories, `StrictInv` = every strict request's zone has only types of the
request's `types` (the validated creation types, extended by the types re-allocations found).
It is established by `Allocate` (initial zone inside `byTypes`, normal-memory expansion within
the requested types), kept by overcommit resolution (a strict request is moved only when its
types are exactly the zone's types plus the types of the added nodes; `expand` returns nodes of
the types it reports), by offers, failures and releases, and by re-allocations of NON-strict
requests.  Re-allocating a strict request with new nodes names further types; the model's
`types` field records only those that expansion found, so the invariant in this form is not
claimed across such a step (the correspondence run judges it against the union of all named
types) - `realloc_strict_partial` below says exactly which steps are covered. -/

/-- the operation does not re-allocate a strict request -/
def Op.reallocTargetsNonStrict (s : St) : Op → Prop
  | .realloc id _ _ => ∀ q, s.req? id = some q → q.strict = false
  | _ => True

/-- a history in which no strict request is re-allocated -/
def StrictSafe : St → List Op → Prop
  | _, [] => True
  | s, op :: ops => op.reallocTargetsNonStrict s ∧ StrictSafe (s.step op) ops

theorem step_strict (s : St) (hw : WF s) (h : SU s) (op : Op) (hop : op.reallocTargetsNonStrict s) :
    SU (s.step op) := by
  cases op with
  | allocate r =>
    show SU (s.Allocate r).1
    cases hres : (s.Allocate r).2 with
    | error e =>
      obtain ⟨h1, _, _⟩ := allocate_fail_unchanged s hw r e hres
      exact su_of_reqs_eq s _ h h1 (Allocate_nodes s hw r)
    | ok res => exact Allocate_su s hw h r res hres
  | getOffer r =>
    show SU (s.GetOffer r).1
    exact su_of_reqs_eq s _ h (getOffer_pure s hw r).1 (GetOffer_nodes s hw r)
  | realloc id nodes types =>
    show SU (s.Realloc id nodes types).1
    cases hres : (s.Realloc id nodes types).2 with
    | error e =>
      obtain ⟨h1, _, _⟩ := realloc_spec s hw id nodes types e hres
      exact su_of_reqs_eq s _ h h1 (Realloc_nodes s hw id nodes types)
    | ok res => exact Realloc_su s hw h id nodes types res hres hop
  | release id =>
    show SU (s.Release id).1
    cases hres : (s.Release id).2 with
    | error e =>
      have hsame : (s.Release id).1 = s := by
        unfold St.Release at hres ⊢
        cases hr : s.req? id with
        | none => rfl
        | some r =>
          simp only [hr] at hres ⊢
          split
          · rfl
          · rename_i hz; simp [hz] at hres
      rw [hsame]; exact h
    | ok u =>
      obtain ⟨h1, _⟩ := release_ok s id hres
      have hn := Release_nodes s id
      refine ⟨nodesUniq_of_nodes s _ hn h.1, ?_⟩
      intro q hq hs
      rw [h1] at hq
      rw [zoneType_nodes s _ hn]
      exact h.2 q (List.mem_filter.1 hq).1 hs

/-- **strict types over histories**: on a node table with unique ids, after every history of
Allocate / GetOffer / Realloc / Release in which no strict request is re-allocated, every request
with strict type preference is assigned only nodes whose types are among its requested types. -/
theorem run_strict (nodes : List Node) (hu : NodesUniq { nodes := nodes }) (ops : List Op)
    (hsafe : StrictSafe { nodes := nodes } ops) : StrictInv (St.run { nodes := nodes } ops) := by
  have key : ∀ (ops : List Op) (s : St), WF s → SU s → StrictSafe s ops → SU (s.run ops) := by
    intro ops
    induction ops with
    | nil => intro s _ h _; exact h
    | cons op ops ih =>
      intro s hw h hs
      have hrun : s.run (op :: ops) = (s.step op).run ops := rfl
      rw [hrun]
      exact ih (s.step op) (step_keeps_wf s hw op) (step_strict s hw h op hs.1) hs.2
  exact (key ops _ (hinv_init nodes).wf ⟨hu, by intro q hq; cases hq⟩ hsafe).2

/-- what is and is not covered for re-allocations (the statement, for the record): a successful
`Realloc` of a non-strict request keeps the invariant for all strict requests. -/
theorem realloc_strict_partial (s : St) (hw : WF s) (h : SU s) (id : String) (nodes : Mask) (types : Nat) (res : Result)
    (hok : (s.Realloc id nodes types).2 = .ok res) (hns : ∀ q, s.req? id = some q → q.strict = false) :
    StrictInv (s.Realloc id nodes types).1 :=
  (Realloc_su s hw h id nodes types res hok hns).2

/-! ### strict types over ALL histories, with the ghost record of re-allocation types

`ghostRun` accumulates, per request id, the types that successful re-allocations named (or implied
by their nodes); a release forgets the record.  "Requested types" of a request = its `types`
field ∪ that record - the reading fixed in DESIGN §6.0 for C07. -/

theorem step_strict_ghost (G : String → Nat) (s : St) (hw : WF s) (h : SUG G s) (op : Op) :
    SUG (ghostStep G s op) (s.step op) := by
  cases op with
  | allocate r =>
    show SUG G (s.Allocate r).1
    cases hres : (s.Allocate r).2 with
    | error e =>
      obtain ⟨h1, _, _⟩ := allocate_fail_unchanged s hw r e hres
      exact sug_of_reqs_eq G s _ h h1 (Allocate_nodes s hw r)
    | ok res => exact Allocate_sug G s hw h r res hres
  | getOffer r =>
    show SUG G (s.GetOffer r).1
    exact sug_of_reqs_eq G s _ h (getOffer_pure s hw r).1 (GetOffer_nodes s hw r)
  | realloc id nodes types =>
    show SUG (ghostStep G s (.realloc id nodes types)) (s.Realloc id nodes types).1
    cases hres : (s.Realloc id nodes types).2 with
    | error e =>
      rw [ghostStep_realloc_err G s id nodes types e hres]
      obtain ⟨h1, _, _⟩ := realloc_spec s hw id nodes types e hres
      exact sug_of_reqs_eq G s _ h h1 (Realloc_nodes s hw id nodes types)
    | ok res =>
      rw [ghostStep_realloc_ok G s id nodes types res hres]
      exact Realloc_sug G s hw h id nodes types res hres
  | release id =>
    show SUG (ghostStep G s (.release id)) (s.Release id).1
    cases hres : (s.Release id).2 with
    | error e =>
      rw [ghostStep_release_err G s id e hres]
      have hsame : (s.Release id).1 = s := by
        unfold St.Release at hres ⊢
        cases hr : s.req? id with
        | none => rfl
        | some r =>
          simp only [hr] at hres ⊢
          split
          · rfl
          · rename_i hz; simp [hz] at hres
      rw [hsame]; exact h
    | ok u =>
      rw [ghostStep_release_ok G s id u hres]
      obtain ⟨h1, _⟩ := release_ok s id hres
      have hn := Release_nodes s id
      refine ⟨nodesUniq_of_nodes s _ hn h.1, ?_⟩
      intro q hq hs
      rw [h1] at hq
      obtain ⟨hq1, hq2⟩ := List.mem_filter.1 hq
      have hne : q.id ≠ id := by simpa using hq2
      rw [zoneType_nodes s _ hn]
      simp only [hne, if_false]
      exact h.2 q hq1 hs

/-- **strict types over every history**: on a node table with unique ids, after EVERY history of
Allocate / GetOffer / Realloc / Release, every request with strict type preference is assigned only
nodes whose types are among its requested types - the types it was created with (as validated),
those re-allocations found, and those its re-allocations named. -/
theorem run_strict_ghost (nodes : List Node) (hu : NodesUniq { nodes := nodes }) (ops : List Op) :
    StrictInvG (ghostRun (fun _ => 0) { nodes := nodes } ops) (St.run { nodes := nodes } ops) := by
  have key : ∀ (ops : List Op) (G : String → Nat) (s : St), WF s → SUG G s → SUG (ghostRun G s ops) (s.run ops) := by
    intro ops
    induction ops with
    | nil => intro G s _ h; exact h
    | cons op ops ih =>
      intro G s hw h
      have hrun : s.run (op :: ops) = (s.step op).run ops := rfl
      have hg : ghostRun G s (op :: ops) = ghostRun (ghostStep G s op) (s.step op) ops := rfl
      rw [hrun, hg]
      exact ih _ (s.step op) (step_keeps_wf s hw op) (step_strict_ghost G s hw h op)
  exact (key ops _ _ (hinv_init nodes).wf ⟨hu, by intro q hq; cases hq⟩).2

-- non-vacuity: a strict DRAM request on a DRAM+PMEM machine, under pressure, stays on DRAM
example :
    let nodes : List Node := [{ id := 0, typ := 0, cap := 100, normal := true, dist := [10, 21] },
                              { id := 1, typ := 1, cap := 100, normal := true, dist := [21, 10] }]
    (St.run { nodes := nodes }
      [.allocate { id := "s", size := 60, aff := 1, types := 1, strict := true, prio := 1024, created := 1 },
       .allocate { id := "b", size := 60, aff := 1, types := 0, strict := false, prio := 1024, created := 2 }]).reqs.map
        (fun q => (q.id, q.zone, q.strict)) = [("s", 1, true), ("b", 3, false)] := by rfl

/-! ### committing a fresh offer keeps the placement rules -/

theorem commitStep_nodes (req : Req) (s : St) (p : String × Mask) : (commitStep req s p).nodes = s.nodes := by
  unfold commitStep
  split
  · simp only []
    split
    · exact zoneAssign_nodes _ _ _
    · rw [zoneAssign_nodes]
  · split
    · exact zoneMove_nodes _ _ _
    · rfl

theorem Commit_nodes (s : St) (o : Offer) : (s.Commit o).1.nodes = s.nodes := by
  rw [commit_eq]
  split
  · rfl
  · show (o.updates.foldl (commitStep o.req) s).nodes = s.nodes
    exact foldl_inv (fun t => t.nodes = s.nodes) (commitStep o.req) (fun a x h => by rw [commitStep_nodes]; exact h) _ _ rfl

/-- **a committed fresh offer obeys the placement rules**: since it leaves exactly the assignments
of a direct `Allocate`, every assigned zone afterwards contains normal memory and holds no more
than its capacity, exactly as after `Allocate`. -/
theorem commit_fresh_keeps_placement (s : St) (h : HFit s) (r : Req) (hr : 0 ≤ r.size) (o : Offer)
    (hoff : (s.GetOffer r).2 = .ok o) :
    Placed ((s.GetOffer r).1.Commit o).1 ∧ FitInv ((s.GetOffer r).1.Commit o).1 := by
  have hreqs := (commit_fresh_eq_allocate s h.inv.wf h.inv.placed r o hoff).2
  have hn : ((s.GetOffer r).1.Commit o).1.nodes = (s.Allocate r).1.nodes := by
    rw [Commit_nodes, GetOffer_nodes s h.inv.wf r, Allocate_nodes s h.inv.wf r]
  have hA := step_fits s h (.allocate r) hr
  have hA' : HFit (s.Allocate r).1 := hA
  refine ⟨placed_of_reqs_eq (s.Allocate r).1 _ hA'.inv.placed hreqs hn, fit_of_reqs_eq (s.Allocate r).1 _ hA'.fit hreqs hn⟩

end Nri.LibMem
