import Nri.Model.TopoAware
import Nri.Proofs.TopoAware
import Nri.Props.C01
import Nri.Props.C06
import Nri.Props.C07
import Nri.Proofs.LibMemRelease
import Nri.Gen.TAFacts
/-!
C09 — no leaks (topology-aware and libmem halves).

Proved: releasing a grant gives back exactly the capacity its allocation took from the
counters of every pool (`alloc_release_counters`), removes the grant (`released_holds_nothing`)
and never re-creates one; exclusivity and the free-set bounds are preserved by release
(C01's `release_preserves_exclusive`), so released CPUs go back only to pools that own them;
libmem: Release removes exactly that allocation (C06 `release_ok`).
Equality of the free CPU *sets* with the pristine ones at quiescence is checked on every
history of the correspondence run (snapshot at start vs after draining), not proved.
Known finding: `C09:grant-leak-after-remove-without-stop`.
-/
namespace Nri.TA

def SameCounters (a b : TA) : Prop :=
  ∀ j, (a.pools j).grantedShared = (b.pools j).grantedShared ∧ (a.pools j).grantedReserved = (b.pools j).grantedReserved

theorem takeExclusive_counters (t t1 : TA) (i full : Nat) (isolate : Bool) (excl : List Nat)
    (h : takeExclusive t i full isolate excl = .ok t1) : SameCounters t1 t ∧ t1.tree = t.tree := by
  unfold takeExclusive at h
  simp only [] at h
  have key : ∀ (f : PoolS → PoolS), (∀ q, (f q).grantedShared = q.grantedShared ∧ (f q).grantedReserved = q.grantedReserved) →
      SameCounters (setPool t i f) t := by
    intro f hf j
    simp only [setPool]
    by_cases hj : (j == i) = true
    · simp only [hj, if_true]; exact hf _
    · simp only [hj]; exact ⟨rfl, rfl⟩
  split at h
  · split at h
    · simp only [Except.ok.injEq] at h; subst h
      exact ⟨key _ (fun q => ⟨rfl, rfl⟩), rfl⟩
    · cases h
  · split at h
    · split at h
      · simp only [Except.ok.injEq] at h; subst h
        exact ⟨key _ (fun q => ⟨rfl, rfl⟩), rfl⟩
      · cases h
    · split at h
      · cases h
      · split at h
        · simp only [Except.ok.injEq] at h; subst h
          exact ⟨fun _ => ⟨rfl, rfl⟩, rfl⟩
        · cases h

theorem accountAllocate_counters (t : TA) (i : Nat) (excl : List Nat) : SameCounters (accountAllocate t i excl) t := by
  intro j
  simp only [accountAllocate]
  split <;> exact ⟨rfl, rfl⟩

theorem accountRelease_counters (t : TA) (i : Nat) (excl : List Nat) : SameCounters (accountRelease t i excl) t := by
  intro j
  simp only [accountRelease]
  split
  · split <;> exact ⟨rfl, rfl⟩
  · exact ⟨rfl, rfl⟩

theorem addPortion_counters (t2 t' : TA) (ctr : String) (i f : Nat) (ct : CpuType) (excl : List Nat) (g : Grant)
    (h : addPortion t2 ctr i f ct excl = .ok (t', g)) :
    g.pool = i ∧ t'.tree = t2.tree ∧ ∀ j,
      (t'.pools j).grantedShared = (t2.pools j).grantedShared + (if j == i then sharedPortion g else 0) ∧
      (t'.pools j).grantedReserved = (t2.pools j).grantedReserved + (if j == i then reservedPortion g else 0) := by
  unfold addPortion at h
  by_cases c1 : (decide (f > 0) && ct == CpuType.normal) = true
  · simp only [c1, if_true] at h
    by_cases c2 : allocatableShared t2 i < (f : Int)
    · simp only [c2, if_true] at h; cases h
    · simp only [c2, if_false, Except.ok.injEq, Prod.mk.injEq] at h
      obtain ⟨h1, h2⟩ := h
      subst h1; subst h2
      have hn : ct = CpuType.normal := by simp only [Bool.and_eq_true, beq_iff_eq] at c1; exact c1.2
      subst hn
      refine ⟨rfl, rfl, fun j => ?_⟩
      simp only [setPool, sharedPortion, reservedPortion]
      by_cases hj : (j == i) = true <;> simp [hj]
  · simp only [c1] at h
    by_cases c3 : (decide (f > 0) && ct == CpuType.reserved) = true
    · simp only [c3, if_true] at h
      by_cases c4 : allocatableReserved t2 i < (f : Int)
      · simp only [c4, if_true, if_false, Bool.false_eq_true] at h; cases h
      · simp only [c4, if_false, Bool.false_eq_true, Except.ok.injEq, Prod.mk.injEq] at h
        obtain ⟨h1, h2⟩ := h
        subst h1; subst h2
        have hn : ct = CpuType.reserved := by simp only [Bool.and_eq_true, beq_iff_eq] at c3; exact c3.2
        subst hn
        refine ⟨rfl, rfl, fun j => ?_⟩
        simp only [setPool, sharedPortion, reservedPortion]
        by_cases hj : (j == i) = true <;> simp [hj]
    · simp only [c3, Bool.false_eq_true, if_false, Except.ok.injEq, Prod.mk.injEq] at h
      obtain ⟨h1, h2⟩ := h
      subst h1; subst h2
      refine ⟨rfl, rfl, fun j => ?_⟩
      have hs : sharedPortion ⟨ctr, i, ct, excl, if ct == CpuType.preserve then f else 0⟩ = 0 := by
        simp only [sharedPortion]; cases ct <;> simp_all
      have hr : reservedPortion ⟨ctr, i, ct, excl, if ct == CpuType.preserve then f else 0⟩ = 0 := by
        simp only [reservedPortion]; cases ct <;> simp_all
      rw [hs, hr]; simp

theorem release_counters (t : TA) (g : Grant) (pt : PoolT) (h : t.tree[g.pool]? = some pt) : ∀ j,
    ((release t g).pools j).grantedShared = (t.pools j).grantedShared - (if j == g.pool then sharedPortion g else 0) ∧
    ((release t g).pools j).grantedReserved = (t.pools j).grantedReserved - (if j == g.pool then reservedPortion g else 0) := by
  intro j
  unfold release
  rw [h]
  simp only []
  have := accountRelease_counters (setPool t g.pool fun q =>
    { q with isolated := uni q.isolated (inter g.exclusive pt.totIsolated), sharable := uni q.sharable (rm g.exclusive (inter g.exclusive pt.totIsolated)),
             grantedReserved := q.grantedReserved - reservedPortion g, grantedShared := q.grantedShared - sharedPortion g }) g.pool g.exclusive j
  rw [this.1, this.2]
  simp only [setPool]
  by_cases hj : (j == g.pool) = true <;> simp [hj]

/-- what an allocation does to the counters: the grant's portion is added at its pool, nothing else -/
theorem alloc_counters (t t' : TA) (ctr : String) (i full fraction : Nat) (isolate : Bool)
    (ct : CpuType) (excl : List Nat) (g : Grant)
    (h : alloc t ctr i full fraction isolate ct excl = .ok (t', g)) :
    g.pool = i ∧ g.ctr = ctr ∧ i < t.tree.length ∧ t'.tree = t.tree ∧ t'.grants = t.grants ∧ ∀ j,
      (t'.pools j).grantedShared = (t.pools j).grantedShared + (if j == i then sharedPortion g else 0) ∧
      (t'.pools j).grantedReserved = (t.pools j).grantedReserved + (if j == i then reservedPortion g else 0) := by
  unfold alloc at h
  split at h
  · cases h
  · rename_i hi
    simp only [] at h
    cases hte : takeExclusive t i (normReq t i full fraction ct).1 isolate excl with
    | error e => rw [hte] at h; cases h
    | ok t1 =>
      rw [hte] at h
      simp only [] at h
      obtain ⟨hc1, htr1⟩ := takeExclusive_counters t t1 i _ isolate excl hte
      have hg1 : t1.grants = t.grants := by
        unfold takeExclusive at hte
        simp only [] at hte
        repeat' split at hte
        all_goals first | (simp only [Except.ok.injEq] at hte; subst hte; rfl) | cases hte
      have hc2 := accountAllocate_counters t1 i excl
      obtain ⟨hgp, htr', hadd⟩ := addPortion_counters _ _ _ _ _ _ _ _ h
      have hctr : g.ctr = ctr ∧ t'.grants = t.grants := by
        unfold addPortion at h
        repeat' split at h
        all_goals first | (simp only [Except.ok.injEq, Prod.mk.injEq] at h; obtain ⟨h1, h2⟩ := h; subst h1; subst h2; exact ⟨rfl, by simp [setPool, accountAllocate, hg1]⟩) | cases h
      refine ⟨hgp, hctr.1, by omega, by rw [htr']; simp [accountAllocate, htr1], hctr.2, fun j => ?_⟩
      obtain ⟨a1, a2⟩ := hadd j
      rw [a1, a2, (hc2 j).1, (hc2 j).2, (hc1 j).1, (hc1 j).2]
      exact ⟨rfl, rfl⟩

/-- **Ledger.** An allocation followed by the release of its grant leaves every pool's granted
counters exactly as they were - for every pool, request and oracle choice. -/
theorem alloc_release_counters (t t' : TA) (ctr : String) (i full fraction : Nat) (isolate : Bool)
    (ct : CpuType) (excl : List Nat) (g : Grant)
    (h : alloc t ctr i full fraction isolate ct excl = .ok (t', g)) :
    SameCounters (release t' g) t := by
  unfold alloc at h
  split at h
  · cases h
  · rename_i hi
    simp only [] at h
    cases hte : takeExclusive t i (normReq t i full fraction ct).1 isolate excl with
    | error e => rw [hte] at h; cases h
    | ok t1 =>
      rw [hte] at h
      simp only [] at h
      obtain ⟨hc1, htr1⟩ := takeExclusive_counters t t1 i _ isolate excl hte
      have hc2 := accountAllocate_counters t1 i excl
      have hi' : i < t.tree.length := by omega
      obtain ⟨hgp, htr', hadd⟩ := addPortion_counters _ _ _ _ _ _ _ _ h
      have htree2 : (accountAllocate t1 i excl).tree = t.tree := by simp [accountAllocate, htr1]
      have hpi : t'.tree[g.pool]? = some t.tree[i] := by rw [htr', htree2, hgp]; simp [hi']
      intro j
      obtain ⟨r1, r2⟩ := release_counters t' g _ hpi j
      obtain ⟨a1, a2⟩ := hadd j
      rw [r1, r2, a1, a2, hgp, (hc2 j).1, (hc2 j).2, (hc1 j).1, (hc1 j).2]
      constructor <;> omega

/-- a released container holds nothing: no grant refers to it afterwards -/
theorem released_holds_nothing (t : TA) (g : Grant) :
    ∀ g' ∈ (dropGrant (release t g) g.ctr).grants, g'.ctr ≠ g.ctr := by
  intro g' h
  simp only [dropGrant, List.mem_filter] at h
  simpa using h.2

end Nri.TA

namespace Nri.LibMem

/-! ### libmem half: draining the allocator leaves nothing behind -/

/-- **no memory allocations at quiescence**: after ANY history of Allocate / GetOffer / Realloc /
Release from the empty allocator, releasing every allocation that is still there - in any order,
repetitions and unknown ids included - leaves no request behind, and every node set has zero
usage (so the allocator is back in the state it had after start-up, up to the version counter
and the order of empty zone-table entries). -/
theorem libmem_quiescent_is_empty (nodes : List Node) (ops : List Op) (ids : List String)
    (hall : ∀ q ∈ (St.run { nodes := nodes } ops).reqs, q.id ∈ ids) :
    ((St.run { nodes := nodes } ops).releaseAll ids).reqs = [] ∧
    ∀ z, ((St.run { nodes := nodes } ops).releaseAll ids).zoneUsage z = 0 := by
  have hinv := run_placement nodes ops
  have ha : Assigned (St.run { nodes := nodes } ops) := fun q hq => and_ne_zero_left (hinv.placed q hq)
  exact releaseAll_empty _ ha ids hall

end Nri.LibMem
