import Nri.Model.Locking
import Nri.Gen.LockFacts
/-!
C15 — request processing is serialized.

Proved for every set of requests (arbitrary programs of atomic micro-steps on the shared
state) and EVERY schedule: at most one request is inside its critical section
(`mutual_exclusion`), and the shared state is always the result of executing the finished
requests sequentially in lock-acquisition order, followed by the prefix the current owner has
executed (`Inv`, `inv_run`); when no request is in flight the state equals that of a sequential
execution (`serializable`).  Without the lock this is false (`unlocked_lost_update`).  The tie
to the code is the regenerated fact that every entry point takes the lock before its first
access to the cache or the policy (`entry_points_lock_first`).

Absence of data races in the real code and per-request completion are checked by running the
real handlers concurrently under the Go race detector, not proved.
-/
namespace Nri.Locking

variable {σ : Type}

theorem entry_points_lock_first :
    Nri.Gen.Lock.entryPoints = [("Synchronize", true), ("RunPodSandbox", true), ("StopPodSandbox", true), ("RemovePodSandbox", true),
      ("CreateContainer", true), ("StartContainer", true), ("UpdateContainer", true), ("StopContainer", true), ("RemoveContainer", true),
      ("reconfigure", true), ("Stop", true)] ∧
    Nri.Gen.Lock.podFetchHasNoGoroutine = true := by decide

/-- state predicted by the serial order: finished requests in acquisition order, then the
owner's prefix -/
def spec (prog : Nat → List (σ → σ)) (init : σ) (s : Sys σ) : σ :=
  match s.owner with
  | none => serial prog init s.order
  | some t =>
    match s.pc t with
    | .inside k => ((prog t).take k).foldl (fun a f => f a) (serial prog init s.order.dropLast)
    | _ => serial prog init s.order

structure Inv (prog : Nat → List (σ → σ)) (init : σ) (s : Sys σ) : Prop where
  inside_owner : ∀ t k, s.pc t = .inside k → s.owner = some t
  owner_inside : ∀ t, s.owner = some t → ∃ k, s.pc t = .inside k ∧ s.order.getLast? = some t
  state : s.st = spec prog init s

theorem inv_init (prog : Nat → List (σ → σ)) (init : σ) : Inv prog init (initSys init) :=
  ⟨fun _ _ h => (by cases h), fun _ h => (by cases h), rfl⟩

theorem upd_same (f : Nat → Pc) (t : Nat) (v : Pc) : upd f t v t = v := by simp [upd]
theorem upd_other (f : Nat → Pc) (t x : Nat) (v : Pc) (h : x ≠ t) : upd f t v x = f x := by simp [upd, h]

theorem take_succ_foldl (l : List (σ → σ)) (k : Nat) (f : σ → σ) (a : σ) (h : l[k]? = some f) :
    (l.take (k + 1)).foldl (fun a f => f a) a = f ((l.take k).foldl (fun a f => f a) a) := by
  rw [List.take_succ, h]
  simp [List.foldl_append]

theorem take_all_of_none (l : List (σ → σ)) (k : Nat) (h : l[k]? = none) : l.take k = l := by
  have : l.length ≤ k := by
    rcases Nat.lt_or_ge k l.length with hlt | hge
    · rw [List.getElem?_eq_getElem hlt] at h; cases h
    · exact hge
  exact List.take_of_length_le this

theorem split_last (l : List Nat) (t : Nat) (h : l.getLast? = some t) : l.dropLast ++ [t] = l := by
  have hne : l ≠ [] := by intro e; rw [e] at h; cases h
  have h2 := List.dropLast_concat_getLast hne
  rw [List.getLast?_eq_some_getLast hne] at h
  cases h
  exact h2

theorem inv_step (prog : Nat → List (σ → σ)) (init : σ) (s : Sys σ) (t : Nat) (h : Inv prog init s) :
    Inv prog init (stepT prog s t) := by
  unfold stepT
  cases hpc : s.pc t with
  | idle =>
    simp only []
    cases ho : s.owner with
    | some o => simpa [ho] using h
    | none =>
      simp only []
      refine ⟨?_, ?_, ?_⟩
      · intro x k hx
        by_cases hxt : x = t
        · subst hxt; rfl
        · simp only [upd_other _ _ _ _ hxt] at hx
          have := h.inside_owner x k hx
          rw [ho] at this; cases this
      · intro x hx
        simp only [Option.some.injEq] at hx
        subst hx
        exact ⟨0, upd_same _ _ _, by simp⟩
      · simp only [spec, upd_same, List.take_zero, List.foldl_nil, List.dropLast_concat]
        rw [h.state]
        simp [spec, ho]
  | fin => simpa using h
  | inside k =>
    simp only []
    have hown : s.owner = some t := h.inside_owner t k hpc
    obtain ⟨k', hk', hlast⟩ := h.owner_inside t hown
    have hkk : k' = k := by rw [hpc] at hk'; cases hk'; rfl
    cases hf : (prog t)[k]? with
    | some f =>
      simp only []
      refine ⟨?_, ?_, ?_⟩
      · intro x j hx
        by_cases hxt : x = t
        · subst hxt; exact hown
        · simp only [upd_other _ _ _ _ hxt] at hx
          exact h.inside_owner x j hx
      · intro x hx
        rw [hown] at hx
        simp only [Option.some.injEq] at hx
        subst hx
        exact ⟨k + 1, upd_same _ _ _, hlast⟩
      · simp only [spec, hown, upd_same]
        rw [take_succ_foldl _ _ _ _ hf, h.state]
        simp [spec, hown, hpc]
    | none =>
      simp only []
      refine ⟨?_, ?_, ?_⟩
      · intro x j hx
        by_cases hxt : x = t
        · subst hxt
          have hx' : upd s.pc x Pc.fin x = Pc.inside j := hx
          rw [upd_same] at hx'; cases hx'
        · simp only [upd_other _ _ _ _ hxt] at hx
          have := h.inside_owner x j hx
          rw [hown] at this
          exact absurd (Option.some.inj this).symm hxt
      · intro x hx; cases hx
      · simp only [spec]
        rw [h.state]
        simp only [spec, hown, hpc, take_all_of_none _ _ hf]
        have hsplit : s.order.dropLast ++ [t] = s.order := split_last _ _ hlast
        conv => rhs; rw [← hsplit]
        simp [serial, List.foldl_append, effect]

/-- the invariant holds after every schedule -/
theorem inv_run (prog : Nat → List (σ → σ)) (init : σ) (sched : List Nat) : Inv prog init (run prog init sched) := by
  unfold run
  have : ∀ (s : Sys σ), Inv prog init s → Inv prog init (sched.foldl (stepT prog) s) := by
    induction sched with
    | nil => intro s h; exact h
    | cons t ts ih => intro s h; exact ih _ (inv_step prog init s t h)
  exact this _ (inv_init prog init)

/-- **Mutual exclusion**: in every reachable state at most one request is inside its critical section. -/
theorem mutual_exclusion (prog : Nat → List (σ → σ)) (init : σ) (sched : List Nat) (t1 t2 k1 k2 : Nat)
    (h1 : (run prog init sched).pc t1 = .inside k1) (h2 : (run prog init sched).pc t2 = .inside k2) : t1 = t2 := by
  have i := inv_run prog init sched
  have a := i.inside_owner t1 k1 h1
  have b := i.inside_owner t2 k2 h2
  rw [a] at b
  exact Option.some.inj b

/-- **Serializability**: whenever no request holds the lock, the shared state is exactly the state a
sequential execution of the requests, in lock-acquisition order, produces - for every schedule. -/
theorem serializable (prog : Nat → List (σ → σ)) (init : σ) (sched : List Nat)
    (hq : (run prog init sched).owner = none) :
    (run prog init sched).st = serial prog init (run prog init sched).order := by
  have i := inv_run prog init sched
  rw [i.state]
  simp [spec, hq]

/-- without the lock two read-modify-write requests can lose an update: no serial order explains
the outcome (the shape of the pre-fix Synchronize/StopPodSandbox/RemovePodSandbox) -/
theorem unlocked_lost_update :
    let prog : Nat → List (Nat × Nat × Nat → Nat × Nat × Nat) := fun t =>
      if t = 0 then [fun s => (s.1, s.1, s.2.2), fun s => (s.2.1 + 1, s.2.1, s.2.2)]
      else [fun s => (s.1, s.2.1, s.1), fun s => (s.2.2 + 1, s.2.1, s.2.2)]
    (runU prog (0, 0, 0) [0, 1, 0, 1, 0, 1, 0, 1]).st.1 = 1 ∧
    (serial prog (0, 0, 0) [0, 1]).1 = 2 ∧ (serial prog (0, 0, 0) [1, 0]).1 = 2 := by decide

-- non-vacuity: the same two requests with the lock, same schedule attempts
example :
    let prog : Nat → List (Nat × Nat × Nat → Nat × Nat × Nat) := fun t =>
      if t = 0 then [fun s => (s.1, s.1, s.2.2), fun s => (s.2.1 + 1, s.2.1, s.2.2)]
      else [fun s => (s.1, s.2.1, s.1), fun s => (s.2.2 + 1, s.2.1, s.2.2)]
    (run prog (0, 0, 0) [0, 1, 0, 1, 0, 1, 0, 1, 1, 1, 1]).st.1 = 2 := by decide

end Nri.Locking
