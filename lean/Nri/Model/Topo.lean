/-
Abstract machine (what a sysfs tree describes), the accessors `pkg/sysfs` derives from it, the
kernel list format as range lists, the memory-type heuristic of `discoverNodes`, and the
topology-aware policy's pool tree (`buildPoolsByTopology`, `getCpuSupply`, `getMemSupply`,
`getClosestSpecialMem`).  CPU/node sets are duplicate-free lists of ids.
-/
namespace Nri.Topo

structure CPU where
  id : Nat
  pkg : Nat
  die : Nat
  cluster : Nat
  node : Nat
  core : Nat
  online : Bool
  isolated : Bool
  kind : Nat
  threads : List Nat
  l2 : List Nat
  l3 : List Nat
  deriving Repr, DecidableEq

structure MNode where
  id : Nat
  cpus : List Nat
  dist : List Nat
  memTotal : Nat
  hasMem : Bool
  normal : Bool
  deriving Repr, DecidableEq

structure Machine where
  cpus : List CPU
  nodes : List MNode
  deriving Repr

/-! ### kernel list format ("0-3,8") as a list of inclusive ranges -/

/-- group a strictly increasing list into maximal runs of consecutive ids -/
def compress : List Nat → List (Nat × Nat)
  | [] => []
  | x :: xs =>
    match compress xs with
    | (lo, hi) :: rest => if x + 1 = lo then (x, hi) :: rest else (x, x) :: (lo, hi) :: rest
    | [] => [(x, x)]

/-- `lo, lo+1, …, hi` -/
def rangeList (lo hi : Nat) : List Nat := List.range' lo (hi + 1 - lo)

def expand (rs : List (Nat × Nat)) : List Nat := rs.flatMap fun r => rangeList r.1 r.2

/-! ### accessors -/

def sdiff (a b : List Nat) : List Nat := a.filter (fun x => !b.contains x)
def sinter (a b : List Nat) : List Nat := a.filter (fun x => b.contains x)
def dedup (l : List Nat) : List Nat := l.eraseDups
def ssort (l : List Nat) : List Nat := (l.toArray.qsort (· < ·)).toList

def Machine.allCpus (m : Machine) : List Nat := m.cpus.map (·.id)
def Machine.onlineCpus (m : Machine) : List Nat := (m.cpus.filter (·.online)).map (·.id)
def Machine.offline (m : Machine) : List Nat := (m.cpus.filter (fun c => !c.online)).map (·.id)
def Machine.isolatedCpus (m : Machine) : List Nat := (m.cpus.filter (·.isolated)).map (·.id)
/-- `discoverPackages` only looks at online CPUs -/
def Machine.pkgIds (m : Machine) : List Nat := ssort (dedup ((m.cpus.filter (·.online)).map (·.pkg)))
def Machine.pkgCpus (m : Machine) (s : Nat) : List Nat := (m.cpus.filter (fun c => c.online && c.pkg == s)).map (·.id)
def Machine.dieIds (m : Machine) (s : Nat) : List Nat := ssort (dedup ((m.cpus.filter (fun c => c.online && c.pkg == s)).map (·.die)))
def Machine.dieCpus (m : Machine) (s d : Nat) : List Nat := (m.cpus.filter (fun c => c.online && c.pkg == s && c.die == d)).map (·.id)
def Machine.pkgNodes (m : Machine) (s : Nat) : List Nat := ssort (dedup ((m.cpus.filter (fun c => c.online && c.pkg == s)).map (·.node)))
def Machine.dieNodes (m : Machine) (s d : Nat) : List Nat := ssort (dedup ((m.cpus.filter (fun c => c.online && c.pkg == s && c.die == d)).map (·.node)))
def Machine.node? (m : Machine) (n : Nat) : Option MNode := m.nodes.find? (·.id == n)
def Machine.nodeCpus (m : Machine) (n : Nat) : List Nat := ((m.node? n).map (·.cpus)).getD []

/-! ### memory types (`discoverNodes`) -/

inductive MemType where
  | dram | pmem | hbm
  deriving DecidableEq, Repr

def Machine.dramAvg (m : Machine) : Nat :=
  let dram := m.nodes.filter (fun n => !n.cpus.isEmpty)
  let noMem := (m.nodes.filter (fun n => !n.hasMem)).length
  let total := (dram.map (·.memTotal)).foldl (· + ·) 0
  total / (dram.length - noMem)

/-- a node with CPUs is DRAM; a CPU-less node with memory is HBM if smaller than the average
DRAM node, else PMEM. -/
def Machine.memType (m : Machine) (n : MNode) : MemType :=
  if !n.cpus.isEmpty then .dram
  else if n.memTotal < m.dramAvg then .hbm else .pmem

/-! ### pools -/

structure Pool where
  name : String
  kind : String
  parent : String            -- "-" for the root
  depth : Nat
  cpus : List Nat            -- the CPUs the pool was built from (before the `allowed` cut)
  isolated : List Nat
  reserved : List Nat
  sharable : List Nat
  dram : List Nat
  pmem : List Nat
  hbm : List Nat
  deriving Repr, DecidableEq

/-- `getCpuSupply` -/
def cpuSupply (cpus allowed isolated reserved : List Nat) : List Nat × List Nat × List Nat :=
  let a := sinter cpus allowed
  let iso := sinter a isolated
  let res := sinter a reserved
  (iso, res, sdiff (sdiff a iso) res)

/-- `getMemsForCpus`: nodes whose CPU list meets `cpus` (memory-less ones included, as in the code) -/
def Machine.memsForCpus (m : Machine) (cpus : List Nat) : List Nat :=
  (m.nodes.filter (fun n => n.cpus.any (cpus.contains ·))).map (·.id)

/-- `ClosestNodes(id, DRAM, HasLocalCPUs)[0]`: DRAM nodes with CPUs at the smallest distance -/
def Machine.closestDramCpuNodes (m : Machine) (n : MNode) : List Nat :=
  let cands := m.nodes.filter (fun o => o.id != n.id && !o.cpus.isEmpty)
  let ds := cands.map (fun o => n.dist.getD o.id 0)
  match ds.min? with
  | none => []
  | some d => (cands.filter (fun o => n.dist.getD o.id 0 == d)).map (·.id)

/-- `getClosestSpecialMem(mems)`: CPU-less PMEM/HBM nodes one of whose closest CPU-bearing
DRAM nodes is in `mems` -/
def Machine.closestSpecialMem (m : Machine) (mems : List Nat) : List Nat :=
  (m.nodes.filter (fun n => n.cpus.isEmpty && n.memTotal > 0 &&
      (m.closestDramCpuNodes n).any (mems.contains ·))).map (·.id)

def Machine.splitByType (m : Machine) (ids : List Nat) : List Nat × List Nat × List Nat :=
  let f := fun t => ids.filter (fun i => match m.node? i with | some n => m.memType n == t | none => false)
  (f .dram, f .pmem, f .hbm)

/-- `getMemSupply` -/
def Machine.memSupply (m : Machine) (isRoot : Bool) (cpus : List Nat) : List Nat × List Nat × List Nat :=
  if isRoot then m.splitByType ((m.nodes.filter (fun n => n.memTotal > 0)).map (·.id))
  else
    let mems := m.memsForCpus cpus
    let (d, p, h) := m.splitByType mems
    let (d', p', h') := m.splitByType (m.closestSpecialMem mems)
    (ssort (dedup (d ++ d')), ssort (dedup (p ++ p')), ssort (dedup (h ++ h')))

def mkPool (m : Machine) (allowed isolated reserved : List Nat) (name kind parent : String) (depth : Nat)
    (isRoot : Bool) (cpus : List Nat) : Pool :=
  let (iso, res, sh) := cpuSupply cpus allowed isolated reserved
  let (d, p, h) := m.memSupply isRoot cpus
  { name, kind, parent, depth, cpus, isolated := iso, reserved := res, sharable := sh, dram := d, pmem := p, hbm := h }

/-- `buildPoolsByTopology` + `enumeratePools`: the pools in depth-first (children first) order. -/
def Machine.buildPools (m : Machine) (allowed isolated reserved : List Nat) : List Pool :=
  let multi := m.pkgIds.length > 1
  let sockets := m.pkgIds.flatMap fun s =>
    let sname := s!"socket #{s}"
    let sdepth := if multi then 1 else 0
    let numa := fun (parent : String) (depth : Nat) (n : Nat) =>
      match m.node? n with
      | some nd => if nd.memTotal == 0 then [] else
          [mkPool m allowed isolated reserved s!"NUMA node #{n}" "numa node" parent depth false nd.cpus]
      | none => []
    let below :=
      if (m.dieIds s).length > 1 then
        (m.dieIds s).flatMap fun d =>
          let dname := s!"die #{s}/{d}"
          let nodes := if (m.dieNodes s d).length > 1 then (m.dieNodes s d).flatMap (numa dname (sdepth + 2)) else []
          nodes ++ [mkPool m allowed isolated reserved dname "die" sname (sdepth + 1) false (m.dieCpus s d)]
      else if (m.pkgNodes s).length > 1 then (m.pkgNodes s).flatMap (numa sname (sdepth + 1))
      else []
    below ++ [mkPool m allowed isolated reserved sname "socket" (if multi then "root" else "-") sdepth (!multi) (m.pkgCpus s)]
  if multi then sockets ++ [mkPool m allowed isolated reserved "root" "virtual node" "-" 0 true m.allCpus]
  else sockets

/-! ### well-formedness predicates (evaluated on the model by theorems and on the
implementation's pool dump by the driver) -/

def disjoint (a b : List Nat) : Bool := a.all (fun x => !b.contains x)
def subset (a b : List Nat) : Bool := a.all (b.contains ·)
def Pool.all (p : Pool) : List Nat := p.isolated ++ p.reserved ++ p.sharable
def Pool.mems (p : Pool) : List Nat := p.dram ++ p.pmem ++ p.hbm

/-- executable pool-tree well-formedness, as the property states it -/
def poolsWF (pools : List Pool) (allowed : List Nat) (nodesWithMem : List Nat) : List String :=
  let memOnly := fun (l : List Nat) => l.filter (nodesWithMem.contains ·)
  let roots := pools.filter (·.parent == "-")
  let errs : List String := []
  let errs := if roots.length != 1 then errs ++ [s!"{roots.length} roots"] else errs
  let errs := pools.foldl (fun errs p =>
    let errs := if !(disjoint p.isolated p.reserved && disjoint p.isolated p.sharable && disjoint p.reserved p.sharable) then
      errs ++ [s!"{p.name}: isolated/reserved/sharable overlap"] else errs
    match pools.find? (·.name == p.parent) with
    | some par =>
      let errs := if !subset p.all par.all then errs ++ [s!"{p.name}: CPUs not contained in parent {par.name}"] else errs
      let errs := if !subset (memOnly p.mems) par.mems then errs ++ [s!"{p.name}: memory nodes not a subset of parent {par.name}"]
        else if !subset p.mems par.mems then errs ++ [s!"C16:memoryless-node-in-child-memset {p.name}: lists a memory-less node that its parent {par.name} does not"]
        else errs
      if p.depth != par.depth + 1 then errs ++ [s!"{p.name}: depth"] else errs
    | none => if p.parent != "-" then errs ++ [s!"{p.name}: parent {p.parent} missing"] else errs) errs
  -- siblings disjoint
  let errs := pools.foldl (fun errs p => pools.foldl (fun errs q =>
    if p.name < q.name && p.parent == q.parent && p.parent != "-" && !disjoint p.all q.all then
      errs ++ [s!"siblings {p.name} and {q.name} share CPUs"] else errs) errs) errs
  match roots.head? with
  | some r =>
    let errs := if !(subset allowed r.all && subset r.all allowed) then errs ++ ["root does not hold exactly the available CPUs"] else errs
    if !subset nodesWithMem r.mems then errs ++ ["a memory node with memory is missing from the root"] else errs
  | none => errs

end Nri.Topo
