/-
Accounting core of the balloons policy (cmd/plugins/balloons/policy/balloons-policy.go:
resizeBalloon inflate/deflate, newBalloon, deleteBalloon/freeBalloon, shareIdleCpus,
updatePinning).  CPUs move between the free set and the balloons; which CPUs are picked is the
CPU allocator's choice (C08) and enters as an oracle argument that the step validates exactly as
far as the allocator's contract guarantees it (the pick comes from the set it was given).
Balloons are addressed by index; `cpus i = []` for indices not in use.
-/
namespace Nri.Balloons

structure BState where
  allowed : List Nat
  free : List Nat
  cpus : Nat → List Nat

def setCpus (s : BState) (i : Nat) (v : List Nat) : Nat → List Nat := fun j => if j = i then v else s.cpus j

/-- inflate balloon `i` with `add`, which the allocator picked from the free CPUs -/
def inflate (s : BState) (i : Nat) (add : List Nat) : Option BState :=
  if add.all (s.free.contains ·) then
    some { s with free := s.free.filter (fun c => !add.contains c), cpus := setCpus s i (s.cpus i ++ add.filter (fun c => !(s.cpus i).contains c)) }
  else none

/-- deflate balloon `i` by `rem`, picked from the balloon's own CPUs -/
def deflate (s : BState) (i : Nat) (rem : List Nat) : Option BState :=
  if rem.all ((s.cpus i).contains ·) then
    some { s with free := s.free ++ (rem.filter (fun c => !s.free.contains c)), cpus := setCpus s i ((s.cpus i).filter (fun c => !rem.contains c)) }
  else none

/-- deleting a balloon returns all of its CPUs -/
def deleteBalloon (s : BState) (i : Nat) : BState :=
  { s with free := s.free ++ ((s.cpus i).filter (fun c => !s.free.contains c)), cpus := setCpus s i [] }

def initB (allowed : List Nat) : BState := ⟨allowed, allowed, fun _ => []⟩

/-- the partition invariant of the property -/
structure Inv (s : BState) : Prop where
  owned_allowed : ∀ i c, c ∈ s.cpus i → c ∈ s.allowed
  owned_not_free : ∀ i c, c ∈ s.cpus i → c ∉ s.free
  disjoint : ∀ i j c, i ≠ j → c ∈ s.cpus i → c ∉ s.cpus j
  free_allowed : ∀ c, c ∈ s.free → c ∈ s.allowed
  cover : ∀ c, c ∈ s.allowed → c ∈ s.free ∨ ∃ i, c ∈ s.cpus i

/-- `shareIdleCpus` as a specification: the idle, non-isolated CPUs inside the balloon's sharing scope -/
def sharedSpec (s : BState) (isolated : List Nat) (scope : List Nat) : List Nat :=
  s.free.filter (fun c => scope.contains c && !isolated.contains c)

/-- what a container of balloon `i` is pinned to -/
def pinned (s : BState) (i : Nat) (isolated scope : List Nat) : List Nat := s.cpus i ++ sharedSpec s isolated scope

/-! ### request level: balloon types, sizes, members

`AllocateResources` / `ReleaseResources` / `newBalloon` / `freeBalloon` on top of the accounting
core.  A balloon is an index `i`; its type is `defs (defOf i)`.  The CPU allocator's picks stay
oracle arguments; the step validates them by their effect (the new size), which is what its
contract (C08) guarantees. -/

structure Def where
  minC : Nat
  maxC : Nat        -- 0 = NoLimit
  minB : Nat
  maxB : Nat        -- 0 = NoLimit
  deriving Repr, DecidableEq

/-- `resizeBalloon`'s new CPU count: `(newMilliCpus + 999) / 1000`, capped by MaxCpus (if limited),
then raised to MinCpus -/
def targetCount (d : Def) (milli : Nat) : Nat :=
  let n := (milli + 999) / 1000
  let n := if d.maxC > 0 ∧ n > d.maxC then d.maxC else n
  if d.minC > 0 ∧ n < d.minC then d.minC else n

def requested (ms : List (String × Nat)) : Nat := (ms.map (·.2)).foldl (· + ·) 0

/-- the size a balloon must have: `resizeBalloon(bln, 0)` when it is empty (release, and
`MinCpus*1000` at creation give the same count), `max(1, requested)` otherwise -/
def sizeSpec (d : Def) (ms : List (String × Nat)) : Nat :=
  if ms.isEmpty then targetCount d 0 else targetCount d (max 1 (requested ms))

/-- `MaxAvailMilliCpus` -/
def maxAvail (d : Def) (ncpus nfree : Nat) : Nat :=
  if d.maxC = 0 then (ncpus + nfree) * 1000 else d.maxC * 1000

structure RState where
  core : BState
  defs : Nat → Def
  defOf : Nat → Nat
  members : Nat → List (String × Nat)
  live : List Nat
  
def updM (f : Nat → List (String × Nat)) (i : Nat) (v : List (String × Nat)) : Nat → List (String × Nat) :=
  fun j => if j = i then v else f j

def allMembers (r : RState) : List String := r.live.flatMap (fun i => (r.members i).map (·.1))

def countOf (r : RState) (k : Nat) : Nat := (r.live.filter (fun i => r.defOf i == k)).length

/-- `resizeBalloon(bln, milli)` with the allocator's pick -/
def resize (r : RState) (i : Nat) (milli : Nat) (pick : List Nat) : Option RState :=
  let n := targetCount (r.defs (r.defOf i)) milli
  let old := (r.core.cpus i).length
  if n = old then some r
  else if n > old then
    match inflate r.core i pick with
    | some c => if (c.cpus i).length = n then some { r with core := c } else none
    | none => none
  else
    match deflate r.core i pick with
    | some c => if (c.cpus i).length = n then some { r with core := c } else none
    | none => none

/-- `AllocateResources` once the fill chain has chosen balloon `i` (its guard
`maxFreeMilliCpus(bln) >= request` is part of the step) -/
def assign (r : RState) (i : Nat) (ctr : String) (milli : Nat) (pick : List Nat) : Option RState :=
  if !r.live.contains i then none else
  if (allMembers r).contains ctr then none else
  let d := r.defs (r.defOf i)
  let req := requested (r.members i)
  if maxAvail d (r.core.cpus i).length r.core.free.length < req + milli then none else
  let tot := max 1 (req + milli)
  let r1 := if (r.core.cpus i).length * 1000 < tot then resize r i tot pick else some r
  r1.map fun r' => { r' with members := updM r'.members i (r'.members i ++ [(ctr, milli)]) }

/-- `ReleaseResources` of a member of balloon `i`; an emptied balloon is deflated to its minimum -/
def dismiss (r : RState) (i : Nat) (ctr : String) (pick : List Nat) : Option RState :=
  if !r.live.contains i then none else
  if !((r.members i).map (·.1)).contains ctr then none else
  let ms := (r.members i).filter (fun m => m.1 != ctr)
  let r1 : RState := { r with members := updM r.members i ms }
  if ms.isEmpty then resize r1 i 0 pick else resize r1 i (max 1 (requested ms)) pick

/-- `newBalloon` (index `i` not in use), sized to `MinCpus` -/
def create (r : RState) (i k : Nat) (pick : List Nat) : Option RState :=
  if r.live.contains i then none else
  if !(r.core.cpus i).isEmpty || !(r.members i).isEmpty then none else
  let d := r.defs k
  if d.maxB > 0 ∧ d.maxB ≤ countOf r k then none else
  let r1 : RState := { r with defOf := fun j => if j = i then k else r.defOf j, live := i :: r.live }
  resize r1 i (d.minC * 1000) pick

/-- `freeBalloon` → `deleteBalloon`: only an empty balloon above the type's MinBalloons goes away -/
def delete (r : RState) (i : Nat) : Option RState :=
  if !r.live.contains i then none else
  if !(r.members i).isEmpty then none else
  if countOf r (r.defOf i) ≤ (r.defs (r.defOf i)).minB then none else
  some { r with core := deleteBalloon r.core i, live := r.live.filter (· != i) }

end Nri.Balloons
