/-
Accounting core of the balloons policy (cmd/plugins/balloons/policy/balloons-policy.go:
resizeBalloon inflate/deflate, newBalloon, deleteBalloon/freeBalloon, shareIdleCpus,
updatePinning).  CPUs move between the free set and the balloons; which CPUs are picked is the
CPU allocator's choice (C08) and enters as an oracle argument that the step validates exactly as
far as the allocator's contract guarantees it (the pick comes from the set it was given).
Balloons are addressed by index; `cpus i = []` for indices not in use.
-/
namespace Nri.Balloons

structure BState where
  allowed : List Nat
  free : List Nat
  cpus : Nat → List Nat

def setCpus (s : BState) (i : Nat) (v : List Nat) : Nat → List Nat := fun j => if j = i then v else s.cpus j

/-- inflate balloon `i` with `add`, which the allocator picked from the free CPUs -/
def inflate (s : BState) (i : Nat) (add : List Nat) : Option BState :=
  if add.all (s.free.contains ·) then
    some { s with free := s.free.filter (fun c => !add.contains c), cpus := setCpus s i (s.cpus i ++ add.filter (fun c => !(s.cpus i).contains c)) }
  else none

/-- deflate balloon `i` by `rem`, picked from the balloon's own CPUs -/
def deflate (s : BState) (i : Nat) (rem : List Nat) : Option BState :=
  if rem.all ((s.cpus i).contains ·) then
    some { s with free := s.free ++ (rem.filter (fun c => !s.free.contains c)), cpus := setCpus s i ((s.cpus i).filter (fun c => !rem.contains c)) }
  else none

/-- deleting a balloon returns all of its CPUs -/
def deleteBalloon (s : BState) (i : Nat) : BState :=
  { s with free := s.free ++ ((s.cpus i).filter (fun c => !s.free.contains c)), cpus := setCpus s i [] }

def initB (allowed : List Nat) : BState := ⟨allowed, allowed, fun _ => []⟩

/-- the partition invariant of the property -/
structure Inv (s : BState) : Prop where
  owned_allowed : ∀ i c, c ∈ s.cpus i → c ∈ s.allowed
  owned_not_free : ∀ i c, c ∈ s.cpus i → c ∉ s.free
  disjoint : ∀ i j c, i ≠ j → c ∈ s.cpus i → c ∉ s.cpus j
  free_allowed : ∀ c, c ∈ s.free → c ∈ s.allowed
  cover : ∀ c, c ∈ s.allowed → c ∈ s.free ∨ ∃ i, c ∈ s.cpus i

/-- `shareIdleCpus` as a specification: the idle, non-isolated CPUs inside the balloon's sharing scope -/
def sharedSpec (s : BState) (isolated : List Nat) (scope : List Nat) : List Nat :=
  s.free.filter (fun c => scope.contains c && !isolated.contains c)

/-- what a container of balloon `i` is pinned to -/
def pinned (s : BState) (i : Nat) (isolated scope : List Nat) : List Nat := s.cpus i ++ sharedSpec s isolated scope

end Nri.Balloons
