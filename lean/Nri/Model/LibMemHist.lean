import Nri.Model.LibMem
/-!
Histories of allocator operations (used by the history theorems of C06, C07, C09, C04).
`Commit` is not an operation here: an offer is caller-held data; what committing one does is
stated separately (`stale_offer_refused`, `commit_fresh_eq_allocate`, `late_commit_*`).
-/
namespace Nri.LibMem

inductive Op where
  | allocate (r : Req)
  | getOffer (r : Req)
  | realloc (id : String) (nodes : Mask) (types : Nat)
  | release (id : String)

def St.step (s : St) : Op → St
  | .allocate r => (s.Allocate r).1
  | .getOffer r => (s.GetOffer r).1
  | .realloc id nodes types => (s.Realloc id nodes types).1
  | .release id => (s.Release id).1

def St.run (s : St) (ops : List Op) : St := ops.foldl St.step s

end Nri.LibMem
