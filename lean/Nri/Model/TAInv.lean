import Nri.Model.K8sRes
/-
Topology-aware policy: the CPU eligibility rules (`cpuAllocationPreferences`), and the state
invariants of properties C01/C03/C04/C09/C12 as executable predicates over a policy snapshot
(pools with total and free supplies and granted counters; grants) and the per-container
resources told to the runtime.  The same predicates are (a) what the theorems of the accounting
model (`Nri.Model.TopoAware`) establish and (b) what the driver evaluates on every snapshot of
the real policy.
-/
namespace Nri.TA

inductive CpuType where
  | normal | reserved | preserve
  deriving DecidableEq, Repr

structure Prefs where
  full : Nat
  fraction : Nat
  isolate : Bool
  cpuType : CpuType
  deriving DecidableEq, Repr

/-- `cpuAllocationPreferences`. `qos`: 0 Guaranteed, 1 Burstable, 2 BestEffort. Annotation
values are `some b` when effectively annotated with a parsable boolean; `cfg*` the configured
defaults (`none` = not configured). -/
def cpuPrefs (qos milli : Nat) (reservedNs preserveCpu : Bool) (reservedAnn sharedAnn isolatedAnn cfgShared cfgIsolated : Option Bool) : Prefs :=
  if preserveCpu then ⟨0, milli, false, .preserve⟩
  else if reservedAnn == some true then ⟨0, milli, false, .reserved⟩
  else if reservedNs && reservedAnn.isNone then ⟨0, milli, false, .reserved⟩
  else if qos == 1 then ⟨0, milli, false, .normal⟩
  else if qos == 2 then ⟨0, 0, false, .normal⟩
  else
    let cores := milli / 1000
    let fraction := milli % 1000
    let preferShared := match sharedAnn with | some b => b | none => cfgShared.getD false
    let sharedAnnotated := sharedAnn.isSome
    let preferIsolated := match isolatedAnn with | some b => b | none => cfgIsolated.getD false
    let isolatedAnnotated := isolatedAnn.isSome
    if cores == 0 then ⟨0, fraction, false, .normal⟩
    else if cores < 2 then
      if preferShared then ⟨0, 1000 * cores + fraction, false, .normal⟩
      else ⟨cores, fraction, preferIsolated, .normal⟩
    else if fraction > 0 then
      if !preferShared && sharedAnnotated then ⟨cores, fraction, preferIsolated, .normal⟩
      else ⟨0, 1000 * cores + fraction, false, .normal⟩
    else if preferShared then ⟨0, 1000 * cores, false, .normal⟩
    else ⟨cores, 0, preferIsolated && isolatedAnnotated, .normal⟩

/-! ### snapshots -/

structure PoolSnap where
  name : String
  parent : String
  isolated : List Nat      -- total supply
  reserved : List Nat
  sharable : List Nat
  freeIsolated : List Nat
  freeSharable : List Nat
  grantedShared : Int      -- local counters
  grantedReserved : Int
  subtreeShared : Int
  subtreeReserved : Int
  deriving Repr, DecidableEq

structure GrantSnap where
  ctr : String
  pool : String
  cpuType : CpuType
  exclusive : List Nat
  isolatedPart : List Nat
  cpuPortion : Int
  sharedPortion : Int
  reservedPortion : Int
  allocZone : Option Nat   -- libmem AssignedZone (mask), if any
  grantZone : Nat
  deriving Repr, DecidableEq

structure Snap where
  allowed : List Nat
  reserved : List Nat
  isolated : List Nat
  pinCPU : Bool
  pinMem : Bool
  pools : List PoolSnap
  grants : List GrantSnap
  deriving Repr

def disj (a b : List Nat) : Bool := a.all (fun x => !b.contains x)
def sub (a b : List Nat) : Bool := a.all (b.contains ·)

/-- C01 (a),(c): exclusive CPUs are pairwise disjoint between grants and in no pool's free
sharable or free isolated set. -/
def exclusiveInv (s : Snap) : List String :=
  let errs : List String := []
  let errs := s.grants.foldl (fun errs g => s.grants.foldl (fun errs h =>
    if g.ctr < h.ctr && !disj g.exclusive h.exclusive then errs ++ [s!"C01:exclusive-overlap {g.ctr} {h.ctr}"] else errs) errs) errs
  s.grants.foldl (fun errs g => s.pools.foldl (fun errs p =>
    if !disj g.exclusive p.freeSharable || !disj g.exclusive p.freeIsolated then
      errs ++ [s!"C01:exclusive-in-free-set {g.ctr} pool {p.name}"] else errs) errs) errs

/-- C03 (1): subtree-granted shared capacity fits the pool's remaining shared CPUs; likewise
reserved. -/
def capacityInv (s : Snap) : List String :=
  s.pools.foldl (fun errs p =>
    let errs := if p.subtreeShared > 1000 * (p.freeSharable.length : Int) then
      errs ++ [s!"C03:shared-oversubscribed pool {p.name} granted {p.subtreeShared} free cpus {p.freeSharable.length}"] else errs
    let errs := if p.subtreeReserved > 1000 * (p.reserved.length : Int) then
      errs ++ [s!"C03:reserved-oversubscribed pool {p.name} granted {p.subtreeReserved} reserved cpus {p.reserved.length}"] else errs
    if p.grantedShared < 0 || p.grantedReserved < 0 then errs ++ [s!"C03:negative-counter pool {p.name}"] else errs) []

/-- C03 (4) ledger: a pool's local counters are the sums over the grants at that pool. -/
def ledgerInv (s : Snap) : List String :=
  s.pools.foldl (fun errs p =>
    let gs := s.grants.filter (·.pool == p.name)
    let sh := (gs.map (·.sharedPortion)).foldl (· + ·) 0
    let rs := (gs.map (·.reservedPortion)).foldl (· + ·) 0
    if sh != p.grantedShared || rs != p.grantedReserved then
      errs ++ [s!"C03:ledger pool {p.name} counters {p.grantedShared}/{p.grantedReserved} grants {sh}/{rs}"] else errs) []

/-- kubelet encoding of the granted capacity: portion if non-zero else 1000 per exclusive CPU -/
def expectedShares (g : GrantSnap) : Nat :=
  let portion := if g.cpuType == .reserved then g.reservedPortion else g.sharedPortion
  let milli := if portion == 0 then 1000 * g.exclusive.length else portion.toNat
  Nri.K8s.milliCPUToShares milli

/-- C13: the policy state after re-applying an unchanged configuration is the state before it:
same pools with the same free CPU sets and counters, same grants (pool, class, exclusive CPUs,
portions); memory zones are reported under a class of their own. -/
def unchangedInv (a b : Snap) : List String :=
  let same (x y : List Nat) : Bool := x.all (y.contains ·) && y.all (x.contains ·)
  let errs : List String := []
  let errs := if a.pools.length != b.pools.length then errs ++ ["C13:unchanged-config-changed-policy-state pool-count"] else errs
  let errs := a.pools.foldl (fun errs p =>
    match b.pools.find? (·.name == p.name) with
    | none => errs ++ [s!"C13:unchanged-config-changed-policy-state pool {p.name} disappeared"]
    | some q =>
      if !(same p.freeIsolated q.freeIsolated && same p.freeSharable q.freeSharable && p.grantedShared == q.grantedShared && p.grantedReserved == q.grantedReserved
           && same p.isolated q.isolated && same p.sharable q.sharable && same p.reserved q.reserved && p.parent == q.parent) then
        errs ++ [s!"C13:unchanged-config-changed-policy-state pool {p.name}: free {p.freeIsolated}/{p.freeSharable} counters {p.grantedShared}/{p.grantedReserved} -> {q.freeIsolated}/{q.freeSharable} {q.grantedShared}/{q.grantedReserved}"]
      else errs) errs
  let errs := if a.grants.length != b.grants.length then errs ++ ["C13:unchanged-config-changed-policy-state grant-count"] else errs
  a.grants.foldl (fun errs g =>
    match b.grants.find? (·.ctr == g.ctr) with
    | none => errs ++ [s!"C13:unchanged-config-changed-policy-state grant of {g.ctr} disappeared"]
    | some h =>
      let errs := if !(g.pool == h.pool && g.cpuType == h.cpuType && same g.exclusive h.exclusive && g.cpuPortion == h.cpuPortion
                       && g.sharedPortion == h.sharedPortion && g.reservedPortion == h.reservedPortion) then
        errs ++ [s!"C13:unchanged-config-changed-policy-state grant of {g.ctr}: {g.pool} {g.exclusive} {g.cpuPortion} -> {h.pool} {h.exclusive} {h.cpuPortion}"] else errs
      if g.grantZone != h.grantZone then errs ++ [s!"C13:unchanged-config-changed-memory-zone {g.ctr}: {g.grantZone} -> {h.grantZone}"] else errs) errs

end Nri.TA
