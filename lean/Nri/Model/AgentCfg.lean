/-
Model of the configuration precedence logic of pkg/agent/agent.go
(updateNodeConfig, updateGroupConfig, updateConfig, sameConfigVersion).
A configuration object is (uid, generation, valid); `valid` is the outcome of its
`Validate()` (objects that do not implement Validator are valid).  `notifyFn` is modelled as
recording the delivered object (its error result does not influence the agent's state).
-/
namespace Nri.AgentCfg

structure Cfg where
  uid : Nat
  gen : Nat
  valid : Bool
  deriving DecidableEq, Repr

structure St where
  nodeCfg : Option Cfg := none
  groupCfg : Option Cfg := none
  currentCfg : Option Cfg := none
  delivered : List Cfg := []          -- every notifyFn call, oldest first
  deriving DecidableEq, Repr

inductive Ev where
  | node (c : Option Cfg)    -- Added/Modified (some) or Deleted (none) on the node-specific watch
  | group (c : Option Cfg)   -- same on the group/default watch
  deriving DecidableEq, Repr

/-- `sameConfigVersion`. Generation 0 (a config read from a file) never counts as the same. -/
def sameVersion : Option Cfg → Option Cfg → Bool
  | none, none => true
  | some a, some b => a.uid == b.uid && a.gen == b.gen && a.gen != 0
  | _, _ => false

/-- `updateConfig`. -/
def updateConfig (s : St) : Option Cfg → St
  | none => s
  | some c =>
    if c.valid then { s with currentCfg := some c, delivered := s.delivered ++ [c] }
    else { s with currentCfg := some c }

def step (s : St) : Ev → St
  | .node c =>
    if sameVersion c s.nodeCfg then s
    else
      let s := { s with nodeCfg := c }
      updateConfig s (match c with | some x => some x | none => s.groupCfg)
  | .group c =>
    if sameVersion c s.groupCfg then s
    else
      let s := { s with groupCfg := c }
      if s.nodeCfg.isSome then s else updateConfig s c

def run (evs : List Ev) : St := evs.foldl step {}

/-- the configuration that is in force: node-specific if it exists, else group/default. -/
def effective (s : St) : Option Cfg :=
  match s.nodeCfg with
  | some c => some c
  | none => s.groupCfg

end Nri.AgentCfg
