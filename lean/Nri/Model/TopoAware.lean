import Nri.Model.TAInv
/-
Accounting core of the topology-aware policy (resources.go: supply.AllocateCPU, ReleaseCPU,
AccountAllocateCPU/AccountReleaseCPU over subtree and ancestors, AllocatableSharedCPU).

The pool tree is static data: per pool its total isolated/reserved/sharable CPUs, its parent,
and `related i j` ("j is a strict descendant or a strict ancestor of i").  Heuristic choices
(which pool, which CPUs the CPU allocator picks) are oracle arguments: `alloc` takes the pool
index and the exclusive CPU set and checks exactly what the code checks.
-/
namespace Nri.TA

structure PoolT where
  parent : Option Nat
  totIsolated : List Nat
  totSharable : List Nat
  reserved : List Nat
  deriving Repr, DecidableEq

structure PoolS where
  isolated : List Nat       -- free isolated CPUs
  sharable : List Nat       -- free sharable CPUs
  grantedShared : Int
  grantedReserved : Int
  deriving Repr, DecidableEq

structure Grant where
  ctr : String
  pool : Nat
  cpuType : CpuType
  exclusive : List Nat
  portion : Nat
  deriving Repr, DecidableEq

/-- pools are addressed by index `0 … tree.length-1`; the dynamic part is a function of the index -/
structure TA where
  tree : List PoolT
  pools : Nat → PoolS
  grants : List Grant

def rm (a b : List Nat) : List Nat := a.filter (fun x => !b.contains x)
def inter (a b : List Nat) : List Nat := a.filter (fun x => b.contains x)
def uni (a b : List Nat) : List Nat := a ++ b.filter (fun x => !a.contains x)

/-- ancestors of pool `i` (nearest first) -/
def ancestors (tree : List PoolT) : Nat → Nat → List Nat
  | 0, _ => []
  | fuel+1, i =>
    match (tree[i]?).bind (·.parent) with
    | some p => p :: ancestors tree fuel p
    | none => []

def isAnc (tree : List PoolT) (a i : Nat) : Bool := (ancestors tree tree.length i).contains a
/-- `j` is a strict descendant or strict ancestor of `i` -/
def related (tree : List PoolT) (i j : Nat) : Bool := isAnc tree j i || isAnc tree i j

def sharedPortion (g : Grant) : Int := if g.cpuType == .normal then g.portion else 0
def reservedPortion (g : Grant) : Int := if g.cpuType == .reserved then g.portion else 0

/-- `node.GrantedSharedCPU()`: the pool's own counter plus its descendants' -/
def subtreeShared (t : TA) (i : Nat) : Int :=
  ((List.range t.tree.length).filter (fun j => j == i || isAnc t.tree i j)).foldl (fun a j => a + (t.pools j).grantedShared) 0

def subtreeReserved (t : TA) (i : Nat) : Int :=
  ((List.range t.tree.length).filter (fun j => j == i || isAnc t.tree i j)).foldl (fun a j => a + (t.pools j).grantedReserved) 0

/-- `AllocatableSharedCPU`: free shared milli-CPU of the pool, capped by every ancestor's -/
def allocatableShared (t : TA) (i : Nat) : Int :=
  let own := fun (j : Nat) => 1000 * ((t.pools j).sharable.length : Int) - subtreeShared t j
  (ancestors t.tree t.tree.length i).foldl (fun m a => if own a < m then own a else m) (own i)

def allocatableReserved (t : TA) (i : Nat) : Int :=
  let own := fun (j : Nat) => 1000 * (((t.tree[j]?).map (·.reserved.length)).getD 0 : Int) - subtreeReserved t j
  (ancestors t.tree t.tree.length i).foldl (fun m a => if own a < m then own a else m) (own i)

def setPool (t : TA) (i : Nat) (f : PoolS → PoolS) : TA :=
  { t with pools := fun j => if j == i then f (t.pools j) else t.pools j }

/-- `grant.AccountAllocateCPU()`: remove the exclusive CPUs from the free sets of every pool in
the subtree and of every ancestor (the grant's own pool was updated by `takeCPUs`). -/
def accountAllocate (t : TA) (i : Nat) (excl : List Nat) : TA :=
  { t with pools := fun j =>
      if related t.tree i j then { (t.pools j) with isolated := rm (t.pools j).isolated excl, sharable := rm (t.pools j).sharable excl } else t.pools j }

/-- `grant.AccountReleaseCPU()`: put back what each related pool owns of the exclusive CPUs. -/
def accountRelease (t : TA) (i : Nat) (excl : List Nat) : TA :=
  { t with pools := fun j =>
      match t.tree[j]? with
      | some pt =>
        if related t.tree i j then
          { (t.pools j) with isolated := uni (t.pools j).isolated (inter excl pt.totIsolated),
                             sharable := uni (t.pools j).sharable (inter excl pt.totSharable) }
        else t.pools j
      | none => t.pools j }

inductive AllocErr where
  | noPool | cannotSlice | notEnoughShared | notEnoughReserved | badOracle
  deriving DecidableEq, Repr

/-- the two request adjustments at the top of `AllocateCPU`: reserved requests take no exclusive
CPUs, and fall back to normal CPUs when the reserved capacity does not suffice -/
def normReq (t : TA) (i full fraction : Nat) (cpuType : CpuType) : Nat × Nat × CpuType :=
  let ff : Nat × Nat := if cpuType == .reserved && full > 0 then (0, fraction + full * 1000) else (full, fraction)
  let ct := if cpuType == .reserved && ff.2 > 0 && allocatableReserved t i < ff.2 then CpuType.normal else cpuType
  (ff.1, ff.2, ct)

/-- the `switch` of `AllocateCPU`: take `full` isolated CPUs, or slice them off the sharable
set, at the pool itself; `excl` is the CPU allocator's pick -/
def takeExclusive (t : TA) (i full : Nat) (isolate : Bool) (excl : List Nat) : Except AllocErr TA :=
  let p := t.pools i
  if full > 0 && p.isolated.length ≥ full && isolate then
    if excl.length == full && excl.Nodup && excl.all (p.isolated.contains ·) then
      .ok (setPool t i fun q => { q with isolated := rm q.isolated excl })
    else .error .badOracle
  else if full > 0 && allocatableShared t i > 1000 * full then
    if excl.length == full && excl.Nodup && excl.all (p.sharable.contains ·) then
      .ok (setPool t i fun q => { q with sharable := rm q.sharable excl })
    else .error .badOracle
  else if full > 0 then .error .cannotSlice
  else if excl.isEmpty then .ok t else .error .badOracle

/-- the fractional part: capacity check against the pool and all its ancestors, then the counter -/
def addPortion (t2 : TA) (ctr : String) (i fraction : Nat) (cpuType : CpuType) (excl : List Nat) : Except AllocErr (TA × Grant) :=
  if fraction > 0 && cpuType == .normal then
    if allocatableShared t2 i < fraction then .error .notEnoughShared
    else .ok (setPool t2 i (fun q => { q with grantedShared := q.grantedShared + fraction }), ⟨ctr, i, cpuType, excl, fraction⟩)
  else if fraction > 0 && cpuType == .reserved then
    if allocatableReserved t2 i < fraction then .error .notEnoughReserved
    else .ok (setPool t2 i (fun q => { q with grantedReserved := q.grantedReserved + fraction }), ⟨ctr, i, cpuType, excl, fraction⟩)
  else .ok (t2, ⟨ctr, i, cpuType, excl, if cpuType == .preserve then fraction else 0⟩)

/-- `supply.AllocateCPU` at pool `i` for a request `(full, fraction, isolate, cpuType)`; `excl` is
the CPU allocator's pick (oracle). Returns the new state and the effective grant. -/
def alloc (t : TA) (ctr : String) (i : Nat) (full fraction : Nat) (isolate : Bool) (cpuType : CpuType) (excl : List Nat) :
    Except AllocErr (TA × Grant) :=
  if i ≥ t.tree.length then .error .noPool else
  let r := normReq t i full fraction cpuType
  match takeExclusive t i r.1 isolate excl with
  | .error e => .error e
  | .ok t1 => addPortion (accountAllocate t1 i excl) ctr i r.2.1 r.2.2 excl

/-- `supply.ReleaseCPU(g)` (+ `AccountReleaseCPU`) -/
def release (t : TA) (g : Grant) : TA :=
  match t.tree[g.pool]? with
  | none => t
  | some pt =>
    let iso := inter g.exclusive pt.totIsolated
    let sh := rm g.exclusive iso
    let t1 := setPool t g.pool fun q =>
      { q with isolated := uni q.isolated iso, sharable := uni q.sharable sh,
               grantedReserved := q.grantedReserved - reservedPortion g, grantedShared := q.grantedShared - sharedPortion g }
    accountRelease t1 g.pool g.exclusive

def addGrant (t : TA) (g : Grant) : TA := { t with grants := t.grants ++ [g] }
def dropGrant (t : TA) (ctr : String) : TA := { t with grants := t.grants.filter (·.ctr != ctr) }

/-- the pristine state for a tree -/
def initTA (tree : List PoolT) : TA :=
  { tree, pools := fun j => match tree[j]? with | some p => ⟨p.totIsolated, p.totSharable, 0, 0⟩ | none => ⟨[], [], 0, 0⟩, grants := [] }

end Nri.TA

namespace Nri.TA

/-- the cpuset `applyGrant` pins a grant's container to (`none` = CPU pinning skipped): the pool's
free sharable set for a shared grant, the exclusive CPUs (plus the sharable set if the grant also
has a fractional portion) for an exclusive one, the pool's reserved CPUs for a reserved-class
grant, nothing for `cpu.preserve` -/
def pinOf (t : TA) (g : Grant) : Option (List Nat) :=
  match g.cpuType with
  | .normal =>
    if g.exclusive.isEmpty then some (t.pools g.pool).sharable
    else if g.portion > 0 then some (uni g.exclusive (t.pools g.pool).sharable)
    else some g.exclusive
  | .reserved => some (match t.tree[g.pool]? with | some pt => pt.reserved | none => [])
  | .preserve => none

/-- the grants `updateSharedAllocations` re-pins after another container's allocation or release:
not reserved-class, not preserve, and not purely exclusive ones -/
def refreshed (g : Grant) : Bool :=
  g.cpuType == .normal && !(g.portion == 0 && !g.exclusive.isEmpty)

end Nri.TA
