/-
Model of the cache's persistence protocol (pkg/resmgr/cache/cache.go: Save, Load, NewCache's
checkPerm/mkdirAll).

The state directory holds two files: the snapshot file (`cache`) and the temporary file
(`cache.saving`).  File contents are abstract byte lists.  `Save` is the system-call program

    open(tmp, O_WRONLY|O_CREATE|O_TRUNC) ; write(tmp, data) ; close ; rename(tmp, cache)

(`os.WriteFile` + `os.Rename`, regenerated as facts by tools/extract).  A crash (kill, or a
failing write/rename) stops the program after any prefix of it; a write may also be cut after
any number of bytes.
-/
namespace Nri.SaveFs

abbrev Bytes := List Nat

structure Fs where
  cache : Option Bytes
  tmp : Option Bytes
  deriving Repr, DecidableEq

inductive Sys where
  | openTrunc            -- open(tmp, O_CREATE|O_TRUNC)
  | openNoTrunc          -- open(tmp, O_CREATE) - NOT what the code does; used for the refutation
  | write (d : Bytes)    -- write d at the current offset of the freshly opened tmp (offset 0)
  | close
  | rename               -- rename(tmp, cache)
  deriving Repr, DecidableEq

/-- overwrite the head of `old` with `d` (a write at offset 0 into an existing file) -/
def overwrite (old d : Bytes) : Bytes := d ++ old.drop d.length

def exec (fs : Fs) : Sys → Fs
  | .openTrunc => { fs with tmp := some [] }
  | .openNoTrunc => { fs with tmp := some (fs.tmp.getD []) }
  | .write d => { fs with tmp := some (overwrite (fs.tmp.getD []) d) }
  | .close => fs
  | .rename => match fs.tmp with
    | some t => { cache := some t, tmp := none }
    | none => fs

def run (fs : Fs) (p : List Sys) : Fs := p.foldl exec fs

/-- the program of `Save` for snapshot `data` -/
def saveProg (data : Bytes) : List Sys := [.openTrunc, .write data, .close, .rename]

/-- every state a crash can leave behind: the program stopped after `n` complete system calls,
with the `write` cut after `k` bytes if it was the call being executed -/
def crashed (fs : Fs) (data : Bytes) (n k : Nat) : Fs :=
  match n with
  | 0 => fs
  | 1 => run fs [.openTrunc, .write (data.take k)]       -- killed inside (or right before) the write
  | 2 => run fs [.openTrunc, .write data]
  | 3 => run fs [.openTrunc, .write data, .close]
  | _ => run fs (saveProg data)

/-- one save of a history: completes, or crashes at point (n, k) -/
structure SaveOp where
  data : Bytes
  crash : Option (Nat × Nat)

def stepSave (fs : Fs) (o : SaveOp) : Fs :=
  match o.crash with
  | none => run fs (saveProg o.data)
  | some (n, k) => crashed fs o.data n k

/-- did the save get as far as the rename? -/
def SaveOp.completed (o : SaveOp) : Bool :=
  match o.crash with
  | none => true
  | some (n, _) => n ≥ 4

/-! ### permission / file-type checks (checkPerm) -/

inductive Kind where
  | absent | symlink | dir | regular | other
  deriving Repr, DecidableEq

inductive Verdict where
  | notThere | accept | refuse
  deriving Repr, DecidableEq

/-- `checkPerm(what, path, isDir, p)`: Lstat, symlink check, type check, rejected permission bits -/
def checkPerm (isDir : Bool) (kind : Kind) (mode reject : Nat) : Verdict :=
  match kind with
  | .absent => .notThere
  | .symlink => .refuse
  | .dir => if isDir then (if mode &&& reject != 0 then .refuse else .accept) else .refuse
  | .regular => if isDir then .refuse else (if mode &&& reject != 0 then .refuse else .accept)
  | .other => .refuse

/-- NewCache: cache file check, then the cache directory, then the container data directory -/
def newCacheAccepts (fileKind : Kind) (fileMode : Nat) (dirKind : Kind) (dirMode : Nat)
    (dataKind : Kind) (dataMode : Nat) (rejFile rejDir rejData : Nat) : Bool :=
  checkPerm false fileKind fileMode rejFile != .refuse &&
  checkPerm true dirKind dirMode rejDir != .refuse &&
  checkPerm true dataKind dataMode rejData != .refuse

end Nri.SaveFs
