/-
Model of restart + Synchronize (pkg/resmgr/nri.go syncWithNRI, pkg/resmgr/cache/cache.go
RefreshPods / RefreshContainers): the cache loaded from disk is an arbitrary list of pods and
containers with arbitrary (possibly intermediate) states; the runtime reports its pods and
containers with their states.
-/
namespace Nri.Sync

/-- container states as in NRI; `creating` is the cache's own intermediate state -/
inductive CState where
  | creating | unknown | created | paused | running | stopped
  deriving DecidableEq, Repr

structure Ctr where
  id : String
  pod : String
  state : CState
  deriving DecidableEq, Repr

structure Cache where
  pods : List String
  ctrs : List Ctr
  deriving Repr, DecidableEq

def live (s : CState) : Bool := s == .created || s == .running

/-- RefreshPods: unknown pods are inserted, unlisted pods purged together with their containers
(returned as stale) -/
def refreshPods (c : Cache) (pods : List String) : Cache × List Ctr :=
  ({ pods := pods, ctrs := c.ctrs.filter (fun k => pods.contains k.pod) },
   c.ctrs.filter (fun k => !pods.contains k.pod))

/-- RefreshContainers: unlisted containers are purged (returned as stale), unknown ones inserted
(when their pod is known), known ones take the state the runtime reports -/
def refreshCtrs (c : Cache) (rt : List Ctr) : Cache × List Ctr :=
  let kept := c.ctrs.filterMap (fun k => (rt.find? (·.id == k.id)).map (fun r => { k with state := r.state }))
  let ins := rt.filter (fun r => !c.ctrs.any (·.id == r.id) && c.pods.contains r.pod)
  ({ c with ctrs := kept ++ ins }, c.ctrs.filter (fun k => !rt.any (·.id == k.id)))

/-- the pre-fix RefreshContainers: known containers keep whatever state was saved last -/
def refreshCtrsStale (c : Cache) (rt : List Ctr) : Cache × List Ctr :=
  let kept := c.ctrs.filter (fun k => rt.any (·.id == k.id))
  let ins := rt.filter (fun r => !c.ctrs.any (·.id == r.id) && c.pods.contains r.pod)
  ({ c with ctrs := kept ++ ins }, c.ctrs.filter (fun k => !rt.any (·.id == k.id)))

structure Result where
  cache : Cache
  allocated : List Ctr
  released : List Ctr

/-- syncWithNRI: refresh, then classify every cached container by state -/
def sync (c : Cache) (pods : List String) (rt : List Ctr) : Result :=
  let (c1, stale1) := refreshPods c pods
  let (c2, stale2) := refreshCtrs c1 rt
  { cache := c2,
    allocated := c2.ctrs.filter (fun k => live k.state),
    released := stale1 ++ stale2 ++ c2.ctrs.filter (fun k => live k.state || k.state == .stopped) }

def syncStale (c : Cache) (pods : List String) (rt : List Ctr) : Result :=
  let (c1, stale1) := refreshPods c pods
  let (c2, stale2) := refreshCtrsStale c1 rt
  { cache := c2,
    allocated := c2.ctrs.filter (fun k => live k.state),
    released := stale1 ++ stale2 ++ c2.ctrs.filter (fun k => live k.state || k.state == .stopped) }

end Nri.Sync
