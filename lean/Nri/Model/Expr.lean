/-
Model of match expressions (pkg/apis/resmgr/v1alpha1/expression.go), the subjects'
`EvalKey` (pkg/resmgr/cache/container.go, pod.go), affinity weight clamping
(pkg/resmgr/cache/affinity.go) and balloon-type selection (balloons-policy.go).

External parameters (theorems hold for every function in their place):
* `glob : pattern → value → Bool` = `filepath.Match` (false on a malformed pattern, as the
  code discards the error);
* `clean : String → String` = `path.Clean` (the harness ships the Go results).
Keys are ASCII (Go indexes bytes in `splitKeys`).
-/
namespace Nri.Expr

inductive Op where
  | equals | notEqual | in_ | notIn | exists_ | notExist | alwaysTrue
  | matches | matchesNot | matchesAny | matchesNone | unknown
  deriving DecidableEq, Repr

structure Expr where
  key : String
  op : Op
  values : List String
  deriving DecidableEq, Repr

abbrev SMap := List (String × String)
def mget (m : SMap) (k : String) : Option String := (m.find? (·.1 == k)).map (·.2)

structure Pod where
  name : String
  ns : String
  qosclass : String
  id : String
  uid : String
  labels : SMap
  deriving DecidableEq, Repr

structure Ctr where
  name : String
  ns : String
  qosclass : String
  id : String
  labels : SMap
  tags : SMap
  pod : Option Pod          -- `none`: the pod lookup fails
  deriving DecidableEq, Repr

/-- what `EvalKey` can return -/
inductive Obj where
  | str (s : String)
  | map (m : SMap)
  | pod (p : Pod)
  | qos (s : String)        -- a `v1.PodQOSClass`: a string-kinded value that is not `string`
  | err
  deriving DecidableEq, Repr

/-- pod.EvalKey. `qosIsString` reflects whether the code converts the QoS class to `string`
(regenerated fact; true after the repair). -/
def Pod.evalKey (qosIsString : Bool) (p : Pod) : String → Obj
  | "name" => .str p.name
  | "namespace" => .str p.ns
  | "qosclass" => if qosIsString then .str p.qosclass else .qos p.qosclass
  | "labels" => .map p.labels
  | "id" => .str p.id
  | "uid" => .str p.uid
  | _ => .err

/-- container.EvalKey -/
def Ctr.evalKey (c : Ctr) : String → Obj
  | "pod" => match c.pod with | some p => .pod p | none => .err
  | "name" => .str c.name
  | "namespace" => .str c.ns
  | "qosclass" => .str c.qosclass
  | "labels" => .map c.labels
  | "tags" => .map c.tags
  | "id" => .str c.id
  | _ => .err

inductive Res where
  | found (v : String)
  | absent               -- `"", false, nil`
  | err                  -- `"", false, error`
  deriving DecidableEq, Repr

/-- Go's `rest == ""` after `strings.Cut(key, "/")`, on the `/`-separated segments of `key`. -/
def restEmpty (rest : List String) : Bool := rest.isEmpty || rest == [""]

/-- the loop of `ResolveRef` below the container, on the remaining segments of the cleaned key. -/
def loopSegs (qosIsString : Bool) : Obj → List String → Res
  | .pod p, pref :: rest =>
    let obj' := p.evalKey qosIsString pref
    if restEmpty rest then (match obj' with | .str s => .found s | _ => .err)
    else loopSegs qosIsString obj' rest
  | .map m, segs =>
    match mget m ("/".intercalate segs) with
    | none => .absent
    | some v => .found v
  | _, _ => .err           -- error object, or a string with key left over ("wrong type")

/-- `ResolveRef(container, spec)` on the segments of `path.Clean(spec)`. -/
def resolveSegs (qosIsString : Bool) (c : Ctr) : List String → Res
  | [] => .err
  | pref :: rest =>
    let obj := c.evalKey pref
    if restEmpty rest then (match obj with | .str s => .found s | _ => .err)
    else loopSegs qosIsString obj rest

/-- `key = strings.TrimLeft(path.Clean(spec), "/")`: leading empty segments are dropped
(as `validateKey` does, so that a validated absolute key also resolves). -/
def resolve (qosIsString : Bool) (c : Ctr) (cleanKey : String) : Res :=
  resolveSegs qosIsString c ((cleanKey.splitOn "/").dropWhile (· == ""))

def validSeparator (c : Char) : Bool :=
  !(c.isDigit || c.isLower || c.isUpper || c == '/' || c == '.')

/-- `splitKeys`: (sub keys, value separator) -/
def splitKeys (keys : String) : List String × String :=
  let cs := keys.toList
  if cs.length < 4 || cs.head? != some ':' then ([keys], "") else
  match cs with
  | _ :: k :: v :: rest =>
    if validSeparator k && validSeparator v then
      ((String.ofList rest).splitOn (String.singleton k), String.singleton v)
    else ((String.ofList (k :: v :: rest)).splitOn ":", ":")
  | _ => ([keys], "")

/-- `KeyValue`: value and "found". -/
def keyValue (q : Bool) (clean : String → String) (c : Ctr) (key : String) : String × Bool :=
  let (ks, vsep) := splitKeys key
  match ks with
  | [k] => match resolve q c (clean k) with | .found v => (v, true) | _ => ("", false)
  | _ =>
    let rs := ks.map fun k => match resolve q c (clean k) with | .found v => (v, true) | _ => ("", false)
    (vsep.intercalate (rs.map (·.1)), rs.any (·.2))

/-- some sub key resolves with an *error* (not merely "absent") -/
def keyFails (q : Bool) (clean : String → String) (c : Ctr) (key : String) : Bool :=
  (splitKeys key).1.any fun k => resolve q c (clean k) == .err

def evaluate (q : Bool) (glob : String → String → Bool) (clean : String → String) (e : Expr) (c : Ctr) : Bool :=
  if e.op == .alwaysTrue then true else
  let (value, ok) := keyValue q clean c e.key
  match e.op with
  | .equals => ok && (value == e.values.headD "" || e.values.headD "" == "*")
  | .notEqual => !ok || value != e.values.headD ""
  | .matches => ok && glob (e.values.headD "") value
  | .matchesNot => !(ok && glob (e.values.headD "") value)
  | .in_ => ok && e.values.any (fun v => value == v || v == "*")
  | .notIn => !(ok && e.values.any (fun v => value == v || v == "*"))
  | .matchesAny => ok && e.values.any (fun p => glob p value)
  | .matchesNone => !(ok && e.values.any (fun p => glob p value))
  | .exists_ => ok
  | .notExist => !ok
  | _ => false

/-- the inner `for` of `validateKey` on the segments of one sub key (after `TrimLeft "/"`). -/
def validateSegs : List String → Bool
  | [] => false
  | pref :: rest =>
    if pref ∈ ["id", "uid", "name", "namespace", "qosclass"] then restEmpty rest
    else if pref == "pod" then (if restEmpty rest then false else validateSegs rest)
    else if pref == "labels" || pref == "tags" then !restEmpty rest
    else false

def validateKey (key : String) : Bool :=
  (splitKeys key).1.all fun k =>
    -- `strings.TrimLeft(key, "/")` = dropping the leading empty segments
    match (k.splitOn "/").dropWhile (· == "") with
    | [] => false
    | segs => validateSegs segs

def validate (e : Expr) : Bool :=
  validateKey e.key &&
  match e.op with
  | .equals | .notEqual | .matches | .matchesNot => e.values.length == 1
  | .exists_ | .notExist | .alwaysTrue => e.values.length == 0
  | .in_ | .notIn | .matchesAny | .matchesNone => true
  | .unknown => false

/-! ### affinity weights -/

/-- `a.Weight *= -1` on int32 -/
def negWrap (w : Int) : Int := if w = -2147483648 then -2147483648 else -w

/-- weight handling of `parseFull` followed by `Validate`'s clamp; `w` the annotated weight
(int32), `dflt` the default (±1). -/
def userWeight (w dflt : Int) : Int :=
  let w1 := if w = 0 then dflt else if dflt < 0 then negWrap w else w
  if w1 > 1000 then 1000 else if w1 < -1000 then -1000 else w1

/-! ### balloon type selection -/

structure BalloonDef where
  name : String
  exprs : List Expr
  namespaces : List String
  deriving DecidableEq, Repr

inductive Choice where
  | def_ (name : String)
  | error
  deriving DecidableEq, Repr

/-- `chooseBalloonDef`: `annot` is the container's effective balloon annotation. -/
def chooseBalloonDef (q : Bool) (glob : String → String → Bool) (clean : String → String)
    (defs : List BalloonDef) (dflt : String) (annot : Option String) (c : Ctr) : Choice :=
  match annot with
  | some n => if defs.any (·.name == n) then .def_ n else .error
  | none =>
    match defs.find? (fun d => d.exprs.any (fun e => evaluate q glob clean e c) || d.namespaces.any (fun p => glob p c.ns)) with
    | some d => .def_ d.name
    | none => .def_ dflt

/-- `fillBuiltinBalloonDefs`' list surgery: implicit reserved type first, implicit default last.
The implicit reserved type matches kube-system and the reserved namespaces (added by
`setConfig`: namespaces := reservedNs ++ ["kube-system"]). -/
def fillBuiltin (defs : List BalloonDef) (reservedNamespaces : List String) : List BalloonDef :=
  let defs := if defs.any (·.name == "reserved") then defs else ⟨"reserved", [], []⟩ :: defs
  let defs := if defs.any (·.name == "default") then defs else defs ++ [⟨"default", [], []⟩]
  defs.map fun d => if d.name == "reserved" then { d with namespaces := d.namespaces ++ ["kube-system"] ++ reservedNamespaces } else d

end Nri.Expr
