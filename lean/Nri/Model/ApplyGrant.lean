import Nri.Model.TAInv
/-
Model of what `applyGrant` / `updateSharedAllocations` / the memory-update loops of the
topology-aware policy WRITE to a container (pools.go, resources.go): which cgroup fields are
set, as a function of the configuration (pinCPU, pinMemory) and the grant's classes.
-/
namespace Nri.TA

inductive Field where
  | cpus | mems | shares
  deriving DecidableEq, Repr

/-- the fields `applyGrant` sets for a grant of CPU class `ct` whose memory type is (not)
`memoryPreserve` -/
def applyGrantWrites (pinCPU : Bool) (ct : CpuType) (memPreserve : Bool) : List Field :=
  (if pinCPU then (if ct == .preserve then [] else [Field.cpus]) ++ [Field.shares] else []) ++
  (if memPreserve then [] else [Field.mems])

/-- `updateSharedAllocations`: other grants are re-pinned only if they use shared CPUs and CPU
pinning is on; reserved-class and preserve-class grants are skipped -/
def updateSharedWrites (pinCPU : Bool) (ct : CpuType) (sharedPortion : Nat) : List Field :=
  if ct == .reserved || ct == .preserve then [] else
  if sharedPortion == 0 then [] else
  if pinCPU then [Field.cpus] else []

/-- the value written for `mems`: the grant's memory zone when memory pinning is on, else empty
(= "do not pin"); `zoneString` renders a node mask -/
def memsValue (pinMem : Bool) (zone : Nat) (zoneString : Nat → String) : String :=
  if pinMem then zoneString zone else zoneString 0

/-- applying the allocator's `updates` (container ↦ new zone) to the grants: every named grant
gets the new zone, in the same request -/
def applyZoneUpdates (grants : List (String × Nat)) (updates : List (String × Nat)) : List (String × Nat) :=
  grants.map fun g => match updates.find? (·.1 == g.1) with | some u => (g.1, u.2) | none => g

end Nri.TA

/-! ### balloons policy: what `AllocateResources` / `pinCpuMem` / `allocMem` write to a container -/
namespace Nri.BalloonsPin

open Nri.TA (Field)

/-- `AllocateResources` returns before anything is done for a container that preserves its CPU
resources (annotation) or matches a `preserve` rule of the configuration; otherwise `pinCpuMem`
writes the cpuset and cpu.shares iff CPU pinning is on, and the memory set iff memory pinning is on
for the balloon type (type-level setting overrides the policy-level one) and the container does
not preserve its memory resources -/
def allocateWrites (cpuPreserve ruleMatch pinCPU : Bool) (pinMemPolicy : Bool) (pinMemType : Option Bool) (memPreserve : Bool) : List Field :=
  if cpuPreserve || ruleMatch then [] else
  (if pinCPU then [Field.cpus, Field.shares] else []) ++
  (if pinMemType.getD pinMemPolicy then (if memPreserve then [] else [Field.mems]) else [])

/-- `allocMem`'s loop over the allocator's zone updates for OTHER containers: a container that preserves
its memory resources is skipped -/
def updateWrites (memPreserve : Bool) : List Field := if memPreserve then [] else [Field.mems]

end Nri.BalloonsPin
