/-
Model of pkg/kubernetes/resources.go (CPU shares/quota conversions and the
OOM-score-adjustment -> memory-request estimate table).

All quantities are natural numbers: the property's domain is non-negative
(0..256000 mCPU, shares 2..262144, capacities >= 1 MiB).  Go's int64 `/` on
non-negative operands is floor division, which is `Nat` division.  Negative
inputs are rejected by the driver (never defaulted).

Floats: `int64(float64(a)/float64(b) + 0.5)` is modelled as the exact
`(2*a + b) / (2*b)` (round-half-up of the rational a/b).  DESIGN.md §C20 says why
this equals the float result on the property's domain; the correspondence check
is exhaustive there.
-/
namespace Nri.K8s

structure Consts where
  minShares : Nat
  maxShares : Nat
  sharesPerCPU : Nat
  milliCPUToCPU : Nat
  quotaPeriod : Nat
  minQuotaPeriod : Nat
  minBurstableAdj : Nat
  maxBurstableAdj : Nat
  deriving DecidableEq, Repr

/-- The constants the model (and every theorem) is stated for. -/
def modelConsts : Consts :=
  { minShares := 2, maxShares := 262144, sharesPerCPU := 1024, milliCPUToCPU := 1000,
    quotaPeriod := 100000, minQuotaPeriod := 1000, minBurstableAdj := 3, maxBurstableAdj := 999 }

/-- `MilliCPUToShares`. -/
def milliCPUToShares (m : Nat) : Nat :=
  if m = 0 then 2
  else if m * 1024 / 1000 < 2 then 2
  else if m * 1024 / 1000 > 262144 then 262144
  else m * 1024 / 1000

/-- `SharesToMilliCPU`: `int64(float64(shares*1000)/1024 + 0.5)` = round-half-up. -/
def sharesToMilliCPU (s : Nat) : Nat :=
  if s = 2 then 0 else (2 * (s * 1000) + 1024) / (2 * 1024)

/-- `MilliCPUToQuota` (quota, period). -/
def milliCPUToQuota (m : Nat) : Nat × Nat :=
  if m = 0 then (0, 0)
  else if m * 100000 / 1000 < 1000 then (1000, 100000)
  else (m * 100000 / 1000, 100000)

/-- `QuotaToMilliCPU`. -/
def quotaToMilliCPU (q p : Nat) : Nat :=
  if q = 0 ∨ p = 0 then 0 else (2 * (q * 1000) + p) / (2 * p)

/-! ### OOM score adjustment table -/

/-- `MemReqToOomAdj` as an integer (it can be negative for requests above capacity). -/
def memReqToOomAdj (cap : Nat) (req : Nat) : Int := 1000 - ((1000 * req / cap : Nat) : Int)

/-- The closed form the construction is meant to compute: the smallest request whose
adjustment is `1000 - i`. -/
def smallestReq (cap i : Nat) : Nat := (i * cap + 999) / 1000

inductive StepOut where
  | found (req : Nat)       -- iToReq[i] := req, adjToReq[prevAdj-1] := req
  | notFound                -- first case, loop exits without recording (map entry stays unset)
  | panic
  deriving DecidableEq, Repr

/-- First inner loop: descend while `currAdj < prevAdj`, remembering the last request
whose adjustment is `prevAdj - 1`. -/
def descend (cap : Nat) (prevAdj : Int) : Nat → Nat → Option Nat → Option Nat
  | 0, _, rec => rec
  | fuel+1, cur, rec =>
    if memReqToOomAdj cap cur < prevAdj then
      let rec' := if memReqToOomAdj cap cur = prevAdj - 1 then some cur else rec
      match cur with
      | 0 => rec'            -- Go would continue with cur = -1; unreachable for cap ≥ 1000 (proved)
      | c+1 => descend cap prevAdj fuel c rec'
    else rec

/-- Second inner loop: ascend while `currAdj == prevAdj`. Returns the final `currReq`. -/
def ascend (cap : Nat) (prevAdj : Int) : Nat → Nat → Nat
  | 0, cur => cur
  | fuel+1, cur =>
    if memReqToOomAdj cap cur = prevAdj then ascend cap prevAdj fuel (cur+1) else cur

/-- One iteration of the outer loop for a given previous request and a given value `est`
of the float expression `int64(float64(prevReq) + milliMem + 0.5)`. `fuel = int(milliMem)`. -/
def oomStep (cap fuel prevReq est : Nat) : StepOut :=
  let prevAdj := memReqToOomAdj cap prevReq
  let currAdj := memReqToOomAdj cap est
  if currAdj < prevAdj then
    match descend cap prevAdj fuel est none with
    | some r => .found r
    | none => .notFound
  else if currAdj = prevAdj then
    -- the Go loop checks `currAdj == prevAdj` before the increment; model likewise
    let cur := ascend cap prevAdj fuel est
    if memReqToOomAdj cap cur = prevAdj - 1 then .found cur else .panic
  else .panic

/-- exact value of the float estimate: round-half-up of `prevReq + cap/1000`. -/
def exactEst (cap prevReq : Nat) : Nat := (2000 * prevReq + 2 * cap + 1000) / 2000

/-- The outer loop from index `i` with previous entry `prev`, `n` more entries to compute.
`est i prev` is the value of the float expression in iteration `i` (an oracle: theorems
quantify over every oracle within tolerance). `none` = the construction panicked or left a
hole (the Go code silently leaves the map entry unset in the `notFound` case). -/
def buildFrom (cap fuel : Nat) (est : Nat → Nat → Nat) : Nat → Nat → Nat → Option (List Nat)
  | _, _, 0 => some []
  | i, prev, n+1 =>
    match oomStep cap fuel prev (est i prev) with
    | .found r => (buildFrom cap fuel est (i+1) r n).map (r :: ·)
    | _ => none

/-- The table as the closed form (entry for adjustment `adj`, 1 ≤ 1000-adj ≤ 999). -/
def tableEntry (cap : Nat) (adj : Nat) : Nat := smallestReq cap (1000 - adj)

/-- `OomAdjToMemReq`: `none` = nil. -/
def oomAdjToMemReq (cap : Nat) (oomAdj : Int) (memLimit : Nat) : Option Nat :=
  if oomAdj < 3 ∨ oomAdj > 999 then none
  else
    let req := tableEntry cap oomAdj.toNat
    if req < memLimit ∨ memLimit = 0 then some req else none

end Nri.K8s

namespace Nri.K8s

/-- `estimateResourceRequirements` (pkg/resmgr/cache/utils.go). QoS: 0 Guaranteed, 1 Burstable,
2 BestEffort. Result: (cpu request, cpu limit, memory request, memory limit), `none` = key absent.
A Guaranteed container copies requests<->limits even when absent, which yields a present zero. -/
def estimate (cap qos shares quota period memLimit : Nat) (oomAdj : Int) :
    Option Nat × Option Nat × Option Nat × Option Nat :=
  let cpuReq := if sharesToMilliCPU shares > 0 then some (sharesToMilliCPU shares) else none
  let memLim := if memLimit > 0 then some memLimit else none
  let quotaLim := if quotaToMilliCPU quota period > 0 then some (quotaToMilliCPU quota period) else none
  match qos with
  | 0 => (cpuReq, some (cpuReq.getD 0), some (memLim.getD 0), memLim)
  | 1 =>
    let memReq := match oomAdjToMemReq cap oomAdj memLimit with
      | some r => if r ≠ 0 then some r else none
      | none => none
    (cpuReq, quotaLim, memReq, memLim)
  | _ => (cpuReq, quotaLim, none, memLim)

end Nri.K8s
