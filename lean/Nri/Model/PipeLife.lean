/-
Request-level model of the resource manager's delivery pipeline with the container life cycle
(pkg/resmgr/nri.go: CreateContainer, StartContainer, UpdateContainer, StopContainer,
RemoveContainer, Synchronize, updateContainers, getPendingAdjustment, getPendingUpdates;
pkg/resmgr/cache/container.go: getPendingRequest, GetPendingAdjustment, GetPendingUpdate,
the Set* setters, markPending/ClearPending; pkg/resmgr/cache/cache.go: GetPendingContainers).

What the code does and the model keeps:
* a container's pending request is created by the first setter after the last delivery; its KIND
  is fixed at that moment from the container's state: an adjustment iff the state is `creating`,
  an update otherwise (`getPendingRequest`);
* every setter stores the value in the cache, in the pending request, and marks the container
  pending (`markPending(NRI)`);
* `GetPendingAdjustment` / `GetPendingUpdate` hand the request out only if it has the asked kind,
  and drop it (`c.request = nil`) in either case;
* `getPendingAdjustment` clears the pending mark unconditionally, `getPendingUpdates` walks the
  marked containers, skips the one named by `skip`, and clears the mark only when an update came out;
* CreateContainer inserts the container in state `creating` (replacing an entry with the same id),
  marks the stale instance of the same name `exited`, lets the policy write, fails (state `stale`,
  nothing delivered) or moves to `created` and replies adjustment + updates(skip = itself);
* StopContainer lets the policy write, moves to `exited`, replies updates(skip = itself);
* UpdateContainer / Synchronize / the push after a configuration update reply updates(skip = nil);
* an error reply delivers nothing.
The policy is a parameter: an arbitrary list of writes to arbitrary containers.
Fields are numbered 0..6 (cpus, mems, shares, quota, period, memory limit, swap).
-/
namespace Nri.PipeLife

inductive CState where
  | creating | created | running | exited | stale
  deriving DecidableEq, Repr

inductive Kind where
  | adjustment | update
  deriving DecidableEq, Repr

abbrev Fields := Nat → Option String

structure Ctr where
  id : String
  state : CState
  cache : Nat → String              -- what the cache records
  told : Nat → String               -- the runtime's view (its own values overlaid by our messages)
  req : Option (Kind × Fields)      -- `c.request`
  marked : Bool                     -- id ∈ cch.pending

structure Write where
  ctr : String
  field : Nat
  value : String

structure Msg where
  id : String
  fields : Fields

abbrev St := List Ctr

def isLive (s : CState) : Bool := s == .created || s == .running
def isDead (s : CState) : Bool := s == .exited || s == .stale

def upd (f : Nat → α) (i : Nat) (v : α) : Nat → α := fun j => if j = i then v else f j

/-- a `Set<field>` call on a cache container -/
def setField (c : Ctr) (i : Nat) (v : String) : Ctr :=
  let r : Kind × Fields := match c.req with
    | some r => r
    | none => (if c.state = .creating then .adjustment else .update, fun _ => none)
  { c with cache := upd c.cache i v, req := some (r.1, upd r.2 i (some v)), marked := true }

def applyWrite (s : St) (w : Write) : St :=
  s.map fun c => if c.id = w.ctr then setField c w.field w.value else c

def applyWrites (s : St) (ws : List Write) : St := ws.foldl applyWrite s

/-- what the runtime does with a message -/
def overlay (told : Nat → String) (f : Fields) : Nat → String :=
  fun i => match f i with | some v => v | none => told i

/-- `getPendingAdjustment` for the container being created: the request comes out only if it is
an adjustment; it is dropped and the mark cleared in any case -/
def takeAdjustment (c : Ctr) : Ctr × Option Fields :=
  match c.req with
  | some (.adjustment, f) => ({ c with req := none, marked := false, told := overlay c.told f }, some f)
  | some (.update, _) => ({ c with req := none, marked := false }, none)
  | none => ({ c with req := none, marked := false }, none)

/-- one iteration of `getPendingUpdates` -/
def takeUpdate (skip : Option String) (c : Ctr) : Ctr × Option Msg :=
  if !c.marked then (c, none) else
  if skip = some c.id then (c, none) else
  match c.req with
  | some (.update, f) => ({ c with req := none, marked := false, told := overlay c.told f }, some ⟨c.id, f⟩)
  | some (.adjustment, _) => ({ c with req := none }, none)     -- mismatching type: dropped, stays marked
  | none => (c, none)

def takeUpdates (skip : Option String) (s : St) : St × List Msg :=
  (s.map (fun c => (takeUpdate skip c).1), s.filterMap (fun c => (takeUpdate skip c).2))

def setState (s : St) (id : String) (st : CState) : St :=
  s.map fun c => if c.id = id then { c with state := st } else c

/-- `old.UpdateState(ContainerStateExited)` for the stale instance of the same name -/
def retire (s : St) (old : Option String) (id : String) : St :=
  match old with
  | some o => if o = id then s else setState s o .exited
  | none => s

inductive Reply where
  | ok (adj : Option Fields) (ups : List Msg)
  | err

/-- ids addressed by the updates of a reply (`none` = error reply) -/
def Reply.upIds : Reply → Option (List String)
  | .ok _ ups => some (ups.map (·.id))
  | .err => none

/-- a field of the adjustment of a reply -/
def Reply.adjField (r : Reply) (i : Nat) : Option String :=
  match r with
  | .ok (some adj) _ => adj i
  | _ => none

inductive Ev where
  /-- CreateContainer: runtime's own values `init`, stale instance of the same name `old`, policy
  writes `ws` (release of the stale instance and allocation), success flag of the allocation -/
  | create (id : String) (init : Nat → String) (old : Option String) (ws : List Write) (ok : Bool)
  | start (id : String)
  /-- UpdateContainer (echo or policy writes) -/
  | update (ws : List Write) (ok : Bool)
  | stop (id : String) (ws : List Write) (ok : Bool)
  | remove (id : String)
  /-- Synchronize / push after a configuration update -/
  | push (ws : List Write) (ok : Bool)

def step (s : St) : Ev → St × Reply
  | .create id init old ws ok =>
    let c0 : Ctr := ⟨id, .creating, init, init, none, false⟩
    let s := c0 :: s.filter (fun c => c.id ≠ id)
    let s := applyWrites s ws
    let s := retire s old id
    if !ok then (setState s id .stale, .err) else
    let s := setState s id .created
    let adj := (s.find? (fun c => c.id = id)).bind (fun c => (takeAdjustment c).2)
    let s := s.map fun c => if c.id = id then (takeAdjustment c).1 else c
    let (s, ups) := takeUpdates (some id) s
    (s, .ok adj ups)
  | .start id => (s.map (fun c => if c.id = id then { c with state := .running } else c), .ok none [])
  | .update ws ok =>
    let s := applyWrites s ws
    if !ok then (s, .err) else
    let (s, ups) := takeUpdates none s
    (s, .ok none ups)
  | .stop id ws ok =>
    if !(s.any (fun c => c.id = id)) then (s, .ok none []) else
    let s := applyWrites s ws
    if !ok then (s, .err) else
    let s := setState s id .exited
    let (s, ups) := takeUpdates (some id) s
    (s, .ok none ups)
  | .remove id => (s.filter (fun c => c.id ≠ id), .ok none [])
  | .push ws ok =>
    let s := applyWrites s ws
    if !ok then (s, .err) else
    let (s, ups) := takeUpdates none s
    (s, .ok none ups)

/-- what the runtime has plus what is pending is what the cache records -/
def Agree (c : Ctr) : Prop :=
  match c.req with
  | none => ∀ i, c.told i = c.cache i
  | some (_, f) => ∀ i, (f i = none → c.told i = c.cache i) ∧ (∀ v, f i = some v → c.cache i = v)

/-- per container invariant -/
structure CtrInv (c : Ctr) : Prop where
  agree : isDead c.state = false → Agree c
  marked : c.req ≠ none → c.marked = true
  adjNotLive : ∀ f, c.req = some (.adjustment, f) → isLive c.state = false
  creatingNoUpd : c.state = .creating → ∀ f, c.req ≠ some (.update, f)

structure Inv (s : St) : Prop where
  nodup : (s.map (·.id)).Nodup
  ctr : ∀ c ∈ s, CtrInv c
  settled : ∀ c ∈ s, c.state ≠ .creating     -- `creating` exists only inside CreateContainer

/-- nothing is pending for the container and the runtime has what the cache records -/
def Clean (c : Ctr) : Prop := c.req = none ∧ ∀ i, c.told i = c.cache i

/-- no stopped or failed container has an update waiting -/
def DeadQuiet (s : St) : Prop := ∀ c ∈ s, isDead c.state = true → ∀ f, c.req ≠ some (.update, f)

/-- the policy behaves: it writes only to live containers (or the one being created), and not to
the container being stopped; the request succeeds -/
def goodWrites (s : St) (ws : List Write) (self : Option String) (notTo : Option String) : Prop :=
  ∀ w ∈ ws, some w.ctr ≠ notTo ∧ (some w.ctr = self ∨ ∀ c ∈ s, c.id = w.ctr → isLive c.state = true)

/-- the runtime starts only containers whose creation succeeded -/
def WfEv (s : St) : Ev → Prop
  | .start id => ∀ c ∈ s, c.id = id → c.state = .created ∨ c.state = .running
  | _ => True

def GoodEv (s : St) : Ev → Prop
  | .create id _ old ws ok => ok = true ∧ goodWrites s ws (some id) old
  | .start _ => True
  | .update ws ok => ok = true ∧ goodWrites s ws none none
  | .stop id ws ok => ok = true ∧ goodWrites s ws none (some id)
  | .remove _ => True
  | .push ws ok => ok = true ∧ goodWrites s ws none none

def run (s : St) : List Ev → St × List Reply
  | [] => (s, [])
  | e :: es => let (s', r) := step s e; let (s'', rs) := run s' es; (s'', r :: rs)

end Nri.PipeLife
