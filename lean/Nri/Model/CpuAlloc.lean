/-
Model of pkg/cpuallocator: the allocation state `(from, result, cnt)`, the primitive "take a
CPU set", the stages as *relations* ("post is pre with some admissible candidate sets taken"),
the dispatcher `allocate`, and the API front-ends `AllocateCpus` / `ReleaseCpus`.

Sort comparators (priorities, tightest fit, cache-group preferences …) are deliberately not
modelled: a stage is characterised by WHICH candidate sets it may take, not in which order it
prefers them, so the contract theorems hold for every comparator.  The two big heuristic
stages (`takeIdleClusters`, `takeCacheGroups`) are abstract: they are only required to satisfy
the stage contract `StageOK`, which the correspondence check evaluates on every real execution.
CPU sets are lists without duplicates.
-/
namespace Nri.CpuAlloc

structure State where
  from_ : List Nat
  result : List Nat
  cnt : Nat
  deriving Repr, DecidableEq

/-- `a.result = a.result.Union(cset); a.from = a.from.Difference(cset); a.cnt -= cset.Size()` -/
def take (s : State) (c : List Nat) : State :=
  { from_ := s.from_.filter (fun x => !c.contains x), result := s.result ++ c, cnt := s.cnt - c.length }

def takeAll (s : State) (T : List (List Nat)) : State := T.foldl take s

/-- admissible selection of candidate sets: pairwise disjoint, duplicate-free, inside `from`,
and fitting into the remaining count one after the other. -/
def admissible (s : State) : List (List Nat) → Bool
  | [] => true
  | c :: cs => c.Nodup && c.all (s.from_.contains ·) && c.length ≤ s.cnt && admissible (take s c) cs

/-- the last stage (`takeIdleThreads`): single online CPUs of `from` in some order `order`,
until the count is exhausted or the candidates run out. -/
def takeThreads (s : State) (order : List Nat) : State := take s (order.take s.cnt)

/-- the loop shared by `takeIdlePackages` and `takeIdleCores`: the candidate sets (idle packages /
idle cores, restricted to online CPUs and possibly to the preferred priority class) in the order
the sort produced; a set is taken iff it still fits into the remaining count; the loop stops once
the count is exhausted (the `break` sits inside the `if`) -/
def foldStage : List (List Nat) → State → State
  | [], s => s
  | c :: cs, s =>
    if c.length ≤ s.cnt then
      if (take s c).cnt = 0 then take s c else foldStage cs (take s c)
    else foldStage cs s

/-- `takeIdleThreads`' loop: every candidate CPU (the online CPUs still in `from`, in sorted order)
is taken until the count is exhausted; `allocate()` runs it only while `cnt > 0` -/
def threadStage : List Nat → State → State
  | [], s => s
  | x :: xs, s => if (take s [x]).cnt = 0 then take s [x] else threadStage xs (take s [x])

/-- `takeAny` (no topology): the first `cnt` CPUs of `from.List()` if there are enough. -/
def takeAny (s : State) : State :=
  if s.from_.length ≥ s.cnt then take s (s.from_.take s.cnt) else s

/-- the invariant every stage must preserve: `from0` is partitioned into result and from, and
the count still to allocate plus what has been taken is the request. -/
def Inv (from0 : List Nat) (n : Nat) (s : State) : Prop :=
  List.Perm from0 (s.result ++ s.from_) ∧ s.cnt + s.result.length = n

/-- the contract an arbitrary stage has to satisfy -/
def StageOK (from0 : List Nat) (n : Nat) (pre post : State) : Prop :=
  Inv from0 n pre → Inv from0 n post

/-- executable version of the stage contract, evaluated on real executions by the driver -/
def stageOKb (pre post : State) : Bool :=
  let taken := post.result.filter (fun x => !pre.result.contains x)
  post.result.Nodup && pre.result.all (post.result.contains ·) &&
  taken.all (pre.from_.contains ·) &&
  post.from_.all (fun x => pre.from_.contains x && !taken.contains x) &&
  pre.from_.all (fun x => post.from_.contains x || taken.contains x) &&
  post.from_.Nodup && post.cnt + taken.length == pre.cnt

/-- `allocate()`'s final step -/
def finish (s : State) : List Nat := if s.cnt = 0 then s.result else []

/-- front-end `allocateCpus`: `none` = error. `alloc` is the helper's whole run. -/
def allocateCpus (alloc : State → State) (from0 : List Nat) (cnt : Nat) : Option (List Nat) × List Nat :=
  if from0.length < cnt then (none, from0)
  else if from0.length = cnt then (some from0, [])
  else
    let s := alloc { from_ := from0, result := [], cnt := cnt }
    (some (finish s), s.from_)

/-- `ReleaseCpus(from, cnt)` = `allocateCpus(from, |from| - cnt)`; Go's int subtraction can go
negative, which `allocateCpus` treats like any count below the size (modelled for cnt ≤ |from|). -/
def releaseCpus (alloc : State → State) (from0 : List Nat) (cnt : Nat) : Option (List Nat) × List Nat :=
  allocateCpus alloc from0 (from0.length - cnt)

end Nri.CpuAlloc
