/-
Model of per-container annotation resolution:
* `pod.GetEffectiveAnnotation` (pkg/resmgr/cache/pod.go) and `parseEpcLimit` (sgx-epc): three
  map lookups in fixed order;
* `effectiveAnnotations` of memory-qos / memtierd: a fold over the annotation map in Go's
  (arbitrary) iteration order with `strings.CutSuffix` classification and `associate`;
* the second fold in their `CreateContainer` (class-derived vs explicitly annotated cgroup
  parameters).
Maps are association lists; the order of the list is the iteration order.
-/
namespace Nri.Annot

abbrev AMap := List (String × String)

def aget (m : AMap) (k : String) : Option String := (m.find? (·.1 == k)).map (·.2)
def aset (m : AMap) (k v : String) : AMap :=
  if m.any (·.1 == k) then m.map (fun p => if p.1 == k then (k, v) else p) else m ++ [(k, v)]
/-- `associate(m, key, value, override)` -/
def associate (m : AMap) (k v : String) (override : Bool) : AMap :=
  if override || (aget m k).isNone then aset m k v else m

/-! ### three-form lookup (cache, sgx-epc) -/

def ctrKey (key ctr : String) : String := key ++ "/container." ++ ctr
def podKey (key : String) : String := key ++ "/pod"

/-- `GetEffectiveAnnotation(key, container)` -/
def effective (ann : AMap) (key ctr : String) : Option String :=
  match aget ann (ctrKey key ctr) with
  | some v => some v
  | none =>
    match aget ann (podKey key) with
    | some v => some v
    | none => aget ann key

/-! ### suffix-classified fold (memory-qos, memtierd) -/

inductive Cls where
  | ctr (prefix_ : String)     -- `<prefix><suffix>/<this container>`
  | pod (prefix_ : String)     -- `<prefix><suffix>`
  | other
  deriving DecidableEq, Repr

/-- `strings.CutSuffix` -/
def cutSuffix (s suffix : String) : Option String :=
  if s.endsWith suffix then some (s.dropEnd suffix.length).toString else none

/-- classification of one annotation key for container `ctr` (container form tried first). -/
def classify (suffix ctr key : String) : Cls :=
  match cutSuffix key (suffix ++ "/" ++ ctr) with
  | some p => .ctr p
  | none =>
    match cutSuffix key suffix with
    | some p => .pod p
    | none => .other

/-- one iteration of `effectiveAnnotations`' loop, on a classified entry. -/
def effStep (eff : AMap) (e : Cls × String) : AMap :=
  match e.1 with
  | .ctr p => associate eff p e.2 true
  | .pod p => associate eff p e.2 false
  | .other => eff

def effFold (entries : List (Cls × String)) : AMap := entries.foldl effStep []

/-- `effectiveAnnotations(pod, ctr)` for annotations iterated in list order. -/
def effectiveAnnotations (suffix ctr : String) (ann : AMap) : AMap :=
  effFold (ann.map fun kv => (classify suffix ctr kv.1, kv.2))

/-! ### class vs explicit parameters (second fold in CreateContainer) -/

/-- what applying a QoS class contributes: parameters set with `associate(..., false)`. -/
structure ClassParams where
  params : AMap      -- e.g. [("memory.high", "1234"), ("memory.swap.max", "max")]

/-- memory-qos `CreateContainer`'s loop over the effective annotations (in list order), for
a class lookup function and the list of allowed unified annotations. `none` = error reply. -/
def qosFold (classOf : String → Option ClassParams) (allowed : List String) (eff : AMap) : Option AMap :=
  eff.foldl (fun (acc : Option AMap) (e : String × String) =>
    match acc with
    | none => none
    | some unified =>
      if e.1 == "class" then
        match classOf e.2 with
        | none => none
        | some cp => some (cp.params.foldl (fun u kv => associate u kv.1 kv.2 false) unified)
      else if allowed.contains e.1 then some (aset unified e.1 e.2)
      else none) (some [])

end Nri.Annot
