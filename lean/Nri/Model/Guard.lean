/-
Guard discipline of the NRI handlers (pkg/resmgr/nri.go): a handler looks objects up in the
cache (`LookupPod`, `LookupContainer`, which may fail for ids the plugin has never seen or has
already forgotten) and then calls methods on the result.  A handler is abstracted to the
sequence of its lookups, its "return if not found" guards, its `if x, ok := Lookup…; ok { … }`
blocks and the method calls it makes on lookup results (regenerated from the source by
tools/extract).  Whether an object exists is an arbitrary oracle.
-/
namespace Nri.Guard

inductive Prog where
  | done : Prog
  | lookup (v : String) (k : Prog) : Prog          -- v, ok := Lookup…(id)
  | guardRet (v : String) (k : Prog) : Prog        -- if !ok { return … }
  | use (v : String) (k : Prog) : Prog             -- v.Method(…)
  | ifFound (v : String) (body k : Prog) : Prog    -- if v, ok := Lookup…; ok { body } ; k   /   if ok { body } ; k
  deriving Repr, DecidableEq

inductive Outcome where
  | next | returned | panic
  deriving Repr, DecidableEq

/-- run a handler when `found v` tells whether the lookup of `v` succeeded -/
def exec (found : String → Bool) : Prog → Outcome
  | .done => .next
  | .lookup _ k => exec found k
  | .guardRet v k => if found v then exec found k else .returned
  | .use v k => if found v then exec found k else .panic
  | .ifFound v body k =>
    if found v then
      match exec found body with
      | .next => exec found k
      | o => o
    else exec found k

/-- the static discipline: every use is dominated by a guard of the same lookup -/
def safe : Prog → List String → Bool
  | .done, _ => true
  | .lookup v k, g => safe k (g.filter (· != v))
  | .guardRet v k, g => safe k (v :: g)
  | .use v k, g => g.contains v && safe k g
  | .ifFound v body k, g => safe body (v :: g) && safe k g

end Nri.Guard
