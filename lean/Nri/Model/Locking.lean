/-
Model of the resource manager's request serialization (pkg/resmgr: `resmgr.RWMutex`, taken
with `m.Lock(); defer m.Unlock()` at the top of every NRI handler and of `reconfigure`).

A request `t` is a program `prog t` of atomic micro-steps on the shared state (cache + policy).
A thread first acquires the lock (blocking while somebody else owns it), runs its micro-steps one
at a time - the scheduler may switch threads between any two of them -, then releases the lock.
`runU` is the same machine without the lock (what an unlocked handler does).
-/
namespace Nri.Locking

inductive Pc where
  | idle | inside (k : Nat) | fin
  deriving DecidableEq, Repr

structure Sys (σ : Type) where
  st : σ
  owner : Option Nat
  pc : Nat → Pc
  order : List Nat          -- threads in the order they acquired the lock

def upd (f : Nat → Pc) (t : Nat) (v : Pc) : Nat → Pc := fun x => if x = t then v else f x

variable {σ : Type}

/-- one scheduler step: thread `t` executes its next instruction -/
def stepT (prog : Nat → List (σ → σ)) (s : Sys σ) (t : Nat) : Sys σ :=
  match s.pc t with
  | .idle =>
    match s.owner with
    | none => { s with owner := some t, pc := upd s.pc t (.inside 0), order := s.order ++ [t] }
    | some _ => s                                   -- blocked on the lock
  | .inside k =>
    match (prog t)[k]? with
    | some f => { s with st := f s.st, pc := upd s.pc t (.inside (k + 1)) }
    | none => { s with owner := none, pc := upd s.pc t .fin }     -- unlock
  | .fin => s

def initSys (init : σ) : Sys σ := ⟨init, none, fun _ => .idle, []⟩

def run (prog : Nat → List (σ → σ)) (init : σ) (sched : List Nat) : Sys σ :=
  sched.foldl (stepT prog) (initSys init)

/-- the whole effect of request `t` -/
def effect (prog : Nat → List (σ → σ)) (t : Nat) (a : σ) : σ := (prog t).foldl (fun a f => f a) a

/-- sequential execution of the requests in the given order -/
def serial (prog : Nat → List (σ → σ)) (init : σ) (order : List Nat) : σ :=
  order.foldl (fun a t => effect prog t a) init

/-- the same machine without any lock: every thread just runs its micro-steps -/
def stepU (prog : Nat → List (σ → σ)) (s : Sys σ) (t : Nat) : Sys σ :=
  match s.pc t with
  | .idle => { s with pc := upd s.pc t (.inside 0), order := s.order ++ [t] }
  | .inside k =>
    match (prog t)[k]? with
    | some f => { s with st := f s.st, pc := upd s.pc t (.inside (k + 1)) }
    | none => { s with pc := upd s.pc t .fin }
  | .fin => s

def runU (prog : Nat → List (σ → σ)) (init : σ) (sched : List Nat) : Sys σ :=
  sched.foldl (stepU prog) (initSys init)

end Nri.Locking
