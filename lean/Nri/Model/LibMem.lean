/-
Functional port of pkg/resmgr/lib/memory (allocator.go, zones.go, request.go, nodes.go,
mask-cache.go) with the default expansion / overcommit handlers (no caller in the
repository installs custom functions).

* NodeMask = `Nat` used as a bit set (ids < 64; uint64 in Go).  `&^` is `mdiff`.
* The allocator's redundant bookkeeping (`a.users`, `zone.users`, `req.zone`) is represented
  once, as the `zone` field of each request in `reqs` (0 = not assigned).  `validateState`
  in the Go code checks exactly that these three agree.
* `entries` is the key set of Go's `a.zones` map; it is kept explicit because
  `checkOvercommit` iterates it and empty entries survive inside an operation.
* The journal is modelled as the code has it (first-write-wins `reverts`, last-write-wins
  `updates`); failure paths run `revertJournal`, they are not short-circuited.
* Map iteration order only matters in `checkOvercommit`'s sort; see `zoneCmp`/`sortZones`.
-/
namespace Nri.LibMem

abbrev Mask := Nat

def msub (a b : Mask) : Bool := a &&& b == a
def mdiff (a b : Mask) : Mask := a ^^^ (a &&& b)
def bitsOf (m : Mask) : List Nat := (List.range 64).filter (fun i => m.testBit i)
def msize (m : Mask) : Nat := (bitsOf m).length
def bit (i : Nat) : Mask := 1 <<< i

structure Node where
  id : Nat
  typ : Nat          -- 0 DRAM, 1 PMEM, 2 HBM
  cap : Int
  normal : Bool
  dist : List Nat
  deriving Repr, DecidableEq

structure Req where
  id : String
  size : Int
  aff : Mask
  types : Nat
  strict : Bool
  prio : Int
  created : Int
  zone : Mask := 0
  deriving Repr, DecidableEq

structure Journal where
  updates : List (String × Mask) := []
  reverts : List (String × Mask) := []
  deriving Repr, DecidableEq

structure St where
  nodes : List Node
  reqs : List Req := []
  entries : List Mask := []
  version : Nat := 1
  journal : Option Journal := none
  /-- set when `checkOvercommit` had to sort zones on which the Go comparator is not a strict
  total order (the Go result then depends on map iteration order); bookkeeping for the
  correspondence check only, no operation reads it. -/
  ambig : Bool := false
  deriving Repr

inductive Err where
  | alreadyExists | invalidNode | invalidType | invalidNodeMask | noMem | unknownRequest
  | expiredOffer | noZone | internal | other | fuel
  deriving Repr, DecidableEq

def Err.toString : Err → String
  | .alreadyExists => "exists" | .invalidNode => "invalidnode" | .invalidType => "invalidtype"
  | .invalidNodeMask => "invalidmask" | .noMem => "nomem" | .unknownRequest => "unknown"
  | .expiredOffer => "expired" | .noZone => "nozone" | .internal => "internal" | .other => "other"
  | .fuel => "fuel"

/-! ### assoc-list helpers -/

def alGet (l : List (String × Mask)) (k : String) : Option Mask := (l.find? (·.1 == k)).map (·.2)
def alSet (l : List (String × Mask)) (k : String) (v : Mask) : List (String × Mask) :=
  if l.any (·.1 == k) then l.map (fun p => if p.1 == k then (k, v) else p) else l ++ [(k, v)]
def alErase (l : List (String × Mask)) (k : String) : List (String × Mask) := l.filter (·.1 != k)

/-! ### mask cache -/

def St.all (s : St) : Mask := s.nodes.foldl (fun m n => m ||| bit n.id) 0
def St.hasMem (s : St) : Mask := s.nodes.foldl (fun m n => if n.cap > 0 then m ||| bit n.id else m) 0
def St.normalMask (s : St) : Mask :=
  s.nodes.foldl (fun m n => if n.cap > 0 ∧ n.normal then m ||| bit n.id else m) 0
/-- `masks.types`: types of nodes that have memory. -/
def St.availTypes (s : St) : Nat := s.nodes.foldl (fun m n => if n.cap > 0 then m ||| bit n.typ else m) 0
/-- `masks.nodes.byTypes[types]`: nodes with memory whose type is in `types`. -/
def St.byTypes (s : St) (types : Nat) : Mask :=
  s.nodes.foldl (fun m n => if n.cap > 0 ∧ types.testBit n.typ then m ||| bit n.id else m) 0

def St.node? (s : St) (id : Nat) : Option Node := s.nodes.find? (·.id == id)

/-- `zoneType`: types of all nodes in the zone (memory-less nodes included, as in the code). -/
def St.zoneType (s : St) (zone : Mask) : Nat :=
  s.nodes.foldl (fun m n => if zone.testBit n.id then m ||| bit n.typ else m) 0

def St.zoneCapacity (s : St) (zone : Mask) : Int :=
  s.nodes.foldl (fun c n => if zone.testBit n.id ∧ n.cap > 0 then c + n.cap else c) 0

/-- `zoneUsage`: requests whose assigned nodes fit fully into `zone`. -/
def St.zoneUsage (s : St) (zone : Mask) : Int :=
  s.reqs.foldl (fun u r => if r.zone ≠ 0 ∧ msub r.zone zone then u + r.size else u) 0

def St.zoneFree (s : St) (zone : Mask) : Int := s.zoneCapacity zone - s.zoneUsage zone

def St.numUsers (s : St) (zone : Mask) : Nat := (s.reqs.filter (fun r => r.zone ≠ 0 ∧ r.zone == zone)).length

def St.req? (s : St) (id : String) : Option Req := s.reqs.find? (·.id == id)

/-! ### distances -/

def insertBy {α} (lt : α → α → Bool) (x : α) : List α → List α
  | [] => [x]
  | y :: ys => if lt x y then x :: y :: ys else y :: insertBy lt x ys

def sortBy {α} (lt : α → α → Bool) (l : List α) : List α := l.foldl (fun acc x => insertBy lt x acc) []

/-- distance classes of a node: ascending distinct distances with the mask of nodes at each. -/
def Node.classes (n : Node) : List (Nat × Mask) :=
  let ds := sortBy (· < ·) n.dist.eraseDups
  ds.map fun d => (d, (n.dist.zipIdx.foldl (fun m (p : Nat × Nat) => if p.1 = d then m ||| bit p.2 else m) 0))

/-- `newCloseNodesOfType`. `max = none` stands for `math.MaxInt`. -/
def St.newCloseNodesOfType (s : St) (zone : Mask) (t : Nat) : Mask :=
  let cand := mdiff (s.byTypes (bit t)) zone
  let step := fun (acc : Mask × Option Nat) (id : Nat) =>
    match s.node? id with
    | none => acc
    | some node =>
      -- first distance class (self excluded) that has candidate nodes
      match (node.classes.drop 1).find? (fun c => c.2 &&& cand ≠ 0) with
      | none => acc
      | some (d, nodes) =>
        let le := match acc.2 with | none => true | some mx => d ≤ mx
        if le then (acc.1 ||| (nodes &&& cand), some d) else acc
  ((bitsOf (zone &&& s.all)).foldl step (0, none)).1

/-- `defaultExpand`. -/
def St.expand (s : St) (zone : Mask) (types : Nat) : Mask × Nat :=
  [0, 1, 2].foldl (fun (acc : Mask × Nat) t =>
    if types.testBit t then
      let n := s.newCloseNodesOfType zone t
      if n ≠ 0 then (acc.1 ||| n, acc.2 ||| bit t) else acc
    else acc) (0, 0)

/-! ### journal and primitive zone operations -/

def Journal.assign (j : Journal) (zone : Mask) (id : String) : Journal :=
  { updates := alSet j.updates id zone,
    reverts := if (alGet j.reverts id).isSome then j.reverts else j.reverts ++ [(id, 0)] }

def Journal.delete (j : Journal) (zone : Mask) (id : String) : Journal :=
  if (alGet j.reverts id).isSome then j else { j with reverts := j.reverts ++ [(id, zone)] }

def St.setZone (s : St) (id : String) (z : Mask) : St :=
  { s with reqs := s.reqs.map (fun r => if r.id == id then { r with zone := z } else r) }

/-- `zoneAssign` for a request that is in `reqs`. -/
def St.zoneAssign (s : St) (zone : Mask) (id : String) : St :=
  let s := { s with entries := if s.entries.contains zone then s.entries else s.entries ++ [zone] }
  let s := s.setZone id zone
  { s with journal := s.journal.map (·.assign zone id) }

/-- `zoneRemove`: a no-op unless the request is a user of exactly that zone. -/
def St.zoneRemove (s : St) (zone : Mask) (id : String) : St :=
  match s.req? id with
  | some r =>
    if r.zone ≠ 0 ∧ r.zone == zone then
      let s := s.setZone id 0
      { s with journal := s.journal.map (·.delete zone id) }
    else s
  | none => s

def St.zoneMove (s : St) (zone : Mask) (id : String) : St :=
  match s.req? id with
  | some r =>
    if r.zone ≠ 0 then
      if r.zone == zone then s else (s.zoneRemove r.zone id).zoneAssign zone id
    else s.zoneAssign zone id
  | none => s

/-! ### overcommit -/

/-- `ZonesByUsersSubzonesFirst` (sign only). -/
def St.zoneCmp (s : St) (z1 z2 : Mask) : Int :=
  let d : Int := (s.numUsers z2 : Int) - (s.numUsers z1 : Int)
  if d ≠ 0 then d
  else if msub z1 z2 then -1
  else if msub z2 z1 then 1
  else
    let d2 : Int := (msize z2 : Int) - (msize z1 : Int)
    if d2 ≠ 0 then d2 else (z2 : Int) - (z1 : Int)

/-- The comparator is a strict total order on the given zones (otherwise Go's sort result
depends on map iteration order and the step is "implementation-nondeterministic"). -/
def St.cmpIsStrictTotal (s : St) (zs : List Mask) : Bool :=
  zs.all fun a => zs.all fun b => zs.all fun c =>
    (a == b || (s.zoneCmp a b < 0) != (s.zoneCmp b a < 0)) &&
    (!(s.zoneCmp a b < 0 && s.zoneCmp b c < 0) || s.zoneCmp a c < 0)

/-- `checkOvercommit`: overcommitted entries intersecting `nodes`, sorted, with their spill. -/
def St.checkOvercommit (s : St) (nodes : Mask) : List (Mask × Int) :=
  let oc := s.entries.filter (fun z => (nodes == 0 || z &&& nodes ≠ 0) && s.zoneFree z < 0)
  let oc := sortBy (· < ·) oc      -- canonical input order (Go: map order)
  (sortBy (fun a b => s.zoneCmp a b < 0) oc).map (fun z => (z, - s.zoneFree z))

def reqLt (a b : Req) : Bool :=
  if a.prio ≠ b.prio then a.prio < b.prio
  else if a.size ≠ b.size then a.size < b.size
  else b.created < a.created

/-- `zoneShrinkUsage`: returns the new state and the amount moved. -/
def St.zoneShrinkUsage (s : St) (zone : Mask) (amount : Int) (limit : Int) (extra : Nat) : St × Int :=
  if !s.entries.contains zone || s.numUsers zone == 0 then (s, 0) else
  let ztypes := s.zoneType zone
  let (nodes, types) := s.expand zone (ztypes ||| extra)
  if nodes == 0 then (s, 0) else
  let users := sortBy reqLt (s.reqs.filter (fun r => r.zone ≠ 0 ∧ r.zone == zone ∧ r.prio ≤ limit))
  let rec go (s : St) (moved : Int) : List Req → St × Int
    | [] => (s, moved)
    | r :: rs =>
      if !r.strict || r.types == (ztypes ||| types) then
        let s := s.zoneMove (zone ||| nodes) r.id
        let moved := moved + r.size
        if moved ≥ amount then (s, moved) else go s moved rs
      else go s moved rs
  go s 0 users

def allowedPrios : List Int := [1024, 16384, 32766]
def expandTypes : List Nat := [0, 1, 2, 4]

/-- one (prio, extra) cell: shrink every zone of `oc`, then re-check. -/
def St.ocCell (s : St) (_nodes : Mask) (oc : List (Mask × Int)) (prio : Int) (types : Nat) : St × Int :=
  oc.foldl (fun (acc : St × Int) (z : Mask × Int) =>
    let (s', m) := acc.1.zoneShrinkUsage z.1 z.2 prio types
    (s', acc.2 + m)) (s, 0)

/-- one cell of the `for prio … for extra …` double loop. The accumulator is
`(state, oc, moved, resolved, types)`; `types` accumulates across the extras of one priority. -/
def St.ocStep (nodes : Mask) (acc : St × List (Mask × Int) × Int × Bool × Nat) (c : Int × Nat) :
    St × List (Mask × Int) × Int × Bool × Nat :=
  if acc.2.2.2.1 then acc else
  let s := acc.1
  let types := if c.2 == 0 then 0 else acc.2.2.2.2      -- `types := TypeMask(0)` at each new priority
  if c.2 ≠ 0 ∧ (c.2 &&& s.availTypes) == 0 then (s, acc.2.1, acc.2.2.1, acc.2.2.2.1, types) else
  let types := types ||| (c.2 &&& s.availTypes)
  let r := s.ocCell nodes acc.2.1 c.1 types
  let oc' := r.1.checkOvercommit nodes
  let s' := { r.1 with ambig := r.1.ambig || !r.1.cmpIsStrictTotal (oc'.map (·.1)) }
  (s', oc', acc.2.2.1 + r.2, oc'.isEmpty, types)

/-- the double loop as one pass over the 12 cells; returns `(state, oc, moved, resolved)`. -/
def St.ocPass (s : St) (nodes : Mask) (oc : List (Mask × Int)) : St × List (Mask × Int) × Int × Bool :=
  let cells : List (Int × Nat) := allowedPrios.flatMap (fun p => expandTypes.map (fun e => (p, e)))
  let r := cells.foldl (St.ocStep nodes) (s, oc, 0, false, 0)
  (r.1, r.2.1, r.2.2.1, r.2.2.2.1)

/-- `defaultHandleOvercommit` (the outer `for {}` with fuel). -/
def St.resolveOvercommit (s : St) (nodes : Mask) : Nat → List (Mask × Int) → St × Option Err
  | 0, _ => (s, some .fuel)
  | fuel+1, oc =>
    let (s', oc', moved, done) := s.ocPass nodes oc
    if done then (s', none)
    else if moved == 0 then (s', some .noMem)
    else s'.resolveOvercommit nodes fuel oc'

def St.handleOvercommit (s : St) (nodes : Mask) : St × Option Err :=
  let oc := s.checkOvercommit nodes
  let s := { s with ambig := s.ambig || !s.cmpIsStrictTotal (oc.map (·.1)) }
  if oc.isEmpty then (s, none) else s.resolveOvercommit nodes (s.reqs.length * 64 + 2) oc

/-! ### journal entry points -/

def St.startJournal (s : St) : St := { s with journal := some {} }

/-- `commitJournal(req)`: updates without the requester. -/
def St.commitJournal (s : St) (id : String) : St × List (String × Mask) :=
  match s.journal with
  | some j => ({ s with journal := none }, alErase j.updates id)
  | none => (s, [])

/-- `revertJournal(req)`; `drop` is the id of a new request to delete afterwards. -/
def St.revertJournal (s : St) (drop : Option String) : St × List (String × Mask) × Option Err :=
  match s.journal with
  | none => (s, [], none)
  | some j =>
    let s := { s with journal := none }
    let r := j.reverts.foldl (fun (acc : St × Option Err) (p : String × Mask) =>
      match acc.2 with
      | some _ => acc
      | none =>
        match acc.1.req? p.1 with
        | none => (acc.1, some .internal)
        | some r =>
          if r.zone == 0 then (acc.1, some .internal) else
          let s := acc.1.zoneRemove r.zone p.1
          (if p.2 ≠ 0 then s.zoneAssign p.2 p.1 else s, none)) (s, none)
    match r.2 with
    | some e => (r.1, [], some e)
    | none =>
      let s := match drop with
        | some id => { r.1 with reqs := r.1.reqs.filter (·.id != id) }
        | none => r.1
      (s, j.updates, none)

def St.cleanupUnusedZones (s : St) : St :=
  { s with entries := s.entries.filter (fun z => s.numUsers z ≠ 0) }

/-! ### request validation and initial zone -/

def St.validateRequest (s : St) (r : Req) : Except Err Nat :=
  if (s.req? r.id).isSome then .error .alreadyExists
  else if r.aff &&& s.all ≠ r.aff then .error .invalidNode
  else if r.types &&& s.availTypes ≠ r.types ∧ r.strict then .error .invalidType
  else if r.aff == 0 then .error .invalidNodeMask
  else
    let t := r.types &&& s.availTypes
    .ok (if t == 0 then s.zoneType r.aff else t)

/-- `findInitialZone`: the initial zone for a validated request. -/
def St.findInitialZone (s : St) (r : Req) : Except Err Mask :=
  let zone := r.aff &&& s.all
  let miss := mdiff r.types (s.zoneType zone)
  let zone := if miss ≠ 0 then zone ||| (s.expand zone miss).1 else zone
  if r.strict then
    let zone := zone &&& s.byTypes r.types
    if mdiff r.types (s.zoneType zone) ≠ 0 then .error .other else .ok zone
  else
    let prefer := zone &&& s.byTypes r.types
    .ok (if prefer ≠ 0 then prefer else zone)

def St.ensureNormalLoop (s : St) (types : Nat) : Nat → Mask → Option Mask
  | 0, _ => none
  | fuel+1, zone =>
    let n := (s.expand zone types).1
    if n == 0 then none
    else
      let zone := zone ||| n
      if zone &&& s.normalMask ≠ 0 then some zone else s.ensureNormalLoop types fuel zone

/-- `ensureNormalMemory`: the (possibly expanded) zone and the (possibly extended) types. -/
def St.ensureNormalMemory (s : St) (r : Req) : Except Err (Mask × Nat) :=
  if r.zone &&& s.normalMask ≠ 0 then .ok (r.zone, r.types) else
  let normal := s.zoneType s.normalMask
  let types := r.types &&& normal
  let types? : Except Err Nat :=
    if types ≠ 0 then .ok types
    else if r.strict then .error .other
    else if normal &&& 1 ≠ 0 then .ok 1
    else if normal &&& 2 ≠ 0 then .ok 2
    else if normal &&& 4 ≠ 0 then .ok 4
    else .error .other
  match types? with
  | .error e => .error e
  | .ok types =>
    match s.ensureNormalLoop types 65 r.zone with
    | some zone => .ok (zone, r.types ||| types)
    | none => .error .other

/-! ### allocate / realloc / release / offers -/

/-- internal `allocate`: on success the journal is still open. Returns the validated request
(its `types` are what the Go code leaves in the caller's object). -/
def St.allocate (s : St) (r : Req) : St × Except Err Req :=
  match s.validateRequest r with
  | .error e => (s, .error e)
  | .ok t =>
  match s.findInitialZone { r with types := t } with
  | .error e => (s, .error e)
  | .ok z =>
  match s.ensureNormalMemory { r with types := t, zone := z } with
  | .error e => (s, .error e)
  | .ok (z', t') =>
    let r : Req := { r with types := t', zone := z' }
    let zone := r.zone
    let s1 := s.startJournal
    let s1 := { s1 with reqs := s1.reqs ++ [{ r with zone := 0 }] }
    let s1 := s1.zoneAssign zone r.id
    match s1.handleOvercommit zone with
    | (s2, none) => (s2, .ok r)
    | (s2, some e) => ((s2.revertJournal (some r.id)).1, .error e)

structure Result where
  zone : Mask
  updates : List (String × Mask)
  deriving Repr, DecidableEq

/-- public `Allocate` (with the offer-invalidating version bump of the repaired code). -/
def St.Allocate (s : St) (r : Req) : St × Except Err Result :=
  match s.allocate r with
  | (s', .error e) => (s'.cleanupUnusedZones, .error e)
  | (s', .ok r') =>
    let (s'', ups) := s'.commitJournal r'.id
    let s'' := { s'' with version := s''.version + 1 }
    -- `req.zone` is read after overcommit handling, which may have moved the requester itself
    let zone := ((s''.req? r'.id).map (·.zone)).getD r'.zone
    (s''.cleanupUnusedZones, .ok ⟨zone, ups⟩)

structure Offer where
  version : Nat
  req : Req
  updates : List (String × Mask)
  deriving Repr

def St.GetOffer (s : St) (r : Req) : St × Except Err Offer :=
  match s.allocate r with
  | (s', .error e) => (s'.cleanupUnusedZones, .error e)
  | (s', .ok r') =>
    match s'.revertJournal (some r'.id) with
    | (s'', _, some e) => (s''.cleanupUnusedZones, .error e)
    | (s'', ups, none) => (s''.cleanupUnusedZones, .ok ⟨s''.version, { r' with zone := 0 }, ups⟩)

def St.Commit (s : St) (o : Offer) : St × Except Err Result :=
  if o.version ≠ s.version then (s, .error .expiredOffer) else
  let s' := o.updates.foldl (fun (s : St) (p : String × Mask) =>
    if p.1 == o.req.id then
      let s := if (s.req? p.1).isSome then s else { s with reqs := s.reqs ++ [{ o.req with zone := 0 }] }
      s.zoneAssign p.2 p.1
    else if (s.req? p.1).isSome then s.zoneMove p.2 p.1 else s) s
  let s' := { s' with version := s'.version + 1 }
  (s'.cleanupUnusedZones, .ok ⟨(alGet o.updates o.req.id).getD 0, alErase o.updates o.req.id⟩)

def St.validateRealloc (s : St) (r : Req) (nodes : Mask) (types : Nat) : Except Err (Mask × Nat × Bool) :=
  if nodes == 0 ∧ types == 0 then .ok (0, 0, true)
  else if r.aff == nodes ∧ r.types == types then .ok (nodes, types, true)
  else if r.aff &&& s.all ≠ r.aff then .error .invalidNode
  else if r.types &&& s.availTypes ≠ r.types ∧ r.strict then .error .invalidType
  else if r.zone &&& nodes == nodes ∧ (s.zoneType r.zone) &&& types == types then .ok (nodes, types, true)
  else if types == 0 then .ok (nodes, s.zoneType (nodes &&& s.all), false)
  else .ok (nodes &&& s.byTypes types, types, false)

def St.Realloc (s : St) (id : String) (nodes : Mask) (types : Nat) : St × Except Err Result :=
  match s.req? id with
  | none => (s, .error .unknownRequest)
  | some r =>
    match s.validateRealloc r nodes types with
    | .error e => (s, .error e)
    | .ok (_, _, true) => (s, .ok ⟨r.zone, []⟩)
    | .ok (nodes, types, false) =>
      let s1 := s.startJournal
      let (newNodes, newTypes) := s1.expand (r.zone ||| nodes) types
      if newNodes == 0 then ((s1.revertJournal none).1.cleanupUnusedZones, .error .noMem) else
      let target := r.zone ||| nodes ||| newNodes
      let s2 := s1.zoneMove target id
      match s2.handleOvercommit target with
      | (s3, some _) => ((s3.revertJournal none).1.cleanupUnusedZones, .error .noMem)
      | (s3, none) =>
        let s3 := { s3 with reqs := s3.reqs.map (fun (q : Req) => if q.id == id then { q with types := q.types ||| newTypes } else q) }
        let (s4, ups) := s3.commitJournal id
        let s4 := { s4 with version := s4.version + 1 }
        let zone := ((s4.req? id).map (·.zone)).getD target
        (s4.cleanupUnusedZones, .ok ⟨zone ||| target, ups⟩)

def St.Release (s : St) (id : String) : St × Except Err Unit :=
  match s.req? id with
  | none => (s, .error .unknownRequest)
  | some r =>
    if r.zone == 0 then (s, .error .noZone) else
    let s := s.zoneRemove r.zone id
    let s := { s with reqs := s.reqs.filter (·.id != id), version := s.version + 1 }
    (s.cleanupUnusedZones, .ok ())

/-- `newAllocator` validation of the node list (ids 0..n-1 in the harness). -/
def validNodes (nodes : List Node) : Bool :=
  nodes.all (fun n =>
    n.typ ≤ 2 && n.id ≤ 63 && n.dist.length == nodes.length && n.dist.length ≤ 63 &&
    (match n.classes.head? with | some (_, m) => m == bit n.id | none => false)) &&
  (nodes.map (·.id)).eraseDups.length == nodes.length

end Nri.LibMem
