/-
Model of the resource-manager's delivery pipeline (pkg/resmgr/nri.go getPendingAdjustment /
getPendingUpdates, pkg/resmgr/cache/container.go Set*/getPendingRequest/GetPending*):
every `Set<field>` records the value in the cache AND in the container's pending request;
a successful reply flushes every pending request into a message to the runtime.
The policy is a parameter: an arbitrary list of writes to arbitrary containers.
Fields are numbered 0..6 (cpus, mems, shares, quota, period, memory limit, swap).
-/
namespace Nri.Pipe

structure Ctr where
  id : String
  live : Bool                      -- created or running (not stopped/removed)
  cache : Nat → String             -- what the cache records
  told : Nat → String              -- what the runtime has (its own values overlaid by our messages)
  pend : Nat → Option String       -- the pending request, field by field

structure Write where
  ctr : String
  field : Nat
  value : String

abbrev St := List Ctr

def applyWrite (s : St) (w : Write) : St :=
  s.map fun c => if c.id == w.ctr then
    { c with cache := fun i => if i == w.field then w.value else c.cache i,
             pend := fun i => if i == w.field then some w.value else c.pend i }
  else c

def applyWrites (s : St) (ws : List Write) : St := ws.foldl applyWrite s

/-- deliver one container's pending request -/
def flushCtr (c : Ctr) : Ctr :=
  { c with told := fun i => match c.pend i with | some v => v | none => c.told i, pend := fun _ => none }

/-- `getPendingAdjustment` + `getPendingUpdates`: everything pending is delivered in the reply -/
def flushAll (s : St) : St := s.map flushCtr

/-- a request: the policy writes, then the reply is either successful (flush) or an error
(nothing is delivered - the behaviour of the code today, see known finding
`C05:pending-after-error-reply`) -/
def handle (s : St) (ws : List Write) (ok : Bool) : St :=
  let s := applyWrites s ws
  if ok then flushAll s else s

/-- per container: a field that is not pending has been delivered; a pending field holds the
value the cache records -/
def CtrInv (c : Ctr) : Prop :=
  ∀ i, (c.pend i = none → c.told i = c.cache i) ∧ (∀ v, c.pend i = some v → c.cache i = v)

def Inv (s : St) : Prop := ∀ c ∈ s, CtrInv c

end Nri.Pipe
