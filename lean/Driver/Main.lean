import Driver.C20
import Driver.LibMem
import Driver.C17
import Driver.C18
import Driver.C19
import Driver.C08
import Driver.C16
import Driver.TA
import Driver.C10
import Driver.C14
import Driver.BA

def main (args : List String) : IO UInt32 :=
  match args with
  | ["c20"] => Driver.C20.main
  | ["libmem"] => Driver.LibMem.main
  | ["c17"] => Driver.C17.main
  | ["c18"] => Driver.C18.main
  | ["c19"] => Driver.C19.main
  | ["c08"] => Driver.C08.main
  | ["c16"] => Driver.C16.main
  | ["ta"] => Driver.TA.main
  | ["c10"] => Driver.C10.main
  | ["c14"] => Driver.C14.main
  | ["ba"] => Driver.BA.main
  | _ => do IO.eprintln "usage: nridrv <property>"; return 2
