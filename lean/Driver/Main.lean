import Driver.C20

def main (args : List String) : IO UInt32 :=
  match args with
  | ["c20"] => Driver.C20.main
  | _ => do IO.eprintln "usage: nridrv <property>"; return 2
