import Driver.C20
import Driver.LibMem

def main (args : List String) : IO UInt32 :=
  match args with
  | ["c20"] => Driver.C20.main
  | ["libmem"] => Driver.LibMem.main
  | _ => do IO.eprintln "usage: nridrv <property>"; return 2
