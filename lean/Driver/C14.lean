import Driver.Common
/-!
C14 driver: evaluates the property's predicates on the chaos stream of the resource manager
and of the side plugins: no call panics; when the plain lifecycle worked on the fresh plugin and
nothing leaked by design (known finding), it still works after the hostile stream was drained.
-/
namespace Driver.C14
open Driver

structure St where
  hist : String := ""
  lastEv : List String := []
  initOk : Bool := true
  leaky : Bool := false
  reported : List String := []
  hists : Nat := 0
  events : Nat := 0
  refused : Nat := 0
  panics : Nat := 0
  probes : Nat := 0

def step (st : St) (toks : List String) : St × List Issue :=
  match toks with
  | "H" :: h :: _ => ({ st with hist := h, lastEv := [], initOk := true, leaky := false, reported := [], hists := st.hists + 1 }, [])
  | "HERR" :: _ => (st, [])
  | "Z" :: _ => (st, [])
  | "X" :: "leaky" :: _ => ({ st with leaky := true }, [])
  | "E" :: ev => ({ st with lastEv := ev, events := st.events + 1 }, [])
  | "R" :: "panic" :: rest =>
    let site := (rest.find? (·.startsWith "at=")).getD "at=?"
    let kind := st.lastEv.headD "?"
    let cls := s!"C14:handler-panicked_{kind}_{site}"
    let st := { st with panics := st.panics + 1 }
    if st.reported.contains cls then (st, []) else
    ({ st with reported := cls :: st.reported }, [⟨.property, s!"C14:handler-panicked {kind} {site} hist={st.hist} {" ".intercalate (rest.take 1)}"⟩])
  | "R" :: res :: _ =>
    let st := if res == "err" then { st with refused := st.refused + 1 } else st
    let kind := st.lastEv.headD "?"
    let st := if kind.startsWith "init-" && res != "ok" then { st with initOk := false } else st
    if kind.startsWith "final-" then
      let st := { st with probes := st.probes + 1 }
      if res != "ok" && st.initOk && !st.leaky then
        (st, [⟨.property, s!"C14:later-valid-request-refused-after-refusals {kind} hist={st.hist}"⟩])
      else (st, [])
    else (st, [])
  | _ => (st, [⟨.parse, "unknown"⟩])

def main : IO UInt32 := Driver.run step {} (fun st =>
  s!"hists={st.hists} events={st.events} refused={st.refused} panics={st.panics} probes={st.probes}")

end Driver.C14
