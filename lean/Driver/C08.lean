import Driver.Common
import Nri.Model.CpuAlloc
namespace Driver.C08
open Nri.CpuAlloc Driver

structure St where
  pkgs : List (List Nat) := []
  cores : List (List Nat) := []
  prios : List (List Nat) := []
  offline : List Nat := []
  machines : Nat := 0
  stageRuns : Nat := 0
  apiCalls : Nat := 0
  nontrivial : Nat := 0
  exhaustiveMachines : Nat := 0

def pset (s : String) : Option (List Nat) :=
  if s == "-" then some [] else (s.splitOn "+").mapM String.toNat?

def psets (s : String) : Option (List (List Nat)) :=
  if s == "" then some [] else (s.splitOn ",").mapM pset

def sameSet (a b : List Nat) : Bool := a.all (b.contains ·) && b.all (a.contains ·)

def parseState (f r c : String) : Option State := do
  pure { from_ := ← pset f, result := ← pset r, cnt := ← c.toNat? }

/-- relational check of a set-taking stage: the newly taken CPUs are a union of whole candidate
sets, admissibly, and no untaken candidate would still have fitted. -/
def relSets (cands : List (List Nat)) (pre post : State) : Option String :=
  let taken := post.result.filter (fun x => !pre.result.contains x)
  let T := cands.filter (fun c => !c.isEmpty && c.any (taken.contains ·))
  if !admissible pre T then some "taken sets are not an admissible selection of idle candidates"
  else
    let m := takeAll pre T
    if !(sameSet m.result post.result && sameSet m.from_ post.from_ && m.cnt == post.cnt) then
      some s!"post state is not pre with whole candidate sets taken (model cnt={m.cnt})"
    else if post.cnt != 0 && cands.any (fun c => !c.isEmpty && !T.contains c && c.length ≤ post.cnt) then
      some "an idle candidate that still fits was not taken"
    else none

/-- functional tie to the loop model: with the candidates ordered "taken first" (the oracle order read off the
implementation's result), `foldStage` - the subject of `foldStage_inv` - must produce the implementation's post state -/
def viaFold (cands : List (List Nat)) (pre post : State) : Option String :=
  let taken := post.result.filter (fun x => !pre.result.contains x)
  let T := cands.filter (fun c => !c.isEmpty && c.any (taken.contains ·))
  let U := cands.filter (fun c => !c.isEmpty && !(c.any (taken.contains ·)))
  let m := foldStage (T ++ U) pre
  if sameSet m.result post.result && sameSet m.from_ post.from_ && m.cnt == post.cnt then none
  else some s!"foldStage over (taken ++ untaken) candidates gives result={m.result} from={m.from_} cnt={m.cnt}"

def step (st : St) (toks : List String) : St × List Issue :=
  match toks with
  | ["M", _, pk, co, pr, off, _, _] =>
    match psets pk, psets co, psets pr, pset off with
    | some pk, some co, some pr, some off =>
      ({ st with pkgs := pk, cores := co, prios := pr, offline := off, machines := st.machines + 1 }, [])
    | _, _, _, _ => (st, [⟨.parse, "M"⟩])
  | "MERR" :: _ => (st, [])
  | ["XH", _, _] => ({ st with exhaustiveMachines := st.exhaustiveMachines + 1 }, [])
  | ["G", stage, _, _, _, _, "=>", "panic"] => (st, [⟨.property, s!"stage {stage} panicked"⟩])
  | ["G", stage, prefer, f, r, c, "=>", f', r', c'] =>
    match parseState f r c, parseState f' r' c', prefer.toNat? with
    | some pre, some post, some prefer =>
      let is : List Issue := []
      let is := if !stageOKb pre post then is ++ [⟨.property, s!"stage {stage} violates the stage contract (result/from bookkeeping)"⟩] else is
      let online := fun (c : List Nat) => c.filter (fun x => !st.offline.contains x)
      let is := match stage with
        | "pkgs" =>
          let cands := st.pkgs.map fun p =>
            let c := online p
            if prefer < 3 then c.filter (fun x => (st.prios.getD prefer []).contains x) else c
          let idle := cands.filter (fun c => c.all (pre.from_.contains ·))
          let is := match viaFold idle pre post with | some e => is ++ [⟨.model, s!"takeIdlePackages: {e}"⟩] | none => is
          match relSets idle pre post with | some e => is ++ [⟨.model, s!"takeIdlePackages: {e}"⟩] | none => is
        | "cores" =>
          let idle := (st.cores.map online).filter (fun c => !c.isEmpty && c.all (pre.from_.contains ·))
          let is := match viaFold idle pre post with | some e => is ++ [⟨.model, s!"takeIdleCores: {e}"⟩] | none => is
          match relSets idle pre post with | some e => is ++ [⟨.model, s!"takeIdleCores: {e}"⟩] | none => is
        | "threads" =>
          let cand := online pre.from_
          let taken := post.result.filter (fun x => !pre.result.contains x)
          let m := takeThreads pre taken
          -- (the loop model on the oracle order: taken CPUs first; the real dispatcher runs this stage only while cnt > 0)
          let ts := if pre.cnt > 0 then threadStage (taken ++ cand.filter (fun x => !taken.contains x)) pre else pre
          let is := if pre.cnt > 0 && !(sameSet ts.result post.result && sameSet ts.from_ post.from_ && ts.cnt == post.cnt) then
            is ++ [⟨.model, s!"takeIdleThreads: threadStage gives result={ts.result} from={ts.from_} cnt={ts.cnt}"⟩] else is
          if !(taken.all (cand.contains ·) && taken.length == min pre.cnt cand.length && sameSet m.result post.result && sameSet m.from_ post.from_ && m.cnt == post.cnt) then
            is ++ [⟨.model, "takeIdleThreads: post is not pre with min(cnt, candidates) single CPUs taken"⟩] else is
        | _ => is
      let nt := post.result.length > pre.result.length
      ({ st with stageRuns := st.stageRuns + 1, nontrivial := st.nontrivial + (if nt then 1 else 0) }, is)
    | _, _, _ => (st, [⟨.parse, "G"⟩])
  | ["A", f, cnt, _, _, "=>", res, f', det] =>
    match pset f, cnt.toNat?, pset f' with
    | some from0, some n, some from' =>
      let is : List Issue := if det != "same" then [⟨.property, "AllocateCpus is not deterministic (two discoveries of the same machine differ)"⟩] else []
      let is := if n > from0.length then
          (if res != "err" ∨ !sameSet from' from0 then is ++ [⟨.property, "request for more CPUs than the set holds did not fail or changed the set"⟩] else is)
        else match (if res == "err" then none else pset res) with
          | none => is ++ [⟨.property, "AllocateCpus failed although n <= |set|"⟩]
          | some r =>
            let ok := r.Nodup && r.length == n && r.all (from0.contains ·) && from'.all (fun x => from0.contains x && !r.contains x) &&
                      from0.all (fun x => r.contains x || from'.contains x) && from'.Nodup
            if !ok then is ++ [⟨.property, s!"AllocateCpus contract violated: |result|={r.length} n={n}"⟩] else is
      ({ st with apiCalls := st.apiCalls + 1 }, is)
    | _, _, _ => (st, [⟨.parse, "A"⟩])
  | ["R", f, cnt, _, _, "=>", res, f'] =>
    match pset f, cnt.toNat?, pset f' with
    | some from0, some n, some left =>
      let is : List Issue := match (if res == "err" then none else pset res) with
        | none => [⟨.property, "ReleaseCpus failed although n <= |set|"⟩]
        | some kept =>
          let ok := left.length == n && kept.length + n == from0.length && left.Nodup && kept.Nodup &&
                    left.all (fun x => from0.contains x && !kept.contains x) && kept.all (from0.contains ·)
          if !ok then [⟨.property, s!"ReleaseCpus contract violated: left={left.length} n={n}"⟩] else []
      ({ st with apiCalls := st.apiCalls + 1 }, is)
    | _, _, _ => (st, [⟨.parse, "R"⟩])
  | _ => (st, [⟨.parse, "unknown"⟩])

def main : IO UInt32 := Driver.run step {} (fun st =>
  s!"machines={st.machines} exhaustive={st.exhaustiveMachines} stages={st.stageRuns} api={st.apiCalls} nontrivial={st.nontrivial}")

end Driver.C08
