import Driver.Common
import Nri.Model.SaveFs
/-!
C10 driver: replays the harness' save/crash/plant/reload steps on the file-system model
(`Nri.SaveFs`) and evaluates the property's predicates on the files the implementation left
on disk.  File contents are identified by the harness (sha-256 -> id); the model content of a
complete file `id` of length `n` is `replicate n id`, of a prefix the corresponding `take`.
-/
namespace Driver.C10
open Nri.SaveFs Driver

structure St where
  hist : String := ""
  fs : Fs := ⟨none, none⟩
  names : List (Nat × Bytes) := []          -- id -> model content (an id can denote several equal-byte contents)
  kinds : List (Nat × String) := []
  prevCache : String := "absent"            -- actual token of the snapshot file before the current step
  lastSave : Option Nat := none             -- snapshot id of the save being checked
  lastWasPlant : Bool := false
  lastSaveOk : Bool := false                -- the step being checked is an explicit Save() that reported success
  hists : Nat := 0
  saves : Nat := 0
  crashes : Nat := 0
  reloads : Nat := 0
  perms : Nat := 0
  nontrivial : Nat := 0

def contentOf (st : St) (id : Nat) : Option Bytes := (st.names.find? (·.1 == id)).map (·.2)

/-- does actual token `tok` denote model content `c`? -/
def denotes (st : St) (tok : String) (c : Option Bytes) : Bool :=
  match c, tok with
  | none, "absent" => true
  | none, _ => false
  | some _, "absent" => false
  | some c, t => match t.toNat? with
    | some id => st.names.any (fun e => e.1 == id && e.2 == c)
    | none => false

def showC (c : Option Bytes) : String :=
  match c with
  | none => "absent"
  | some b => s!"len{b.length}of{b.headD 0}"

def parseKind (s : String) : Option Nri.SaveFs.Kind :=
  match s with
  | "absent" => some .absent | "symlink" => some .symlink | "dir" => some .dir
  | "regular" => some .regular | "other" => some .other | _ => none

def step (st : St) (toks : List String) : St × List Issue :=
  match toks with
  | ["H", h] => ({ st with hist := h, fs := ⟨none, none⟩, names := [], kinds := [], prevCache := "absent", lastSave := none, lastWasPlant := false, hists := st.hists + 1 }, [])
  | ["N", id, len, kind] =>
    match id.toNat?, len.toNat? with
    | some id, some len =>
      let st := { st with kinds := (id, kind) :: st.kinds }
      if kind == "snap" || kind == "garbage" then ({ st with names := (id, List.replicate len id) :: st.names }, []) else (st, [])
    | _, _ => (st, [⟨.parse, "N"⟩])
  | ["S", "save", name, sid, res] =>
    match sid.toNat? with
    | some sid =>
      match contentOf st sid with
      | some d =>
        let fs := Nri.SaveFs.run st.fs (saveProg d)
        let is := if name == "save" && res != "ok" then [⟨.model, s!"hist={st.hist} Save failed without an injected fault"⟩] else []
        ({ st with fs, lastSave := some sid, lastWasPlant := false, lastSaveOk := name == "save" && res == "ok", saves := st.saves + 1 }, is)
      | none => (st, [⟨.parse, "save of undeclared content"⟩])
    | none => (st, [⟨.parse, "S save"⟩])
  | ["S", "savefail", name, sid, k, pid, res] =>
    match sid.toNat?, k.toNat?, pid.toNat? with
    | some sid, some k, some pid =>
      match contentOf st sid with
      | some d =>
        let st := { st with names := (pid, d.take k) :: st.names }
        let fs := crashed st.fs d 1 k
        let is := if name == "save" && res != "err" then [⟨.model, s!"hist={st.hist} Save reported success although its write was cut after {k} bytes"⟩] else []
        ({ st with fs, lastSave := some sid, lastWasPlant := false, lastSaveOk := name == "save" && res == "ok", saves := st.saves + 1, crashes := st.crashes + 1 }, is)
      | none => (st, [⟨.parse, "savefail of undeclared content"⟩])
    | _, _, _ => (st, [⟨.parse, "S savefail"⟩])
  | ["S", "plant", id, parent, k] =>
    match id.toNat?, k.toNat? with
    | some id, some k =>
      let st := match parent.toNat? with
        | some p => match contentOf st p with
          | some d => { st with names := (id, d.take k) :: st.names }
          | none => st
        | none => st
      match contentOf st id with
      | some c => ({ st with fs := { st.fs with tmp := some c }, lastSave := none, lastWasPlant := true, lastSaveOk := false, nontrivial := st.nontrivial + 1 }, [])
      | none => (st, [⟨.parse, "plant of undeclared content"⟩])
    | _, _ => (st, [⟨.parse, "S plant"⟩])
  | ["F", a, b] =>
    -- correspondence: the model's files are the implementation's
    let is : List Issue := []
    let is := if !denotes st a st.fs.cache then is ++ [⟨.model, s!"hist={st.hist} snapshot file: model {showC st.fs.cache}, implementation {a}"⟩] else is
    let is := if !denotes st b st.fs.tmp then is ++ [⟨.model, s!"hist={st.hist} temporary file: model {showC st.fs.tmp}, implementation {b}"⟩] else is
    -- property: the snapshot file is the previous one or the complete new one; always a complete snapshot
    let isSnap := a == "absent" || (match a.toNat? with | some id => st.kinds.any (fun e => e.1 == id && e.2 == "snap") | none => false)
    let okNew := match st.lastSave with | some sid => a == toString sid | none => false
    let is := if !(a == st.prevCache || okNew) then is ++ [⟨.property, s!"C10:snapshot-file-neither-old-nor-new hist={st.hist} before={st.prevCache} after={a} new={st.lastSave.map toString |>.getD "-"}"⟩] else is
    let is := if !isSnap then is ++ [⟨.property, s!"C10:snapshot-file-not-a-complete-snapshot hist={st.hist} file={a}"⟩] else is
    -- property: a Save() that reports success has put the state at that Save on disk (what a reload then restores)
    let is := if st.lastSaveOk && !okNew then is ++ [⟨.property, s!"C10:successful-save-not-on-disk hist={st.hist} file={a} saved={st.lastSave.map toString |>.getD "-"}"⟩] else is
    ({ st with prevCache := a, lastSave := none, lastSaveOk := false }, is)
  | "L" :: res :: eq :: disk :: rest =>
    let st := { st with reloads := st.reloads + 1 }
    let is : List Issue := []
    let is := if res != "ok" then is ++ [⟨.property, s!"C10:reload-failed hist={st.hist} disk={disk} {" ".intercalate rest}"⟩] else is
    let is := if res == "ok" && eq != "1" then is ++ [⟨.property, s!"C10:reloaded-cache-differs-from-last-save hist={st.hist} disk={disk} {" ".intercalate rest}"⟩] else is
    let is := if !denotes st disk st.fs.cache then is ++ [⟨.model, s!"hist={st.hist} reload: model snapshot file {showC st.fs.cache}, implementation {disk}"⟩] else is
    (st, is)
  | ["P", target, kind, mode, res] =>
    match parseKind kind, mode.toNat? with
    | some k, some m =>
      let st := { st with perms := st.perms + 1 }
      let acc := match target with
        | "file" => newCacheAccepts k m .absent 0 .absent 0 18 18 18 || (k != .absent && newCacheAccepts k m .dir 0o710 .absent 0 18 18 18)
        | "dir" => newCacheAccepts .absent 0 k m .absent 0 18 18 18
        | _ => newCacheAccepts .absent 0 .dir 0o710 k m 18 18 18
      let is : List Issue := []
      let used := res == "accepted" || res == "accepted-and-blocked"
      let is := if acc != used then is ++ [⟨.model, s!"perm {target} {kind} {mode}: model {if acc then "accepts" else "refuses"}, implementation {res}"⟩] else is
      -- property: symlinks, wrong file types and group/other-writable entries are refused
      let wrongType := k != .absent && k != (if target == "file" then Nri.SaveFs.Kind.regular else Nri.SaveFs.Kind.dir)
      let unsafeEntry := wrongType || (k != .absent && m &&& 0o022 != 0)
      let is := if unsafeEntry && used then is ++ [⟨.property, s!"C10:unsafe-entry-accepted {target} {kind} mode={mode} ({res})"⟩] else is
      (st, is)
    | _, _ => (st, [⟨.parse, "P"⟩])
  | _ => (st, [⟨.parse, "unknown"⟩])

def main : IO UInt32 := Driver.run step {} (fun st =>
  s!"hists={st.hists} saves={st.saves} crashes={st.crashes} reloads={st.reloads} perms={st.perms} nontrivial={st.nontrivial}")

end Driver.C10
