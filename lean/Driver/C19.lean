import Driver.Common
import Nri.Model.Expr
namespace Driver.C19
open Nri.Expr Driver

structure St where
  cases : Nat := 0
  nontrivial : Nat := 0   -- valid expressions on joint or nested keys
  knownClass : Nat := 0
  weights : Nat := 0

def hexVal (c : Char) : Option Nat :=
  if c.isDigit then some (c.toNat - '0'.toNat)
  else if 'a' ≤ c ∧ c ≤ 'f' then some (c.toNat - 'a'.toNat + 10) else none

def unhex (s : String) : Option String :=
  if s == "-" then some "" else
  let rec go : List Char → List Char → Option (List Char)
    | [], acc => some acc.reverse
    | a :: b :: rest, acc => do
      let x ← hexVal a; let y ← hexVal b
      go rest (Char.ofNat (x * 16 + y) :: acc)
    | _, _ => none
  (go s.toList []).map String.ofList

def parseMap (s : String) : Option SMap :=
  if s == "-" then some [] else
  (s.splitOn ";").mapM fun kv => match kv.splitOn "=" with
    | [k, v] => do pure (← unhex k, ← unhex v)
    | _ => none

def parseOp : String → Op
  | "Equals" => .equals | "NotEqual" => .notEqual | "In" => .in_ | "NotIn" => .notIn
  | "Exists" => .exists_ | "NotExist" => .notExist | "AlwaysTrue" => .alwaysTrue
  | "Matches" => .matches | "MatchesNot" => .matchesNot | "MatchesAny" => .matchesAny
  | "MatchesNone" => .matchesNone | _ => .unknown

def parsePod (s : String) : Option (Option Pod) :=
  if s == "-" then some none else
  match s.splitOn ":" with
  | [n, ns, q, id, uid, l] => do
    pure (some { name := ← unhex n, ns := ← unhex ns, qosclass := ← unhex q, id := ← unhex id, uid := ← unhex uid, labels := ← parseMap l })
  | _ => none

def parseCtr (s : String) (p : Option Pod) : Option Ctr :=
  match s.splitOn ":" with
  | [n, ns, q, id, l, t] => do
    pure { name := ← unhex n, ns := ← unhex ns, qosclass := ← unhex q, id := ← unhex id, labels := ← parseMap l, tags := ← parseMap t, pod := p }
  | _ => none

structure Sub where
  raw : String
  clean : String
  status : String
  value : String

def parseSubs (s : String) : Option (List Sub) :=
  if s == "_" then some [] else
  (s.splitOn ",").mapM fun e => match e.splitOn "=" with
    | [r, c, st, v] => do pure { raw := ← unhex r, clean := ← unhex c, status := st, value := ← unhex v }
    | _ => none

def parseGlob (s : String) : Option (List (String × String × Bool)) :=
  if s == "_" then some [] else
  (s.splitOn ",").mapM fun e => match e.splitOn "=" with
    | [p, v, r] => do pure (← unhex p, ← unhex v, r == "1")
    | _ => none

def showRes : Res → String
  | .found _ => "f" | .absent => "a" | .err => "e"

def step (st : St) (toks : List String) : St × List Issue :=
  match toks with
  | ["X", key, op, vals, ctr, pod, subs, globs, "=>", valid, ev, kvv, kvok, dual] =>
    match unhex key, (if vals == "_" then some [] else (vals.splitOn ",").mapM unhex), parsePod pod, parseSubs subs, parseGlob globs, unhex kvv with
    | some key, some vals, some pod, some subs, some globs, some kvv =>
      match parseCtr ctr pod with
      | none => (st, [⟨.parse, "ctr"⟩])
      | some c =>
        let e : Expr := { key, op := parseOp op, values := vals }
        let clean := fun (k : String) => ((subs.find? (·.raw == k)).map (·.clean)).getD k
        let glob := fun (p v : String) => ((globs.find? (fun g => g.1 == p && g.2.1 == v)).map (·.2.2)).getD false
        let is : List Issue := []
        -- validation
        let mv := validate e
        let is := if mv != (valid == "1") then is ++ [⟨.model, s!"validate model={mv}"⟩] else is
        -- resolution of every sub key the model uses, against the implementation's ResolveRef
        let ks := (splitKeys key).1
        let is := ks.foldl (fun (is : List Issue) (k : String) =>
          match subs.find? (·.raw == k) with
          | none => is ++ [⟨.model, s!"splitKeys: model sub key {k} not among the implementation's"⟩]
          | some sb =>
            let r := resolve true c sb.clean
            let is := if showRes r != sb.status then is ++ [⟨.model, s!"resolve {k}: model={showRes r} impl={sb.status}"⟩] else is
            match r with
            | .found v => if v != sb.value then is ++ [⟨.model, s!"resolve {k}: value model={v} impl={sb.value}"⟩] else is
            | _ => is) is
        -- key value
        let (mvv, mok) := keyValue true clean c key
        let is := if mvv != kvv ∨ mok != (kvok == "1") then is ++ [⟨.model, s!"keyValue model=({mvv},{mok})"⟩] else is
        -- evaluation
        let is := if ev == "p" then is ++ [⟨.property, "Evaluate panicked"⟩]
          else if ev == "x" then is
          else if mv ∨ e.op != .unknown then
            (if evaluate true glob clean e c != (ev == "1") then is ++ [⟨.model, s!"evaluate model={evaluate true glob clean e c}"⟩] else is)
          else is
        -- property: a validated expression must not hit a resolution *error* (subject with its pod present)
        let fails := ks.any fun k => ((subs.find? (·.raw == k)).map (·.status)) == some "e"
        let knownCls := ks.any fun k =>
          let segs := ((clean k).splitOn "/").dropWhile (· == "")   -- (a leading '/' is trimmed by validation and resolution alike)
          segs == ["uid"] ∨ (segs.take 2 == ["pod", "pod"]) ∨ (segs.take 2 == ["pod", "tags"])
        let (is, known) :=
          if valid == "1" ∧ fails ∧ c.pod.isSome then
            if knownCls then (is ++ [⟨.property, "C19:validated-key-unresolvable-for-subject"⟩], 1)
            else (is ++ [⟨.property, s!"C19:validated-expression-fails-at-evaluation key={key}"⟩], 0)
          else (is, 0)
        -- property: negation duality on the implementation's own two answers (operator and its documented dual,
        -- same key, values and subject)
        let is := if (dual == "0" ∨ dual == "1") ∧ (ev == "0" ∨ ev == "1") ∧ dual == ev then
            is ++ [⟨.property, s!"C19:operator-not-negation-of-its-dual op={op} both={ev}"⟩] else is
        let is := if dual == "p" then is ++ [⟨.property, "Evaluate of the dual operator panicked"⟩] else is
        -- joint keys: value is the join of the implementation's own sub results
        let is := if ks.length > 1 then
            let vsep := (splitKeys key).2
            let vs := ks.map fun k => match subs.find? (·.raw == k) with | some sb => (if sb.status == "f" then sb.value else "") | none => ""
            if vsep.intercalate vs != kvv then is ++ [⟨.property, "joint key value is not its sub-key values joined by the separator"⟩] else is
          else is
        let nt := mv && (ks.length > 1 || key.contains '/')
        ({ st with cases := st.cases + 1, nontrivial := st.nontrivial + (if nt then 1 else 0), knownClass := st.knownClass + known }, is)
    | _, _, _, _, _, _ => (st, [⟨.parse, "X"⟩])
  | ["B", ns, annot, defs, "=>", res] =>
    -- defs: name|pat=glob,..|exprResult,..  ; the model is run with the implementation's glob and
    -- expression results as the external functions, so what is compared is the selection logic
    let parseDef : String → Option (String × List (String × Bool) × List Bool) := fun (s : String) => match s.splitOn "|" with
      | [n, pats, exs] => do
        let n ← unhex n
        let pats ← if pats == "_" then some [] else (pats.splitOn ",").mapM fun (pv : String) => match pv.splitOn "=" with
          | [p, v] => (unhex p).map fun p => (p, v == "1")
          | _ => none
        let exs := if exs == "_" then [] else (exs.splitOn ",").map (· == "1")
        pure (n, pats, exs)
      | _ => none
    match unhex ns, (defs.splitOn ";").mapM parseDef with
    | some ns, some ds =>
      let annotV : Option String := if annot == "-" then none else if annot == "00" then some "" else unhex annot
      -- encode each expression result as an expression on a fresh key whose evaluation the `glob`
      -- table cannot influence: use alwaysTrue for true and an unknown operator (false) for false
      let mdefs : List BalloonDef := ds.map fun (n, pats, exs) =>
        { name := n, exprs := exs.map (fun b => if b then ⟨"name", .alwaysTrue, []⟩ else ⟨"name", .unknown, []⟩),
          namespaces := (pats.zipIdx.map fun (pv, i) => s!"{n}#{i}#{pv.1}") }
      let glob := fun (p _v : String) =>
        ds.any fun (n, pats, _) => pats.zipIdx.any fun (pv, i) => s!"{n}#{i}#{pv.1}" == p && pv.2
      let c : Ctr := { name := "", ns := ns, qosclass := "", id := "", labels := [], tags := [], pod := none }
      let m := chooseBalloonDef true glob id mdefs "thedefault" annotV c
      let ms := match m with | .def_ n => (if n == "" then "-" else String.join (n.toUTF8.toList.map fun b => (String.singleton (Nat.toDigits 16 (b.toNat / 16)).head!) ++ (String.singleton (Nat.toDigits 16 (b.toNat % 16)).head!))) | .error => "err"
      let is : List Issue := if ms != res then [⟨.model, s!"chooseBalloonDef model={ms}"⟩] else []
      -- property predicates from the implementation's own per-type results
      let expect : String := match annotV with
        | some a => if ds.any (·.1 == a) then a else "!err"
        | none => match ds.find? (fun (_, pats, exs) => exs.any id || pats.any (·.2)) with
          | some (n, _, _) => n
          | none => "thedefault"
      let got := if res == "err" then "!err" else (unhex res).getD "?"
      let is := if got != expect then is ++ [⟨.property, s!"balloon type selection: expected {expect} got {got}"⟩] else is
      ({ st with cases := st.cases + 1, nontrivial := st.nontrivial + (if ds.length > 1 then 1 else 0) }, is)
    | _, _ => (st, [⟨.parse, "B"⟩])
  | ["F", inp, "=>", r, outp] =>
    match (if inp == "_" then some [] else (inp.splitOn ",").mapM unhex), (if outp == "_" then some [] else (outp.splitOn ",").mapM unhex) with
    | some inp, some outp =>
      let m := (fillBuiltin (inp.map fun n => ⟨n, [], []⟩) []).map (·.name)
      let is : List Issue := if r == "ok" ∧ m != outp then [⟨.model, s!"fillBuiltin model={m}"⟩] else []
      -- property: implicit reserved first, implicit default last
      let is := if r == "ok" ∧ !inp.contains "reserved" ∧ outp.head? != some "reserved" then is ++ [⟨.property, "implicit reserved type is not first"⟩] else is
      let is := if r == "ok" ∧ !inp.contains "default" ∧ outp.getLast? != some "default" then is ++ [⟨.property, "implicit default type is not last"⟩] else is
      ({ st with cases := st.cases + 1 }, is)
    | _, _ => (st, [⟨.parse, "F"⟩])
  | ["W", w, d, "=>", r] =>
    match w.toInt?, d.toInt? with
    | some w, some d =>
      let m := userWeight w d
      let is : List Issue := if r == "err" then [⟨.model, "parseFull failed"⟩] else
        match r.toInt? with
        | some r =>
          (if r != m then [⟨.model, s!"weight model={m}"⟩] else []) ++
          (if r < -1000 ∨ r > 1000 then [⟨.property, s!"affinity weight {r} outside [-1000,1000]"⟩] else [])
        | none => [⟨.parse, "W"⟩]
      ({ st with weights := st.weights + 1 }, is)
    | _, _ => (st, [⟨.parse, "W"⟩])
  | _ => (st, [⟨.parse, "unknown"⟩])

def main : IO UInt32 := Driver.run step {} (fun st => s!"cases={st.cases} nontrivial={st.nontrivial} known={st.knownClass} weights={st.weights}")

end Driver.C19
