import Driver.Common
import Nri.Model.K8sRes
namespace Driver.C20
open Nri.K8s Driver

structure St where
  prevBack : Nat := 0        -- monotonicity along the ascending m sweep
  prevQBack : Nat := 0
  prevM : Nat := 0
  prevS2M : Nat := 0
  prevS : Nat := 0
  nontrivial : Nat := 0

def absDiff (a b : Nat) : Nat := if a ≤ b then b - a else a - b

def optStr : Option Nat → String
  | some n => toString n | none => "-1"

def step (st : St) (toks : List String) : St × List Issue :=
  match toks with
  | ["rt", m, s, back, q, p, qb] =>
    match m.toNat?, s.toNat?, back.toNat?, q.toNat?, p.toNat?, qb.toNat? with
    | some m, some s, some back, some q, some p, some qb =>
      let is : List Issue := []
      let is := if milliCPUToShares m ≠ s then is ++ [⟨.model, s!"milliCPUToShares model={milliCPUToShares m}"⟩] else is
      let is := if sharesToMilliCPU s ≠ back then is ++ [⟨.model, s!"sharesToMilliCPU model={sharesToMilliCPU s}"⟩] else is
      let is := if milliCPUToQuota m ≠ (q, p) then is ++ [⟨.model, s!"milliCPUToQuota model={milliCPUToQuota m}"⟩] else is
      let is := if quotaToMilliCPU q p ≠ qb then is ++ [⟨.model, s!"quotaToMilliCPU model={quotaToMilliCPU q p}"⟩] else is
      -- the property's predicates on the implementation's own values (domain 0..256000)
      let is := if m ≤ 256000 then
          let tol := if s = 2 then 2 else 1
          let is := if absDiff back m > tol then is ++ [⟨.property, s!"shares round trip off by {absDiff back m}"⟩] else is
          let is := if m % 125 = 0 ∧ back ≠ m then is ++ [⟨.property, "multiple of 125 not exact"⟩] else is
          let is := if m ≥ 10 ∧ qb ≠ m then is ++ [⟨.property, "quota round trip not exact"⟩] else is
          let is := if st.prevM < m ∧ back < st.prevBack then is ++ [⟨.property, "shares reconstruction not monotone"⟩] else is
          let is := if st.prevM < m ∧ qb < st.prevQBack then is ++ [⟨.property, "quota reconstruction not monotone"⟩] else is
          is
        else is
      let st := if m ≤ 256000 then { st with prevM := m, prevBack := back, prevQBack := qb } else st
      (st, is)
    | _, _, _, _, _, _ => (st, [⟨.parse, "rt"⟩])
  | ["m2s", m, s] =>
    match m.toNat?, s.toNat? with
    | some m, some s => (st, if milliCPUToShares m ≠ s then [⟨.model, s!"milliCPUToShares model={milliCPUToShares m}"⟩] else [])
    | _, _ => (st, [⟨.parse, "m2s"⟩])
  | ["s2m", s, m] =>
    match s.toNat?, m.toNat? with
    | some s, some m =>
      let is := if sharesToMilliCPU s ≠ m then [⟨.model, s!"sharesToMilliCPU model={sharesToMilliCPU s}"⟩] else []
      let is := if 2 ≤ st.prevS ∧ st.prevS < s ∧ m < st.prevS2M then is ++ [⟨.property, "SharesToMilliCPU not monotone"⟩] else is
      ({ st with prevS := s, prevS2M := m }, is)
    | _, _ => (st, [⟨.parse, "s2m"⟩])
  | ["q2m", q, p, m] =>
    match q.toNat?, p.toNat?, m.toNat? with
    | some q, some p, some m => (st, if quotaToMilliCPU q p ≠ m then [⟨.model, s!"quotaToMilliCPU model={quotaToMilliCPU q p}"⟩] else [])
    | _, _, _ => (st, [⟨.parse, "q2m"⟩])
  | ["oompanic", c] =>
    match c.toNat? with
    | some c => (st, if c ≥ 2^20 then [⟨.property, "table construction panicked"⟩] else [])
    | none => (st, [⟨.parse, "oompanic"⟩])
  | ["oom", c, fuel, len, reqs, ests] =>
    match c.toNat?, fuel.toNat?, len.toNat?, intList? reqs, natList? ests with
    | some c, some fuel, some len, some reqs, some ests =>
      let is : List Issue := []
      let is := if fuel ≠ c / 1000 then is ++ [⟨.assumption, s!"int(milliMem)={fuel} but cap/1000={c/1000}"⟩] else is
      let is := if len ≠ 1001 then is ++ [⟨.property, s!"table has {len} entries, expected 1001"⟩] else is
      let is := if reqs.length ≠ 999 ∨ ests.length ≠ 999 then is ++ [⟨.parse, "oom lengths"⟩] else is
      -- entries: closed form, and the property's inverse predicate directly
      let idx := List.range' 1 999
      let is := (idx.zip reqs).foldl (fun is (i, r) =>
        if r < 0 then is ++ [⟨.property, s!"hole at i={i}"⟩]
        else
          let r := r.toNat
          let is := if r ≠ smallestReq c i then is ++ [⟨.model, s!"entry i={i} model={smallestReq c i} impl={r}"⟩] else is
          if memReqToOomAdj c r ≠ (1000 : Int) - i then is ++ [⟨.property, s!"adj({r})≠{1000-i}"⟩] else is) is
      -- oracle assumption: float estimate within tolerance of the exact value
      let prevs := (0 : Nat) :: (reqs.map Int.toNat)
      let is := (prevs.zip ests).foldl (fun is (prev, e) =>
        if absDiff e (exactEst c prev) > 2 then is ++ [⟨.assumption, s!"float estimate {e} vs exact {exactEst c prev}"⟩] else is) is
      -- the model construction itself, driven by the implementation's estimates
      let estArr := ests.toArray
      let built := buildFrom c fuel (fun i _ => estArr.getD (i-1) 0) 1 0 999
      let is := if built ≠ some (reqs.map Int.toNat) then is ++ [⟨.model, "buildFrom with impl estimates ≠ impl table"⟩] else is
      ({ st with nontrivial := st.nontrivial + 1 }, is)
    | _, _, _, _, _ => (st, [⟨.parse, "oom"⟩])
  | "o2r" :: c :: adj :: lim :: rest =>
    match c.toNat?, adj.toInt?, lim.toNat? with
    | some c, some adj, some lim =>
      let model := oomAdjToMemReq c adj lim
      match rest with
      | ["nil"] =>
        let is := if model ≠ none then [⟨.model, s!"model={optStr model} impl=nil"⟩] else []
        let is := if 3 ≤ adj ∧ adj ≤ 999 ∧ lim = 0 then is ++ [⟨.property, "no estimate for burstable adjustment"⟩] else is
        (st, is)
      | [r, back] =>
        match r.toNat?, back.toInt? with
        | some r, some back =>
          let is := if model ≠ some r then [⟨.model, s!"model={optStr model} impl={r}"⟩] else []
          let is := if back ≠ adj then is ++ [⟨.property, s!"estimate maps back to {back}"⟩] else is
          (st, is)
        | _, _ => (st, [⟨.parse, "o2r"⟩])
      | _ => (st, [⟨.parse, "o2r"⟩])
    | _, _, _ => (st, [⟨.parse, "o2r"⟩])
  | ["est", c, qos, shares, quota, period, lim, adj, cr, cl, mr, ml, om, ol] =>
    match c.toNat?, qos.toNat?, shares.toNat?, quota.toNat?, period.toNat?, lim.toNat?, adj.toInt?,
          cr.toInt?, cl.toInt?, mr.toInt?, ml.toInt?, om.toInt?, ol.toInt? with
    | some c, some qos, some shares, some quota, some period, some lim, some adj,
      some cr, some cl, some mr, some ml, some om, some ol =>
      let (a, b, d, e) := estimate c qos shares quota period lim adj
      let f : Option Nat → Int := fun o => match o with | some n => n | none => -1
      let is : List Issue := if (f a, f b, f d, f e) ≠ (cr, cl, mr, ml) then
        [⟨.model, s!"estimate model={f a},{f b},{f d},{f e}"⟩] else []
      -- the property's own clauses on the implementation's values, against what the kubelet encoded:
      -- the CPU limit of a non-Guaranteed container is exact from 10 mCPU upwards (a Guaranteed one copies its request)
      let is := if ol ≥ 10 ∧ qos ≠ 0 ∧ cl ≠ ol then is ++ [⟨.property, s!"CPU limit {ol}m encoded as quota/period reconstructed as {cl}"⟩] else is
      -- the CPU request is within 1 mCPU (2 at the minimum-shares floor) of the encoded one
      let is := if om ≥ 0 ∧ ((if cr < 0 then 0 else cr) - om).natAbs > (if shares ≤ 2 then 2 else 1) then
        is ++ [⟨.property, s!"CPU request {om}m encoded as {shares} shares reconstructed as {cr}"⟩] else is
      -- the memory limit is the cgroup's
      let is := if lim > 0 ∧ ml ≠ (lim : Int) then is ++ [⟨.property, s!"memory limit {lim} reconstructed as {ml}"⟩] else is
      (st, is)
    | _, _, _, _, _, _, _, _, _, _, _, _, _ => (st, [⟨.parse, "est"⟩])
  | _ => (st, [⟨.parse, "unknown op"⟩])

def main : IO UInt32 := Driver.run step {} (fun st => s!"oomtables={st.nontrivial}")

end Driver.C20
