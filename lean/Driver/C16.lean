import Driver.Common
import Nri.Model.Topo
namespace Driver.C16
open Nri.Topo Driver

structure St where
  machine : Option Machine := none
  cfg : String := ""
  allowed : List Nat := []
  reserved : List Nat := []
  isolated : List Nat := []
  pools : List Pool := []
  expectPools : Nat := 0
  machines : Nat := 0
  poolSetups : Nat := 0
  nontrivial : Nat := 0
  rejected : Nat := 0

def pset (s : String) : Option (List Nat) :=
  if s == "-" then some [] else (s.splitOn "+").mapM String.toNat?

def parseCpu (s : String) : Option CPU :=
  match s.splitOn ":" with
  | [id, pkg, die, cl, node, core, on, iso, kind, th, l2, l3] => do
    pure { id := ← id.toNat?, pkg := ← pkg.toNat?, die := ← die.toNat?, cluster := ← cl.toNat?, node := ← node.toNat?, core := ← core.toNat?,
           online := on == "1", isolated := iso == "1", kind := ← kind.toNat?, threads := ← pset th, l2 := ← pset l2, l3 := ← pset l3 }
  | _ => none

def parseNode (s : String) : Option MNode :=
  match s.splitOn ":" with
  | [id, cpus, dist, mem, hm, nm] => do
    pure { id := ← id.toNat?, cpus := ← pset cpus, dist := ← pset dist, memTotal := ← mem.toNat?, hasMem := hm == "1", normal := nm == "1" }
  | _ => none

def parseMachine (c n : String) : Option Machine := do
  pure { cpus := ← (c.splitOn ",").mapM parseCpu, nodes := ← (n.splitOn ",").mapM parseNode }

def same (a b : List Nat) : Bool := a.all (b.contains ·) && b.all (a.contains ·)

def kv (s key : String) : Option String :=
  if s.startsWith (key ++ "=") then some (s.drop (key.length + 1)).toString else none

/-- compare the discovered view with the abstract machine (online CPUs' topology only) -/
def compareDiscovery (m d : Machine) (types : List String) (dists : List (List Nat)) : List String :=
  let errs : List String := []
  let errs := if m.cpus.length != d.cpus.length then errs ++ ["number of CPUs"] else errs
  let errs := (m.cpus.zip d.cpus).foldl (fun errs (a, b) =>
    let errs := if a.id != b.id ∨ a.online != b.online ∨ a.isolated != b.isolated ∨ a.node != b.node then errs ++ [s!"cpu {a.id}: id/online/isolated/node"] else errs
    if a.online then
      let onl := fun (l : List Nat) => l.filter (fun x => (m.cpus.find? (·.id == x)).map (·.online) == some true)
      let errs := if a.pkg != b.pkg ∨ a.die != b.die ∨ a.core != b.core ∨ a.cluster != b.cluster then errs ++ [s!"cpu {a.id}: package/die/cluster/core"] else errs
      let errs := if !same (onl a.threads) b.threads then errs ++ [s!"cpu {a.id}: thread siblings"] else errs
      let errs := if a.kind != b.kind then errs ++ [s!"cpu {a.id}: core kind"] else errs
      let errs := if !same a.l2 b.l2 then errs ++ [s!"cpu {a.id}: L2 sharing set"] else errs
      if !same a.l3 b.l3 then errs ++ [s!"cpu {a.id}: L3 sharing set"] else errs
    else errs) errs
  let errs := if m.nodes.length != d.nodes.length then errs ++ ["number of nodes"] else errs
  let errs := (m.nodes.zip d.nodes).foldl (fun errs (a, b) =>
    if a.id != b.id ∨ !same a.cpus b.cpus ∨ a.memTotal != b.memTotal ∨ a.hasMem != b.hasMem ∨ a.normal != b.normal then
      errs ++ [s!"node {a.id}: cpulist/memory/normal"] else errs) errs
  let errs := (m.nodes.zip dists).foldl (fun errs (a, ds) => if a.dist != ds then errs ++ [s!"node {a.id}: distances"] else errs) errs
  -- memory types per the heuristic
  let errs := (m.nodes.zip types).foldl (fun errs (a, t) =>
    let mt := match m.memType a with | .dram => "DRAM" | .pmem => "PMEM" | .hbm => "HBM"
    if mt != t then errs ++ [s!"node {a.id}: memory type model={mt} impl={t}"] else errs) errs
  errs

def parsePool (t : List String) : Option Pool :=
  match t with
  | [name, kind, parent, depth, iso, res, sh, d, p, h] => do
    pure { name := name.replace "_" " ", kind := kind.replace "_" " ", parent := parent.replace "_" " ", depth := ← depth.toNat?, cpus := [],
           isolated := ← pset iso, reserved := ← pset res, sharable := ← pset sh, dram := ← pset d, pmem := ← pset p, hbm := ← pset h }
  | _ => none

def finishPools (st : St) : St × List Issue :=
  match st.machine with
  | none => (st, [])
  | some m =>
    if st.pools.length != st.expectPools then (st, [⟨.parse, "pool count"⟩]) else
    let model := m.buildPools st.allowed st.isolated st.reserved
    let is : List Issue := []
    -- model == implementation, pool by pool
    let is := if model.length != st.pools.length then
        is ++ [⟨.model, s!"number of pools model={model.length} impl={st.pools.length} cfg={st.cfg}"⟩]
      else (model.zip st.pools).foldl (fun is (a, b) =>
        if a.name != b.name ∨ a.kind != b.kind ∨ a.parent != b.parent ∨ a.depth != b.depth then is ++ [⟨.model, s!"pool {a.name}/{b.name}: name/kind/parent/depth"⟩]
        else if !(same a.isolated b.isolated && same a.reserved b.reserved && same a.sharable b.sharable) then is ++ [⟨.model, s!"pool {a.name}: cpu supply"⟩]
        else if !(same a.dram b.dram && same a.pmem b.pmem && same a.hbm b.hbm) then is ++ [⟨.model, s!"pool {a.name}: memory model={a.dram}/{a.pmem}/{a.hbm} impl={b.dram}/{b.pmem}/{b.hbm}"⟩]
        else is) is
    -- the property's predicates on the implementation's own pools
    let withMem := (m.nodes.filter (·.memTotal > 0)).map (·.id)
    let errs := poolsWF st.pools st.allowed withMem
    -- CPU-less PMEM/HBM nodes: attached to exactly the (non-root) pools that contain one of their closest CPU-bearing DRAM nodes
    let cpuless := (m.nodes.filter (fun n => n.cpus.isEmpty && n.memTotal > 0)).map (·.id)
    let errs := st.pools.foldl (fun errs b =>
      if b.parent == "-" then errs else
      let own := (b.dram ++ b.pmem ++ b.hbm).filter (fun i => !cpuless.contains i)
      let want := m.closestSpecialMem own
      let got := (b.pmem ++ b.hbm ++ b.dram).filter (cpuless.contains ·)
      if !(subset want got && subset got want) then errs ++ [s!"C16:special-memory-attachment {b.name}: attached {got}, closest-rule gives {want}"] else errs) errs
    -- tree-shape rules
    let multi := m.pkgIds.length > 1
    let errs := if multi != st.pools.any (·.kind == "virtual node") then errs ++ ["virtual root iff several sockets"] else errs
    -- reserved set sanity (oracle validity: chosen by the CPU allocator when given as a quantity)
    let errs := if !subset st.reserved st.allowed then errs ++ ["reserved CPUs outside the available set"] else errs
    let is := is ++ errs.map (fun e => ⟨.property, (e ++ " cfg=" ++ st.cfg).replace " " "_"⟩)
    let nt := st.pools.length > 1
    ({ st with poolSetups := st.poolSetups + 1, nontrivial := st.nontrivial + (if nt then 1 else 0), pools := [], expectPools := 0 }, is)

def step (st : St) (toks : List String) : St × List Issue :=
  match toks with
  | ["M", c, n] =>
    match parseMachine c n with
    | some m => ({ st with machine := some m, machines := st.machines + 1, pools := [], expectPools := 0 }, [])
    | none => (st, [⟨.parse, "M"⟩])
  | ["C", cfg] => ({ st with cfg := cfg }, [])
  | "E" :: _ => ({ st with rejected := st.rejected + 1 }, [])
  | "D" :: "err" :: rest => (st, [⟨.property, s!"discovery failed on a well-formed machine: {" ".intercalate rest}"⟩])
  | ["D", "ok", c, n, "|", types, "|", _pk, "|", dists, "|", onl, off, iso] =>
    match st.machine, parseMachine c n, (dists.splitOn ",").mapM pset, pset onl, pset off, pset iso with
    | some m, some d, some dists, some onl, some off, some iso =>
      let errs := compareDiscovery m d (types.splitOn ",") dists
      let errs := if !same onl m.onlineCpus then errs ++ ["online set"] else errs
      let errs := if !same off m.offline then errs ++ ["offline set"] else errs
      let errs := if !same iso m.isolatedCpus then errs ++ ["isolated set"] else errs
      let nt := m.nodes.length > 1 || m.cpus.any (fun c => !c.online)
      ({ st with nontrivial := st.nontrivial + (if nt then 1 else 0) }, errs.map (fun e => ⟨.property, ("discovery: " ++ e).replace " " "_"⟩))
    | _, _, _, _, _, _ => (st, [⟨.parse, "D"⟩])
  | ["P", a, r, i, np] =>
    match (kv a "allowed").bind pset, (kv r "reserved").bind pset, (kv i "isolated").bind pset, (kv np "npools").bind String.toNat? with
    | some a, some r, some i, some np => ({ st with allowed := a, reserved := r, isolated := i, expectPools := np, pools := [] }, [])
    | _, _, _, _ => (st, [⟨.parse, "P"⟩])
  | "N" :: rest =>
    -- pool names contain spaces replaced by '_' ; "virtual node" kind has a space
    let rest := if rest.length == 11 then
        match rest with
        | n :: k1 :: k2 :: tl => n :: (k1 ++ "_" ++ k2) :: tl
        | _ => rest
      else rest
    match parsePool rest with
    | some p =>
      let st := { st with pools := st.pools ++ [p] }
      if st.pools.length == st.expectPools then finishPools st else (st, [])
    | none => (st, [⟨.parse, "N"⟩])
  | _ => (st, [⟨.parse, "unknown"⟩])

def main : IO UInt32 := Driver.run step {} (fun st =>
  s!"machines={st.machines} poolsetups={st.poolSetups} nontrivial={st.nontrivial} rejected={st.rejected}")

end Driver.C16
