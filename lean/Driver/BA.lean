import Driver.Common
import Nri.Model.Balloons
/-!
Balloons driver (C02): evaluates the property's predicates on the implementation's policy
snapshot, cache view and runtime view after every request, and replays every change of the
balloons' CPU sets on the accounting model (`Nri.Balloons`) with the implementation's picks
as oracles.
-/
namespace Driver.BA
open Nri.Balloons Driver

structure CtrB where
  id : String
  ns : String := ""
  qos : String := ""
  milli : Nat := 0
  flags : String := ""
  state : String := "created"
  told : String := "-"           -- cpuset the runtime was last told
  toldMems : String := "-"       -- memory nodes the plugin last told
  rtMems : String := "-"         -- memory nodes the runtime has (its own value, overlaid by what the plugin told)
  deriving Repr

structure DefB where
  name : String
  minC : Nat
  maxC : Nat
  minB : Nat
  maxB : Nat
  level : String
  hide : Bool
  cls : String

structure BlnB where
  defn : String
  inst : Nat
  cpus : List Nat
  shared : List Nat
  ctrs : List String
  req : Nat
  mems : List Nat := []      -- the balloon's closest memory nodes
  deriving Repr

structure SnapB where
  allowed : List Nat := []
  reserved : List Nat := []
  free : List Nat := []
  isolated : List Nat := []
  pinCPU : Bool := true
  idleClass : String := "-"
  blns : List BlnB := []
  members : List (String × String × Nat × Bool) := []
  memInfo : List (String × Option Nat × Bool) := []    -- member container: allocator zone (mask), memory pinning in effect for its balloon
  memReqs : List String := []                          -- ids the memory allocator holds requests for
  classes : List (String × List Nat) := []

structure St where
  hist : Nat := 0
  ctrs : List CtrB := []
  defs : List DefB := []
  tree : List (String × String × List Nat) := []
  snap : SnapB := {}
  prevBlns : List BlnB := []                -- balloons of the previous snapshot
  initFree : Nat := 0
  initBlns : Option (List BlnB) := none     -- balloons right after configuration
  cacheView : List (String × String × String × Bool) := []   -- id, state, cpus, pending
  lastEv : List String := []
  lastOk : Bool := true
  keys : List String := []                 -- balloon key -> model index
  model : Option BState := none
  modelDesync : Bool := false
  reported : List String := []
  prevMembers : List String := []
  expectUnchanged : Bool := false
  prevSets : List Nat × List Nat × List Nat := ([], [], [])   -- allowed, reserved, free CPUs of the previous snapshot
  errPending : List String := []            -- containers whose pending change stems from an error reply
  dropped : List String := []               -- live containers a bulk re-allocation (sync/reconfig/restart) left without balloon
  reconfigChanged : List String := []       -- containers whose told cpuset changed in the reply to a re-applied configuration
  drained : Bool := false
  hists : Nat := 0
  events : Nat := 0
  nontrivial : Nat := 0
  modelSteps : Nat := 0

def pset (s : String) : Option (List Nat) :=
  if s == "-" then some [] else (s.splitOn "+").mapM String.toNat?

def parseCpuList (s : String) : List Nat :=
  if s == "-" || s == "" then [] else
  (s.splitOn "~").flatMap fun part =>
    match part.splitOn "-" with
    | [a] => match a.toNat? with | some n => [n] | none => []
    | [a, b] => match a.toNat?, b.toNat? with | some lo, some hi => List.range' lo (hi + 1 - lo) | _, _ => []
    | _ => []

def kv (s key : String) : Option String :=
  if s.startsWith (key ++ "=") then some (s.drop (key.length + 1)).toString else none

def maskBits (m : Nat) : List Nat := (List.range 64).filter (fun i => m.testBit i)
def sub (a b : List Nat) : Bool := a.all (b.contains ·)
def disj (a b : List Nat) : Bool := a.all (fun x => !b.contains x)
def sameSet (a b : List Nat) : Bool := sub a b && sub b a
def flag (flags key : String) : String := ((flags.splitOn ";").findSome? (fun f => kv f key)).getD "-"

def getCtr (st : St) (id : String) : Option CtrB := st.ctrs.find? (·.id == id)
def setCtr (st : St) (c : CtrB) : St := { st with ctrs := c :: st.ctrs.filter (·.id != c.id) }

def report (st : St) (issues : List String) : St × List Issue :=
  issues.foldl (fun (acc : St × List Issue) e =>
    let cls := (e.splitOn " ").headD e
    if acc.1.reported.contains cls then acc else
    ({ acc.1 with reported := cls :: acc.1.reported }, acc.2 ++ [⟨.property, s!"{e.replace " " "_"} hist={acc.1.hist}"⟩])) (st, [])

def keyOf (b : BlnB) : String := s!"{b.defn}[{b.inst}]"

/-- CPUs of the tree nodes at `level` that intersect `cpus` -/
def scope (st : St) (level : String) (cpus : List Nat) : List Nat :=
  (st.tree.filter (fun n => n.1 == level && !(disj n.2.2 cpus))).flatMap (·.2.2)

def checkState (st : St) : List String :=
  let s := st.snap
  let errs : List String := []
  -- partition
  let errs := s.blns.foldl (fun errs b =>
    let errs := if !sub b.cpus s.allowed then errs ++ [s!"C02:balloon-cpus-outside-available {keyOf b}"] else errs
    let errs := if !disj b.cpus s.free then errs ++ [s!"C02:balloon-cpu-also-free {keyOf b}"] else errs
    s.blns.foldl (fun errs c => if keyOf b < keyOf c && !disj b.cpus c.cpus then errs ++ [s!"C02:balloons-overlap {keyOf b} {keyOf c}"] else errs) errs) errs
  let owned := s.blns.flatMap (·.cpus)
  let errs := if !sub s.free s.allowed then errs ++ ["C02:free-cpus-outside-available"] else errs
  let errs := if !(s.allowed.all fun c => s.free.contains c || owned.contains c) then errs ++ ["C02:available-cpu-neither-free-nor-owned"] else errs
  -- membership
  let live := st.ctrs.filter (fun c => c.state == "created" || c.state == "running")
  -- (containers that opted out with cpu.preserve are not managed by the policy)
  let errs := (live.filter (fun c => flag c.flags "pc" != "T")).foldl (fun errs c =>
    let n := (s.members.filter (·.1 == c.id)).length
    if n == 0 && st.dropped.contains c.id then errs ++ [s!"C02:container-dropped-by-bulk-reallocation {c.id}"]
    else if n != 1 then errs ++ [s!"C02:container-in-{n}-balloons {c.id}"] else errs) errs
  let errs := s.members.foldl (fun errs m =>
    match getCtr st m.1 with
    | some c => if c.state == "removed-unstopped" then errs ++ [s!"C09:grant-leak-after-remove-without-stop balloon member {m.1}"]
                else if c.state == "stopped" || c.state == "removed" || c.state == "refused" then errs ++ [s!"C02:dead-container-in-balloon {m.1} ({c.state})"] else errs
    | none => errs ++ [s!"C02:unknown-container-in-balloon {m.1}"]) errs
  -- pinning: cache view and runtime view
  let errs := s.members.foldl (fun errs m =>
    match getCtr st m.1, s.blns.find? (fun b => b.defn == m.2.1 && b.inst == m.2.2.1) with
    | some c, some b =>
      if !s.pinCPU || flag c.flags "pc" == "T" || !(c.state == "created" || c.state == "running") then errs else
      let pinnable := b.cpus ++ b.shared
      let okSet := fun (cs : List Nat) =>
        if m.2.2.2 then
          sub cs pinnable && (st.tree.filter (·.1 == "core")).all (fun n => disj n.2.2 pinnable || (cs.filter (n.2.2.contains ·)).length == 1)
        else sameSet cs pinnable
      let cv := (st.cacheView.find? (·.1 == c.id)).map (·.2.2.1)
      let errs := match cv with
        | some v => if !okSet (parseCpuList v) then errs ++ [s!"C02:cache-cpuset-differs-from-balloon {c.id} cache={v} balloon={keyOf b} cpus={b.cpus} shared={b.shared} hide={m.2.2.2}"] else errs
        | none => errs
      if !okSet (parseCpuList c.told) then errs ++ [s!"C02:runtime-cpuset-differs-from-balloon {c.id} told={c.told} balloon={keyOf b} cpus={b.cpus} shared={b.shared} hide={m.2.2.2}"] else errs
    | _, _ => errs) errs
  -- shared idle CPUs
  let errs := s.blns.foldl (fun errs b =>
    let errs := if !disj b.shared owned then errs ++ [s!"C02:shared-idle-cpu-in-a-balloon {keyOf b}"] else errs
    let errs := if !disj b.shared s.isolated then errs ++ [s!"C02:shared-idle-cpu-isolated {keyOf b}"] else errs
    let errs := if !sub b.shared s.free then errs ++ [s!"C02:shared-idle-cpu-not-idle {keyOf b}"] else errs
    match st.defs.find? (·.name == b.defn) with
    | some d =>
      if d.level != "-" && !b.cpus.isEmpty then
        let want := (scope st d.level b.cpus).filter (fun c => s.free.contains c && !s.isolated.contains c)
        if !sub want b.shared then errs ++ [s!"C02:idle-cpu-in-scope-not-shared {keyOf b} level={d.level} missing={want.filter (fun c => !b.shared.contains c)}"] else errs
      else errs
    | none => errs) errs
  -- limits
  let errs := s.blns.foldl (fun errs b =>
    match st.defs.find? (·.name == b.defn) with
    | some d =>
      let errs := if d.maxC > 0 && b.cpus.length > d.maxC then errs ++ [s!"C02:balloon-above-max-cpus {keyOf b} {b.cpus.length}>{d.maxC}"] else errs
      let errs := if b.cpus.length < d.minC then errs ++ [s!"C02:balloon-below-min-cpus {keyOf b} {b.cpus.length}<{d.minC}"] else errs
      -- the request-level model's size function (Nri.Balloons.sizeSpec, the subject of `rinv_run`) on the implementation's values
      let ms : List (String × Nat) := if b.ctrs.isEmpty then [] else [("members", b.req)]
      let want := sizeSpec ⟨d.minC, d.maxC, d.minB, d.maxB⟩ ms
      -- (a member removed without a preceding stop stays in the balloon but has no request any more: known finding C09:grant-leak-after-remove-without-stop)
      let leaked := b.ctrs.any fun id => match getCtr st id with | some c => c.state == "removed-unstopped" | none => false
      let errs := if b.cpus.length != want && !leaked then errs ++ [s!"C02:balloon-size-differs-from-spec {keyOf b} cpus={b.cpus.length} spec={want} requested={b.req}m members={b.ctrs.length} min={d.minC} max={d.maxC}"] else errs
      let errs := if !b.ctrs.isEmpty && b.cpus.isEmpty then errs ++ [s!"C02:non-empty-balloon-without-cpus {keyOf b}"] else errs
      if !b.ctrs.isEmpty && 1000 * b.cpus.length < b.req then errs ++ [s!"C02:balloon-smaller-than-requests {keyOf b} cpus={b.cpus.length} requested={b.req}m"] else errs
    | none => errs ++ [s!"C02:balloon-of-unknown-type {keyOf b}"]) errs
  let errs := st.defs.foldl (fun errs d =>
    let n := (s.blns.filter (·.defn == d.name)).length
    let errs := if n < d.minB then errs ++ [s!"C02:fewer-balloons-than-min {d.name} {n}<{d.minB}"] else errs
    if d.maxB > 0 && n > d.maxB then errs ++ [s!"C02:more-balloons-than-max {d.name} {n}>{d.maxB}"] else errs) errs
  -- C04 (balloons half): a pinned container's memory nodes as told are the allocator's zone, non-empty
  let errs := s.memInfo.foldl (fun errs mi =>
    match getCtr st mi.1, mi.2.1 with
    | some c, some z =>
      if mi.2.2 && flag c.flags "pm" != "T" && (c.state == "created" || c.state == "running") then
        let told := parseCpuList c.rtMems
        -- known finding: the allocator could not follow a move of the balloon's CPUs (the balloon's memory nodes are not inside the
        -- zone it holds); anything else - e.g. a widened zone that was not delivered - is a violation
        let bmems := ((s.members.find? (·.1 == c.id)).bind fun m => s.blns.find? (fun b => b.defn == m.2.1 && b.inst == m.2.2.1)).map (·.mems) |>.getD []
        let errs := if !sameSet told (maskBits z) then
            (if !sub bmems (maskBits z) then errs ++ [s!"C04:balloons-mems-differ-from-allocator-zone {c.id} told {c.rtMems} zone {maskBits z} balloon mems {bmems}"]
             else if st.errPending.contains c.id then errs ++ [s!"C05:pending-after-error-reply balloons: zone change of {c.id} made by a refused request stays pending"]
             else errs ++ [s!"C04:balloons-zone-change-not-delivered {c.id} told {c.rtMems} zone {maskBits z}"]) else errs
        if (maskBits z).isEmpty then errs ++ [s!"C04:empty-mems {c.id}"] else errs
      else errs
    | _, _ => errs) errs
  -- C09 (balloons half): the memory allocator holds nothing for containers that are stopped or gone
  let errs := s.memReqs.foldl (fun errs id =>
    match getCtr st id with
    | some c => if c.state == "removed-unstopped" then errs ++ [s!"C09:grant-leak-after-remove-without-stop memory of {id}"]
                else if c.state == "stopped" || c.state == "removed" || c.state == "refused" then errs ++ [s!"C09:memory-held-for-dead-container {id} ({c.state})"] else errs
    | none => errs ++ [s!"C09:memory-held-for-unknown-container {id}"]) errs
  -- CPU classes
  let errs := s.allowed.foldl (fun errs c =>
    let cls := (s.classes.filter (·.2.contains c)).map (·.1)
    let want := match s.blns.find? (·.cpus.contains c) with
      | some b => ((st.defs.find? (·.name == b.defn)).map (·.cls)).getD "-"
      | none => s.idleClass
    if cls != [want] then errs ++ [s!"C02:cpu-class-mismatch cpu{c} has {cls} expected {want}"] else errs) errs
  errs

/-- replay the change of the balloons' CPU sets on the model -/
def replay (st : St) (t : BState) : St × BState × List String :=
  let s := st.snap
  -- indices for new keys
  let keys := s.blns.foldl (fun ks b => if ks.contains (keyOf b) then ks else ks ++ [keyOf b]) st.keys
  let idx := fun (k : String) => (keys.findIdx? (· == k)).getD 0
  let newCpus := fun (i : Nat) => ((s.blns.find? (fun b => idx (keyOf b) == i)).map (·.cpus)).getD []
  -- deflates (incl. deletions) first, then inflates
  let (t, errs) := (List.range keys.length).foldl (fun (acc : BState × List String) i =>
    let old := acc.1.cpus i
    let rem := old.filter (fun c => !(newCpus i).contains c)
    if rem.isEmpty then acc else
    match deflate acc.1 i rem with
    | some t' => (t', acc.2)
    | none => (acc.1, acc.2 ++ [s!"model refuses deflate of {keys.getD i "?"} by {rem}"])) (t, [])
  let (t, errs) := (List.range keys.length).foldl (fun (acc : BState × List String) i =>
    let old := acc.1.cpus i
    let add := (newCpus i).filter (fun c => !old.contains c)
    if add.isEmpty then acc else
    match inflate acc.1 i add with
    | some t' => (t', acc.2)
    | none => (acc.1, acc.2 ++ [s!"model refuses inflate of {keys.getD i "?"} by {add}: not all idle (free {acc.1.free})"])) (t, errs)
  let errs := if !sameSet t.free s.free then errs ++ [s!"free CPUs: model {t.free}, implementation {s.free}"] else errs
  let errs := (List.range keys.length).foldl (fun errs i =>
    if !sameSet (t.cpus i) (newCpus i) then errs ++ [s!"balloon {keys.getD i "?"}: model {t.cpus i}, implementation {newCpus i}"] else errs) errs
  ({ st with keys := keys }, t, errs)

def parseEvCtr (spec : String) : Option CtrB :=
  match spec.splitOn ":" with
  | [id, _pod, ns, qos, milli, _lim, _mem, flags] => do
    pure { id, ns, qos, milli := ← milli.toNat?, flags }
  | _ => none

def cpusOfRes (r : String) : String := (r.splitOn "|").headD "-"
def memsOfRes (r : String) : String := (r.splitOn "|").getD 1 "-"

def step (st : St) (toks : List String) : St × List Issue :=
  match toks with
  | "H" :: h :: _ =>
    ({ st with hist := h.toNat?.getD 0, ctrs := [], defs := [], tree := [], snap := {}, cacheView := [], lastEv := [], keys := [], model := none, prevBlns := [], initBlns := none, prevMembers := [], dropped := [], reconfigChanged := [], expectUnchanged := false, errPending := [],
               modelDesync := false, reported := [], drained := false, hists := st.hists + 1 }, [])
  | "M" :: _ => (st, [])
  | "HERR" :: _ => (st, [])
  | "X" :: _ => (st, [])
  | "CFG" :: _ => ({ st with defs := [], tree := [] }, [])     -- balloon types may have changed; they are printed again with the next snapshot
  | ["Q", "drain"] => (st, [])
  | ["Q", "end"] =>
    -- quiescence: no container anywhere, every balloon at its configured minimum
    let s := st.snap
    let errs := s.blns.foldl (fun errs b =>
      let leaked := b.ctrs.all fun id => ((getCtr st id).map (·.state)) == some "removed-unstopped"
      if !b.ctrs.isEmpty then (if leaked then errs ++ ["C09:grant-leak-after-remove-without-stop balloon members at quiescence"] else errs ++ [s!"C09:balloon-members-left-at-quiescence {keyOf b} {b.ctrs}"]) else errs) []
    -- only the pre-created balloons, at the sizes they had right after configuration, everything else idle
    let errs := match st.initBlns with
      | some ib =>
        if !errs.isEmpty then errs else
        let shape := fun (l : List BlnB) => (l.map fun b => (b.defn, b.cpus.length)).toArray.qsort (fun a b => a.1 < b.1 || (a.1 == b.1 && a.2 < b.2)) |>.toList
        let errs := if s.free.length != st.initFree then errs ++ [s!"C09:idle-cpus-differ-from-pristine-at-quiescence idle now {s.free.length}, pristine {st.initFree}"] else errs
        if shape ib != shape s.blns then errs ++ [s!"C09:balloons-differ-from-pristine-at-quiescence now={shape s.blns} pristine={shape ib}"] else errs
      | none => errs
    report st errs
  | "E" :: ev => ({ st with lastEv := ev, events := st.events + 1 }, [])
  | "R" :: "panic" :: rest => report { st with lastOk := false } [s!"C14:handler-panicked {" ".intercalate st.lastEv} {" ".intercalate rest}"]
  | "R" :: "err" :: _ =>
    let st := match st.lastEv with
      | ["create", spec, _] => match parseEvCtr spec with
        | some c => setCtr st { c with state := "refused" }
        | none => st
      | _ => st
    let st := { st with lastOk := false }
    if st.lastEv.head? == some "reconfig" && st.lastEv != ["reconfig", "same"] then
      -- rejected configuration update: the revert may push updates, they must not change what the runtime has
      let pushed := toks.getLast?.getD "-"
      let ups : List (String × String) := if pushed == "-" then [] else
        ((pushed.replace "#" ",").replace ";" ",").splitOn "," |>.filterMap fun u => match u.splitOn "=" with
          | [id, r] => some (id, cpusOfRes r)
          | _ => none
      let (st, errs) := ups.foldl (fun (acc : St × List String) (id, cp) =>
        match getCtr acc.1 id with
        | some c =>
          if cp != "-" && !sameSet (parseCpuList cp) (parseCpuList c.told) then
            (setCtr acc.1 { c with told := cp }, acc.2 ++ [s!"C13:rejected-config-changed-resources {id} {c.told} -> {cp} {st.lastEv.getD 1 "?"}"])
          else acc
        | none => acc) (st, [])
      let (st, is) := report st errs
      ({ st with expectUnchanged := true }, is)
    else (st, [])
  | ["R", "ok", adj, upd] =>
    let st := { st with lastOk := true }
    let (st, early) := if st.lastEv.head? == some "reconfig" && ((st.lastEv.getD 1 "").startsWith "bad:") then report st [s!"C13:invalid-config-accepted {st.lastEv.getD 1 "?"}"] else (st, [])
    let ups : List (String × String) := if upd == "-" then [] else
      ((upd.replace "#" ",").replace ";" ",").splitOn "," |>.filterMap fun u => match u.splitOn "=" with
        | [id, r] => some (id, cpusOfRes r)
        | _ => none
    let upsM : List (String × String) := if upd == "-" then [] else
      ((upd.replace "#" ",").replace ";" ",").splitOn "," |>.filterMap fun u => match u.splitOn "=" with
        | [id, r] => some (id, memsOfRes r)
        | _ => none
    let cfgChange := st.lastEv.head? == some "reconfig" && st.lastEv != ["reconfig", "same"]
    -- C12: opted-out containers are never told (different) memory nodes
    let c12 := fun (st : St) (id m : String) (cur : String) (flags : String) =>
      if m == "-" then [] else
      let e1 := if flag flags "pm" == "T" && m != cur then [s!"C12:memory-preserve-container-told-mems {id} {cur} -> {m}"] else []
      let e2 := match st.snap.memInfo.find? (·.1 == id) with
        | some (_, _, pinMem) => if !pinMem && !cfgChange && m != cur then [s!"C12:mems-told-with-pinning-disabled {id} {cur} -> {m}"] else []
        | none => []
      e1 ++ e2
    let (st, early) := upsM.foldl (fun (acc : St × List Issue) (id, m) =>
      match getCtr acc.1 id with
      | some c =>
        let (st', is) := report acc.1 (c12 acc.1 id m c.rtMems c.flags)
        (st', acc.2 ++ is)
      | none => acc) (st, early)
    let st := match st.lastEv with
      | ["create", spec, base] => match parseEvCtr spec with
        | some c =>
          let am := if adj == "nil" then "-" else memsOfRes adj
          setCtr st { c with state := "created", told := (if adj == "nil" then "-" else cpusOfRes adj), toldMems := am,
                             rtMems := (if am != "-" then am else memsOfRes base) }
        | none => st
      | ["start", id] => (match getCtr st id with | some c => setCtr st { c with state := "running" } | none => st)
      | ["stop", id] => (match getCtr st id with | some c => setCtr st { c with state := "stopped" } | none => st)
      | ["remove", id] => (match getCtr st id with | some c => setCtr st { c with state := (if c.state == "stopped" || c.state == "refused" then "removed" else "removed-unstopped") } | none => st)
      | ["down-remove", id] => (match getCtr st id with | some c => setCtr st { c with state := "removed" } | none => st)
      | ["down-stop", id] => (match getCtr st id with | some c => setCtr st { c with state := "stopped" } | none => st)
      | ["down-start", id] => (match getCtr st id with | some c => setCtr st { c with state := "running" } | none => st)
      | ["down-create", spec, _, stt] => match parseEvCtr spec with
        | some c => setCtr st { c with state := (if stt == "3" then "running" else "created") }
        | none => st
      | ["update", spec, _] => match parseEvCtr spec with
        | some c => (match getCtr st c.id with | some o => setCtr st { o with milli := c.milli } | none => st)
        | none => st
      | _ => st
    let isReconfig := st.lastEv == ["reconfig", "same"]
    let st := ups.foldl (fun st (id, cp) =>
      match getCtr st id with
      | some c =>
        if cp != "-" then
          let st := if isReconfig && !sameSet (parseCpuList cp) (parseCpuList c.told) then
            { st with reconfigChanged := st.reconfigChanged ++ [s!"C13:unchanged-config-changed-resources {id} {c.told} -> {cp}"] } else st
          setCtr st { c with told := cp }
        else st
      | none => st) st
    let st := upsM.foldl (fun st (id, m) =>
      match getCtr st id with
      | some c => if m != "-" then setCtr st { c with toldMems := m, rtMems := m } else st
      | none => st) st
    (st, early)
  | ["VP", _] => (st, [])
  | ["V", view] =>
    let cv := if view == "-" then [] else (view.splitOn ",").filterMap fun e => match e.splitOn ":" with
      | [id, stt, res, pend] => some (id, stt, cpusOfRes res, pend == "1")
      | _ => none
    let pend := (cv.filter (·.2.2.2)).map (·.1)
    let ep := st.errPending.filter (pend.contains ·)
    let ep := if !st.lastOk then (ep ++ pend).eraseDups else ep
    ({ st with cacheView := cv, errPending := ep }, [])
  | ["BS", a, r, f, i, pc, ic] =>
    match (kv a "allowed").bind pset, (kv r "reserved").bind pset, (kv f "free").bind pset, (kv i "isolated").bind pset with
    | some a, some r, some f, some i =>
      ({ st with prevBlns := st.snap.blns, prevSets := (st.snap.allowed, st.snap.reserved, st.snap.free), snap := { allowed := a, reserved := r, free := f, isolated := i, pinCPU := pc == "pincpu=T", idleClass := (kv ic "idleclass").getD "-" } }, [])
    | _, _, _, _ => (st, [⟨.parse, "BS"⟩])
  | ["BD", name, minC, maxC, minB, maxB, level, hide, cls] =>
    match minC.toNat?, maxC.toNat?, minB.toNat?, maxB.toNat? with
    | some a, some b, some c, some d => ({ st with defs := st.defs ++ [⟨name, a, b, c, d, level, hide == "T", cls⟩] }, [])
    | _, _, _, _ => (st, [⟨.parse, "BD"⟩])
  | ["BB", defn, inst, cpus, shared, ctrs, req, mems] =>
    match inst.toNat?, pset cpus, pset shared, req.toNat? with
    | some i, some c, some sh, some r =>
      let b : BlnB := ⟨defn, i, c, sh, (if ctrs == "-" then [] else ctrs.splitOn ","), r, (pset mems).getD []⟩
      ({ st with snap := { st.snap with blns := st.snap.blns ++ [b] } }, [])
    | _, _, _, _ => (st, [⟨.parse, "BB"⟩])
  | ["BC", id, defn, inst, hide, zone, pm] =>
    ({ st with snap := { st.snap with members := st.snap.members ++ [(id, defn, inst.toNat?.getD 0, hide == "T")],
                                      memInfo := st.snap.memInfo ++ [(id, zone.toNat?, pm == "T")] } }, [])
  | ["BM", ids] => ({ st with snap := { st.snap with memReqs := if ids == "-" then [] else ids.splitOn "," } }, [])
  | ["BK", cls, cpus] =>
    match pset cpus with
    | some c => ({ st with snap := { st.snap with classes := st.snap.classes ++ [(cls, c)] } }, [])
    | none => (st, [⟨.parse, "BK"⟩])
  | ["BL", level, name, cpus] =>
    match pset cpus with
    | some c => ({ st with tree := st.tree ++ [(level, name, c)] }, [])
    | none => (st, [⟨.parse, "BL"⟩])
  | ["BZ", zs] =>
    -- C04 (balloons half): the allocations confined to an assigned zone never exceed its capacity
    if zs == "-" then (st, []) else
    let bad := (zs.splitOn ",").filter fun z => match z.splitOn ":" with
      | [_, f] => (f.toInt?.getD 0) < 0
      | _ => false
    if bad.isEmpty then (st, []) else report st [s!"C04:assigned-zone-oversubscribed {bad}"]
  | ["BE"] =>
    let down := (st.lastEv.headD "").startsWith "down-"
    -- Synchronize, re-configuration and restart release everything and re-admit the containers one by one
    let bulk := st.lastEv.head? == some "sync" || st.lastEv.head? == some "reconfig" || st.lastEv.head? == some "restart"
    let st : St := if bulk then
        let lost := (st.ctrs.filter fun c => (c.state == "created" || c.state == "running") && flag c.flags "pc" != "T" &&
          !(st.snap.members.any (·.1 == c.id)) && st.prevMembers.contains c.id).map (·.id)
        { st with dropped := st.dropped ++ lost }
      else st
    let st : St := { st with dropped := st.dropped.filter (fun (id : String) => !(st.snap.members.any (fun m => m.1 == id))) }
    let (st, is) := if down then (st, []) else report st (checkState st)
    let st : St := { st with prevMembers := st.snap.members.map (fun (m : String × String × Nat × Bool) => m.1) }
    let st := if st.initBlns.isNone then { st with initBlns := some st.snap.blns, initFree := st.snap.free.length } else st
    -- C13: a rejected configuration update leaves balloons and membership as they were
    let (st, is) := if st.expectUnchanged then
        let same := st.prevBlns.length == st.snap.blns.length && st.prevBlns.all (fun b =>
          match st.snap.blns.find? (fun c => keyOf c == keyOf b) with
          | some c => sameSet b.cpus c.cpus && sameSet b.shared c.shared && b.ctrs == c.ctrs
          | none => false)
        -- ... and so are the CPUs the policy may use, its reserved CPUs and the free CPUs (what later balloons are built from)
        let sameSets := sameSet st.prevSets.1 st.snap.allowed && sameSet st.prevSets.2.1 st.snap.reserved && sameSet st.prevSets.2.2 st.snap.free
        let errs := if !sameSets then [s!"C13:rejected-config-changed-policy-state {st.lastEv.getD 1 "?"} allowed/reserved/free before={st.prevSets} after={(st.snap.allowed, st.snap.reserved, st.snap.free)}"] else []
        let errs := if !same then errs ++ [s!"C13:rejected-config-changed-policy-state {st.lastEv.getD 1 "?"} balloons before={st.prevBlns.map (fun b => (keyOf b, b.cpus, b.ctrs))} after={st.snap.blns.map (fun b => (keyOf b, b.cpus, b.ctrs))}"] else errs
        let (st, is2) := report { st with expectUnchanged := false } errs
        (st, is ++ is2)
      else (st, is)
    -- C13: a re-applied unchanged configuration leaves balloons, membership and pinning as they were
    let (st, is) := if st.lastEv == ["reconfig", "same"] then
        let errs : List String := if !st.lastOk then ["C13:unchanged-config-rejected"] else []
        let same := st.prevBlns.length == st.snap.blns.length && st.prevBlns.all (fun b =>
          match st.snap.blns.find? (fun c => keyOf c == keyOf b) with
          | some c => sameSet b.cpus c.cpus && sameSet b.shared c.shared && b.ctrs == c.ctrs
          | none => false)
        let errs := if st.lastOk && !same then errs ++ [s!"C13:unchanged-config-changed-policy-state balloons before={st.prevBlns.map (fun b => (keyOf b, b.cpus, b.ctrs))} after={st.snap.blns.map (fun b => (keyOf b, b.cpus, b.ctrs))}"] else errs
        let errs := errs ++ st.reconfigChanged
        let (st, is2) := report { st with reconfigChanged := [] } errs
        (st, is ++ is2)
      else (st, is)
    let (st, mis) : St × List Issue :=
      if st.modelDesync then (st, []) else
      -- a restart rebuilds the policy from scratch
      let t0 := if st.lastEv.head? == some "restart" then none else st.model
      match t0 with
      | none =>
        let (st1, t, errs) := replay { st with keys := [] } (initB st.snap.allowed)
        if errs.isEmpty then ({ st1 with model := some t, modelSteps := st.modelSteps + 1 }, [])
        else ({ st1 with modelDesync := true }, [⟨.model, s!"hist={st.hist} initial state: {(errs.headD "").replace " " "_"}"⟩])
      | some t =>
        let (st1, t', errs) := replay st t
        if errs.isEmpty then ({ st1 with model := some t', modelSteps := st.modelSteps + 1 }, [])
        else ({ st1 with modelDesync := true }, [⟨.model, s!"hist={st.hist} after [{" ".intercalate (st.lastEv.take 2)}]: {(errs.headD "").replace " " "_"}"⟩])
    let nt := st.snap.blns.any (fun b => !b.ctrs.isEmpty && b.cpus.length > 1)
    ({ st with nontrivial := st.nontrivial + (if nt then 1 else 0) }, is ++ mis)
  | _ => (st, [⟨.parse, "unknown"⟩])

def main : IO UInt32 := Driver.run step {} (fun st =>
  s!"hists={st.hists} events={st.events} nontrivial={st.nontrivial} modelsteps={st.modelSteps}")

end Driver.BA
