/-! Line-protocol plumbing shared by all property drivers. Core Lean only. -/
namespace Driver

/-- An issue found on one line. `model` = model and implementation disagree;
`property` = the property's executable predicate is false on the implementation's values;
`assumption` = a stated modelling assumption does not hold for this case;
`parse` = the line is not understood (protocol error, treated as a broken tie). -/
inductive Kind where
  | model | property | assumption | parse
  deriving DecidableEq, Repr

def Kind.toString : Kind → String
  | .model => "model" | .property => "property" | .assumption => "assumption" | .parse => "parse"

structure Issue where
  kind : Kind
  detail : String

def natList? (s : String) : Option (List Nat) :=
  if s = "-" then some [] else (s.splitOn ",").mapM String.toNat?

def intList? (s : String) : Option (List Int) :=
  if s = "-" then some [] else (s.splitOn ",").mapM String.toInt?

def showNatList (l : List Nat) : String :=
  if l.isEmpty then "-" else ",".intercalate (l.map toString)

/-- Generic loop: `step` consumes one tokenised line, returns the new state and the issues. -/
partial def loop {σ : Type} (h : IO.FS.Stream) (step : σ → List String → σ × List Issue)
    (s : σ) (n : Nat) (counts : Nat × Nat × Nat × Nat) : IO (σ × Nat × (Nat × Nat × Nat × Nat)) := do
  let line ← h.getLine
  if line.isEmpty then return (s, n, counts)
  let toks := (line.trimAscii.toString.splitOn " ").filter (· ≠ "")
  if toks.isEmpty then loop h step s n counts else
  let (s', issues) := step s toks
  let mut c := counts
  for i in issues do
    IO.println s!"DIFF kind={i.kind.toString} line={n+1} detail={i.detail} :: {line.trimAscii.toString.take 300}"
    c := match i.kind with
      | .model => (c.1+1, c.2.1, c.2.2.1, c.2.2.2)
      | .property => (c.1, c.2.1+1, c.2.2.1, c.2.2.2)
      | .assumption => (c.1, c.2.1, c.2.2.1+1, c.2.2.2)
      | .parse => (c.1, c.2.1, c.2.2.1, c.2.2.2+1)
  loop h step s' (n+1) c

def run {σ : Type} (step : σ → List String → σ × List Issue) (init : σ)
    (summary : σ → String := fun _ => "") : IO UInt32 := do
  let stdin ← IO.getStdin
  let (s, n, (m, p, a, b)) ← loop stdin step init 0 (0, 0, 0, 0)
  IO.println s!"SUMMARY lines={n} model={m} property={p} assumption={a} parse={b} {summary s}"
  return 0

end Driver
