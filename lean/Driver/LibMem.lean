import Driver.Common
import Nri.Model.LibMem
/-! Driver for the libmem traces (C04, C06, C07). -/
namespace Driver.LibMem
open Nri.LibMem Driver

structure IReq where
  id : String
  zone : Mask
  types : Nat
  size : Int
  prio : Int
  strict : Bool
  deriving BEq, Repr

structure IState where
  version : Nat
  reqs : List IReq
  entries : List Mask
  free : List Int
  deriving BEq, Repr

structure St where
  tno : Nat := 0
  n : Nat := 0
  model : Nri.LibMem.St := { nodes := [] }
  offers : List (Nat × Offer) := []
  offerMut : List (Nat × Nat) := []        -- slot ↦ mutation counter when taken
  mutations : Nat := 0
  requested : List (String × Nat) := []    -- id ↦ requested types (creation ∪ reallocs)
  offerTypes : List (Nat × String × Nat) := []   -- offer slot ↦ (id, requested types)
  prev : Option IState := none
  lastOp : List String := []
  lastRes : List String := []
  desync : Bool := false
  reported : List String := []             -- property issue classes already reported in this trace
  -- statistics
  traces : Nat := 0
  ops : Nat := 0
  overcommitOps : Nat := 0
  errOps : Nat := 0
  ambigTraces : Nat := 0
  desyncTraces : Nat := 0
  movedOps : Nat := 0
  staleCommits : Nat := 0
  twinChecked : Nat := 0

def parseNode (s : String) : Option Node :=
  match s.splitOn "/" with
  | [id, typ, cap, nrm, d] => do
    let id ← id.toNat?; let typ ← typ.toNat?; let cap ← cap.toInt?; let d ← natList? d
    pure { id, typ, cap, normal := nrm == "1", dist := d }
  | _ => none

def parseReq (t : List String) : Option Req :=
  match t with
  | [id, size, aff, types, strict, prio, created] => do
    let size ← size.toInt?; let aff ← aff.toNat?; let types ← types.toNat?
    let prio ← prio.toInt?; let created ← created.toInt?
    pure { id, size, aff, types, strict := strict == "1", prio, created }
  | _ => none

def showUps (u : List (String × Mask)) : String :=
  if u.isEmpty then "-" else
  let sorted := sortBy (fun (a b : String × Mask) => a.1 < b.1) u
  ",".intercalate (sorted.map fun p => s!"{p.1}:{p.2}")

def showRes : Except Err Result → String
  | .ok r => s!"ok {r.zone} {showUps r.updates}"
  | .error e => s!"err {e.toString}"

def parseIReq (s : String) : Option IReq :=
  match s.splitOn ":" with
  | [id, zone, types, size, prio, strict] => do
    pure { id, zone := ← zone.toNat?, types := ← types.toNat?, size := ← size.toInt?, prio := ← prio.toInt?, strict := strict == "1" }
  | _ => none

def parseIState (t : List String) : Option (IState × String) :=
  match t with
  | [v, reqs, ents, free, incons] => do
    let v ← v.toNat?
    let reqs ← if reqs == "-" then some [] else (reqs.splitOn ",").mapM parseIReq
    let ents ← natList? ents
    let free ← intList? free
    pure ({ version := v, reqs, entries := ents, free }, incons)
  | _ => none

def modelIState (m : Nri.LibMem.St) (n : Nat) : IState :=
  { version := m.version,
    reqs := (sortBy (fun (a b : Req) => a.id < b.id) m.reqs).map fun r => { id := r.id, zone := r.zone, types := r.types, size := r.size, prio := r.prio, strict := r.strict },
    entries := sortBy (· < ·) m.entries,
    free := (List.range' 1 (2^n - 1)).map fun z => m.zoneFree z }

def parseUps (s : String) : Option (List (String × Mask)) :=
  if s == "-" then some [] else
  (s.splitOn ",").mapM fun kv => match kv.splitOn ":" with
    | [k, v] => v.toNat?.map fun v => (k, v)
    | _ => none

def iget (s : IState) (id : String) : Option IReq := s.reqs.find? (·.id == id)

/-- property predicates evaluated on the implementation's own states and results. -/
def predicates (st : St) (prev cur : IState) (op res : List String) : List (String × String) :=
  let ok := res.head? == some "ok"
  let kind := op.headD ""
  let m := st.model   -- only `nodes` are used from the model here (static topology)
  let reqsEq := prev.reqs == cur.reqs
  let out : List (String × String) := []
  -- C06: failed operation / offer leaves everything as it was
  let out := if !ok ∧ kind ∈ ["alloc", "realloc", "offer", "commit", "release"] then
      (if !reqsEq ∨ prev.free != cur.free then out ++ [("C06:failed-op-changed-assignments", s!"{kind} failed but assignments/usage changed")] else out)
        |> fun out => if prev.entries != cur.entries then out ++ [("C06:failed-op-changed-zone-entries", s!"{kind} failed but the allocator's zone table changed")] else out
        |> fun out => if prev.version != cur.version then out ++ [("C06:failed-op-changed-version", "")] else out
    else out
  let out := if ok ∧ kind == "offer" then
      (if !reqsEq ∨ prev.free != cur.free ∨ prev.version != cur.version then out ++ [("C06:offer-changed-state", "GetOffer changed assignments/usage/version")] else out)
        |> fun out => if prev.entries != cur.entries then out ++ [("C06:offer-changed-zone-entries", "GetOffer changed the allocator's zone table")] else out
    else out
  -- C06: release removes that allocation only
  let out := if ok ∧ kind == "release" then
      let id := op.getD 1 ""
      if cur.reqs != prev.reqs.filter (·.id != id) then out ++ [("C06:release-not-local", "")] else out
    else out
  -- C06: version moves on every successful mutation (stale offers refused)
  let mutating := ok ∧ (kind ∈ ["alloc", "commit", "release"] ∨ (kind == "realloc" ∧ !reqsEq))
  let out := if mutating ∧ cur.version ≤ prev.version then out ++ [("C06:no-offer-invalidation", s!"successful {kind} did not invalidate outstanding offers")] else out
  -- C07 placement rules after a successful mutating operation
  let success := ok ∧ kind ∈ ["alloc", "commit", "realloc"]
  let out := if success then
      -- capacity of every node set with allocations confined to it
      let bad := (List.range' 1 (2^st.n - 1)).zip cur.free |>.filter fun (z, f) =>
        f < 0 ∧ cur.reqs.any (fun r => r.zone ≠ 0 ∧ msub r.zone z)
      let badAssigned := bad.filter fun (z, _) => cur.reqs.any (fun r => r.zone == z)
      let out := match badAssigned.head? with
        | some (z, f) => out ++ [("C07:assigned-zone-overcommit", s!"zone {z} free {f}")]
        | none => out
      let out := match (bad.filter fun (z, _) => !cur.reqs.any (fun r => r.zone == z)).head? with
        | some (z, f) => out ++ [("C07:union-overcommit", s!"node set {z} (not itself an assigned zone) free {f}")]
        | none => out
      -- strict types, normal memory
      let out := cur.reqs.foldl (fun (out : List (String × String)) (r : IReq) =>
        let reqd := (st.requested.find? (·.1 == r.id)).map (·.2) |>.getD 7
        let out := if r.strict ∧ mdiff (m.zoneType r.zone) reqd ≠ 0 then out ++ [("C07:strict-types", s!"{r.id} zone {r.zone} has types {m.zoneType r.zone} requested {reqd}")] else out
        if r.zone &&& m.normalMask == 0 then out ++ [("C07:no-normal-memory", s!"{r.id} zone {r.zone}")] else out) out
      out
    else out
  -- C07 monotone moves, reservations immovable (every step)
  let out := cur.reqs.foldl (fun (out : List (String × String)) (r : IReq) =>
    match iget prev r.id with
    | some p =>
      -- a released and re-created id is a new allocation: only compare when the op is not its (re)creation
      if (kind == "alloc" ∨ kind == "commit") ∧ !(prev.reqs.any (·.id == r.id)) then out else
      let out := if !msub p.zone r.zone then out ++ [("C07:non-monotone-move", s!"{r.id} {p.zone} -> {r.zone}")] else out
      if p.prio == 32767 ∧ p.zone != r.zone ∧ !(kind == "realloc" ∧ op.getD 1 "" == r.id) then out ++ [("C07:reservation-moved", s!"{r.id} {p.zone} -> {r.zone}")] else out
    | none => out) out
  -- C07 updates exact
  let out := if success then
      let requester := if kind == "realloc" then op.getD 1 "" else if kind == "alloc" then op.getD 1 "" else ""
      match parseUps (res.getD 2 "-") with
      | some ups =>
        -- for commit the requester is the one request that is new
        let requester := if kind == "commit" then ((cur.reqs.filter fun r => !(prev.reqs.any (·.id == r.id))).head?.map (·.id)).getD "" else requester
        let changed := cur.reqs.filter (fun r => r.id != requester && (match iget prev r.id with | some p => p.zone != r.zone | none => false))
        let expect := changed.map fun r => (r.id, r.zone)
        if showUps ups != showUps expect then out ++ [("C07:updates-not-exact", s!"reported {showUps ups} changed {showUps expect}")] else
        -- the requester's reported zone is its assignment
        match iget cur requester with
        | some r => if res.getD 1 "" != toString r.zone then out ++ [("C07:result-zone", s!"reported {res.getD 1 ""} assigned {r.zone}")] else out
        | none => out
      | none => out
    else out
  out

def report (st : St) (issues : List (String × String)) : St × List Issue :=
  issues.foldl (fun (acc : St × List Issue) (cls, d) =>
    if acc.1.reported.contains cls then acc else
    ({ acc.1 with reported := cls :: acc.1.reported }, acc.2 ++ [⟨.property, s!"{cls} trace={acc.1.tno} {d.replace " " "_"}"⟩])) (st, [])

def step (st : St) (toks : List String) : St × List Issue :=
  match toks with
  | "T" :: tno :: n :: "new" :: nodes =>
    match tno.toNat?, n.toNat?, nodes.mapM parseNode with
    | some tno, some n, some nodes =>
      let amb := if st.model.ambig then 1 else 0
      let des := if st.desync then 1 else 0
      ({ st with tno, n, model := { nodes }, offers := [], offerMut := [], mutations := 0, requested := [], offerTypes := [],
                 prev := none, lastOp := [], lastRes := [], desync := false, reported := [],
                 traces := st.traces + 1, ambigTraces := st.ambigTraces + amb, desyncTraces := st.desyncTraces + des }, [])
    | _, _, _ => (st, [⟨.parse, "T"⟩])
  | ["N", r] =>
    let v := validNodes st.model.nodes
    if (r == "ok") != v then ({ st with desync := true }, [⟨.model, s!"trace={st.tno} NewAllocator impl={r} model valid={v}"⟩]) else
    if r != "ok" then ({ st with desync := true }, []) else (st, [])
  | "W" :: r :: rest =>
    if r == "same" then ({ st with twinChecked := st.twinChecked + 1 }, [])
    else if st.model.ambig ∨ st.desync then (st, [])
    else
      let (st, is) := report st [("C06:commit-differs-from-allocate", s!"twin {" ".intercalate rest}")]
      (st, is)
  | "O" :: rest =>
    let (op, res) := (rest.takeWhile (· ≠ "=>"), (rest.dropWhile (· ≠ "=>")).drop 1)
    let st := { st with lastOp := op, lastRes := res, ops := st.ops + 1 }
    let st := if res.head? == some "err" then { st with errOps := st.errOps + 1 } else st
    if res.head? == some "panic" ∨ res.head? == some "hang" then
      let (st, is) := report st [("C06:panic-or-hang", " ".intercalate (op ++ res))]
      ({ st with desync := true }, is)
    else
    let implOk := res.head? == some "ok"
    -- stale-offer predicate (implementation only)
    let (st, is0) : St × List Issue :=
      match op with
      | ["commit", k] =>
        match k.toNat?.bind (fun k => st.offerMut.find? (·.1 == k)) with
        | some (_, m) =>
          if implOk ∧ m < st.mutations then
            let (st, is) := report st [("C06:stale-offer-committed", s!"offer {k} taken {st.mutations - m} successful mutation(s) ago was committed")]
            ({ st with staleCommits := st.staleCommits + 1 }, is)
          else if !implOk ∧ m == st.mutations ∧ res == ["err", "expired"] then
            report st [("C06:fresh-offer-refused", s!"offer {k}")]
          else (st, [])
        | none => (st, [])
      | _ => (st, [])
    -- model step
    if st.desync then (st, is0) else
    let m := st.model
    let (m', out, st) : Nri.LibMem.St × String × St :=
      match op with
      | "alloc" :: r =>
        match parseReq r with
        | some r => let (m', x) := m.Allocate r; (m', showRes x, st)
        | none => (m, "parse", st)
      | "offer" :: k :: r =>
        match k.toNat?, parseReq r with
        | some k, some r =>
          match m.GetOffer r with
          | (m', .ok o) =>
            (m', s!"ok {(alGet o.updates o.req.id).getD 0} {showUps (alErase o.updates o.req.id)}",
             { st with offers := (k, o) :: st.offers.filter (·.1 != k) })
          | (m', .error e) => (m', s!"err {e.toString}", st)
        | _, _ => (m, "parse", st)
      | ["commit", k] =>
        match k.toNat?.bind (fun k => st.offers.find? (·.1 == k)) with
        | some (_, o) => let (m', x) := m.Commit o; (m', showRes x, st)
        | none => (m, "err nooffer", st)
      | ["realloc", id, nodes, types] =>
        match nodes.toNat?, types.toNat? with
        | some nodes, some types => let (m', x) := m.Realloc id nodes types; (m', showRes x, st)
        | _, _ => (m, "parse", st)
      | ["release", id] =>
        match m.Release id with
        | (m', .ok _) => (m', "ok 0 -", st)
        | (m', .error e) => (m', s!"err {e.toString}", st)
      | _ => (m, "parse", st)
    let st := { st with model := m' }
    -- bookkeeping for implementation-side predicates
    let st := match op with
      | "offer" :: k :: _ => if implOk then { st with offerMut := ((k.toNat?.getD 0), st.mutations) :: st.offerMut.filter (·.1 != k.toNat?.getD 0) } else st
      | _ => st
    let implStr := " ".intercalate res
    if out == "parse" then (st, is0 ++ [⟨.parse, "O"⟩])
    else if out != implStr then
      if m'.ambig then ({ st with desync := true }, is0)
      else ({ st with desync := true }, is0 ++ [⟨.model, s!"trace={st.tno} result model=[{out}] impl=[{implStr}]"⟩])
    else (st, is0)
  | "S" :: rest =>
    match parseIState rest with
    | none => (st, [⟨.parse, "S"⟩])
    | some (cur, incons) =>
      -- an allocator whose transaction journal is still open after an operation returned has changed state that no
      -- assignment or usage shows: every later Allocate/Realloc/GetOffer is refused (C06: a failed operation leaves
      -- everything exactly as before; an offer request never changes allocator state)
      let is : List Issue := if incons == "journal-open" then [⟨.property, s!"C06:journal-left-open-after-operation trace={st.tno}"⟩]
        else if incons != "-" then [⟨.model, s!"trace={st.tno} implementation bookkeeping inconsistent: {incons}"⟩] else []
      -- model state comparison
      let (st, is) :=
        if st.desync then (st, is) else
        let ms := modelIState st.model st.n
        if ms == cur then (st, is)
        else if st.model.ambig then ({ st with desync := true }, is)
        else
          let what := if ms.version != cur.version then s!"version model={ms.version} impl={cur.version}"
            else if ms.reqs != cur.reqs then "assignments"
            else if ms.entries != cur.entries then s!"zone-entries model={showNatList ms.entries} impl={showNatList cur.entries}"
            else "free"
          ({ st with desync := true }, is ++ [⟨.model, s!"trace={st.tno} state differs after [{" ".intercalate st.lastOp}]: {what}"⟩])
      let ok := st.lastRes.head? == some "ok"
      let st := if ok then
          match st.lastOp with
          | ["alloc", id, _, aff, types, _, _, _] =>
            let t := types.toNat?.getD 0
            let t := if t == 0 then st.model.zoneType (aff.toNat?.getD 0) else t
            { st with requested := (id, t) :: st.requested.filter (·.1 != id) }
          | ["offer", k, id, _, aff, types, _, _, _] =>
            let t := types.toNat?.getD 0
            let t := if t == 0 then st.model.zoneType (aff.toNat?.getD 0) else t
            let k := k.toNat?.getD 0
            { st with offerTypes := (k, id, t) :: st.offerTypes.filter (·.1 != k) }
          | ["commit", k] =>
            match st.offerTypes.find? (·.1 == k.toNat?.getD 0) with
            | some (_, id, t) => { st with requested := (id, t) :: st.requested.filter (·.1 != id) }
            | none => st
          | ["realloc", id, nodes, types] =>
            let t := types.toNat?.getD 0
            let t := if t == 0 then st.model.zoneType (nodes.toNat?.getD 0) else t
            let old := (st.requested.find? (·.1 == id)).map (·.2) |>.getD 0
            { st with requested := (id, old ||| t) :: st.requested.filter (·.1 != id) }
          | ["release", id] => { st with requested := st.requested.filter (·.1 != id) }
          | _ => st
        else st
      -- property predicates on the implementation's states
      let (st, is) := match st.prev with
        | some prev =>
          let ps := predicates st prev cur st.lastOp st.lastRes
          let (st, pis) := report st ps
          (st, is ++ pis)
        | none => (st, is)
      -- bookkeeping: mutations, statistics
      let kind := st.lastOp.headD ""
      let st := match st.prev with
        | some prev =>
          let mutating := ok ∧ (kind ∈ ["alloc", "commit", "release"] ∨ (kind == "realloc" ∧ prev.reqs != cur.reqs))
          let moved := ok ∧ (st.lastRes.getD 2 "-") != "-"
          let oc := kind ∈ ["alloc", "offer", "realloc"] ∧ ((ok ∧ (st.lastRes.getD 2 "-") != "-") ∨ st.lastRes == ["err", "nomem"])
          { st with mutations := if mutating then st.mutations + 1 else st.mutations,
                    movedOps := if moved then st.movedOps + 1 else st.movedOps,
                    overcommitOps := if oc then st.overcommitOps + 1 else st.overcommitOps }
        | none => st
      ({ st with prev := some cur }, is)
  | _ => (st, [⟨.parse, "unknown"⟩])

def main : IO UInt32 := Driver.run step {} (fun st =>
  s!"traces={st.traces} ops={st.ops} errops={st.errOps} overcommit={st.overcommitOps} moved={st.movedOps} ambig={st.ambigTraces} desynced={st.desyncTraces} stale={st.staleCommits} twin={st.twinChecked}")

end Driver.LibMem
