import Driver.Common
import Nri.Model.AgentCfg
namespace Driver.C17
open Nri.AgentCfg Driver

structure St where
  seqs : Nat := 0
  events : Nat := 0
  nontrivial : Nat := 0   -- sequences with a fallback (node delete while a group config exists) or a dedupe
  exhaustive : String := ""

def parseEv (s : String) : Option Ev :=
  let node := s.startsWith "n"
  let body := (s.drop 1).toString
  if body == "-" then some (if node then .node none else .group none) else
  match body.splitOn "." with
  | [u, g, v] => do
    let c : Cfg := { uid := ← u.toNat?, gen := ← g.toNat?, valid := v == "1" }
    pure (if node then .node (some c) else .group (some c))
  | _ => none

def showCfg : Option Cfg → String
  | none => "-"
  | some c => s!"{c.uid}.{c.gen}.{if c.valid then 1 else 0}"

def parseCfg (s : String) : Option (Option Cfg) :=
  if s == "-" then some none else
  match s.splitOn "." with
  | [u, g, v] => do pure (some { uid := ← u.toNat?, gen := ← g.toNat?, valid := v == "1" })
  | _ => none

def parseDeliv (s : String) : Option (List (Nat × Cfg)) :=
  if s == "-" then some [] else
  (s.splitOn ",").mapM fun d => match d.splitOn ":" with
    | [i, c] => do
      let i ← i.toNat?
      match ← parseCfg c with
      | some c => pure (i, c)
      | none => none
    | _ => none

/-- model run with per-event delivery indices -/
def runIdx (evs : List Ev) : Nri.AgentCfg.St × List (Nat × Cfg) :=
  (evs.zipIdx.foldl (fun (acc : Nri.AgentCfg.St × List (Nat × Cfg)) (e : Ev × Nat) =>
    let s' := step acc.1 e.1
    let newd := s'.delivered.drop acc.1.delivered.length
    (s', acc.2 ++ newd.map (fun c => (e.2, c)))) ({}, []))

/-- the property's predicates, from the events alone (truth = which resources exist now) -/
def predicates (evs : List Ev) (deliv : List (Nat × Cfg)) : List String × Bool :=
  let r := evs.zipIdx.foldl (fun (acc : Option Cfg × Option Cfg × List String × Bool) (e : Ev × Nat) =>
    let (tn, tg, errs, nt) := acc
    let here := deliv.filter (·.1 == e.2) |>.map (·.2)
    match e.1 with
    | .node c =>
      let dup := sameVersion c tn
      let errs := if dup ∧ !here.isEmpty then errs ++ [s!"event {e.2}: re-delivery of an already applied node resource version"] else errs
      let errs := match c with
        | some x => if !dup ∧ x.valid ∧ here != [x] then errs ++ [s!"event {e.2}: valid node-specific update not delivered"] else errs
        | none =>
          match tg with
          | some g => if !dup ∧ g.valid ∧ here != [g] then errs ++ [s!"event {e.2}: node config deleted but current group config {showCfg tg} not delivered (got {here.map (fun c => showCfg (some c))})"] else errs
          | none => errs
      (c, tg, errs, nt || dup || (c.isNone ∧ tn.isSome ∧ tg.isSome))
    | .group c =>
      let dup := sameVersion c tg
      let errs := if dup ∧ !here.isEmpty then errs ++ [s!"event {e.2}: re-delivery of an already applied group resource version"] else errs
      let errs := if tn.isSome ∧ !here.isEmpty then errs ++ [s!"event {e.2}: group/default update delivered over an existing node-specific config"] else errs
      let errs := match c with
        | some x => if tn.isNone ∧ !dup ∧ x.valid ∧ here != [x] then errs ++ [s!"event {e.2}: valid group update not delivered"] else errs
        | none => errs
      (tn, c, errs, nt || dup)) (none, none, [], false)
  let (tn, tg, errs, nt) := r
  let errs := if deliv.any (fun d => !d.2.valid) then errs ++ ["an invalid configuration was delivered"] else errs
  let eff := match tn with | some c => some c | none => tg
  let errs := match eff with
    | some c => if c.valid ∧ (deliv.getLast?.map (·.2)) != some c then errs ++ [s!"effective config {showCfg eff} is not the most recently delivered"] else errs
    | none => errs
  (errs, nt)

def step' (st : St) (toks : List String) : St × List Issue :=
  match toks with
  | ["Q", evs, "=>", dl, n, g, c] =>
    match (evs.splitOn ",").mapM parseEv, parseDeliv dl with
    | some evs, some deliv =>
      let (m, mdeliv) := runIdx evs
      let is : List Issue := []
      let is := if mdeliv != deliv then is ++ [⟨.model, s!"delivered model={mdeliv.map (fun d => s!"{d.1}:{showCfg (some d.2)}")}"⟩] else is
      let is := if showCfg m.nodeCfg != n ∨ showCfg m.groupCfg != g ∨ showCfg m.currentCfg != c then
        is ++ [⟨.model, s!"state model={showCfg m.nodeCfg} {showCfg m.groupCfg} {showCfg m.currentCfg}"⟩] else is
      let (errs, nt) := predicates evs deliv
      let is := is ++ errs.map (fun e => ⟨.property, e.replace " " "_"⟩)
      ({ st with seqs := st.seqs + 1, events := st.events + evs.length, nontrivial := st.nontrivial + (if nt then 1 else 0) }, is)
    | _, _ => (st, [⟨.parse, "Q"⟩])
  | ["X", "exhaustive", a, l] => ({ st with exhaustive := s!"{a}^<={l}" }, [])
  | _ => (st, [⟨.parse, "unknown"⟩])

def main : IO UInt32 := Driver.run step' {} (fun st =>
  s!"seqs={st.seqs} events={st.events} nontrivial={st.nontrivial} exhaustive={st.exhaustive}")

end Driver.C17
