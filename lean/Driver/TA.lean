import Driver.Common
import Nri.Model.TAInv
import Nri.Model.TopoAware
/-! Driver for resource-manager histories under the topology-aware policy
(C01, C03, C04, C05, C09, C12, C13): evaluates the properties' predicates on the
implementation's replies, cache views and policy snapshots after every request. -/
namespace Driver.TA
open Nri.TA Driver

/-- resources: cpus, mems, shares, quota, period, memlimit, swap ("-" = unset) -/
abbrev Res := List String

structure CtrInfo where
  id : String
  pod : String
  ns : String
  qos : String
  milli : Nat
  mem : Nat := 0                  -- memory limit (bytes)
  milliTried : List Nat := []     -- requests of UpdateContainer calls that were refused (the cache keeps them)
  flags : String
  state : String := "created"     -- created | running | stopped | removed | refused
  rt : Res := []                  -- the runtime's resources: its own values overlaid with what the plugin told it
  seen : List Res := []           -- resource tuples the runtime itself supplied (creation, UpdateContainer)
  told : Res := []                -- fold of plugin messages only ("-" = never told)
  deriving Repr

structure St where
  hist : Nat := 0
  cfg : String := ""
  nodesWithMem : Nat := 0
  ctrs : List CtrInfo := []
  lastEv : List String := []
  lastOk : Bool := true
  snap : Snap := ⟨[], [], [], true, true, [], []⟩
  prevSnap : Snap := ⟨[], [], [], true, true, [], []⟩   -- the snapshot before the current request
  initPools : List PoolSnap := []
  haveInit : Bool := false
  cacheView : List (String × String × Res × Bool) := []   -- id, state, res, pending
  drained : Bool := false
  model : Option TA := none         -- accounting model, replayed from the grant decisions (oracles)
  modelDesync : Bool := false
  modelSteps : Nat := 0
  errPending : List String := []    -- containers whose pending change stems from an error reply
  reported : List String := []
  restarts : Nat := 0
  prevCacheView : List (String × String × Res × Bool) := []
  staleElig : List String := []     -- containers whose class (reserved or not) was changed by an accepted configuration change and that were not re-allocated since
  cfgChanged : Bool := false        -- an accepted configuration change happened earlier in this history
  expectUnchanged : Bool := false   -- the last request was a rejected configuration update: nothing may have changed
  pods : List String := []          -- pods the runtime currently has
  memTotal : Nat := 0               -- bytes of memory of the generated machine
  restarted : Bool := false         -- the plugin was restarted earlier in this history
  optStr : String := ""             -- the behavioural options in force (package-level opt of the policy)
  prevOptStr : String := ""
  cachePods : List String := []     -- pods in the plugin's cache
  unsat : List String := []         -- live containers the policy cannot satisfy at all after the restart (harness probe)
  skipped : List String := []       -- live containers left without allocation that ARE satisfiable when asked directly afterwards
  tainted : Bool := false           -- an unchanged configuration was rejected earlier in this history (known finding); later issues are its consequences
  -- statistics
  hists : Nat := 0
  events : Nat := 0
  nontrivial : Nat := 0
  exclusiveGrants : Nat := 0

def pset (s : String) : Option (List Nat) :=
  if s == "-" then some [] else (s.splitOn "+").mapM String.toNat?

/-- kernel list format ("0-3,8") -/
def parseCpuList (s : String) : List Nat :=
  if s == "-" || s == "" then [] else
  (s.splitOn "~").flatMap fun part =>
    match part.splitOn "-" with
    | [a] => match a.toNat? with | some n => [n] | none => []
    | [a, b] => match a.toNat?, b.toNat? with | some lo, some hi => List.range' lo (hi + 1 - lo) | _, _ => []
    | _ => []

def maskBits (m : Nat) : List Nat := (List.range 64).filter (fun i => m.testBit i)

def kv (s key : String) : Option String :=
  if s.startsWith (key ++ "=") then some (s.drop (key.length + 1)).toString else none

def parseRes (s : String) : Res := s.splitOn "|"

/-- overlay: fields set in `u` replace those of `base` -/
def overlay (base u : Res) : Res :=
  if base.isEmpty then u else (base.zip u).map fun (b, x) => if x == "-" then b else x

def parseType : String → CpuType
  | "reserved" => .reserved | "preserve" => .preserve | _ => .normal

def flag (flags key : String) : String :=
  ((flags.splitOn ";").findSome? (fun f => kv f key)).getD "-"

def optB (s : String) : Option Bool := if s == "T" then some true else if s == "F" then some false else none

def report (st : St) (issues : List String) : St × List Issue :=
  -- C11: after a restart the returned updates must bring the runtime's view in line with the cache
  let issues := issues.flatMap fun e =>
    -- ("for all of them": the clause speaks of the containers that hold allocations - a live container the policy cannot
    -- satisfy after the restart holds none and keeps whatever the saved cache said)
    if st.restarted && (e.startsWith "C05:runtime-view-differs" || e.startsWith "C05:change-left-pending")
        && st.snap.grants.any (·.ctr == (e.splitOn " ").getD 1 "") then
      [e, "C11:runtime-view-not-in-line-with-cache-after-restart " ++ e] else [e]
  issues.foldl (fun (acc : St × List Issue) e =>
    -- an issue class already reported before the refused reconfiguration is not its consequence
    if acc.1.tainted && acc.1.reported.contains ((e.splitOn " ").headD e) then acc else
    let e := if acc.1.tainted && !e.startsWith "C13:unchanged-config-rejected" then s!"{(e.take 3).toString}:after-rejected-reconfigure {e}" else e
    let cls := (e.splitOn " ").headD e
    if acc.1.reported.contains cls then acc else
    ({ acc.1 with reported := cls :: acc.1.reported }, acc.2 ++ [⟨.property, s!"{e.replace " " "_"} hist={acc.1.hist}"⟩])) (st, [])

/-- some pool's promised capacity already exceeded its shared CPUs earlier in this history (known
finding C03:descendant-starved…): the grants can then not be re-instated verbatim and
re-configuration falls back to re-placing the containers -/
def starvedBefore (st : St) : Bool := st.reported.any (·.startsWith "C03:descendant-starved-by-ancestor-slicing")

/-- the memory limits of the live containers together exceed the machine's memory: the allocator's zones are
overcommitted (C07 finding), saved memory zones cannot always be taken again -/
def memOvercommitted (st : St) : Bool :=
  ((st.ctrs.filter (fun c => c.state == "created" || c.state == "running")).foldl (fun a c => a + c.mem) 0) > st.memTotal

/-- verbatim re-instatement of the current grants is not guaranteed to succeed (known findings) -/
def cannotReinstate (st : St) : Bool := starvedBefore st || memOvercommitted st

def getCtr (st : St) (id : String) : Option CtrInfo := st.ctrs.find? (·.id == id)
def setCtr (st : St) (c : CtrInfo) : St := { st with ctrs := c :: st.ctrs.filter (·.id != c.id) }

def reservedNs (st : St) (ns : String) : Bool :=
  ns == "kube-system" || ((st.cfg.splitOn ";").any (· == "reservedns=reserved-*") && ns.startsWith "reserved-")

/-- `a` is a strict ancestor pool of `b` -/
def isAncestor (s : Snap) (a b : String) : Bool :=
  let rec go (fuel : Nat) (cur : String) : Bool :=
    match fuel with
    | 0 => false
    | f+1 => match s.pools.find? (·.name == cur) with
      | some p => if p.parent == a then true else if p.parent == "-" then false else go f p.parent
      | none => false
  go 8 b

/-- pool `p` lost sharable CPUs to an exclusive grant made at a strict ancestor pool -/
def slicedByAncestor (s : Snap) (p : PoolSnap) : Bool :=
  s.grants.any fun g => !g.exclusive.isEmpty && isAncestor s g.pool p.name && !disj g.exclusive p.sharable

/-- all state predicates, evaluated after a request has been fully processed (`V` + snapshot read) -/
def checkState (st : St) : List String :=
  let s := st.snap
  -- C03 capacity: classify oversubscription that is explained by exclusive slicing at an ancestor pool
  let capErrs := (capacityInv s).map fun e =>
    match s.pools.find? (fun p => e.startsWith s!"C03:shared-oversubscribed pool {p.name} ") with
    | some p => if slicedByAncestor s p then "C03:descendant-starved-by-ancestor-slicing " ++ e else e
    | none => e
  let errs := exclusiveInv s ++ capErrs ++ ledgerInv s
  let live := st.ctrs.filter (fun c => c.state == "created" || c.state == "running")
  -- C05: runtime view = cache view, nothing pending
  let errs := live.foldl (fun errs c =>
    match st.cacheView.find? (·.1 == c.id) with
    | some (_, _, res, pending) =>
      -- per field: the cache records the last value the plugin told the runtime, or, if the plugin never
      -- told that field, a value the runtime itself supplied (at creation or in a later UpdateContainer)
      let bad := (List.range 7).any fun i =>
        let t := c.told.getD i "-"
        let cv := res.getD i "-"
        if t != "-" then cv != t else !(c.seen.any (fun r => r.getD i "-" == cv))
      -- fields other than the cpuset / the memory set agree
      let fieldBad := fun (i : Nat) =>
          let t := c.told.getD i "-"; let cv := res.getD i "-"
          if t != "-" then cv != t else !(c.seen.any (fun r => r.getD i "-" == cv))
      let cpusCleared := c.told.getD 0 "-" != "-" && res.getD 0 "-" == "-"
      let memsCleared := c.told.getD 1 "-" != "-" && res.getD 1 "-" == "-"
      let clearedOnly := cpusCleared && !((List.range' 1 6).any fun i => fieldBad i && !(i == 1 && memsCleared))
      -- the memory set was cleared in the cache (memory pinning switched off by a configuration change); NRI cannot tell "no memory set"
      let memsClearedOnly := memsCleared && st.cfgChanged && !((List.range 7).any fun i => i != 1 && fieldBad i && !(i == 0 && cpusCleared))
      let errs := if bad then
          (if clearedOnly then errs ++ [s!"C05:cpuset-cleared-in-cache-only {c.id} told={c.told.getD 0 "-"}"]
           else if memsClearedOnly then errs ++ [s!"C05:mems-cleared-in-cache-only {c.id} told={c.told.getD 1 "-"}"]
           else if st.errPending.contains c.id then errs ++ [s!"C05:pending-after-error-reply {c.id} (cache ahead of runtime)"]
           else errs ++ [s!"C05:runtime-view-differs {c.id} told={"|".intercalate c.told} cache={"|".intercalate res}"]) else errs
      if pending then (if st.errPending.contains c.id then errs ++ [s!"C05:pending-after-error-reply {c.id}"] else errs ++ [s!"C05:change-left-pending {c.id}"]) else errs
    | none => errs) errs
  let errs := st.cacheView.foldl (fun errs (id, _, _, pending) =>
    if pending && !(live.any (·.id == id)) then
      (if st.errPending.contains id then errs ++ [s!"C05:pending-after-error-reply {id} (not live)"] else errs ++ [s!"C05:change-left-pending {id} (not live)"])
    else errs) errs
  -- per live container with a grant
  let errs := live.foldl (fun errs c =>
    let cpus := parseCpuList (c.rt.getD 0 "-")
    let mems := parseCpuList (c.rt.getD 1 "-")
    -- (with CPU pinning switched off the plugin does not manage cpusets: whatever the runtime still has from before is not "told")
    let cpus := if s.pinCPU then cpus else []
    let errs := if !sub cpus s.allowed then errs ++ [s!"C01:pinned-outside-available {c.id}"] else errs
    match s.grants.find? (·.ctr == c.id) with
    | none => errs
    | some g =>
      let preserveCpu := flag c.flags "pc" == "T"
      let preserveMem := flag c.flags "pm" == "T"
      -- C01 (e) reserved CPUs only to reserved-class containers, never mixed
      let errs := if !disj cpus s.reserved then
          (if st.staleElig.contains c.id then errs ++ [s!"C13:grant-not-reevaluated-after-accepted-change {c.id} (reserved CPUs)"]
           else if g.cpuType != .reserved then errs ++ [s!"C01:reserved-cpu-to-non-reserved {c.id}"]
           else if !sub cpus s.reserved then errs ++ [s!"C01:reserved-mixed-with-normal {c.id}"] else errs)
        else errs
      -- C01 (b) other containers' exclusive CPUs
      let errs := s.grants.foldl (fun errs h =>
        if h.ctr != c.id && !disj h.exclusive cpus then
          -- (the known ancestor-slicing finding has a precise signature: the descendant's cpuset was cleared in the cache
          --  because its pool ran out of shared CPUs, and the runtime kept the old one)
          let cleared := ((st.cacheView.find? (·.1 == c.id)).map (fun v => v.2.2.1.getD 0 "-")) == some "-"
          (if isAncestor s h.pool g.pool && cleared then errs ++ [s!"C01:stale-cpuset-after-ancestor-slicing {h.ctr} in {c.id}"]
           else if cleared then
             errs ++ [s!"C01:stale-runtime-cpuset-after-clearing {h.ctr} in {c.id}"]
           else errs ++ [s!"C01:exclusive-cpu-in-other-cpuset {h.ctr} in {c.id}"])
        else errs) errs
      -- C03 pinned containers have CPUs; grant matches the eligibility rules; shares
      let errs := if s.pinCPU && !preserveCpu && g.cpuType != .preserve && (parseCpuList (c.told.getD 0 "-")).isEmpty then
          (match s.pools.find? (·.name == g.pool) with
           | some p => if slicedByAncestor s p then errs ++ [s!"C03:descendant-starved-by-ancestor-slicing empty cpuset {c.id}"]
                       else if g.exclusive.isEmpty && g.cpuPortion == 0 && p.freeSharable.isEmpty then errs ++ [s!"C03:zero-request-container-in-pool-without-shared-cpus {c.id}"]
                       else errs ++ [s!"C03:empty-cpuset {c.id}"]
           | none => errs ++ [s!"C03:empty-cpuset {c.id}"])
        else errs
      let qos := if c.qos == "Guaranteed" then 0 else if c.qos == "Burstable" then 1 else 2
      let want := cpuPrefs qos c.milli (reservedNs st c.ns) preserveCpu (optB (flag c.flags "rs")) (optB (flag c.flags "sh")) (optB (flag c.flags "iso")) none none
      -- reserved requests take no exclusive CPUs; a reserved request may fall back to normal CPUs
      let wantFull := if want.cpuType == .reserved then 0 else want.full
      let altOk := c.milliTried.any fun m =>
        let w := cpuPrefs qos m (reservedNs st c.ns) preserveCpu (optB (flag c.flags "rs")) (optB (flag c.flags "sh")) (optB (flag c.flags "iso")) none none
        (if w.cpuType == .reserved then 0 else w.full) == g.exclusive.length
      let errs := if g.exclusive.length != wantFull && !altOk && st.staleElig.contains c.id then errs ++ [s!"C13:grant-not-reevaluated-after-accepted-change {c.id} (exclusive CPUs {g.exclusive.length}, rule {wantFull})"]
        else if g.exclusive.length != wantFull && !altOk then errs ++ [s!"C03:exclusive-count {c.id} got {g.exclusive.length} rule {wantFull} (qos {c.qos} {c.milli}m flags {c.flags})"] else errs
      let errs := if !g.isolatedPart.isEmpty && !(sub g.exclusive s.isolated) then errs ++ [s!"C03:partially-isolated {c.id}"] else errs
      let errs := if s.pinCPU && !preserveCpu && g.cpuType != .preserve then
          (if c.rt.getD 2 "-" != toString (expectedShares g) then errs ++ [s!"C03:shares {c.id} told {c.rt.getD 2 "-"} expected {expectedShares g}"] else errs)
        else errs
      -- C04 memory pinning follows the allocator
      let errs := if s.pinMem && !preserveMem then
          match g.allocZone with
          | some z =>
            let zm := maskBits z
            let errs := if !(sub mems zm && sub zm mems) then errs ++ [s!"C04:mems-differ-from-allocator-zone {c.id} told {c.rt.getD 1 "-"} zone {zm}"] else errs
            let errs := if mems.isEmpty then errs ++ [s!"C04:empty-mems {c.id}"] else errs
            if !sub mems (maskBits st.nodesWithMem) then errs ++ [s!"C04:memoryless-node-in-mems {c.id}"] else errs
          | none => errs
        else errs
      errs) errs
  -- C09: a stopped container holds nothing
  let errs := st.ctrs.foldl (fun errs c =>
    if (c.state == "stopped" || c.state == "removed") && s.grants.any (·.ctr == c.id) then errs ++ [s!"C09:stopped-container-holds-grant {c.id} ({c.state})"] else errs) errs
  let errs := s.grants.foldl (fun errs g =>
    if !(st.ctrs.any (·.id == g.ctr)) then errs ++ [s!"C09:grant-for-unknown-container {g.ctr}"] else errs) errs
  let errs := st.ctrs.foldl (fun errs c =>
    if c.state == "removed-unstopped" && s.grants.any (·.ctr == c.id) then errs ++ [s!"C09:grant-leak-after-remove-without-stop {c.id}"] else errs) errs
  -- C09 quiescence
  let errs := if st.drained then
      let leakedOnly := s.grants.all fun g => (st.ctrs.find? (·.id == g.ctr)).map (·.state) == some "removed-unstopped"
      let errs := if !s.grants.isEmpty then
          (if leakedOnly then errs ++ ["C09:grant-leak-after-remove-without-stop"] else errs ++ ["C09:grants-left-at-quiescence"]) else errs
      if st.haveInit && s.pools != st.initPools then
        (if !s.grants.isEmpty && leakedOnly then errs else errs ++ ["C09:pools-differ-from-pristine-at-quiescence"])
      else errs
    else errs
  errs

def sameSet (a b : List Nat) : Bool := a.all (b.contains ·) && b.all (a.contains ·)

def toGrant (s : Snap) (g : GrantSnap) : Grant :=
  let idx := (s.pools.findIdx? (·.name == g.pool)).getD 0
  ⟨g.ctr, idx, g.cpuType, g.exclusive, g.cpuPortion.toNat⟩

def modelFromSnap (s : Snap) : TA :=
  let tree := s.pools.map fun p =>
    ({ parent := s.pools.findIdx? (·.name == p.parent), totIsolated := p.isolated, totSharable := p.sharable, reserved := p.reserved } : PoolT)
  let ps := (s.pools.map (fun p => (⟨p.freeIsolated, p.freeSharable, p.grantedShared, p.grantedReserved⟩ : PoolS))).toArray
  { tree, pools := fun j => ps.getD j ⟨[], [], 0, 0⟩, grants := s.grants.map (toGrant s) }

/-- C01 (b), functional tie: the cpuset the cache records for a live, CPU-pinned container is the model's
`pinOf` (the subject of `pin_avoids_exclusive`) evaluated on the implementation's own pools and grants -/
def pinCheck (st : St) : List String :=
  let s := st.snap
  if !s.pinCPU || st.tainted then [] else
  let mt := modelFromSnap s
  s.grants.foldl (fun errs gs =>
    match getCtr st gs.ctr, st.cacheView.find? (·.1 == gs.ctr) with
    | some c, some cv =>
      if !(c.state == "created" || c.state == "running") || flag c.flags "pc" == "T" || cv.2.2.2 then errs else
      match pinOf mt (toGrant s gs) with
      | some w =>
        let have_ := parseCpuList (cv.2.2.1.getD 0 "-")
        if !(have_.all (w.contains ·) && w.all (have_.contains ·)) then
          errs ++ [s!"C01:cached-cpuset-differs-from-model-pin {c.id} cache={cv.2.2.1.getD 0 "-"} model={w} pool={gs.pool} type={repr gs.cpuType}"] else errs
      | none => errs
    | _, _ => errs) []

/-- the state effect of a grant without re-checking the guards (used when one request makes
several grants, whose order the snapshot does not reveal) -/
def applyUnchecked (t : TA) (g : Grant) : TA :=
  let iso := g.exclusive.all (fun x => (t.pools g.pool).isolated.contains x) && !g.exclusive.isEmpty
  let t1 := setPool t g.pool fun q => if iso then { q with isolated := rm q.isolated g.exclusive } else { q with sharable := rm q.sharable g.exclusive }
  let t2 := accountAllocate t1 g.pool g.exclusive
  let t3 := setPool t2 g.pool fun q => { q with grantedShared := q.grantedShared + sharedPortion g, grantedReserved := q.grantedReserved + reservedPortion g }
  addGrant t3 g

/-- replay the difference between the model's grants and the snapshot's, then compare -/
def replay (st : St) (t : TA) : TA × List String :=
  let s := st.snap
  let cur := s.grants.map (toGrant s)
  let removed := t.grants.filter fun g => !cur.contains g
  let added := cur.filter fun g => !t.grants.contains g
  let t := removed.foldl (fun t g => dropGrant (release t g) g.ctr) t
  let (t, errs) : TA × List String :=
    -- Synchronize and reconfiguration release and re-allocate every container within one request, in an
    -- order the snapshot does not reveal: only the resulting state is compared for them
    let bulk := st.lastEv.head? == some "sync" || st.lastEv.head? == some "reconfig" || st.lastEv.head? == some "restart"
    match (if bulk then [] else added) with
    | [] => (added.foldl applyUnchecked t, [])
    | [g] =>
      -- a single new grant: run the guarded allocation with the implementation's choices as oracles
      let isolate := !g.exclusive.isEmpty && sub g.exclusive s.isolated
      match alloc t g.ctr g.pool g.exclusive.length g.portion isolate g.cpuType g.exclusive with
      | .ok (t', g') =>
        if g' == g then (addGrant t' g, []) else (applyUnchecked t g, [s!"model grant differs for {g.ctr}: model portion {g'.portion} type {repr g'.cpuType}"])
      | .error e => (applyUnchecked t g, [s!"model refuses the allocation the implementation made for {g.ctr}: {repr e}"])
    | gs => (gs.foldl applyUnchecked t, [])
  -- compare pool states
  let errs := (((List.range s.pools.length).map t.pools).zip s.pools).foldl (fun errs (m, p) =>
    if !(sameSet m.isolated p.freeIsolated && sameSet m.sharable p.freeSharable && m.grantedShared == p.grantedShared && m.grantedReserved == p.grantedReserved) then
      errs ++ [s!"pool {p.name}: model free {m.isolated}/{m.sharable} counters {m.grantedShared}/{m.grantedReserved}, implementation {p.freeIsolated}/{p.freeSharable} {p.grantedShared}/{p.grantedReserved}"]
    else errs) errs
  (t, errs)

def parseEvCtr (spec : String) : Option CtrInfo :=
  match spec.splitOn ":" with
  | [id, pod, ns, qos, milli, _lim, mem, flags] => do
    pure { id, pod, ns, qos, milli := ← milli.toNat?, mem := mem.toNat?.getD 0, flags }
  | _ => none

def step (st : St) (toks : List String) : St × List Issue :=
  match toks with
  | "H" :: h :: _ :: cfg =>
    ({ st with hist := h.toNat?.getD 0, cfg := " ".intercalate cfg, ctrs := [], snap := ⟨[], [], [], true, true, [], []⟩, initPools := [], haveInit := false,
               cacheView := [], drained := false, restarted := false, errPending := [], model := none, modelDesync := false, reported := [], tainted := false, staleElig := [], cfgChanged := false, expectUnchanged := false, pods := [], cachePods := [], hists := st.hists + 1, lastEv := [] }, [])
  | "M" :: rest =>
    let tot := ((rest.getLast?.getD "").splitOn ",").foldl (fun a n => a + (((n.splitOn ":").getD 3 "0").toNat?.getD 0)) 0
    ({ st with memTotal := tot }, [])
  | "HERR" :: _ => (st, [])
  | ["Q", "drain"] => (st, [])
  | ["Q", "end"] =>
    let st := { st with drained := true }
    let (st, is) := report st (checkState st)
    ({ st with drained := false }, is)
  | "E" :: ev => ({ st with lastEv := ev, events := st.events + 1, unsat := [], skipped := [] }, [])
  | ["X", "unsat", id] => ({ st with unsat := id :: st.unsat }, [])
  | ["X", "skipped", id] => ({ st with skipped := id :: st.skipped }, [])
  | "CFG" :: cfg => ({ st with cfg := " ".intercalate cfg, cfgChanged := true }, [])
  | "X" :: _ => (st, [])
  | "R" :: "panic" :: rest => report { st with lastOk := false } [s!"C14:handler-panicked {" ".intercalate st.lastEv} {" ".intercalate rest}"]
  | "R" :: "err" :: _ =>
    -- a refused request: a refused create leaves the container without resources
    let st := match st.lastEv with
      | ["create", spec, _] => match parseEvCtr spec with
        | some c => setCtr st { c with state := "refused" }
        | none => st
      | ["update", spec, _] => match parseEvCtr spec with
        | some c => (match getCtr st c.id with | some o => setCtr st { o with milliTried := c.milli :: o.milliTried } | none => st)
        | none => st
      | _ => st
    let st := { st with lastOk := false }
    if st.lastEv.head? == some "reconfig" && st.lastEv != ["reconfig", "same"] then
      -- a rejected configuration update must leave no trace: checked when the snapshot arrives
      -- (the revert re-applies the old configuration and may push updates; they must not change anything at the runtime)
      let pushed := toks.getLast?.getD "-"
      let ups : List (String × Res) := if pushed == "-" then [] else
        ((pushed.replace "#" ",").replace ";" ",").splitOn "," |>.filterMap fun u => match u.splitOn "=" with
          | [id, r] => some (id, parseRes r)
          | _ => none
      let (st, errs) := ups.foldl (fun (acc : St × List String) (id, r) =>
        match getCtr acc.1 id with
        | some c =>
          let rt' := overlay c.rt r
          let errs := if rt' != c.rt && !acc.1.errPending.contains id then acc.2 ++ [s!"C13:rejected-config-changed-resources {id} {st.lastEv.getD 1 "?"}"] else acc.2
          (setCtr acc.1 { c with rt := rt', told := overlay c.told r }, errs)
        | none => acc) (st, [])
      let (st, is) := report st errs
      ({ st with expectUnchanged := true }, is)
    else if st.lastEv == ["reconfig", "same"] then
      -- re-applying the unchanged configuration was refused: verbatim re-instatement of the grants fails only
      -- when some pool's promised capacity already exceeds its shared CPUs (known finding C03:descendant-starved…)
      let starved := cannotReinstate st
      let (st, is) := report st [if starved then "C13:unchanged-config-rejected-in-starved-state" else "C13:unchanged-config-rejected"]
      ({ st with tainted := true }, is)
    else (st, [])
  | ["R", "ok", adj, upd] =>
    let st := { st with lastOk := true }
    let ups : List (String × Res) := if upd == "-" then [] else
      ((upd.replace "#" ",").replace ";" ",").splitOn "," |>.filterMap fun u => match u.splitOn "=" with
        | [id, r] => some (id, parseRes r)
        | _ => none
    let errs : List String := []
    let errs := if st.lastEv.head? == some "reconfig" && ((st.lastEv.getD 1 "").startsWith "bad:") then errs ++ [s!"C13:invalid-config-accepted {st.lastEv.getD 1 "?"}"] else errs
    -- C05: at most one update per container in a reply; none to stopped/removed/unknown containers; not to the created one
    let ids := ups.map (·.1)
    let errs := if st.lastEv.head? != some "reconfig" && ids.eraseDups.length != ids.length then errs ++ ["C05:several-updates-for-one-container"] else errs
    let errs := ups.foldl (fun errs (id, _) =>
      match getCtr st id with
      | some c => if c.state == "stopped" || c.state == "removed" || c.state == "refused" then
          -- a change left pending by an error reply (known finding) that is delivered after the container stopped is that finding's consequence
          errs ++ [if st.errPending.contains id then s!"C05:pending-after-error-reply delivered-to-{c.state}-container {id}" else s!"C05:update-to-dead-container {id} ({c.state})"]
        else errs
      | none => errs ++ [s!"C05:update-to-unknown-container {id}"]) errs
    -- event-specific bookkeeping
    let (st, errs) := match st.lastEv with
      | ["create", spec, base] =>
        match parseEvCtr spec with
        | some c =>
          let errs := if ids.contains c.id then errs ++ [s!"C05:update-addresses-created-container {c.id}"] else errs
          let a := if adj == "nil" then parseRes "-|-|-|-|-|-|-" else parseRes adj
          -- C12: opted-out containers are told nothing
          let errs := if flag c.flags "pc" == "T" && a.getD 0 "-" != "-" then errs ++ [s!"C12:cpu-preserve-container-told-cpus {c.id}"] else errs
          let errs := if flag c.flags "pm" == "T" && a.getD 1 "-" != "-" then errs ++ [s!"C12:memory-preserve-container-told-mems {c.id}"] else errs
          (setCtr st { c with state := "created", rt := overlay (parseRes base) a, seen := [parseRes base], told := a }, errs)
        | none => (st, errs)
      | ["start", id] => ((match getCtr st id with | some c => setCtr st { c with state := "running" } | none => st), errs)
      | ["stop", id] => ((match getCtr st id with | some c => setCtr st { c with state := "stopped" } | none => st), errs)
      | ["remove", id] => ((match getCtr st id with | some c => setCtr st { c with state := (if c.state == "stopped" || c.state == "refused" then "removed" else "removed-unstopped") } | none => st), errs)
      | "runpod" :: pid :: _ => ({ st with pods := if st.pods.contains pid then st.pods else pid :: st.pods }, errs)
      | ["removepod", pid] => ({ st with pods := st.pods.filter (· != pid) }, errs)
      | ["down-removepod", pid] => ({ st with pods := st.pods.filter (· != pid) }, errs)
      | ["down-remove", id] => ((match getCtr st id with | some c => setCtr st { c with state := "removed" } | none => st), errs)
      | ["down-stop", id] => ((match getCtr st id with | some c => setCtr st { c with state := "stopped" } | none => st), errs)
      | ["down-start", id] => ((match getCtr st id with | some c => setCtr st { c with state := "running" } | none => st), errs)
      | ["down-create", spec, base, stt] =>
        -- created by the runtime while the plugin was down: the runtime has its own (base) resources for it
        match parseEvCtr spec with
        | some c =>
          let st := { st with pods := if st.pods.contains c.pod then st.pods else c.pod :: st.pods }
          (setCtr st { c with state := (if stt == "3" then "running" else "created"), rt := parseRes base, seen := [parseRes base], told := parseRes "-|-|-|-|-|-|-" }, errs)
        | none => (st, errs)
      | "restart" :: _ =>
        -- pending marks and error-pending bookkeeping do not survive a restart; every live container is re-allocated
        ({ st with errPending := [], restarts := st.restarts + 1, staleElig := [], restarted := true }, errs)
      | "sync" :: _ => ({ st with staleElig := [] }, errs)
      | ["reconfig", "change:reservedns"] =>
        -- the grants are re-instated verbatim: containers whose namespace changed class keep their old kind of grant
        ({ st with staleElig := (st.ctrs.filter (fun (c : CtrInfo) => c.ns.startsWith "reserved-")).map (fun (c : CtrInfo) => c.id) }, errs)
      | ["update", spec, base] =>
        match parseEvCtr spec with
        | some c => ((match getCtr st c.id with | some o => setCtr { st with staleElig := st.staleElig.filter (· != c.id) } { o with milli := c.milli, rt := overlay o.rt (parseRes base), seen := parseRes base :: o.seen } | none => st), errs)
        | none => (st, errs)
      | _ => (st, errs)
    -- apply updates to the runtime view; C12/C13 on each
    let isReconfig := st.lastEv.head? == some "reconfig"
    let (st, errs) := ups.foldl (fun (acc : St × List String) (id, r) =>
      match getCtr acc.1 id with
      | some c =>
        let errs := acc.2
        let errs := if flag c.flags "pc" == "T" && r.getD 0 "-" != "-" then errs ++ [s!"C12:cpu-preserve-container-told-cpus {id}"] else errs
        let errs := if flag c.flags "pm" == "T" && r.getD 1 "-" != "-" && r.getD 1 "-" != c.rt.getD 1 "-" then errs ++ [s!"C12:memory-preserve-container-told-mems {id}"] else errs
        -- (after a changed configuration the options of the previous snapshot no longer apply)
        let cfgChanged := isReconfig && acc.1.lastEv != ["reconfig", "same"]
        let errs := if !cfgChanged && !acc.1.snap.pinCPU && r.getD 0 "-" != "-" then
            -- pinning was switched off by a configuration change: UpdateContainer echoes the cpuset cached from before (the value the runtime already has)
            (if acc.1.cfgChanged && r.getD 0 "-" == c.rt.getD 0 "-" then errs ++ [s!"C12:cached-cpuset-echoed-after-pinning-disabled {id}"]
             else errs ++ [s!"C12:cpus-told-with-pinning-disabled {id}"]) else errs
        -- (the property speaks of a DIFFERENT set of memory nodes: the echo of the container's own value - UpdateContainer with unchanged
        -- resources re-asserts every cached field - tells it nothing new)
        let errs := if !cfgChanged && !acc.1.snap.pinMem && r.getD 1 "-" != "-" && (acc.1.cfgChanged || r.getD 1 "-" != c.rt.getD 1 "-") then
            (if acc.1.cfgChanged && r.getD 1 "-" == c.rt.getD 1 "-" then errs ++ [s!"C12:cached-mems-echoed-after-pinning-disabled {id}"]
             else errs ++ [s!"C12:mems-told-with-pinning-disabled {id}"]) else errs
        let rt' := overlay c.rt r
        -- (changes left pending by an earlier error reply and merely delivered now are not caused by the re-application)
        let errs := if isReconfig && acc.1.lastEv == ["reconfig", "same"] && rt' != c.rt && !acc.1.errPending.contains id then
            errs ++ [if cannotReinstate acc.1 then s!"C13:unchanged-config-replaced-in-starved-state {id}"
                     else if !c.milliTried.isEmpty then s!"C05:pending-after-error-reply container left without grant by a refused update regains one {id}"
                     else if (overlay c.rt (r.set 1 (c.rt.getD 1 "-"))) == c.rt && !(sub (parseCpuList (c.rt.getD 1 "-")) (maskBits acc.1.nodesWithMem)) then
                       s!"C04:memoryless-node-in-mems dropped from the memory set on re-instatement {id}"
                     else s!"C13:unchanged-config-changed-resources {id}"] else errs
        (setCtr acc.1 { c with rt := rt', told := overlay c.told r }, errs)
      | none => acc) (st, errs)
    report st errs
  | ["VP", ps] => ({ st with cachePods := if ps == "-" then [] else ps.splitOn "," }, [])
  | ["V", view] =>
    let cv := if view == "-" then [] else (view.splitOn ",").filterMap fun e => match e.splitOn ":" with
      | [id, stt, res, pend] => some (id, stt, parseRes res, pend == "1")
      | _ => none
    -- remember which pending changes were caused by an error reply; forget them once delivered
    let pend := (cv.filter (·.2.2.2)).map (·.1)
    let ep := st.errPending.filter (pend.contains ·)
    let ep := if !st.lastOk then (ep ++ pend).eraseDups else ep
    ({ st with prevCacheView := st.cacheView, cacheView := cv, errPending := ep }, [])
  | ["PS", a, r, i, pc, pm] =>
    match (kv a "allowed").bind pset, (kv r "reserved").bind pset, (kv i "isolated").bind pset with
    | some a, some r, some i => ({ st with prevSnap := st.snap, prevOptStr := st.optStr, snap := ⟨a, r, i, pc == "pincpu=true", pm == "pinmem=true", [], []⟩ }, [])
    | _, _, _ => (st, [⟨.parse, "PS"⟩])
  | ["PZ", zs] =>
    -- C04: the allocations confined to an assigned zone never exceed its capacity
    if zs == "-" then (st, []) else
    let bad := (zs.splitOn ",").filter fun z => match z.splitOn ":" with
      | [_, f] => (f.toInt?.getD 0) < 0
      | _ => false
    if bad.isEmpty || (st.lastEv.headD "").startsWith "down-" then (st, []) else
    report st [if memOvercommitted st then s!"C04:assigned-zone-oversubscribed-while-limits-exceed-machine-memory {bad}" else s!"C04:assigned-zone-oversubscribed {bad}"]
  | ["PO", o] =>
    -- the options the allocation code consults must be those of the active configuration
    let f := fun (k : String) => ((o.splitOn ";").findSome? (fun x => kv x k)).getD "?"
    let st := { st with optStr := o }
    if f "pincpu" != f "cfg-pincpu" || f "pinmem" != f "cfg-pinmem" then
      report st [s!"C13:options-in-force-differ-from-active-configuration {o}"]
    else (st, [])
  | ["PN", name, parent, iso, res, sh, fi, fs, gs, gr, ss, sr] =>
    match pset iso, pset res, pset sh, pset fi, pset fs, gs.toInt?, gr.toInt?, ss.toInt?, sr.toInt? with
    | some iso, some res, some sh, some fi, some fs, some gs, some gr, some ss, some sr =>
      let p : PoolSnap := ⟨name, parent, iso, res, sh, fi, fs, gs, gr, ss, sr⟩
      ({ st with snap := { st.snap with pools := st.snap.pools ++ [p] } }, [])
    | _, _, _, _, _, _, _, _, _ => (st, [⟨.parse, "PN"⟩])
  | ["PG", id, pool, typ, ex, isoP, cp, sp, rp, az, gz] =>
    match pset ex, pset isoP, cp.toInt?, sp.toInt?, rp.toInt?, gz.toNat? with
    | some ex, some isoP, some cp, some sp, some rp, some gz =>
      let g : GrantSnap := ⟨id, pool, parseType typ, ex, isoP, cp, sp, rp, (if az == "-" then none else az.toNat?), gz⟩
      ({ st with snap := { st.snap with grants := st.snap.grants ++ [g] }, exclusiveGrants := st.exclusiveGrants + (if ex.isEmpty then 0 else 1) }, [])
    | _, _, _, _, _, _ => (st, [⟨.parse, "PG"⟩])
  | ["PM", nm] =>
    -- end of a snapshot: evaluate everything
    let st := { st with nodesWithMem := ((kv nm "nodesWithMem").bind String.toNat?).getD 0 }
    let st := if !st.haveInit then { st with initPools := st.snap.pools, haveInit := true } else st
    -- (while the plugin is down its state is not expected to follow the runtime's world)
    let down := (st.lastEv.headD "").startsWith "down-"
    let (st, is) := if down then (st, []) else report st (checkState st ++ pinCheck st)
    -- C13: after an accepted configuration change every created or running container still holds an allocation
    let (st, is) := if st.lastEv.head? == some "reconfig" && ((st.lastEv.getD 1 "").startsWith "change:") && st.lastOk then
        let live := st.ctrs.filter (fun c => c.state == "created" || c.state == "running")
        let errs := live.foldl (fun errs c =>
          if !(st.snap.grants.any (·.ctr == c.id)) && !st.unsat.contains c.id && c.milliTried.isEmpty then
            -- (when the current grants cannot be re-instated verbatim - known findings - the fallback re-placement may leave containers out)
            errs ++ [if cannotReinstate st then s!"C13:unchanged-config-replaced-in-starved-state container dropped by the fallback re-placement {c.id} {st.lastEv.getD 1 "?"}"
                     else s!"C13:live-container-without-allocation-after-change {c.id} ({c.state}) {st.lastEv.getD 1 "?"}"] else errs) []
        let (st, is2) := report st errs
        (st, is ++ is2)
      else (st, is)
    -- C11: after restart + Synchronize exactly the containers the runtime reports created/running hold allocations,
    -- nothing the runtime no longer knows is left in the cache
    let (st, is) := if st.lastEv.head? == some "restart" then
        let live := st.ctrs.filter (fun c => c.state == "created" || c.state == "running")
        let errs : List String := if st.lastOk then [] else ["C11:synchronize-failed-after-restart"]
        -- (containers the policy cannot satisfy even when asked directly are reported by the harness as unsat)
        let errs := if st.lastOk then live.foldl (fun errs c =>
          if !(st.snap.grants.any (·.ctr == c.id)) && !st.unsat.contains c.id then
            -- (satisfiable when asked directly after the synchronization: left out by the order in which Sync placed the containers)
            errs ++ [if st.skipped.contains c.id then s!"C11:satisfiable-live-container-left-out-by-sync {c.id} ({c.state})"
                     else s!"C11:live-container-without-allocation {c.id} ({c.state})"] else errs) errs else errs
        let errs := st.snap.grants.foldl (fun errs g =>
          if !(live.any (·.id == g.ctr)) then errs ++ [s!"C11:allocation-for-container-not-live-at-runtime {g.ctr} ({((getCtr st g.ctr).map (·.state)).getD "unknown"})"] else errs) errs
        let errs := st.cacheView.foldl (fun errs (id, _, _, _) =>
          match getCtr st id with
          | some c => if c.state == "removed" || c.state == "removed-unstopped" || c.state == "refused" then errs ++ [s!"C11:stale-container-in-cache-after-restart {id} ({c.state})"] else errs
          | none => errs ++ [s!"C11:unknown-container-in-cache-after-restart {id}"]) errs
        let errs := st.cachePods.foldl (fun errs p => if !st.pods.contains p then errs ++ [s!"C11:stale-pod-in-cache-after-restart {p}"] else errs) errs
        let errs := st.pods.foldl (fun errs p => if !st.cachePods.contains p then errs ++ [s!"C11:pod-missing-from-cache-after-restart {p}"] else errs) errs
        let (st, is2) := report st errs
        (st, is ++ is2)
      else (st, is)
    -- C13: a rejected configuration update leaves policy state and cache as they were
    let (st, is) := if st.expectUnchanged then
        let errs := (unchangedInv st.prevSnap st.snap).map (fun e => e.replace "C13:unchanged-config-changed-policy-state" "C13:rejected-config-changed-policy-state" |>.replace "C13:unchanged-config-changed-memory-zone" "C13:rejected-config-changed-memory-zone")
        let norm := fun (v : List (String × String × Res × Bool)) => (v.map fun e => (e.1, e.2.1, e.2.2.1)).toArray.qsort (fun a b => a.1 < b.1) |>.toList
        -- a successful revert delivers everything it wrote; marks that are still pending show that re-applying the configuration in
        -- force failed too (the current grants cannot be re-instated - known finding) and left its partial writes behind
        let revertFailed := st.cacheView.any (fun e => e.2.2.2) && !(st.prevCacheView.any (fun e => e.2.2.2))
        let errs := if norm st.prevCacheView != norm st.cacheView then
            (if revertFailed then errs ++ [s!"C13:rejected-config-revert-failed {st.lastEv.getD 1 "?"}"] else errs ++ [s!"C13:rejected-config-changed-cache {st.lastEv.getD 1 "?"}"]) else errs
        let st := if revertFailed then { st with tainted := true } else st
        let errs := if st.snap.pinCPU != st.prevSnap.pinCPU || st.snap.pinMem != st.prevSnap.pinMem || !sameSet st.snap.reserved st.prevSnap.reserved || !sameSet st.snap.allowed st.prevSnap.allowed then
          errs ++ [s!"C13:rejected-config-changed-options {st.lastEv.getD 1 "?"}"] else errs
        let errs := if st.optStr != st.prevOptStr && st.prevOptStr != "" then
          errs ++ [s!"C13:rejected-config-changed-options {st.lastEv.getD 1 "?"} in force before: {st.prevOptStr} after: {st.optStr}"] else errs
        let (st, is2) := report { st with expectUnchanged := false } errs
        (st, is ++ is2)
      else (st, is)
    -- C13: a successfully re-applied unchanged configuration leaves the policy state as it was
    let (st, is) := if st.lastEv == ["reconfig", "same"] && st.lastOk && !st.tainted then
        let errs := unchangedInv st.prevSnap st.snap
        let errs := if cannotReinstate st then errs.map (fun e => "C13:unchanged-config-replaced-in-starved-state " ++ e) else errs
        -- a zone that contained a memory-less node (known finding C16/C04) is re-computed without it
        let errs := errs.map fun e =>
          if e.startsWith "C13:unchanged-config-changed-memory-zone" && st.prevSnap.grants.any (fun g => e.startsWith s!"C13:unchanged-config-changed-memory-zone {g.ctr}:" && !(sub (maskBits g.grantZone) (maskBits st.nodesWithMem)))
          then "C04:memoryless-node-in-mems zone re-computed on re-instatement " ++ e else e
        let (st, is2) := report st errs
        (st, is ++ is2)
      else (st, is)
    -- accounting model: replay and compare
    let (st, mis) : St × List Issue :=
      if st.modelDesync then (st, []) else
      match st.model with
      | none => ({ st with model := some (modelFromSnap st.snap) }, [])
      | some t =>
        -- a reconfiguration/synchronization may rebuild the pools: same tree expected
        let (t', errs) := replay st t
        if errs.isEmpty then ({ st with model := some t', modelSteps := st.modelSteps + 1 }, [])
        else ({ st with modelDesync := true }, [⟨.model, s!"hist={st.hist} after [{" ".intercalate (st.lastEv.take 2)}]: {(errs.headD "").replace " " "_"}"⟩])
    let nt := st.snap.grants.any (fun g => !g.exclusive.isEmpty)
    ({ st with nontrivial := st.nontrivial + (if nt then 1 else 0) }, is ++ mis)
  | _ => (st, [⟨.parse, "unknown"⟩])

def main : IO UInt32 := Driver.run step {} (fun st =>
  s!"hists={st.hists} events={st.events} nontrivial={st.nontrivial} exclusive={st.exclusiveGrants} modelsteps={st.modelSteps} restarts={st.restarts}")

end Driver.TA
