import Driver.Common
import Nri.Model.Annot
namespace Driver.C18
open Nri.Annot Driver

structure St where
  cases : Nat := 0
  nontrivial : Nat := 0     -- cases where at least two forms for the queried key/prefix coexist
  orderIssues : Nat := 0

def dec (s : String) : String := if s == "~" then "" else s

def parseMap (s : String) : Option AMap :=
  if s == "-" then some [] else
  (s.splitOn ",").mapM fun kv =>
    match kv.splitOn "=" with
    | [k, v] => some (dec k, dec v)
    | _ => none

def showMap (m : AMap) : String :=
  if m.isEmpty then "-" else
  let sorted := m.toArray.qsort (fun a b => a.1 < b.1) |>.toList
  ",".intercalate (sorted.map fun p => s!"{if p.1 == "" then "~" else p.1}={if p.2 == "" then "~" else p.2}")

def showOpt : Option String → String
  | none => "NONE"
  | some v => "=" ++ (if v == "" then "~" else v)

/-- `strconv.ParseUint(v, 10, 64)` on the generator's alphabet -/
def parseUint (v : String) : Option Nat :=
  if v.isEmpty ∨ !v.all Char.isDigit then none else
  match v.toNat? with
  | some n => if n < 2^64 then some n else none
  | none => none

def uniqCls (l : List (Cls × String)) : Bool :=
  let cs := (l.map (·.1)).filter (· != Cls.other)
  cs.eraseDups.length == cs.length

def step (st : St) (toks : List String) : St × List Issue :=
  match toks with
  | "ORDER" :: rest => ({ st with orderIssues := st.orderIssues + 1 },
      [⟨.property, s!"result depends on map iteration order: {" ".intercalate rest}"⟩])
  | ["E3", _, key, ctr, ann, "=>", res] =>
    match parseMap ann with
    | some ann =>
      let key := dec key; let ctr := dec ctr
      let m := effective ann key ctr
      let is : List Issue := if showOpt m != res then [⟨.model, s!"effective model={showOpt m}"⟩] else []
      -- property predicate from the annotation map alone (independent of `effective`)
      let c := ann.find? (·.1 == key ++ "/container." ++ ctr)
      let p := ann.find? (·.1 == key ++ "/pod")
      let b := ann.find? (·.1 == key)
      let expect := match c, p, b with
        | some x, _, _ => some x.2 | none, some x, _ => some x.2 | none, none, some x => some x.2 | _, _, _ => none
      let is := if showOpt expect != res then is ++ [⟨.property, s!"precedence: expected {showOpt expect}"⟩] else is
      let forms := (if c.isSome then 1 else 0) + (if p.isSome then 1 else 0) + (if b.isSome then 1 else 0)
      ({ st with cases := st.cases + 1, nontrivial := st.nontrivial + (if forms ≥ 2 then 1 else 0) }, is)
    | none => (st, [⟨.parse, "E3"⟩])
  | ["SGX", key, ctr, ann, "=>", res] =>
    match parseMap ann with
    | some ann =>
      let m := effective ann key (dec ctr)
      let out := match m with
        | none => "=0"
        | some v => match parseUint v with | some n => s!"={n}" | none => "ERR"
      let is : List Issue := if out != res then [⟨.model, s!"parseEpcLimit model={out}"⟩] else []
      ({ st with cases := st.cases + 1 }, is)
    | none => (st, [⟨.parse, "SGX"⟩])
  | ["EF", suffix, ctr, ann, "=>", res] =>
    match parseMap ann with
    | some ann =>
      let ctr := dec ctr
      let entries := ann.map fun kv => (classify suffix ctr kv.1, kv.2)
      let m := effectiveAnnotations suffix ctr ann
      let is : List Issue := if showMap m != res then [⟨.model, s!"effectiveAnnotations model={showMap m}"⟩] else []
      let is := if !uniqCls entries then is ++ [⟨.assumption, "two annotation keys classify to the same prefix class"⟩] else is
      -- property predicate straight from the keys (string equality only)
      let bad := match parseMap res with
        | some r => r.any fun (pv : String × String) =>
            let ck := pv.1 ++ suffix ++ "/" ++ ctr
            let pk := pv.1 ++ suffix
            match ann.find? (fun (x : String × String) => x.1 == ck), ann.find? (fun (x : String × String) => x.1 == pk) with
            | some x, _ => x.2 != pv.2
            | none, some x => x.2 != pv.2
            | none, none => true
        | none => true
      let is : List Issue := if bad then is ++ [⟨.property, "effective annotation is not container-form-else-pod-form"⟩] else is
      let both := entries.any fun e => match e.1 with
        | .ctr p => entries.any (fun e' => e'.1 == Cls.pod p)
        | _ => false
      ({ st with cases := st.cases + 1, nontrivial := st.nontrivial + (if both then 1 else 0) }, is)
    | none => (st, [⟨.parse, "EF"⟩])
  | ["QF", suffix, ctr, allowed, cps, ann, "=>", "err"] =>
    match parseMap ann with
    | some ann =>
      let eff := effectiveAnnotations suffix (dec ctr) ann
      let classOf := fun (c : String) =>
        ((cps.splitOn "|").find? (fun s => s.startsWith (c ++ ":"))).bind fun s =>
          (parseMap (((s.drop (c.length + 1)).toString).replace ";" ",")).map fun m => ({ params := m } : ClassParams)
      let m := qosFold classOf (allowed.splitOn ",") eff
      (({ st with cases := st.cases + 1 }), if m.isSome then [⟨.model, s!"CreateContainer model=ok {showMap (m.getD [])} impl=err"⟩] else [])
    | none => (st, [⟨.parse, "QF"⟩])
  | ["QF", suffix, ctr, allowed, cps, ann, "=>", "ok", res] =>
    match parseMap ann, parseMap res with
    | some ann, some r =>
      let eff := effectiveAnnotations suffix (dec ctr) ann
      let classOf := fun (c : String) =>
        ((cps.splitOn "|").find? (fun s => s.startsWith (c ++ ":"))).bind fun s =>
          (parseMap (((s.drop (c.length + 1)).toString).replace ";" ",")).map fun m => ({ params := m } : ClassParams)
      let m := qosFold classOf (allowed.splitOn ",") eff
      let is : List Issue := match m with
        | some u => if showMap u != showMap r then [⟨.model, s!"CreateContainer model=ok {showMap u}"⟩] else []
        | none => [⟨.model, "CreateContainer model=err impl=ok"⟩]
      -- property: every explicitly annotated (effective) parameter appears with its value
      let explicit := eff.filter (·.1 != "class")
      let bad := explicit.any fun (k, v) => (r.find? (·.1 == k)).map (·.2) != some v
      let is := if bad then is ++ [⟨.property, "explicit cgroup parameter overridden by the class value"⟩] else is
      let nt := eff.any (·.1 == "class") && !explicit.isEmpty
      ({ st with cases := st.cases + 1, nontrivial := st.nontrivial + (if nt then 1 else 0) }, is)
    | _, _ => (st, [⟨.parse, "QF"⟩])
  | _ => (st, [⟨.parse, "unknown"⟩])

def main : IO UInt32 := Driver.run step {} (fun st => s!"cases={st.cases} nontrivial={st.nontrivial} order={st.orderIssues}")

end Driver.C18
