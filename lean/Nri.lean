import Nri.Model.K8sRes
import Nri.Props.C20
