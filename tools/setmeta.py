#!/usr/bin/env python3
"""setmeta.py <seeddir> <summary> <needs> <tests_run>"""
import json, sys
sd, summary, needs, tests = sys.argv[1:5]
p = sd + "/meta.json"; m = json.load(open(p)); m.update(summary=summary, needs=needs, tests_run=tests); json.dump(m, open(p, "w"), indent=1)
