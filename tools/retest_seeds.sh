#!/bin/bash
# re-applies every saved seeded change to /repo's current tree and runs the property's quick check: every one must be caught
cd /verif
for d in seeded/*/; do
  id=$(basename $d); pid=${id:0:3}
  case $id in *obsolete*) continue;; esac
  if ! git -C /repo apply --check /verif/$d/patch.diff 2>/dev/null; then echo "$id: patch no longer applies"; continue; fi
  out=$(tools/tryseed.sh /verif/$d/patch.diff $pid 2>&1)
  v=$(echo "$out" | grep -c "^VIOLATION")
  echo "$id: $v violation line(s) :: $(echo "$out" | grep "obligations" | tail -1 | cut -c1-120)"
done
