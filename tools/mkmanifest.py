#!/usr/bin/env python3
"""Regenerates MANIFEST.json from the table below (keeps it valid at all times)."""
import json, os
V = os.path.dirname(os.path.dirname(os.path.abspath(__file__)))
BASE = json.load(open("/root/.vp/BASELINE.json"))["cmd"] if os.path.exists("/root/.vp/BASELINE.json") else ""

# pid -> (category, technique, text, note, design_ref)
CLAIMED = {
 "C06": ("proof", "Lean 4 theorems over a functional port of libmem (journal invariant by induction through every loop) + regenerated facts + exact trace correspondence",
         "Proved for every node set, request and state: a failed Allocate and every GetOffer (failed or not) leave the request list (ids, zones, sizes, types - hence usage/free of every node set) and the version exactly as before and close the journal (via the journal invariant `Good`, preserved by every primitive and every loop of overcommit resolution, and `revert_restores`); a successful Allocate/Commit/Release bumps the version by one; an offer whose version differs is refused without any change; Release removes exactly that request. Tied to the code by exact trace correspondence (result + complete state after every operation, incl. free memory of every node subset) and by regenerated facts (which functions call invalidateOffers/cleanupUnusedZones; priority/type tables). The driver also evaluates the C06 predicates on the implementation's own states (stale-offer commits, twins Allocate vs GetOffer+Commit).",
         "Not proved in Lean (sampled by the twin run): Commit of a fresh offer == Allocate; Realloc failure atomicity (model-compared only). Trusted: kernel, extractor, harness/driver; Go map-order nondeterminism in checkOvercommit's sort is detected per step and such traces are compared on predicates only.",
         "DESIGN.md §6 C06"),
 "C07": ("proof", "Lean 4 theorems (usage monotone under superset moves; handled zones fit after successful overcommit handling; literal capacity clause refuted on a witness) + exact trace correspondence + predicates on every state",
         "Proved: moving an allocation to a superset never increases the usage of any node set; when overcommit handling succeeds every zone of the zone table intersecting the handled nodes fits its capacity; reservations are never eligible for moving (regenerated priority table); the literal capacity clause is refuted on a 3-node witness (known finding C07:union-overcommit). Every other clause (strict types, normal memory, monotone moves, exact updates, all assigned zones fit) is evaluated on every implementation state of the correspondence run, with all 2^n-1 node subsets enumerated.",
         "Partial: the lift to all assigned zones over whole histories, strict-type confinement and update exactness are sampled (model==code exact on the traces), not proved. Known finding C07:union-overcommit is filtered by class; oversubscription of an assigned zone is still a violation.",
         "DESIGN.md §6 C07"),
 "C08": ("proof", "Lean 4 contract proof from stage relations (Perm-based partition invariant, any comparator/order) + regenerated dispatcher/front-end/map-range facts + exhaustive small-machine correspondence",
         "Proved for every duplicate-free candidate set, count and candidate order: taking any admissible selection of candidate sets preserves 'set = result + remaining' (as a permutation) and the count; the thread stage exhausts the count; hence any run made of contract-abiding stages followed by the thread stage returns exactly n distinct CPUs from the set and writes back the set minus exactly those; too-large requests fail unchanged; exact-size requests return the set; ReleaseCpus splits the set into |set|-n returned and n kept CPUs. Tie: regenerated stage order of allocate(), the front-end's three cases and the reviewed list of map ranges (determinism); every real stage execution is checked against the stage contract (packages/cores/threads also relationally), AllocateCpus/ReleaseCpus against the API contract on all subsets x counts of machines with <= 8 online CPUs and sampled larger ones, on two independent discoveries.",
         "Partial: takeIdleClusters/takeCacheGroups bodies are not modelled (only required to satisfy the stage contract, sampled); comparator correctness is irrelevant to the contract; determinism rests on the reviewed map-range list + differential runs.",
         "DESIGN.md §6 C08"),
 "C16": ("proof", "Lean 4 theorems (list-format round trip on ranges, per-pool CPU split, nesting/disjointness of sockets, dies and node pools, root = available CPUs) + regenerated facts + generated-sysfs correspondence for discovery and for the whole pool tree",
         "Proved: expand(compress s) = s for every strictly increasing id list; getCpuSupply's isolated/reserved/sharable are pairwise disjoint (given reserved and isolated disjoint - the excluded configuration is the only exception) and cover exactly the pool's available CPUs; pools built from nested CPU sets are nested, from disjoint sets disjoint; sockets/dies of any machine with unique CPU ids are disjoint and nested; the root's supply is exactly the available CPUs. Tie: regenerated shape of getCpuSupply, the quantity-reservation source set and the virtual-root condition; real DiscoverSystemAt on generated sysfs trees compared accessor by accessor with the abstract machine (incl. the PMEM/HBM heuristic); the real policy Setup's pool tree compared pool by pool (names, kinds, parents, depths, CPU split, DRAM/PMEM/HBM sets incl. CPU-less node attachment) with the executable Lean model and checked with the well-formedness predicates.",
         "Partial: tree shape and memory attachment are not proved in Lean (executable model + predicates on every generated case); string-level sysfs parsing sampled. Known finding C16:memoryless-node-in-child-memset filtered by class.",
         "DESIGN.md §6 C16"),
 "C17": ("proof", "Lean 4 invariant proof over all event histories + regenerated statement-order facts + exhaustive bounded correspondence",
         "Proved by induction over every event list: the agent's current config is the effective one (node-specific if it exists, else group/default), a valid effective config is the most recently delivered one, no invalid config is ever delivered; per-step theorems: group updates never deliver over or replace a node config but are remembered, node deletion falls back to the current group config, duplicates (same uid+generation, generation != 0) change nothing, valid non-duplicate node updates are delivered in that step. Tie: regenerated facts on statement order in updateGroupConfig/updateNodeConfig/updateConfig/sameConfigVersion, and exhaustive correspondence over all sequences of length <= 4 (quick) / 5 (thorough) over 14 events plus random longer ones, with predicates evaluated from the events alone.",
         "Trusted: kernel, extractor, harness/driver. notifyFn errors, status patching and watch plumbing (Start's select loop) are outside the model.",
         "DESIGN.md §6 C17"),
 "C18": ("proof", "Lean 4 theorems (precedence, permutation invariance of lookups and of the suffix-classified fold, others-irrelevant, explicit-over-class) + regenerated key-form facts + differential correspondence under Go's randomised map order",
         "Proved: the three-form lookup returns container form, else pod form, else bare key, depends only on those three keys and is invariant under any permutation of a map with unique keys; the memory-qos/memtierd fold over ANY iteration order computes the order-free spec 'container-specific entry else pod-level entry' (effFold_spec), hence is permutation invariant and ignores entries addressed elsewhere; in memory-qos CreateContainer an explicitly annotated parameter ends up with its explicit value in every iteration order whenever the call succeeds. Tie: regenerated key forms/suffixes/override flags, and correspondence of the four real implementations (each evaluated repeatedly so Go's per-loop map order varies) against the model and against the precedence predicate computed from the raw map.",
         "String-level classification (strings.CutSuffix vs the model's classify) is tied by sampling only; container names without '/'; class-derived values come from a probe of the real code.",
         "DESIGN.md §6 C18"),
 "C19": ("proof", "Lean 4 theorems for every glob function and subject (negation duality, joint keys, weight clamp, selection spec; validated=>never-fails partial + machine-checked refutation) + regenerated key/operator tables + correspondence on real cache objects",
         "Proved: In/NotIn, Matches/MatchesNot, MatchesAny/MatchesNone, Exists/NotExist are exact negations for every key, value list, subject and glob function; a joint key evaluates to its sub-key values joined by the separator (unresolved ones keep an empty slot) and exists iff one resolves; user weights end in [-1000,1000] incl. MinInt32; selection: annotation names the type or is an error, else first matching type in order, else default; kube-system hits the implicit reserved type first. 'validated => never fails' is proved for the well-typed key grammar (partial) and REFUTED in general by a machine-checked witness (uid / pod/pod / pod/tags: known finding). Tie: regenerated operator list, validateKey scalar keys, both EvalKey key lists, QoS-as-string flag, weight cutoff; correspondence of Validate, ResolveRef, KeyValue, Evaluate on real containers/pods, parseFull weights, real chooseBalloonDef and fillBuiltinBalloonDefs.",
         "filepath.Match and path.Clean are external parameters (Go results shipped per case); ASCII keys. Two defects repaired (fix: commit d05f710): pod/qosclass and leading-'/' keys validated but unresolvable.",
         "DESIGN.md §6 C19"),
 "C20": ("proof", "Lean 4 theorems over an integer model + regenerated constants + exhaustive correspondence on the property's domain",
         "All five arithmetic clauses are Lean theorems for every input (shares round trip <=1/<=2, exact multiples of 125, quota exact from 10 mCPU, monotonicity, OOM table total and invertible for every capacity >= 1 MiB and every float-estimate behaviour within tolerance). The model is tied to the code by regenerated constants (obligation gen_consts_ok) and by running the real functions on every value of the property's domain (0..256000 mCPU, shares 2..262144) plus sampled OOM tables and estimateResourceRequirements cases; the driver also evaluates the property's predicates on the implementation's own values.",
         "Trusted: Lean kernel (+propext, Classical.choice, Quot.sound), the extractor, harness and driver; float64 == exact round-half-up is checked exhaustively on the domain, sampled outside; OOM table sampled over capacities 2^20..2^50.",
         "DESIGN.md §6 C20"),
}
PENDING_REASON = "check not built yet in this round (work in progress; see DESIGN.md §11 build order) — not a claim that the technique cannot apply"

def main():
    props = [json.loads(l)["id"] for l in open(os.path.join(V, "properties.jsonl"))]
    na_extra = {}
    p = os.path.join(V, "tools", "not_applicable.json")
    if os.path.exists(p):
        na_extra = json.load(open(p))
    checks, na = [], []
    for pid in props:
        if pid in CLAIMED:
            cat, tech, text, note, ref = CLAIMED[pid]
            checks.append({
                "property_id": pid,
                "quick_cmd": f"./check {pid} --tier quick",
                "thorough_cmd": f"./check {pid} --tier thorough",
                "evidence_file": f"/verif/evidence/{pid}.json",
                "replay_cmd_template": f"./check {pid} --replay {{path}}",
                "engine": "lean-proofs+correspondence",
                "level_claimed": {"category": cat, "text": text, "design_ref": ref},
                "level_note": note,
                "technique": tech,
            })
        else:
            na.append({"property_id": pid, "reason": na_extra.get(pid, PENDING_REASON)})
    m = {
     "version": 1,
     "setup_cmd": "./check --setup",
     "hooks": {
      "guard": "verif",
      "enable": "go test -vet=off -tags verif -overlay /verif/.work/overlay.json — harness files live in /verif/overlay (all `//go:build verif`) and are injected at build time; nothing is committed to /repo for instrumentation",
      "baseline_off_cmd": BASE,
      "source_commits": json.load(open(os.path.join(V, "tools", "source_commits.json"))) if os.path.exists(os.path.join(V, "tools", "source_commits.json")) else [],
      "add_only": True,
     },
     "engines": [
      {"name": "lean-proofs", "path": "lean/Nri", "serves_properties": sorted(CLAIMED), "kind_free_text": "Lean 4 models (Nri/Model), property theorems (Nri/Props), regenerated facts (Nri/Gen, from tools/extract)"},
      {"name": "correspondence", "path": "overlay/ + lean/Driver", "serves_properties": sorted(CLAIMED), "kind_free_text": "Go harnesses injected with -overlay run the real code; the compiled Lean driver nridrv replays every line on the model and evaluates the property predicate on the implementation's values"},
     ],
     "checks": checks,
     "not_applicable": na,
     "notes": "See DESIGN.md. KNOWN_FINDINGS.json lists recorded genuine defects and fixed ones.",
    }
    json.dump(m, open(os.path.join(V, "MANIFEST.json"), "w"), indent=1)
    print(f"claimed {len(checks)} / pending {len(na)}")

if __name__ == "__main__":
    main()
