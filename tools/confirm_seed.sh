#!/bin/bash
# usage: confirm_seed.sh <ID> <seeddir> <worktree> "<demo cmd>" "<pkgs to test>"   (run from anywhere)
# Confirms in the scratch worktree: demo fails with the patch, passes without, existing tests of the touched packages pass with it.
set -u
id=$1; seed=$2; wt=$3; demo=$4; pkgs=$5
export GOFLAGS=-mod=mod GOPROXY=off GOSUMDB=off GOTOOLCHAIN=local GOCACHE=/verif/.cache/go
cd $wt || exit 2
git apply -R --check $seed/patch.diff 2>/dev/null || git apply $seed/patch.diff
echo "== demo WITH patch (expect FAIL)"; (eval "$demo" > /tmp/confirm_$id.with 2>&1; echo "rc=$?")
git apply -R $seed/patch.diff
echo "== demo WITHOUT patch (expect PASS)"; (eval "$demo" > /tmp/confirm_$id.without 2>&1; echo "rc=$?")
git apply $seed/patch.diff
echo "== build + existing tests WITH patch (demo files moved away)"
mkdir -p /tmp/confirm_hold_$id; for f in $(git status --short | grep '^??' | awk '{print $2}' | grep '_test.go$'); do mv $f /tmp/confirm_hold_$id/$(echo $f | tr / _); echo "$f" >> /tmp/confirm_hold_$id/list; done
go build ./... && echo build-ok
go test -vet=off -count=1 $pkgs 2>&1 | grep -E "^(ok|FAIL|---)" | head -20
# restore demo files
if [ -f /tmp/confirm_hold_$id/list ]; then while read f; do mv /tmp/confirm_hold_$id/$(echo $f | tr / _) $f; done < /tmp/confirm_hold_$id/list; fi; rm -rf /tmp/confirm_hold_$id
