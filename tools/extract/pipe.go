package main

import (
	"fmt"
	"go/ast"
	"go/parser"
	"go/token"
	"path/filepath"
	"sort"
	"strings"
)

func init() { extraGens["PipeFacts.lean"] = genPipeFacts }

// guardedCalls lists "<callee>: <cond> & <cond>…" for every call to one of names in body,
// with the if-conditions (negated on else branches) that guard it.
func guardedCalls(fset *token.FileSet, body *ast.BlockStmt, names map[string]bool) []string {
	var out []string
	var walk func(n ast.Node, conds []string)
	walkList := func(l []ast.Stmt, conds []string) {
		for _, s := range l {
			walk(s, conds)
		}
	}
	walk = func(n ast.Node, conds []string) {
		switch s := n.(type) {
		case nil:
			return
		case *ast.BlockStmt:
			walkList(s.List, conds)
		case *ast.IfStmt:
			c := src(fset, s.Cond)
			walk(s.Body, append(append([]string{}, conds...), c))
			if s.Else != nil {
				walk(s.Else, append(append([]string{}, conds...), "!("+c+")"))
			}
		case *ast.SwitchStmt:
			for _, cc := range s.Body.List {
				cl := cc.(*ast.CaseClause)
				lbl := "default"
				if len(cl.List) > 0 {
					lbl = src(fset, cl.List[0])
				}
				walkList(cl.Body, append(append([]string{}, conds...), "case "+lbl))
			}
		case *ast.ForStmt:
			walk(s.Body, conds)
		case *ast.RangeStmt:
			walk(s.Body, conds)
		default:
			ast.Inspect(n, func(m ast.Node) bool {
				if ce, ok := m.(*ast.CallExpr); ok {
					if se, ok := ce.Fun.(*ast.SelectorExpr); ok && names[se.Sel.Name] {
						out = append(out, se.Sel.Name+": "+strings.Join(conds, " & "))
					}
				}
				return true
			})
		}
	}
	walk(body, nil)
	return out
}

func callsIn(n ast.Node) map[string][]*ast.CallExpr {
	m := map[string][]*ast.CallExpr{}
	ast.Inspect(n, func(x ast.Node) bool {
		if ce, ok := x.(*ast.CallExpr); ok {
			switch f := ce.Fun.(type) {
			case *ast.SelectorExpr:
				m[f.Sel.Name] = append(m[f.Sel.Name], ce)
			case *ast.Ident:
				m[f.Name] = append(m[f.Name], ce)
			}
		}
		return true
	})
	return m
}

func genPipeFacts() (string, error) {
	fset := token.NewFileSet()
	parse := func(rel string) (*ast.File, error) {
		return parser.ParseFile(fset, filepath.Join(*repo, rel), nil, 0)
	}
	cf, err := parse("pkg/resmgr/cache/container.go")
	if err != nil {
		return "", err
	}
	// every resource setter records the change in the pending request, marks the container
	// pending for the NRI controller and updates the cached value
	setters := map[string]string{"SetCPUShares": "Cpu.Shares", "SetCPUQuota": "Cpu.Quota", "SetCPUPeriod": "Cpu.Period",
		"SetCpusetCpus": "Cpu.Cpus", "SetCpusetMems": "Cpu.Mems", "SetMemoryLimit": "Memory.Limit", "SetMemorySwap": "Memory.Swap"}
	mark := true
	for name, field := range setters {
		b := methodBody(cf, fset, "*container", name)
		if b == nil {
			return "", fmt.Errorf("container.%s not found", name)
		}
		t := src(fset, b)
		if !strings.Contains(t, "c.markPending(NRI)") || !strings.Contains(t, "c.Ctr.Linux.Resources."+field+" = ") ||
			!strings.Contains(t, "case *nri.ContainerAdjustment:") || !strings.Contains(t, "case *nri.ContainerUpdate:") {
			mark = false
		}
	}
	nf, err := parse("pkg/resmgr/nri.go")
	if err != nil {
		return "", err
	}
	var flushed []string
	createSkips := false
	for _, d := range nf.Decls {
		fd, ok := d.(*ast.FuncDecl)
		if !ok || fd.Recv == nil || fd.Body == nil || src(fset, fd.Recv.List[0].Type) != "*nriPlugin" {
			continue
		}
		cs := callsIn(fd.Body)["getPendingUpdates"]
		if len(cs) > 0 {
			flushed = append(flushed, fd.Name.Name)
		}
		if fd.Name.Name == "CreateContainer" {
			for _, c := range cs {
				if len(c.Args) == 1 && src(fset, c.Args[0]) == "container" {
					createSkips = true
				}
			}
		}
	}
	sort.Strings(flushed)
	pf, err := parse("cmd/plugins/topology-aware/policy/pools.go")
	if err != nil {
		return "", err
	}
	ag := methodBody(pf, fset, "*policy", "applyGrant")
	if ag == nil {
		return "", fmt.Errorf("policy.applyGrant not found")
	}
	writes := guardedCalls(fset, ag, map[string]bool{"setPreferredCpusetCpus": true, "SetCpusetCpus": true, "SetCPUShares": true,
		"SetCpusetMems": true, "SetCPUQuota": true, "SetCPUPeriod": true, "SetMemoryLimit": true, "SetMemorySwap": true})
	// the loops over the allocator's zone updates
	var loops []string
	for _, rel := range []string{"cmd/plugins/topology-aware/policy/pools.go", "cmd/plugins/topology-aware/policy/cache.go", "cmd/plugins/topology-aware/policy/resources.go"} {
		f, err := parse(rel)
		if err != nil {
			return "", err
		}
		for _, d := range f.Decls {
			fd, ok := d.(*ast.FuncDecl)
			if !ok || fd.Body == nil {
				continue
			}
			ast.Inspect(fd.Body, func(n ast.Node) bool {
				rs, ok := n.(*ast.RangeStmt)
				if !ok || src(fset, rs.X) != "updates" {
					return true
				}
				cs := callsIn(rs.Body)
				var did []string
				for _, k := range []string{"SetMemoryZone", "SetCpusetMems"} {
					if len(cs[k]) > 0 {
						did = append(did, k)
					}
				}
				loops = append(loops, fd.Name.Name+": "+strings.Join(did, "+"))
				return true
			})
		}
	}
	sort.Strings(loops)
	return fmt.Sprintf(`-- GENERATED by tools/extract from pkg/resmgr/cache/container.go, pkg/resmgr/nri.go and the topology-aware policy. Do not edit.
namespace Nri.Gen.Pipe
/-- every cgroup-resource setter of the cache container writes the pending request, marks the container pending and stores the value -/
def settersMarkPending : Bool := %s
/-- nriPlugin methods that drain the pending updates into their reply (or an unsolicited update) -/
def flushedOnSuccess : List String := %s
/-- CreateContainer skips the container being created when collecting updates (its changes go into the adjustment) -/
def createSkipsSelfInUpdates : Bool := %s
/-- the container writes of applyGrant with their guarding conditions, in source order -/
def applyGrantWrites : List String := %s
/-- functions that apply the memory allocator's zone updates, and what they do per update -/
def updateLoops : List String := %s
end Nri.Gen.Pipe
`, leanBool(mark), leanStrList(flushed), leanBool(createSkips), leanStrList(writes), leanStrList(loops)), nil
}
