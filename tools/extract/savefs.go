package main

import (
	"fmt"
	"go/ast"
	"go/parser"
	"go/token"
	"os"
	"path/filepath"
	"sort"
	"strconv"
	"strings"
)

func init() { extraGens["SaveFacts.lean"] = genSaveFacts }

func genSaveFacts() (string, error) {
	fset := token.NewFileSet()
	dir := filepath.Join(*repo, "pkg/resmgr/cache")
	ents, err := os.ReadDir(dir)
	if err != nil {
		return "", err
	}
	files := map[string]*ast.File{}
	var names []string
	for _, e := range ents {
		if e.IsDir() || !strings.HasSuffix(e.Name(), ".go") || strings.HasSuffix(e.Name(), "_test.go") {
			continue
		}
		f, err := parser.ParseFile(fset, filepath.Join(dir, e.Name()), nil, 0)
		if err != nil {
			return "", err
		}
		files[e.Name()] = f
		names = append(names, e.Name())
	}
	sort.Strings(names)
	cf := files["cache.go"]
	if cf == nil {
		return "", fmt.Errorf("cache.go not found")
	}
	save := methodBody(cf, fset, "*cache", "Save")
	if save == nil {
		return "", fmt.Errorf("cache.Save not found")
	}
	mentionsPath := func(n ast.Node) bool {
		t := src(fset, n)
		return strings.Contains(t, "filePath") || strings.Contains(t, "tmpPath")
	}
	// the calls of Save that touch the file system or take one of the two paths, in source order
	var saveCalls []string
	tmpDef := ""
	ast.Inspect(save, func(n ast.Node) bool {
		switch x := n.(type) {
		case *ast.AssignStmt:
			if len(x.Lhs) == 1 && src(fset, x.Lhs[0]) == "tmpPath" && len(x.Rhs) == 1 {
				tmpDef = src(fset, x.Rhs[0])
			}
		case *ast.CallExpr:
			fn := src(fset, x.Fun)
			if strings.HasPrefix(fn, "log.") || fn == "cacheError" {
				return false
			}
			isOS := strings.HasPrefix(fn, "os.") || strings.HasPrefix(fn, "syscall.") || strings.HasPrefix(fn, "ioutil.") || strings.HasPrefix(fn, "unix.")
			argPath := false
			for _, a := range x.Args {
				if mentionsPath(a) {
					argPath = true
				}
			}
			if isOS || argPath || fn == "cch.Snapshot" {
				saveCalls = append(saveCalls, src(fset, x))
			}
		}
		return true
	})
	// any other place of the package that creates, writes, renames or removes one of the two files
	writers := map[string]bool{"os.WriteFile": true, "os.Create": true, "os.OpenFile": true, "os.Rename": true, "os.Remove": true,
		"os.RemoveAll": true, "os.Truncate": true, "os.Symlink": true, "os.Link": true, "os.Chmod": true, "ioutil.WriteFile": true}
	var others []string
	for _, name := range names {
		for _, d := range files[name].Decls {
			fd, ok := d.(*ast.FuncDecl)
			if !ok || fd.Body == nil || (name == "cache.go" && fd.Name.Name == "Save") {
				continue
			}
			ast.Inspect(fd.Body, func(n ast.Node) bool {
				if ce, ok := n.(*ast.CallExpr); ok && writers[src(fset, ce.Fun)] {
					for _, a := range ce.Args {
						if mentionsPath(a) {
							others = append(others, fd.Name.Name+": "+src(fset, ce))
						}
					}
				}
				return true
			})
		}
	}
	// checkPerm: Lstat, then the refusals in order
	cp := methodBody(cf, fset, "*cache", "checkPerm")
	if cp == nil {
		return "", fmt.Errorf("cache.checkPerm not found")
	}
	refuses := func(b *ast.BlockStmt) bool {
		if len(b.List) == 0 {
			return false
		}
		r, ok := b.List[len(b.List)-1].(*ast.ReturnStmt)
		return ok && len(r.Results) == 2 && src(fset, r.Results[0]) == "true" && strings.HasPrefix(src(fset, r.Results[1]), "cacheError(")
	}
	var steps []string
	for _, st := range cp.List {
		switch x := st.(type) {
		case *ast.AssignStmt:
			if len(x.Rhs) == 1 {
				if ce, ok := x.Rhs[0].(*ast.CallExpr); ok && strings.HasPrefix(src(fset, ce.Fun), "os.") {
					steps = append(steps, src(fset, ce))
				}
			}
		case *ast.IfStmt:
			c := src(fset, x.Cond)
			switch {
			case strings.Contains(c, "os.ModeSymlink") && refuses(x.Body):
				steps = append(steps, "symlink")
			case c == "isDir" && x.Else != nil:
				if in, ok := x.Body.List[0].(*ast.IfStmt); ok && len(x.Body.List) == 1 && refuses(in.Body) {
					steps = append(steps, "isDir:"+src(fset, in.Cond))
				}
				if eb, ok := x.Else.(*ast.BlockStmt); ok && len(eb.List) == 1 {
					if in, ok := eb.List[0].(*ast.IfStmt); ok && refuses(in.Body) {
						steps = append(steps, "file:"+src(fset, in.Cond))
					}
				}
			case strings.Contains(c, "rejected") && !strings.Contains(c, "os.ModePerm") && refuses(x.Body):
				steps = append(steps, c)
			}
		}
	}
	// the permission tables
	var masks []string
	for _, v := range []string{"cacheDirPerm", "cacheFilePerm", "dataDirPerm", "dataFilePerm"} {
		found := false
		ast.Inspect(cf, func(n ast.Node) bool {
			vs, ok := n.(*ast.ValueSpec)
			if !ok || len(vs.Names) != 1 || vs.Names[0].Name != v || len(vs.Values) != 1 {
				return true
			}
			ast.Inspect(vs.Values[0], func(m ast.Node) bool {
				if kv, ok := m.(*ast.KeyValueExpr); ok && src(fset, kv.Key) == "reject" {
					if n, err := strconv.ParseInt(src(fset, kv.Value), 0, 64); err == nil {
						masks = append(masks, fmt.Sprint(n))
						found = true
					}
				}
				return true
			})
			return true
		})
		if !found {
			return "", fmt.Errorf("reject mask of %s not found", v)
		}
	}
	nc := funcBody(cf, "NewCache")
	if nc == nil {
		return "", fmt.Errorf("NewCache not found")
	}
	var checks []string
	ast.Inspect(nc, func(n ast.Node) bool {
		ce, ok := n.(*ast.CallExpr)
		if !ok {
			return true
		}
		switch src(fset, ce.Fun) {
		case "cch.checkPerm":
			if len(ce.Args) == 4 {
				checks = append(checks, fmt.Sprintf("checkPerm(%s,%s,%s)", src(fset, ce.Args[1]), src(fset, ce.Args[2]), src(fset, ce.Args[3])))
			}
		case "cch.mkdirAll":
			if len(ce.Args) == 3 {
				checks = append(checks, fmt.Sprintf("mkdirAll(%s,%s)", src(fset, ce.Args[1]), src(fset, ce.Args[2])))
			}
		case "cch.Load":
			checks = append(checks, "Load()")
		}
		return true
	})
	return fmt.Sprintf(`-- GENERATED by tools/extract from pkg/resmgr/cache. Do not edit.
namespace Nri.Gen.Save
/-- the calls of cache.Save that touch the file system or take the cache/temporary path, in source order -/
def saveCalls : List String := %s
/-- definition of the temporary path -/
def tmpPathDef : String := %s
/-- any other call in the package that creates, writes, renames or removes the cache file or the temporary file -/
def otherFileWrites : List String := %s
/-- checkPerm: the stat call and the refusing conditions, in order -/
def checkPermSteps : List String := %s
/-- reject masks of cacheDirPerm, cacheFilePerm, dataDirPerm, dataFilePerm -/
def rejectMasks : List Nat := [%s]
/-- the checks NewCache performs before using the directory, in order -/
def newCacheChecks : List String := %s
end Nri.Gen.Save
`, leanStrList(saveCalls), strconv.Quote(tmpDef), leanStrList(others), leanStrList(steps), strings.Join(masks, ", "), leanStrList(checks)), nil
}
