// extract: regenerates lean/Nri/Gen/*.lean from /repo's current source (go/ast + go/types,
// standard library only). Kept dumb on purpose: pattern -> literal. If a pattern is no longer
// recognised the tool exits non-zero and the check treats the tie as broken.
package main

import (
	"flag"
	"fmt"
	"os"
	"path/filepath"
)

var (
	repo   = flag.String("repo", "/repo", "repository root")
	outDir = flag.String("out", "", "output directory for generated Lean files")
)

type genFn func() (string, error)

func main() {
	flag.Parse()
	gens := map[string]genFn{
		"K8sConsts.lean": genK8sConsts,
	}
	for name, fn := range extraGens {
		gens[name] = fn
	}
	failed := false
	for name, fn := range gens {
		src, err := fn()
		if err != nil {
			fmt.Printf("FAIL %s: %v\n", name, err)
			failed = true
			continue
		}
		if err := os.WriteFile(filepath.Join(*outDir, name), []byte(src), 0o644); err != nil {
			fmt.Printf("FAIL %s: %v\n", name, err)
			failed = true
		}
		fmt.Printf("generated %s (%d bytes)\n", name, len(src))
	}
	if failed {
		os.Exit(1)
	}
}

var extraGens = map[string]genFn{}
