package main

import (
	"fmt"
	"go/ast"
	"go/parser"
	"go/token"
	"path/filepath"
	"strings"
)

func init() { extraGens["HandlerGuards.lean"] = genHandlerGuards }

type guardScan struct {
	fset *token.FileSet
	okOf map[string]string // ok variable -> looked-up variable
	vars map[string]bool   // looked-up variables
}

func isLookupCall(fset *token.FileSet, e ast.Expr) bool {
	ce, ok := e.(*ast.CallExpr)
	if !ok {
		return false
	}
	se, ok := ce.Fun.(*ast.SelectorExpr)
	return ok && (se.Sel.Name == "LookupPod" || se.Sel.Name == "LookupContainer" || se.Sel.Name == "GetPod" || se.Sel.Name == "LookupContainerByCgroup")
}

// uses: method calls / field selections on looked-up variables inside n (not descending into nested statements handled by the caller)
func (g *guardScan) uses(n ast.Node) []string {
	var out []string
	ast.Inspect(n, func(m ast.Node) bool {
		if se, ok := m.(*ast.SelectorExpr); ok {
			if id, ok := se.X.(*ast.Ident); ok && g.vars[id.Name] {
				out = append(out, id.Name)
			}
		}
		return true
	})
	return out
}

func endsInReturn(b *ast.BlockStmt) bool {
	if len(b.List) == 0 {
		return false
	}
	_, ok := b.List[len(b.List)-1].(*ast.ReturnStmt)
	return ok
}

// prog renders the statements as a Lean Prog term ending in `rest`.
func (g *guardScan) prog(stmts []ast.Stmt, rest string) string {
	if len(stmts) == 0 {
		return rest
	}
	st, tail := stmts[0], stmts[1:]
	wrapUses := func(n ast.Node, k string) string {
		us := g.uses(n)
		for i := len(us) - 1; i >= 0; i-- {
			k = fmt.Sprintf("(.use %q %s)", us[i], k)
		}
		return k
	}
	switch s := st.(type) {
	case *ast.AssignStmt:
		if len(s.Lhs) == 2 && len(s.Rhs) == 1 && isLookupCall(g.fset, s.Rhs[0]) {
			v, okv := src(g.fset, s.Lhs[0]), src(g.fset, s.Lhs[1])
			g.vars[v] = true
			if okv != "_" {
				g.okOf[okv] = v
			}
			return wrapUses(s.Rhs[0], fmt.Sprintf("(.lookup %q %s)", v, g.prog(tail, rest)))
		}
		return wrapUses(s, g.prog(tail, rest))
	case *ast.IfStmt:
		cond := src(g.fset, s.Cond)
		// if x, ok := Lookup…(…); ok { body }
		if as, ok := s.Init.(*ast.AssignStmt); ok && len(as.Lhs) == 2 && len(as.Rhs) == 1 && isLookupCall(g.fset, as.Rhs[0]) {
			v, okv := src(g.fset, as.Lhs[0]), src(g.fset, as.Lhs[1])
			g.vars[v] = true
			k := g.prog(tail, rest)
			if cond == okv && s.Else == nil {
				return fmt.Sprintf("(.lookup %q (.ifFound %q %s %s))", v, v, g.prog(s.Body.List, ".done"), k)
			}
			if cond == "!"+okv && endsInReturn(s.Body) && s.Else == nil {
				return fmt.Sprintf("(.lookup %q (.guardRet %q %s))", v, v, k)
			}
			// anything else: be conservative - body and rest both unguarded
			return fmt.Sprintf("(.lookup %q %s)", v, g.prog(append(append([]ast.Stmt{}, s.Body.List...), tail...), rest))
		}
		if strings.HasPrefix(cond, "!") && g.okOf[cond[1:]] != "" && endsInReturn(s.Body) && s.Else == nil {
			return fmt.Sprintf("(.guardRet %q %s)", g.okOf[cond[1:]], g.prog(tail, rest))
		}
		if v := g.okOf[cond]; v != "" && s.Else == nil {
			return fmt.Sprintf("(.ifFound %q %s %s)", v, g.prog(s.Body.List, ".done"), g.prog(tail, rest))
		}
		// other conditions: uses in the condition, then body, else and rest in sequence (conservative: no guard is derived)
		var seq []ast.Stmt
		if s.Init != nil {
			seq = append(seq, s.Init)
		}
		seq = append(seq, s.Body.List...)
		switch e := s.Else.(type) {
		case *ast.BlockStmt:
			seq = append(seq, e.List...)
		case *ast.IfStmt:
			seq = append(seq, e)
		}
		return wrapUses(s.Cond, g.prog(append(seq, tail...), rest))
	case *ast.BlockStmt:
		return g.prog(append(append([]ast.Stmt{}, s.List...), tail...), rest)
	case *ast.ForStmt:
		return g.prog(append(append([]ast.Stmt{}, s.Body.List...), tail...), rest)
	case *ast.RangeStmt:
		return wrapUses(s.X, g.prog(append(append([]ast.Stmt{}, s.Body.List...), tail...), rest))
	case *ast.DeferStmt:
		// deferred closures run at return: their uses are checked against the guards in force at the point of the defer
		return wrapUses(s.Call, g.prog(tail, rest))
	case *ast.SwitchStmt:
		var seq []ast.Stmt
		for _, c := range s.Body.List {
			seq = append(seq, c.(*ast.CaseClause).Body...)
		}
		return g.prog(append(seq, tail...), rest)
	default:
		return wrapUses(st, g.prog(tail, rest))
	}
}

func genHandlerGuards() (string, error) {
	fset := token.NewFileSet()
	f, err := parser.ParseFile(fset, filepath.Join(*repo, "pkg/resmgr/nri.go"), nil, 0)
	if err != nil {
		return "", err
	}
	want := []string{"Synchronize", "RunPodSandbox", "StopPodSandbox", "RemovePodSandbox", "CreateContainer", "StartContainer",
		"UpdateContainer", "StopContainer", "RemoveContainer", "updateContainers", "getPendingAdjustment", "getPendingUpdates"}
	var items []string
	for _, name := range want {
		b := methodBody(f, fset, "*nriPlugin", name)
		if b == nil {
			continue
		}
		g := &guardScan{fset: fset, okOf: map[string]string{}, vars: map[string]bool{}}
		items = append(items, fmt.Sprintf("  (%q, %s)", name, g.prog(b.List, ".done")))
	}
	// topology-aware: newRequest evaluates the pod without a check; its only caller checks first
	var callers []string
	checksFirst := false
	for _, rel := range []string{"pools.go", "resources.go", "topology-aware-policy.go", "cache.go", "coldstart.go"} {
		pf, err := parser.ParseFile(fset, filepath.Join(*repo, "cmd/plugins/topology-aware/policy", rel), nil, 0)
		if err != nil {
			continue
		}
		for _, d := range pf.Decls {
			fd, ok := d.(*ast.FuncDecl)
			if !ok || fd.Body == nil {
				continue
			}
			calls := false
			ast.Inspect(fd.Body, func(n ast.Node) bool {
				if ce, ok := n.(*ast.CallExpr); ok {
					if id, ok := ce.Fun.(*ast.Ident); ok && id.Name == "newRequest" {
						calls = true
					}
				}
				return true
			})
			if calls {
				callers = append(callers, fd.Name.Name)
			}
			if fd.Name.Name == "allocatePool" {
				// the first statement after the var block is the pod check, and newRequest comes after it
				for _, st := range fd.Body.List {
					if is, ok := st.(*ast.IfStmt); ok {
						init := ""
						if is.Init != nil {
							init = src(fset, is.Init)
						}
						checksFirst = init == "_, ok := container.GetPod()" && src(fset, is.Cond) == "!ok" && endsInReturn(is.Body)
						break
					}
					if strings.Contains(src(fset, st), "newRequest(") {
						break
					}
				}
			}
		}
	}
	return fmt.Sprintf(`-- GENERATED by tools/extract from pkg/resmgr/nri.go and the topology-aware policy. Do not edit.
import Nri.Model.Guard
namespace Nri.Gen.Guards
open Nri.Guard
/-- the NRI handlers as lookup/guard/use programs -/
def handlers : List (String × Prog) := [
%s
]
/-- functions of the topology-aware policy that call newRequest (which evaluates the container's pod unchecked) -/
def newRequestCallers : List String := %s
/-- allocatePool returns an error for a container without pod before calling newRequest -/
def allocatePoolChecksPodFirst : Bool := %s
end Nri.Gen.Guards
`, strings.Join(items, ",\n"), leanStrList(callers), leanBool(checksFirst)), nil
}
