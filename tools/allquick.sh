#!/bin/bash
# runs every claimed check (quick tier, or $TIER) on the current tree; prints one summary line per property
cd /verif
for p in $(python3 -c "import json; print(' '.join(c['property_id'] for c in json.load(open('MANIFEST.json'))['checks']))"); do
  out=$(timeout 7200 ./check $p --tier ${TIER:-quick} 2>&1); rc=$?
  echo "$p rc=$rc $(echo "$out" | grep -c '^VIOLATION') violations, $(echo "$out" | grep -c '^KNOWN-FINDING') known :: $(echo "$out" | tail -1 | cut -c1-140)"
done
