#!/bin/bash
# usage: collect_seed.sh <PID> <name> <worktree> "<demo cmd>" "<pkgs to test>"
# gathers patch.diff + untracked demo test files from an agent's worktree into /tmp/seed-<name>, then confirms
# (demo fails with / passes without the patch; build + existing tests of the touched packages with the patch)
set -u
pid=$1; name=$2; wt=$3; demo=$4; pkgs=$5
sd=/tmp/seed-$name; rm -rf $sd; mkdir -p $sd
cd $wt || exit 2
git diff > $sd/patch.diff
python3 - "$sd" "$wt" "$demo" <<'P'
import json, os, shutil, subprocess, sys
sd, wt, demo = sys.argv[1:4]
files = {}
for l in subprocess.run(["git", "status", "--short"], cwd=wt, capture_output=True, text=True).stdout.splitlines():
    if l.startswith("??") and l.strip().endswith("_test.go"):
        p = l[3:].strip(); shutil.copy(os.path.join(wt, p), os.path.join(sd, os.path.basename(p))); files[os.path.basename(p)] = p
json.dump({"property": "", "summary": "", "needs": "", "demo_cmd": demo.replace(wt, "<repo>"), "demo_files": files, "tests_run": ""}, open(os.path.join(sd, "meta.json"), "w"), indent=1)
print("demo files:", files)
P
/verif/tools/confirm_seed.sh $pid $sd $wt "$demo" "$pkgs"
echo "--- with:"; tail -5 /tmp/confirm_$pid.with; echo "--- without:"; tail -3 /tmp/confirm_$pid.without
