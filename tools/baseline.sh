#!/bin/bash
# Re-runs the pinned baseline test suite on /repo's current tree and compares with BASELINE.json's stable_pass list.
export GOFLAGS=-mod=mod GOPROXY=off GOSUMDB=off GOTOOLCHAIN=local GOCACHE=/verif/.cache/go
out=/verif/.work/baseline.jsonl; : > $out
for m in . pkg/topology; do (cd /repo/$m && go test -json -vet=off -count=1 -timeout 25m ./... >> $out 2>/dev/null); done
python3 - <<'PY'
import json
base=json.load(open('/root/.vp/BASELINE.json'))
res={}
for l in open('/verif/.work/baseline.jsonl'):
    try: e=json.loads(l)
    except Exception: continue
    if e.get('Test') and e.get('Action') in ('pass','fail','skip'):
        res[(e['Package'],e['Test'])]=e['Action']
sp=base['stable_pass']
def key(s):
    if isinstance(s,str):
        for sep in ('::',' ','/'):
            pass
    return s
print("sample stable_pass entry:", sp[0])
bad=[]
for s in sp:
    pkg,test = (s.split('::',1)+[''])[:2] if isinstance(s,str) and '::' in s else (None,None)
    if pkg is None:
        pkg,test=s.rsplit(' ',1) if ' ' in s else s.rsplit('.',1)
    a=res.get((pkg,test))
    if a!='pass': bad.append((s,a))
print("stable_pass:",len(sp),"not passing now:",len(bad))
for b in bad[:20]: print("  ",b)
PY
