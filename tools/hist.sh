#!/bin/bash
# tools/hist.sh <file> <hist> [pattern]  -- prints E/R (and X/CFG) lines of one history, optionally around a pattern
f=$1; h=$2; pat=$3
awk -v h=$h '$1=="H"{on=($2==h)} on' $f | grep -a "^H\|^E\|^R\|^X\|^CFG" | cut -c1-${W:-260} > /tmp/hist.$$
if [ -n "$pat" ]; then grep -n -B${B:-12} -A${A:-4} -- "$pat" /tmp/hist.$$; else cat /tmp/hist.$$; fi; rm -f /tmp/hist.$$
