#!/usr/bin/env python3
"""mkexpect.py <Gen file> <Gen namespace> <Props file> <Props namespace> <theorem name> <doc>
appends to the Props file: Expect defs (copy of the current regenerated facts = the shapes the model was written against)
and the obligation theorem that the regenerated facts equal them (by rfl)."""
import re, sys
gen, gns, props, pns, thm, doc = sys.argv[1:7]
g = open(gen).read()
defs = re.findall(r"^def (\w+) : List String := (\[.*\])$", g, flags=re.M)
mod = "Nri.Gen." + gen.split("/")[-1][:-5]
out = [f"\n/-! ### source shapes the model was written against ({gen.split('/')[-1]}; the regenerated facts must equal them) -/\nnamespace {pns}.Expect{thm}"]
for n, v in defs:
    out.append(f"def {n} : List String := {v}")
out.append(f"end {pns}.Expect{thm}\n\nnamespace {pns}\n")
out.append(f"/-- {doc} -/")
conj = " ∧\n    ".join(f"{gns}.{n} = Expect{thm}.{n}" for n, _ in defs)
out.append(f"theorem {thm} :\n    {conj} := by\n  and_intros <;> rfl\n\nend {pns}\n")
s = open(props).read()
if f"import {mod}\n" not in s:
    s = re.sub(r"^(import [^\n]*\n)", r"\1import " + mod + "\n", s, count=1, flags=re.M)
open(props, "w").write(s + "\n".join(out))
print("added", thm, len(defs), "facts")
