#!/usr/bin/env python3
"""prints the prompt for a seeding sub-agent: property text only + its scratch worktree"""
import json, sys
pid, wt = sys.argv[1], sys.argv[2]
focus = sys.argv[3] if len(sys.argv) > 3 else ""
p = next(json.loads(l) for l in open('/verif/properties.jsonl') if json.loads(l)['id'] == pid)
files = ", ".join(p['anchors']['files'])
print(f"""You are helping to evaluate a verification suite by mutation: I need ONE realistic, subtle code change to the Go project containers/nri-plugins (Kubernetes NRI resource-policy plugins) that BREAKS the semantic property below while the project still compiles and its existing tests still pass.

Your scratch git worktree of the repository is {wt} (a detached worktree; work ONLY there; never touch /repo or /verif or read anything under /verif). The sandbox has no network. In every shell call use:
  export GOFLAGS=-mod=mod GOPROXY=off GOSUMDB=off GOTOOLCHAIN=local

PROPERTY {pid}: {p['title']}
{p['statement']}
Quantified: {p['quantifier']['text']}
Code most relevant: {files}

What I want:
1. A change to non-test source files in the worktree (small: a few lines to a few dozen) of the kind a maintainer could plausibly make by mistake (a refactoring slip, an optimisation, a mis-ordered statement, a forgotten case, a cache that is not invalidated, an early return, two sites that each look fine alone). It must NOT be exposed by ordinary use at once: it should need something specific to manifest - a particular multi-step sequence of operations, an unusual but valid input, a particular map iteration order/interleaving, a crash or fault at a particular point, or a particular configuration. {focus}
2. `go build ./...` must succeed with the change and the EXISTING tests of every package you touched (and of packages that import it, where cheap) must give the same results with and without the change (a few tests fail in this sandbox even on the unmodified tree, e.g. TestCache, TestNewAllocatorWithSystemNodes, TestCpuLocations - compare with/without rather than expecting all green). Use `go test -vet=off -count=1 <pkgs>`.
3. A demonstration: a NEW Go test file (or files) in the worktree, named seed_{pid.lower()}x_test.go (in the package it needs to live in), that FAILS with your change and PASSES on the unmodified tree, and shows the property being violated (not merely that the code differs). Run it both ways (use `git stash` / `git diff > /tmp/x.diff; git apply -R` etc. - but keep the test file in place) and report both results.
4. Leave the worktree with the change applied and the demo test file(s) present (untracked). Do not commit.

Report back (final message): (a) summary of the change and why it breaks the property, (b) exactly what is needed for it to manifest, (c) the demo command line and its result with and without the change, (d) which existing tests you ran with/without and the results, (e) the list of files changed/added. Do not weaken or edit existing tests. Do not make the change trivially visible (e.g. breaking every allocation).""")
