#!/bin/bash
# run the resmgr/topology-aware harness by hand: tools/tarun.sh <histories> <seed> <outfile>
export GOFLAGS=-mod=mod GOPROXY=off GOSUMDB=off GOTOOLCHAIN=local GOCACHE=/verif/.cache/go
export VERIF_HISTORIES=${1:-120} VERIF_SEED=${2:-1} VERIF_OUT=${3:-/verif/.work/ta_manual.txt} VERIF_TIER=quick VERIF_DIR=/verif
cd /repo && go test -vet=off -tags verif -overlay /verif/.work/overlay.json -count=1 -timeout 3000s -run '^TestVerifTAHistories$' ./pkg/resmgr/ 2>&1 | tail -3
