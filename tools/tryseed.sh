#!/bin/bash
# usage: tryseed.sh <patch.diff> <prop> [prop...]  -- applies a seeded patch to /repo, runs the checks, reverts
set -u
patch=$1; shift
cd /repo && git status --short | grep -v '^??' && { echo "repo dirty"; exit 2; }
rm -rf /verif/.work/evidence_backup; cp -r /verif/evidence /verif/.work/evidence_backup
git -C /repo apply "$patch" || { echo "patch does not apply"; exit 2; }
for p in "$@"; do
  (cd /verif && timeout 3000 ./check $p --tier ${TIER:-quick} 2>&1 | tail -${TAIL:-4} | cut -c1-300)
  echo "exit=$? for $p"
done
git -C /repo checkout -- . 
rm -rf /verif/evidence; mv /verif/.work/evidence_backup /verif/evidence
git -C /repo status --short | grep -v '^??'
