#!/usr/bin/env python3
"""saveseed.py <ID> <seeddir> <name> "<what I ran>" "<caught by>" : copies a confirmed seeded change into /verif/seeded/<name>/"""
import json, os, shutil, sys
pid, src, name, ran, caught = sys.argv[1:6]
dst = f"/verif/seeded/{name}"
os.makedirs(dst, exist_ok=True)
for f in os.listdir(src):
    if os.path.isfile(os.path.join(src, f)):
        shutil.copy(os.path.join(src, f), os.path.join(dst, f))
m = json.load(open(os.path.join(dst, "meta.json")))
m["property"] = pid
m["confirmed_by_me"] = ran
m["caught_by"] = caught
json.dump(m, open(os.path.join(dst, "meta.json"), "w"), indent=1)
print("saved", dst, os.listdir(dst))
