#!/bin/bash
# instantiates shared harness templates into the overlay packages
cd /verif
for spec in pkg/resmgr/cache:cache cmd/plugins/sgx-epc:main cmd/plugins/memory-qos:main cmd/plugins/memtierd:main; do
  dir=${spec%%:*}; pkg=${spec##*:}
  sed "s/^package PKG/package $pkg/" tools/templates/anngen.go.tmpl > overlay/$dir/zz_verif_anngen_test.go
done
