//go:build verif

package kubernetes

// C20 correspondence harness: runs the real conversion functions and the real OOM table
// construction and writes one line per case for the Lean driver (`nridrv c20`).

import (
	"bufio"
	"fmt"
	"math/rand"
	"os"
	"strconv"
	"strings"
	"testing"
)

func verifEnvInt(name string, def int64) int64 {
	if v, err := strconv.ParseInt(os.Getenv(name), 10, 64); err == nil {
		return v
	}
	return def
}

func TestVerifC20(t *testing.T) {
	out := os.Getenv("VERIF_OUT")
	if out == "" {
		t.Skip("VERIF_OUT not set")
	}
	f, err := os.Create(out)
	if err != nil {
		t.Fatal(err)
	}
	defer f.Close()
	w := bufio.NewWriterSize(f, 1<<20)
	defer w.Flush()

	seed := verifEnvInt("VERIF_SEED", 1)
	thorough := os.Getenv("VERIF_TIER") == "thorough"
	rng := rand.New(rand.NewSource(seed))

	// exhaustive over the property's domain
	for m := int64(0); m <= 256000; m++ {
		s := int64(MilliCPUToShares(m))
		q, p := MilliCPUToQuota(m)
		fmt.Fprintf(w, "rt %d %d %d %d %d %d\n", m, s, SharesToMilliCPU(s), q, p, QuotaToMilliCPU(q, p))
	}
	for s := int64(2); s <= 262144; s++ {
		fmt.Fprintf(w, "s2m %d %d\n", s, SharesToMilliCPU(s))
	}
	// beyond the domain: clamping, other periods
	nExtra := 20000
	if thorough {
		nExtra = 400000
	}
	for i := 0; i < nExtra; i++ {
		m := 256000 + rng.Int63n(1<<20)
		fmt.Fprintf(w, "m2s %d %d\n", m, MilliCPUToShares(m))
		q := rng.Int63n(30000000)
		p := []int64{100000, 1000, 10000, 1000000, 1 + rng.Int63n(1000000)}[rng.Intn(5)]
		fmt.Fprintf(w, "q2m %d %d %d\n", q, p, QuotaToMilliCPU(q, p))
	}

	// OOM tables
	caps := []int64{}
	for e := 20; e <= 50; e++ {
		c := int64(1) << e
		caps = append(caps, c, c+1, c-1+boolToInt(e == 20), c+999, c+1000, c+rng.Int63n(c))
	}
	nCaps := 150
	if thorough {
		nCaps = 20000
	}
	for i := 0; i < nCaps; i++ {
		e := 20 + rng.Intn(28)
		caps = append(caps, (int64(1)<<e)+rng.Int63n(int64(1)<<e))
	}
	saved := memCapacity
	defer SetMemoryCapacity(saved)
	for _, c := range caps {
		verifOomCase(w, c, rng)
	}
}

func boolToInt(b bool) int64 {
	if b {
		return 1
	}
	return 0
}

func verifOomCase(w *bufio.Writer, c int64, rng *rand.Rand) {
	defer func() {
		if r := recover(); r != nil {
			fmt.Fprintf(w, "oompanic %d\n", c)
		}
	}()
	SetMemoryCapacity(c)
	tab := oomAdjToMemReqEstimates
	milliMem := float64(c) / 1000.0
	var reqs, ests []string
	for i := 1; i <= 999; i++ {
		adj := int64(1000 - i)
		req, ok := tab[adj]
		if !ok {
			reqs = append(reqs, "-1")
		} else {
			reqs = append(reqs, strconv.FormatInt(req, 10))
		}
		// the float estimate of iteration i, recomputed with the very expression of the code
		prev := tab[adj+1]
		if i == 1 {
			prev = 0
		}
		ests = append(ests, strconv.FormatInt(int64(float64(prev)+milliMem+0.5), 10))
	}
	fmt.Fprintf(w, "oom %d %d %d %s %s\n", c, int(milliMem), len(tab), strings.Join(reqs, ","), strings.Join(ests, ","))
	// accessor + inverse on all burstable adjustments and a few outside
	for adj := int64(-2); adj <= 1002; adj++ {
		lim := int64(0)
		switch rng.Intn(3) {
		case 1:
			lim = rng.Int63n(c + 1)
		case 2:
			lim = c
		}
		r := OomAdjToMemReq(adj, lim)
		if r == nil {
			fmt.Fprintf(w, "o2r %d %d %d nil\n", c, adj, lim)
		} else {
			fmt.Fprintf(w, "o2r %d %d %d %d %d\n", c, adj, lim, *r, MemReqToOomAdj(*r))
		}
	}
}
