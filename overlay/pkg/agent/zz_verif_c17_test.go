//go:build verif

package agent

// C17 correspondence harness: drives the real updateNodeConfig/updateGroupConfig with a
// recording notifyFn. Exhaustive over all event sequences up to a bound, then random longer ones.

import (
	"bufio"
	"fmt"
	"math/rand"
	"os"
	"strconv"
	"strings"
	"testing"

	metav1 "k8s.io/apimachinery/pkg/apis/meta/v1"
	"k8s.io/apimachinery/pkg/runtime"
	"k8s.io/apimachinery/pkg/runtime/schema"
	"k8s.io/apimachinery/pkg/types"

	logger "github.com/containers/nri-plugins/pkg/log"
)

func init() {
	if os.Getenv("VERIF_OUT") != "" {
		logger.SetLevel(logger.LevelFatal)
	}
}

type vCfg struct {
	metav1.ObjectMeta
	valid bool
}

func (c *vCfg) GetObjectKind() schema.ObjectKind { return schema.EmptyObjectKind }
func (c *vCfg) DeepCopyObject() runtime.Object   { n := *c; return &n }
func (c *vCfg) Validate() error {
	if !c.valid {
		return fmt.Errorf("invalid")
	}
	return nil
}

// plain object that does not implement Validator at all
type vPlain struct{ metav1.ObjectMeta }

func (c *vPlain) GetObjectKind() schema.ObjectKind { return schema.EmptyObjectKind }
func (c *vPlain) DeepCopyObject() runtime.Object   { n := *c; return &n }

type vEv struct {
	node  bool
	del   bool
	uid   int
	gen   int
	valid bool
	plain bool
}

func (e vEv) String() string {
	k := "g"
	if e.node {
		k = "n"
	}
	if e.del {
		return k + "-"
	}
	v := 0
	if e.valid {
		v = 1
	}
	return fmt.Sprintf("%s%d.%d.%d", k, e.uid, e.gen, v)
}

// validity is a function of the resource version, as for real resources
func vValid(node bool, uid, gen int) bool {
	if node {
		return !(uid == 2 && gen == 1) && !(uid == 1 && gen == 2)
	}
	return !(uid == 2 && gen == 2) && !(uid == 1 && gen == 0)
}

func vAlphabet(uids, gens int) []vEv {
	evs := []vEv{}
	for _, node := range []bool{true, false} {
		evs = append(evs, vEv{node: node, del: true})
		for u := 1; u <= uids; u++ {
			for g := 0; g < gens; g++ {
				evs = append(evs, vEv{node: node, uid: u, gen: g, valid: vValid(node, u, g)})
			}
		}
	}
	return evs
}

func vRunSeq(w *bufio.Writer, seq []vEv) {
	type deliv struct {
		idx int
		o   metav1.Object
	}
	var delivered []deliv
	idx := 0
	a := &Agent{nodeName: "n0", configFile: "/nonexistent/verif", stopC: make(chan struct{})}
	a.notifyFn = func(cfg interface{}) (bool, error) {
		delivered = append(delivered, deliv{idx, cfg.(metav1.Object)})
		return false, nil
	}
	mk := func(e vEv) runtime.Object {
		if e.del {
			return nil
		}
		om := metav1.ObjectMeta{UID: types.UID(strconv.Itoa(e.uid)), Generation: int64(e.gen), Name: "cfg"}
		if e.plain {
			return &vPlain{ObjectMeta: om}
		}
		return &vCfg{ObjectMeta: om, valid: e.valid}
	}
	names := []string{}
	for i, e := range seq {
		idx = i
		if e.node {
			a.updateNodeConfig(mk(e))
		} else {
			a.updateGroupConfig(mk(e))
		}
		names = append(names, e.String())
	}
	show := func(o metav1.Object) string {
		if o == nil {
			return "-"
		}
		v := 1
		if c, ok := o.(*vCfg); ok && !c.valid {
			v = 0
		}
		return fmt.Sprintf("%s.%d.%d", o.GetUID(), o.GetGeneration(), v)
	}
	ds := []string{}
	for _, d := range delivered {
		ds = append(ds, fmt.Sprintf("%d:%s", d.idx, show(d.o)))
	}
	dl := "-"
	if len(ds) > 0 {
		dl = strings.Join(ds, ",")
	}
	fmt.Fprintf(w, "Q %s => %s %s %s %s\n", strings.Join(names, ","), dl, show(a.nodeCfg), show(a.groupCfg), show(a.currentCfg))
}

func TestVerifC17(t *testing.T) {
	out := os.Getenv("VERIF_OUT")
	if out == "" {
		t.Skip("VERIF_OUT not set")
	}
	f, err := os.Create(out)
	if err != nil {
		t.Fatal(err)
	}
	defer f.Close()
	w := bufio.NewWriterSize(f, 1<<20)
	defer w.Flush()
	seed, _ := strconv.ParseInt(os.Getenv("VERIF_SEED"), 10, 64)
	rng := rand.New(rand.NewSource(seed + 17))
	thorough := os.Getenv("VERIF_TIER") == "thorough"

	// exhaustive: all sequences up to length L over the alphabet
	alpha := vAlphabet(2, 3) // 2*(1+6) = 14 events
	L := 4
	if thorough {
		L = 5
	}
	var rec func(prefix []vEv)
	rec = func(prefix []vEv) {
		if len(prefix) > 0 {
			vRunSeq(w, prefix)
		}
		if len(prefix) == L {
			return
		}
		for _, e := range alpha {
			rec(append(append([]vEv{}, prefix...), e))
		}
	}
	rec(nil)
	fmt.Fprintf(w, "X exhaustive %d %d\n", len(alpha), L)

	// random longer sequences over a wider alphabet, some objects without Validator
	wide := vAlphabet(3, 4)
	n := 20000
	if thorough {
		n = 400000
	}
	for i := 0; i < n; i++ {
		l := 5 + rng.Intn(20)
		seq := make([]vEv, l)
		for j := range seq {
			seq[j] = wide[rng.Intn(len(wide))]
			if !seq[j].del && seq[j].valid && rng.Intn(10) == 0 {
				seq[j].plain = true
			}
		}
		vRunSeq(w, seq)
	}
}
