//go:build verif

package libmem

// Correspondence harness for C04/C06/C07: runs the real Allocator on generated operation
// traces (GetOffer/Commit/Allocate/Realloc/Release, offers held arbitrarily long) and dumps
// every result and the complete observable state after every operation, one line each, for
// the Lean driver (`nridrv libmem`). A corpus of hand-written traces runs first.

import (
	"bufio"
	"errors"
	"fmt"
	"math/rand"
	"os"
	"sort"
	"strconv"
	"strings"
	"testing"
	"time"

	logger "github.com/containers/nri-plugins/pkg/log"
	"github.com/containers/nri-plugins/pkg/utils/cpuset"
)

func init() {
	if os.Getenv("VERIF_OUT") != "" {
		logger.SetLevel(logger.LevelFatal)
	}
}

func verifEnvInt(name string, def int64) int64 {
	if v, err := strconv.ParseInt(os.Getenv(name), 10, 64); err == nil {
		return v
	}
	return def
}

type vNode struct {
	id, typ int
	cap     int64
	normal  bool
	dist    []int
}

type vReq struct {
	id      string
	size    int64
	aff     NodeMask
	types   TypeMask
	strict  bool
	prio    Priority
	created int64
}

func (r vReq) String() string {
	s := 0
	if r.strict {
		s = 1
	}
	return fmt.Sprintf("%s %d %d %d %d %d %d", r.id, r.size, uint64(r.aff), int(r.types), s, int(r.prio), r.created)
}

func (r vReq) mk() *Request {
	opts := []RequestOption{WithPriority(r.prio)}
	if r.strict {
		opts = append(opts, WithStrictTypes(r.types))
	} else {
		opts = append(opts, WithPreferredTypes(r.types))
	}
	req := NewRequest(r.id, r.size, r.aff, opts...)
	req.created = r.created
	return req
}

func vErrKind(err error) string {
	switch {
	case errors.Is(err, ErrAlreadyExists):
		return "exists"
	case errors.Is(err, ErrInvalidNodeMask):
		return "invalidmask"
	case errors.Is(err, ErrInvalidNode):
		return "invalidnode"
	case errors.Is(err, ErrInvalidType):
		return "invalidtype"
	case errors.Is(err, ErrNoMem):
		return "nomem"
	case errors.Is(err, ErrUnknownRequest):
		return "unknown"
	case errors.Is(err, ErrExpiredOffer):
		return "expired"
	case errors.Is(err, ErrNoZone):
		return "nozone"
	case errors.Is(err, ErrInternalError):
		return "internal"
	}
	return "other"
}

func vUpdates(u map[string]NodeMask) string {
	if len(u) == 0 {
		return "-"
	}
	keys := make([]string, 0, len(u))
	for k := range u {
		keys = append(keys, k)
	}
	sort.Strings(keys)
	parts := []string{}
	for _, k := range keys {
		parts = append(parts, fmt.Sprintf("%s:%d", k, uint64(u[k])))
	}
	return strings.Join(parts, ",")
}

func vResult(zone NodeMask, ups map[string]NodeMask, err error) string {
	if err != nil {
		return "err " + vErrKind(err)
	}
	return fmt.Sprintf("ok %d %s", uint64(zone), vUpdates(ups))
}

// vState dumps the complete observable state and checks the internal redundancy.
func vState(a *Allocator, nNodes int) string {
	ids := make([]string, 0, len(a.requests))
	for id := range a.requests {
		ids = append(ids, id)
	}
	sort.Strings(ids)
	reqs := []string{}
	incons := []string{}
	for _, id := range ids {
		r := a.requests[id]
		s := 0
		if r.strict {
			s = 1
		}
		// the assignment is what the public API reports (AssignedZone reads a.users); a request object that
		// disagrees with it is flagged below, and the property predicates are judged on the public view
		pub := r.zone
		if z, ok := a.AssignedZone(id); ok {
			pub = z
		}
		reqs = append(reqs, fmt.Sprintf("%s:%d:%d:%d:%d:%d", id, uint64(pub), int(r.types), r.limit, int(r.priority), s))
		if z, ok := a.users[id]; !ok || z != r.zone {
			incons = append(incons, "users["+id+"]")
		}
		if z, ok := a.zones[r.zone]; !ok || z.users[id] != r {
			incons = append(incons, "zone.users["+id+"]")
		}
	}
	if len(a.users) != len(a.requests) {
		incons = append(incons, "len(users)")
	}
	zs := []uint64{}
	nu := 0
	for z, zone := range a.zones {
		zs = append(zs, uint64(z))
		nu += len(zone.users)
	}
	if nu != len(a.requests) {
		incons = append(incons, "sum(zone.users)")
	}
	sort.Slice(zs, func(i, j int) bool { return zs[i] < zs[j] })
	ents := []string{}
	for _, z := range zs {
		ents = append(ents, strconv.FormatUint(z, 10))
	}
	free := []string{}
	for m := 1; m < (1 << nNodes); m++ {
		free = append(free, strconv.FormatInt(a.zoneFree(NodeMask(m)), 10))
	}
	j := func(l []string) string {
		if len(l) == 0 {
			return "-"
		}
		return strings.Join(l, ",")
	}
	if a.journal != nil {
		incons = append(incons, "journal-open")
	}
	return fmt.Sprintf("S %d %s %s %s %s", a.version, j(reqs), j(ents), j(free), j(incons))
}

func vNewAllocator(nodes []vNode) (*Allocator, error) {
	ns := []*Node{}
	for _, n := range nodes {
		node, err := NewNode(n.id, Type(n.typ), n.cap, n.normal, cpuset.New(n.id), n.dist)
		if err != nil {
			return nil, err
		}
		ns = append(ns, node)
	}
	return NewAllocator(WithNodes(ns))
}

func vNodesLine(nodes []vNode) string {
	parts := []string{}
	for _, n := range nodes {
		ds := []string{}
		for _, d := range n.dist {
			ds = append(ds, strconv.Itoa(d))
		}
		nn := 0
		if n.normal {
			nn = 1
		}
		parts = append(parts, fmt.Sprintf("%d/%d/%d/%d/%s", n.id, n.typ, n.cap, nn, strings.Join(ds, ",")))
	}
	return strings.Join(parts, " ")
}

type vOp struct {
	kind  string // alloc offer commit realloc release
	req   vReq
	k     int // offer slot
	id    string
	nodes NodeMask
	types TypeMask
}

func (o vOp) String() string {
	switch o.kind {
	case "alloc":
		return "alloc " + o.req.String()
	case "offer":
		return fmt.Sprintf("offer %d %s", o.k, o.req.String())
	case "commit":
		return fmt.Sprintf("commit %d", o.k)
	case "realloc":
		return fmt.Sprintf("realloc %s %d %d", o.id, uint64(o.nodes), int(o.types))
	case "release":
		return "release " + o.id
	}
	return "?"
}

// vGenWorld generates a node set: 1..6 nodes, DRAM/PMEM/HBM, memory-less and movable nodes,
// symmetric or asymmetric distance matrices.
func vGenWorld(rng *rand.Rand) []vNode {
	n := 1 + rng.Intn(6)
	nodes := make([]vNode, n)
	distVals := []int{11, 12, 16, 17, 20, 21, 28, 31}
	// a few levels only, so that ties (several nodes at the same distance) are common
	if rng.Intn(2) == 0 {
		distVals = []int{11, 21}
	}
	d := make([][]int, n)
	for i := range d {
		d[i] = make([]int, n)
	}
	asym := rng.Intn(4) == 0
	for i := 0; i < n; i++ {
		for j := 0; j < n; j++ {
			switch {
			case i == j:
				d[i][j] = 10
			case j < i && !asym:
				d[i][j] = d[j][i]
			default:
				d[i][j] = distVals[rng.Intn(len(distVals))]
			}
		}
	}
	for i := 0; i < n; i++ {
		typ := 0
		if r := rng.Intn(10); r >= 8 {
			typ = 2
		} else if r >= 6 {
			typ = 1
		}
		capa := int64(50 + rng.Intn(8)*50)
		if rng.Intn(12) == 0 {
			capa = 0
		}
		normal := rng.Intn(6) != 0
		if i == 0 && rng.Intn(4) != 0 {
			typ, normal = 0, true
			if capa == 0 {
				capa = 100
			}
		}
		nodes[i] = vNode{id: i, typ: typ, cap: capa, normal: normal, dist: d[i]}
	}
	return nodes
}

func vGenReq(rng *rand.Rand, nodes []vNode, seq int64) vReq {
	n := len(nodes)
	all := (1 << n) - 1
	var aff int
	switch rng.Intn(12) {
	case 0:
		aff = 1 + rng.Intn(all)
	case 1:
		if rng.Intn(3) == 0 {
			aff = 0
		} else {
			aff = 1 << rng.Intn(n+1) // may name an unknown node
		}
	default:
		aff = 1 << rng.Intn(n)
		if rng.Intn(3) == 0 {
			aff |= 1 << rng.Intn(n)
		}
	}
	types := 0
	if rng.Intn(3) == 0 {
		types = 1 + rng.Intn(7)
		if rng.Intn(30) == 0 {
			types = 8
		}
	}
	prios := []Priority{BestEffort, Burstable, Burstable, Guaranteed, Guaranteed, Preserved, Reservation}
	sizes := []int64{0, 10, 30, 60, 100, 150, 250, 400}
	return vReq{
		id:      "c" + strconv.Itoa(rng.Intn(10)),
		size:    sizes[rng.Intn(len(sizes))],
		aff:     NodeMask(aff),
		types:   TypeMask(types),
		strict:  rng.Intn(5) == 0,
		prio:    prios[rng.Intn(len(prios))],
		created: seq,
	}
}

func vGenOps(rng *rand.Rand, nodes []vNode, nops int) []vOp {
	ops := []vOp{}
	nOffers := 0
	n := len(nodes)
	for i := 0; i < nops; i++ {
		r := rng.Intn(100)
		switch {
		case r < 35:
			ops = append(ops, vOp{kind: "alloc", req: vGenReq(rng, nodes, int64(i+1))})
		case r < 55:
			ops = append(ops, vOp{kind: "offer", k: nOffers, req: vGenReq(rng, nodes, int64(i+1))})
			nOffers++
		case r < 70:
			if nOffers == 0 {
				ops = append(ops, vOp{kind: "alloc", req: vGenReq(rng, nodes, int64(i+1))})
			} else {
				k := nOffers - 1
				if rng.Intn(2) == 0 {
					k = rng.Intn(nOffers)
				}
				ops = append(ops, vOp{kind: "commit", k: k})
			}
		case r < 82:
			nm := NodeMask(0)
			if rng.Intn(5) != 0 {
				nm = NodeMask(1 << rng.Intn(n))
				if rng.Intn(4) == 0 {
					nm |= NodeMask(1 << rng.Intn(n))
				}
			}
			tm := TypeMask(0)
			if rng.Intn(3) == 0 {
				tm = TypeMask(1 + rng.Intn(7))
			}
			ops = append(ops, vOp{kind: "realloc", id: "c" + strconv.Itoa(rng.Intn(10)), nodes: nm, types: tm})
		default:
			ops = append(ops, vOp{kind: "release", id: "c" + strconv.Itoa(rng.Intn(10))})
		}
	}
	return ops
}

// vGuard runs one operation under a watchdog: an operation that does not return within
// 10 s is reported as `hang` and the process exits (a spinning goroutine cannot be stopped).
func vGuard(w *bufio.Writer, o vOp, fn func() string) string {
	ch := make(chan string, 1)
	go func() { ch <- fn() }()
	select {
	case r := <-ch:
		return r
	case <-time.After(10 * time.Second):
		fmt.Fprintf(w, "O %s => hang\n", o.String())
		w.Flush()
		os.Exit(3)
	}
	return ""
}

func vNoVersion(st string) string {
	f := strings.SplitN(st, " ", 3)
	if len(f) == 3 {
		return f[2]
	}
	return st
}

type vRunner struct {
	a      *Allocator
	offers map[int]*Offer
}

func (r *vRunner) apply(o vOp) (res string) {
	defer func() {
		if p := recover(); p != nil {
			res = fmt.Sprintf("panic %v", p)
			res = strings.ReplaceAll(res, " ", "_")
			res = "panic " + res
		}
	}()
	switch o.kind {
	case "alloc":
		z, u, err := r.a.Allocate(o.req.mk())
		return vResult(z, u, err)
	case "offer":
		of, err := r.a.GetOffer(o.req.mk())
		if err != nil {
			return "err " + vErrKind(err)
		}
		r.offers[o.k] = of
		return fmt.Sprintf("ok %d %s", uint64(of.NodeMask()), vUpdates(of.Updates()))
	case "commit":
		of, ok := r.offers[o.k]
		if !ok {
			return "err nooffer"
		}
		z, u, err := of.Commit()
		return vResult(z, u, err)
	case "realloc":
		z, u, err := r.a.Realloc(o.id, o.nodes, o.types)
		return vResult(z, u, err)
	case "release":
		if err := r.a.Release(o.id); err != nil {
			return "err " + vErrKind(err)
		}
		return "ok 0 -"
	}
	return "err badop"
}

func vRunTrace(w *bufio.Writer, tno int, nodes []vNode, ops []vOp, twin bool) {
	fmt.Fprintf(w, "T %d %d new %s\n", tno, len(nodes), vNodesLine(nodes))
	a, err := vNewAllocator(nodes)
	if err != nil {
		fmt.Fprintf(w, "N err\n")
		return
	}
	fmt.Fprintf(w, "N ok\n")
	fmt.Fprintf(w, "%s\n", vState(a, len(nodes)))
	run := &vRunner{a: a, offers: map[int]*Offer{}}
	var b *vRunner
	if twin {
		ba, _ := vNewAllocator(nodes)
		b = &vRunner{a: ba, offers: map[int]*Offer{}}
	}
	for _, o := range ops {
		res := vGuard(w, o, func() string { return run.apply(o) })
		fmt.Fprintf(w, "O %s => %s\n", o.String(), res)
		st := vState(a, len(nodes))
		fmt.Fprintf(w, "%s\n", st)
		if twin {
			// the twin executes every Allocate as GetOffer + immediate Commit
			var res2 string
			if o.kind == "alloc" {
				o2 := o
				o2.kind, o2.k = "offer", -1
				res2 = vGuard(w, o2, func() string { return b.apply(o2) })
				if strings.HasPrefix(res2, "ok") {
					res2 = b.apply(vOp{kind: "commit", k: -1})
				}
			} else {
				res2 = vGuard(w, o, func() string { return b.apply(o) })
			}
			st2 := vState(b.a, len(nodes))
			// versions differ by construction (offer+commit bumps once, like allocate) - compare everything
			// the version counter is compared through the model; twins differ in it while offers are outstanding
			if res2 != res || vNoVersion(st2) != vNoVersion(st) {
				fmt.Fprintf(w, "W diff %s || %s || %s\n", strings.ReplaceAll(res2, " ", "_"), strings.ReplaceAll(st2, " ", "_"), strings.ReplaceAll(st, " ", "_"))
			} else {
				fmt.Fprintf(w, "W same\n")
			}
		}
	}
}

// hand-written corpus: the probes of DESIGN.md §9 and past minimized failures
func vCorpus() [][2]interface{} {
	d3 := func(i int) []int {
		v := []int{21, 21, 21}
		v[i] = 10
		return v
	}
	n3 := []vNode{{0, 0, 100, true, d3(0)}, {1, 0, 100, true, d3(1)}, {2, 0, 100, true, d3(2)}}
	rq := func(id string, size int64, aff int, seq int64) vReq {
		return vReq{id: id, size: size, aff: NodeMask(aff), prio: Burstable, created: seq}
	}
	return [][2]interface{}{
		// stale offer committed after a direct Allocate
		{n3, []vOp{{kind: "offer", k: 0, req: rq("x", 10, 1, 1)}, {kind: "alloc", req: rq("y", 95, 1, 2)}, {kind: "commit", k: 0}}},
		// stale offer after a Realloc
		{n3, []vOp{{kind: "alloc", req: rq("y", 95, 1, 1)}, {kind: "offer", k: 0, req: rq("x", 10, 2, 2)}, {kind: "realloc", id: "y", nodes: 2}, {kind: "commit", k: 0}}},
		// union of two assigned zones oversubscribed
		{n3, []vOp{{kind: "alloc", req: rq("A", 200, 3, 1)}, {kind: "alloc", req: rq("B", 200, 6, 2)}}},
		// failed offer leaves an empty zone entry that changes a later decision
		{n3, []vOp{{kind: "alloc", req: rq("A", 200, 3, 1)}, {kind: "alloc", req: rq("B", 200, 6, 2)}, {kind: "offer", k: 0, req: rq("C", 1, 7, 3)}, {kind: "alloc", req: rq("D", 0, 1, 4)}}},
	}
}

func TestVerifLibmem(t *testing.T) {
	out := os.Getenv("VERIF_OUT")
	if out == "" {
		t.Skip("VERIF_OUT not set")
	}
	f, err := os.Create(out)
	if err != nil {
		t.Fatal(err)
	}
	defer f.Close()
	w := bufio.NewWriterSize(f, 1<<20)
	defer w.Flush()

	seed := verifEnvInt("VERIF_SEED", 1)
	ntr := int(verifEnvInt("VERIF_TRACES", 1500))
	if os.Getenv("VERIF_TIER") == "thorough" {
		ntr = int(verifEnvInt("VERIF_TRACES", 60000))
	}
	rng := rand.New(rand.NewSource(seed))
	tno := 0
	for _, c := range vCorpus() {
		vRunTrace(w, tno, c[0].([]vNode), c[1].([]vOp), false)
		tno++
	}
	for i := 0; i < ntr; i++ {
		nodes := vGenWorld(rng)
		ops := vGenOps(rng, nodes, 4+rng.Intn(22))
		vRunTrace(w, tno, nodes, ops, i%3 == 0)
		w.Flush()
		tno++
	}
}
